(* C13 / C10: the byte-offset ring of HighPriorityASDUQueue (hp_* in MsgQueue.v, a literal transcription of
   cs104_slave.c) refines a FIFO of the accepted ASDUs along EVERY sequence of operations, never reads a header where
   no live entry starts (outcome Fault), and keeps every live entry inside the arena [0, hsize). *)
From Coq Require Import ZArith List Bool Lia.
From L60870 Require Import Cs104.MsgQueue.
Import ListNotations.
Local Open Scope Z_scope.

Ltac splits := repeat match goal with |- _ /\ _ => split end.   (* syntactic: does not unfold `chain` *)

Definition lenz (a : list Z) : Z := Z.of_nat (length a).
Definition esz (a : list Z) : Z := 2 + lenz a.

(* entries l stored back to back from offset o *)
Fixpoint chain (cs : list (Z * list Z)) (o : Z) (l : list (list Z)) : Prop :=
  match l with [] => True | a :: r => hfind cs o = Some a /\ chain cs (o + esz a) r end.
Fixpoint endof (o : Z) (l : list (list Z)) : Z := match l with [] => o | a :: r => endof (o + esz a) r end.
Fixpoint last_off (o : Z) (l : list (list Z)) : Z :=
  match l with [] => o | [a] => o | a :: r => last_off (o + esz a) r end.

Definition small (l : list (list Z)) : Prop := Forall (fun a => lenz a <= 250) l.

Definition Lin (q : hpq) (L : list (list Z)) : Prop :=
  0 <= hfirst q /\ chain (hcells q) (hfirst q) L /\ hlast q = last_off (hfirst q) L /\ hlib q = hlast q /\
  endof (hfirst q) L <= hsize q.
Definition Wrp (q : hpq) (L : list (list Z)) : Prop :=
  exists A B, L = A ++ B /\ A <> [] /\ B <> [] /\
    chain (hcells q) (hfirst q) A /\ hlib q = last_off (hfirst q) A /\ endof (hfirst q) A <= hsize q /\
    chain (hcells q) 0 B /\ hlast q = last_off 0 B /\ endof 0 B <= hfirst q.
Definition HPInv (q : hpq) (L : list (list Z)) : Prop :=
  hcnt q = Z.of_nat (length L) /\ 252 <= hsize q /\ small L /\ (L = [] \/ Lin q L \/ Wrp q L).

Lemma gtb_false x y : x <= y -> (x >? y) = false.
Proof. intros H. rewrite Z.gtb_ltb. apply Z.ltb_ge. exact H. Qed.
Lemma gtb_false_inv x y : (x >? y) = false -> x <= y.
Proof. rewrite Z.gtb_ltb. apply Z.ltb_ge. Qed.

(* ------------------------------------------------------------------ arithmetic of chains *)
Lemma lenz_nonneg a : 0 <= lenz a. Proof. unfold lenz. lia. Qed.
Lemma esz_pos a : 2 <= esz a. Proof. unfold esz. pose proof (lenz_nonneg a). lia. Qed.

Lemma endof_ge : forall l o, o <= endof o l.
Proof. induction l as [|a r IH]; intros o; cbn [endof]; [lia|]. pose proof (IH (o + esz a)). pose proof (esz_pos a). lia. Qed.

Lemma endof_app : forall l1 l2 o, endof o (l1 ++ l2) = endof (endof o l1) l2.
Proof. induction l1 as [|a r IH]; intros l2 o; cbn [endof app]; [reflexivity | apply IH]. Qed.

Lemma last_off_end : forall l o a, endof o (l ++ [a]) = last_off o (l ++ [a]) + esz a.
Proof.
  induction l as [|b r IH]; intros o a; cbn [app endof last_off]; [reflexivity|].
  destruct (r ++ [a]) as [|c t] eqn:E; [destruct r; discriminate|]. rewrite <- E. apply IH.
Qed.

Lemma last_off_snoc : forall l o a, last_off o (l ++ [a]) = endof o l.
Proof.
  induction l as [|b r IH]; intros o a; cbn [app endof last_off]; [reflexivity|].
  destruct (r ++ [a]) as [|c t] eqn:E; [destruct r; discriminate|]. rewrite <- E. apply IH.
Qed.

Lemma last_off_lt_end : forall l o, l <> [] -> last_off o l < endof o l.
Proof.
  intros l o H. destruct (exists_last H) as (l' & a & ->). rewrite last_off_end. pose proof (esz_pos a). lia.
Qed.

Lemma endof_cons o a r : endof o (a :: r) = endof (o + esz a) r.
Proof. reflexivity. Qed.

Lemma last_off_cons2 o a b t : last_off o (a :: b :: t) = last_off (o + esz a) (b :: t).
Proof. reflexivity. Qed.

Lemma last_off_ge : forall l o, o <= last_off o l.
Proof.
  induction l as [|a r IH]; intros o; cbn [last_off]; [lia|]. destruct r as [|b t]; [lia|].
  pose proof (IH (o + esz a)). pose proof (esz_pos a). lia.
Qed.

Lemma chain_app : forall cs l1 l2 o, chain cs o (l1 ++ l2) <-> chain cs o l1 /\ chain cs (endof o l1) l2.
Proof.
  induction l1 as [|a r IH]; intros l2 o; cbn [app chain endof]; [tauto|]. rewrite IH. tauto.
Qed.

Lemma chain_last : forall cs l o a, chain cs o (l ++ [a]) -> hfind cs (last_off o (l ++ [a])) = Some a.
Proof. intros cs l o a H. apply chain_app in H. destruct H as [_ H]. cbn [chain] in H. rewrite last_off_snoc. tauto. Qed.

(* ------------------------------------------------------------------ the cell map under a write *)
Lemma hfind_filter_keep (P : Z * list Z -> bool) : forall cs o a, hfind cs o = Some a -> P (o, a) = true -> hfind (filter P cs) o = Some a.
Proof.
  induction cs as [|[o1 e1] r IH]; intros o a H HP; [discriminate|]. cbn [hfind] in H. cbn [filter].
  destruct (o1 =? o) eqn:E.
  - apply Z.eqb_eq in E. subst o1. inversion H; subst e1. rewrite HP. cbn [hfind]. rewrite Z.eqb_refl. reflexivity.
  - destruct (P (o1, e1)); [cbn [hfind]; rewrite E|]; apply IH; assumption.
Qed.

Lemma hfind_write_same cs o a : hfind (hwrite cs o a) o = Some a.
Proof. unfold hwrite. cbn [hfind]. rewrite Z.eqb_refl. reflexivity. Qed.

Lemma hfind_write_other cs o a o' a' : hfind cs o' = Some a' -> o' + esz a' <= o \/ o + esz a <= o' ->
  hfind (hwrite cs o a) o' = Some a'.
Proof.
  intros H D. unfold hwrite. cbn [hfind].
  assert (E : o =? o' = false). { apply Z.eqb_neq. pose proof (esz_pos a'). pose proof (esz_pos a). lia. }
  rewrite E. apply hfind_filter_keep; [exact H|]. cbn [fst snd]. unfold overlaps, esz, lenz in *.
  apply negb_true_iff. apply andb_false_iff. destruct D; [left | right]; apply Z.ltb_ge; lia.
Qed.

(* a chain that lies completely below or completely above the written range survives the write *)
Lemma chain_write : forall cs l o0 o a, chain cs o0 l -> endof o0 l <= o \/ o + esz a <= o0 -> chain (hwrite cs o a) o0 l.
Proof.
  induction l as [|b r IH]; intros o0 o a H D; cbn [chain]; [exact I|]. cbn [chain] in H. destruct H as [H1 H2]. cbn [endof] in D.
  split.
  - apply hfind_write_other; [exact H1|]. pose proof (endof_ge r (o0 + esz b)). pose proof (esz_pos b). lia.
  - apply IH; [exact H2|]. pose proof (esz_pos b). lia.
Qed.

(* ------------------------------------------------------------------ hp_new / hp_reset *)
Lemma HPInv_new n : 1 <= n -> HPInv (hp_new n) [].
Proof. intros H. unfold HPInv, hp_new. cbn. splits; try lia; [constructor | left; reflexivity]. Qed.

Lemma HPInv_reset q L : HPInv q L -> HPInv (hp_reset q) [].
Proof. intros (_ & Hs & _ & _). unfold HPInv, hp_reset. cbn. splits; try lia; [constructor | left; reflexivity]. Qed.

(* ------------------------------------------------------------------ hp_next: the head of the FIFO *)
Lemma length_pos_cons {A} (l : list A) : 0 < Z.of_nat (length l) -> exists a r, l = a :: r.
Proof. destruct l as [|a r]; cbn; [lia | eauto]. Qed.

Theorem hp_next_spec q L : HPInv q L ->
  match L with
  | [] => hp_next q = Ok (None, q)
  | a :: r => exists q', hp_next q = Ok (Some a, q') /\ HPInv q' r
  end.
Proof.
  intros (Hc & Hs & Hsm & Hsh). unfold hp_next. destruct L as [|a r].
  - cbn [length] in Hc. assert (E : 0 <? hcnt q = false) by (apply Z.ltb_ge; lia). rewrite E. reflexivity.
  - assert (E : 0 <? hcnt q = true) by (apply Z.ltb_lt; cbn [length] in Hc; lia). rewrite E.
    inversion Hsm as [|? ? Ha Hr]; subst.
    assert (Hc' : hcnt q - 1 = Z.of_nat (length r)) by (cbn [length] in Hc; lia).
    destruct Hsh as [Hn | [HL | HW]]; [discriminate| |].
    + (* linear *)
      destruct HL as (H0 & Hch & Hla & Hli & He). cbn [chain] in Hch. destruct Hch as [Hf Hch]. rewrite Hf.
      eexists. split; [reflexivity|].
      destruct r as [|b t].
      * (* last element leaves *)
        assert (E0 : 0 <? hcnt q - 1 = false) by (apply Z.ltb_ge; cbn [length] in Hc'; lia). rewrite E0.
        unfold HPInv. cbn. splits; try lia; [constructor | left; reflexivity].
      * assert (E0 : 0 <? hcnt q - 1 = true) by (apply Z.ltb_lt; cbn [length] in Hc'; lia). rewrite E0.
        rewrite last_off_cons2 in Hla.
        assert (Hlt : hfirst q < hlast q).
        { rewrite Hla. pose proof (last_off_ge (b :: t) (hfirst q + esz a)). pose proof (esz_pos a). lia. }
        assert (E1 : hfirst q =? hlast q = false) by (apply Z.eqb_neq; lia). rewrite E1.
        assert (E2 : hfirst q =? hlib q = false) by (apply Z.eqb_neq; lia). rewrite E2.
        unfold HPInv. cbn [hcnt hsize]. splits; try assumption.
        right; left. unfold Lin. cbn [hfirst hcells hlast hlib hsize]. fold (lenz a). fold (esz a).
        replace (hfirst q + 2 + lenz a) with (hfirst q + esz a) by (unfold esz; lia).
        pose proof (esz_pos a). rewrite endof_cons in He. splits; try assumption; try lia.
    + (* wrapped *)
      destruct HW as (A & B & HL & HA & HB & HchA & Hli & HeA & HchB & Hla & HeB).
      destruct A as [|a' A']; [congruence|]. cbn [app] in HL. inversion HL; subst a' r. clear HL.
      cbn [chain] in HchA. destruct HchA as [Hf HchA]. rewrite Hf.
      eexists. split; [reflexivity|].
      assert (Bne : (0 < length B)%nat) by (destruct B; [congruence | cbn; lia]).
      assert (E0 : 0 <? hcnt q - 1 = true). { apply Z.ltb_lt. rewrite Hc'. rewrite app_length. lia. } rewrite E0.
      assert (Hlow : hlast q < hfirst q).
      { rewrite Hla. pose proof (last_off_lt_end B 0 HB). lia. }
      assert (E1 : hfirst q =? hlast q = false) by (apply Z.eqb_neq; lia). rewrite E1.
      destruct A' as [|b t].
      * (* the upper run is exhausted: continue at offset 0 *)
        cbn [last_off] in Hli. assert (E2 : hfirst q =? hlib q = true) by (apply Z.eqb_eq; lia). rewrite E2.
        unfold HPInv. cbn [hcnt hsize app]. splits; try assumption.
        right; left. unfold Lin. cbn [hfirst hcells hlast hlib hsize]. splits; try assumption; try lia.
        cbn [endof] in HeA. pose proof (esz_pos a). lia.
      * rewrite last_off_cons2 in Hli.
        assert (Hlt : hfirst q < hlib q).
        { rewrite Hli. pose proof (last_off_ge (b :: t) (hfirst q + esz a)). pose proof (esz_pos a). lia. }
        assert (E2 : hfirst q =? hlib q = false) by (apply Z.eqb_neq; lia). rewrite E2.
        unfold HPInv. cbn [hcnt hsize]. splits; try assumption.
        right; right. exists (b :: t), B. cbn [hfirst hcells hlast hlib hsize]. fold (lenz a).
        replace (hfirst q + 2 + lenz a) with (hfirst q + esz a) by (unfold esz; lia).
        rewrite endof_cons in HeA. pose proof (esz_pos a).
        splits; try assumption; try discriminate; try reflexivity; try lia.
Qed.

(* ------------------------------------------------------------------ hp_enqueue: append or refuse, never overwrite *)
Ltac nonnil := let h := fresh in intros h; first [discriminate h | apply app_eq_nil in h; destruct h as [_ h]; discriminate h].
Ltac rs := cbn [hsize hcnt hfirst hlast hlib hcells fst snd andb orb negb].

Theorem hp_enqueue_spec q L a : HPInv q L ->
  exists b q', hp_enqueue q a = Ok (b, q') /\ HPInv q' (if b then L ++ [a] else L) /\
               (b = true -> lenz a <= 250) /\ (L = [] -> lenz a <= 250 -> b = true).
Proof.
  intros H. pose proof H as (Hc & Hs & Hsm & Hsh). unfold hp_enqueue. fold (lenz a).
  destruct (lenz a >? 250) eqn:Ebig.
  { exists false, q. apply Z.gtb_lt in Ebig. split; [reflexivity|]. split; [exact H|]. split; [discriminate | intros _ ?; lia]. }
  apply gtb_false_inv in Ebig.
  assert (Hsm' : small (L ++ [a])) by (apply Forall_app; split; [exact Hsm | constructor; [exact Ebig | constructor]]).
  pose proof (lenz_nonneg a) as Hla0.
  destruct L as [|x r].
  - (* empty queue *)
    cbn [length] in Hc. assert (E : hcnt q =? 0 = true) by (apply Z.eqb_eq; lia). rewrite E. rs.
    assert (W : (0 + (2 + lenz a) >? hsize q) = false) by (apply gtb_false; lia). rewrite W. rs.
    assert (E0 : 0 <? hcnt q = false) by (apply Z.ltb_ge; lia). rewrite E0. rs.
    exists true. eexists. split; [reflexivity|]. split; [|split; [intros _; exact Ebig | intros _ _; reflexivity]].
    unfold HPInv. rs. cbn [app length]. splits; try assumption; try lia.
    right; left. unfold Lin. rs. cbn [chain last_off endof]. unfold esz.
    splits; try lia; try exact I. apply hfind_write_same.
  - assert (Hpos : 0 < hcnt q) by (cbn [length] in Hc; lia).
    assert (E : hcnt q =? 0 = false) by (apply Z.eqb_neq; lia). rewrite E.
    assert (E0 : 0 <? hcnt q = true) by (apply Z.ltb_lt; lia).
    destruct Hsh as [Hn | [HL | HW]]; [discriminate| |].
    + (* linear *)
      destruct HL as (H0 & Hch & Hlast & Hli & He).
      destruct (exists_last (l := x :: r) ltac:(discriminate)) as (l' & z & EL). rewrite EL in *.
      pose proof (chain_last _ _ _ _ Hch) as Hz. rewrite <- Hlast in Hz. rewrite Hz. fold (lenz z).
      assert (Hnx : hlast q + 2 + lenz z = endof (hfirst q) (l' ++ [z])).
      { rewrite last_off_end, <- Hlast. unfold esz. lia. }
      rewrite Hnx. set (nx0 := endof (hfirst q) (l' ++ [z])) in *.
      assert (Hgt : hfirst q < nx0).
      { pose proof (last_off_lt_end (l' ++ [z]) (hfirst q) ltac:(destruct l'; discriminate)).
        pose proof (last_off_ge (l' ++ [z]) (hfirst q)). unfold nx0. lia. }
      assert (G : nx0 >? hfirst q = true) by (apply Z.gtb_lt; lia).
      rs. rewrite E, G. rs. rewrite andb_true_r.
      destruct (nx0 + (2 + lenz a) >? hsize q) eqn:W; rs.
      * (* does not fit behind the last entry: try offset 0 *)
        rewrite E0. rs.
        assert (Z0 : 0 <=? hfirst q = true) by (apply Z.leb_le; lia). rewrite Z0. rs.
        destruct (0 + (2 + lenz a) >? hfirst q) eqn:F; rs.
        -- exists false. eexists. split; [reflexivity|]. split; [|split; [discriminate | nonnil]].
           unfold HPInv. rs. splits; try assumption.
           right; left. unfold Lin. rs. splits; try assumption; try reflexivity.
        -- exists true. eexists. split; [reflexivity|]. split; [|split; [intros _; exact Ebig | nonnil]].
           apply gtb_false_inv in F.
           unfold HPInv. rs. rewrite app_length. cbn [length]. splits; try assumption; try lia.
           right; right. exists (l' ++ [z]), [a]. rs.
           splits;
             first [ assumption | reflexivity | discriminate | (destruct l'; discriminate)
                   | (apply chain_write; [exact Hch|]; right; unfold esz; lia)
                   | (cbn [chain]; split; [apply hfind_write_same | exact I])
                   | (cbn [endof]; unfold esz; lia) ].
      * (* fits behind the last entry *)
        apply gtb_false_inv in W.
        rewrite E0. rs.
        assert (Z0 : nx0 <=? hfirst q = false) by (apply Z.leb_gt; lia). rewrite Z0. rs.
        exists true. eexists. split; [reflexivity|]. split; [|split; [intros _; exact Ebig | nonnil]].
        unfold HPInv. rs. rewrite app_length. cbn [length]. splits; try assumption; try lia.
        right; left. unfold Lin. rs.
        splits;
          first [ assumption | reflexivity
                | (apply chain_app; split; [apply chain_write; [exact Hch|]; left; fold nx0; lia | cbn [chain]; split; [apply hfind_write_same | exact I]])
                | (rewrite last_off_snoc; reflexivity)
                | (rewrite endof_app; cbn [endof]; fold nx0; unfold esz; lia) ].
    + (* wrapped: the new entry goes behind the lower run if it ends before the first entry *)
      destruct HW as (A & B & HLL & HA & HB & HchA & Hli & HeA & HchB & Hlast & HeB).
      destruct (exists_last HB) as (B' & z & EB). rewrite EB in *.
      pose proof (chain_last _ _ _ _ HchB) as Hz. rewrite <- Hlast in Hz. rewrite Hz. fold (lenz z).
      assert (Hnx : hlast q + 2 + lenz z = endof 0 (B' ++ [z])).
      { rewrite last_off_end, <- Hlast. unfold esz. lia. }
      rewrite Hnx. set (nx0 := endof 0 (B' ++ [z])) in *.
      assert (G : nx0 >? hfirst q = false) by (apply gtb_false; lia).
      rs. rewrite E, G. rs. rewrite andb_false_r. rs.
      rewrite E0. rs.
      assert (Z0 : nx0 <=? hfirst q = true) by (apply Z.leb_le; lia). rewrite Z0. rs.
      destruct (nx0 + (2 + lenz a) >? hfirst q) eqn:F; rs.
      * exists false. eexists. split; [reflexivity|]. split; [|split; [discriminate | nonnil]].
        unfold HPInv. splits; try assumption.
        right; right. exists A, (B' ++ [z]). splits; assumption.
      * exists true. eexists. split; [reflexivity|]. split; [|split; [intros _; exact Ebig | nonnil]].
        apply gtb_false_inv in F.
        assert (Hn0 : 0 <= nx0) by (unfold nx0; apply endof_ge).
        unfold HPInv. rs. rewrite app_length. cbn [length] in Hc |- *. splits; try assumption; try lia.
        right; right. exists A, ((B' ++ [z]) ++ [a]). rs.
        splits;
          first [ assumption
                | (rewrite HLL, <- app_assoc; reflexivity)
                | (destruct (B' ++ [z]); discriminate)
                | (apply chain_write; [exact HchA|]; right; unfold esz; lia)
                | (apply chain_app; split; [apply chain_write; [exact HchB|]; left; fold nx0; lia | cbn [chain]; split; [apply hfind_write_same | exact I]])
                | (rewrite last_off_snoc; reflexivity)
                | (rewrite endof_app; cbn [endof]; fold nx0; unfold esz; lia) ].
Qed.

(* hp_full reads the header of the last entry: never a fault in a reachable state *)
Theorem hp_full_ok q L : HPInv q L -> exists b, hp_full q = Ok b.
Proof.
  intros (Hc & Hs & Hsm & Hsh). unfold hp_full. destruct L as [|x r].
  - cbn [length] in Hc. assert (E0 : 0 <? hcnt q = false) by (apply Z.ltb_ge; lia). rewrite E0. eauto.
  - assert (E0 : 0 <? hcnt q = true) by (apply Z.ltb_lt; cbn [length] in Hc; lia). rewrite E0.
    destruct Hsh as [Hn | [HL | HW]]; [discriminate| |].
    + destruct HL as (H0 & Hch & Hlast & _). destruct (exists_last (l := x :: r) ltac:(discriminate)) as (l' & z & EL). rewrite EL in *.
      pose proof (chain_last _ _ _ _ Hch) as Hz. rewrite <- Hlast in Hz. rewrite Hz. eauto.
    + destruct HW as (A & B & _ & _ & HB & _ & _ & _ & HchB & Hlast & _).
      destruct (exists_last HB) as (B' & z & EB). rewrite EB in *.
      pose proof (chain_last _ _ _ _ HchB) as Hz. rewrite <- Hlast in Hz. rewrite Hz. eauto.
Qed.

(* ------------------------------------------------------------------ every history *)
Inductive hop := HEnq (a : list Z) | HNext | HReset | HFull.

(* the specification: a FIFO; whether an enqueue is accepted is the ring's decision (`acc`), everything else is fixed *)
Definition fifo_step (L : list (list Z)) (o : hop) (acc : bool) : list (list Z) :=
  match o with
  | HEnq a => if acc then L ++ [a] else L
  | HNext => tl L
  | HReset => []
  | HFull => L
  end.

Definition hp_step (q : hpq) (o : hop) : res (hpq * option (list Z) * bool) :=
  match o with
  | HEnq a => match hp_enqueue q a with Ok (b, q') => Ok (q', None, b) | Fault w => Fault w end
  | HNext => match hp_next q with Ok (r, q') => Ok (q', r, true) | Fault w => Fault w end
  | HReset => Ok (hp_reset q, None, true)
  | HFull => match hp_full q with Ok b => Ok (q, None, b) | Fault w => Fault w end
  end.

Theorem hp_step_refines q L o : HPInv q L ->
  exists q' out acc, hp_step q o = Ok (q', out, acc) /\ HPInv q' (fifo_step L o acc) /\
    (o = HNext -> out = hd_error L).
Proof.
  intros H. destruct o as [a| | |]; cbn [hp_step fifo_step].
  - destruct (hp_enqueue_spec q L a H) as (b & q' & E & I & _). rewrite E. exists q', None, b.
    split; [reflexivity|]. split; [exact I | discriminate].
  - pose proof (hp_next_spec q L H) as S. destruct L as [|a r].
    + rewrite S. exists q, None, true. split; [reflexivity|]. split; [exact H | reflexivity].
    + destruct S as (q' & E & I). rewrite E. exists q', (Some a), true. split; [reflexivity|]. split; [exact I | reflexivity].
  - exists (hp_reset q), None, true. split; [reflexivity|]. split; [eapply HPInv_reset; exact H | discriminate].
  - destruct (hp_full_ok q L H) as (b & E). rewrite E. exists q, None, b. split; [reflexivity|]. split; [exact H | discriminate].
Qed.

(* run a whole history; collect what hp_next returned *)
Fixpoint hp_run (q : hpq) (ops : list hop) : res (hpq * list (option (list Z))) :=
  match ops with
  | [] => Ok (q, [])
  | o :: r =>
    match hp_step q o with
    | Fault w => Fault w
    | Ok (q', out, _) =>
      match hp_run q' r with
      | Fault w => Fault w
      | Ok (q'', outs) => Ok (q'', match o with HNext => out :: outs | _ => outs end)
      end
    end
  end.

(* for every ring size n >= 1 and every history: no fault, and a FIFO content exists in every reached state *)
Theorem hp_no_fault : forall ops q L, HPInv q L -> exists q' outs L', hp_run q ops = Ok (q', outs) /\ HPInv q' L'.
Proof.
  induction ops as [|o r IH]; intros q L H; cbn [hp_run].
  - exists q, [], L. split; [reflexivity | exact H].
  - destruct (hp_step_refines q L o H) as (q1 & out & acc & E & I & _). rewrite E.
    destruct (IH q1 _ I) as (q2 & outs & L2 & E2 & I2). rewrite E2. eauto.
Qed.

(* live entries lie inside the arena *)
Theorem hp_entries_in_arena q L : HPInv q L -> L <> [] ->
  0 <= hfirst q < hsize q /\ 0 <= hlast q < hsize q /\
  exists z, hfind (hcells q) (hlast q) = Some z /\ hlast q + esz z <= hsize q.
Proof.
  intros (Hc & Hs & Hsm & Hsh) Hne. destruct Hsh as [Hn | [HL | HW]]; [congruence| |].
  - destruct HL as (H0 & Hch & Hlast & Hli & He).
    destruct (exists_last Hne) as (l' & z & EL). rewrite EL in *.
    pose proof (chain_last _ _ _ _ Hch) as Hz. rewrite <- Hlast in Hz.
    pose proof (last_off_end l' (hfirst q) z) as Hend. rewrite <- Hlast in Hend.
    pose proof (last_off_ge (l' ++ [z]) (hfirst q)) as Hge. rewrite <- Hlast in Hge. pose proof (esz_pos z).
    splits; try lia. exists z. split; [exact Hz | lia].
  - destruct HW as (A & B & HLL & HA & HB & HchA & Hli & HeA & HchB & Hlast & HeB).
    destruct (exists_last HB) as (B' & z & EB). rewrite EB in *.
    pose proof (chain_last _ _ _ _ HchB) as Hz. rewrite <- Hlast in Hz.
    pose proof (last_off_end B' 0 z) as Hend. rewrite <- Hlast in Hend.
    pose proof (last_off_ge (B' ++ [z]) 0) as Hge. rewrite <- Hlast in Hge. pose proof (esz_pos z).
    pose proof (last_off_lt_end A (hfirst q) HA). pose proof (last_off_ge A (hfirst q)).
    splits; try lia. exists z. split; [exact Hz | lia].
Qed.

(* the FIFO specification run with the ring's accept decisions *)
Fixpoint fifo_run (L : list (list Z)) (ops : list hop) (accs : list bool) : list (option (list Z)) :=
  match ops with
  | [] => []
  | o :: r =>
    (match o with HNext => [hd_error L] | _ => [] end) ++ fifo_run (fifo_step L o (hd true accs)) r (tl accs)
  end.

(* for EVERY history: no fault, and hp_next returns exactly what a FIFO of the accepted ASDUs returns *)
Theorem hp_refines_fifo : forall ops q L, HPInv q L ->
  exists q' outs accs, hp_run q ops = Ok (q', outs) /\ outs = fifo_run L ops accs /\ length accs = length ops.
Proof.
  induction ops as [|o r IH]; intros q L H; cbn [hp_run fifo_run].
  - exists q, [], []. split; [reflexivity|]. split; reflexivity.
  - destruct (hp_step_refines q L o H) as (q1 & out & acc & E & I & Ho). rewrite E.
    destruct (IH q1 _ I) as (q2 & outs & accs & E2 & Eo & El). rewrite E2.
    exists q2. eexists. exists (acc :: accs). split; [reflexivity|]. cbn [hd tl length]. split; [|rewrite El; reflexivity].
    destruct o; cbn [app]; try exact Eo. rewrite (Ho eq_refl), Eo. reflexivity.
Qed.
