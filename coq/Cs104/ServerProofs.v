(* C07: what handleMessage does with U/S/I frames in each state (Cs104/Server.v). *)
From Coq Require Import ZArith List Bool Lia.
From RecordUpdate Require Import RecordSet.
From L60870 Require Import Apci.Reasm Apci.Frame Cs104.Server.
Import ListNotations RecordSetNotations.
Local Open Scope Z_scope.

Definition res_ok (r : server * conn * bool * list obs) : bool := let '(_, _, b, _) := r in b.
Definition res_obs (r : server * conn * bool * list obs) : list obs := let '(_, _, _, o) := r in o.
Definition res_conn (r : server * conn * bool * list obs) : conn := let '(_, c, _, _) := r in c.

Lemma wr_open c b : wmode c = 0 -> wr c b = (Z.of_nat (length b), [OTx (cid c) b]).
Proof. intros H. unfold wr. rewrite H. reflexivity. Qed.

(* TESTFR act is always answered with TESTFR con, in the same step *)
Lemma testfr_answered g now s c f :
  wmode c = 0 -> Z.land (nth 2 f 0) 1 =? 0 = false -> Z.land (nth 2 f 0) 67 =? 67 = true ->
  let r := handle_message g now s c f in
  res_ok r = true /\ res_obs r = [OTx (cid c) u_testfr_con].
Proof.
  intros Hw H1 H2. unfold handle_message. rewrite H1, H2. rewrite wr_open by exact Hw. cbn. auto.
Qed.

(* STARTDT act is always answered with STARTDT con; data transfer is started by that very step *)
Lemma startdt_answered g now s c f :
  wmode c = 0 -> Z.land (nth 2 f 0) 1 =? 0 = false -> Z.land (nth 2 f 0) 67 =? 67 = false -> Z.land (nth 2 f 0) 7 =? 7 = true ->
  let r := handle_message g now s c f in
  res_ok r = true /\ st (res_conn r) = STARTED /\
  res_obs r = (if st c =? STARTED then [] else [OEv (cid c) EV_ACT]) ++ [OTx (cid c) u_startdt_con].
Proof.
  intros Hw H1 H2 H3. unfold handle_message. rewrite H1, H2, H3.
  assert (Hw' : wmode (c <| st := STARTED |> <| hp := [] |>) = 0) by exact Hw.
  rewrite wr_open by exact Hw'. cbn. auto.
Qed.

(* an I-format APDU on a connection that is not started closes it and delivers nothing *)
Lemma i_not_started_closes g now s c f :
  Z.land (nth 2 f 0) 1 =? 0 = true -> st c =? STARTED = false ->
  let r := handle_message g now s c f in res_ok r = false /\ res_obs r = [].
Proof.
  intros H1 H2. unfold handle_message. rewrite H1. destruct (Z.of_nat (length f) <? 7); [cbn; auto|].
  rewrite H2. cbn. auto.
Qed.

(* an I-format APDU with the wrong N(S) closes the connection and delivers nothing *)
Lemma i_wrong_ns_closes g now s c f :
  Z.land (nth 2 f 0) 1 =? 0 = true -> ns_dec f =? vr c = false ->
  let r := handle_message g now s c f in res_ok r = false /\ res_obs r = [].
Proof.
  intros H1 H2. unfold handle_message. rewrite H1. destruct (Z.of_nat (length f) <? 7); [cbn; auto|].
  destruct (st c =? STARTED); cbn [negb]; [|cbn; auto].
  destruct (t2trig c); cbn; cbn in H2; rewrite H2; cbn; auto.
Qed.

(* an S-format APDU in the stopped state closes the connection *)
Lemma s_in_stopped_closes g now s c f :
  Z.land (nth 2 f 0) 1 =? 0 = false -> Z.land (nth 2 f 0) 67 =? 67 = false -> Z.land (nth 2 f 0) 7 =? 7 = false ->
  Z.land (nth 2 f 0) 19 =? 19 = false -> Z.land (nth 2 f 0) 131 =? 131 = false -> nth 2 f 0 =? 1 = true ->
  st c = STOPPED ->
  res_ok (handle_message g now s c f) = false.
Proof.
  intros H1 H2 H3 H4 H5 H6 Hs. unfold handle_message. rewrite H1, H2, H3, H4, H5, H6.
  destruct (check_nr c (mq s) _) as [[c1 q1]|] eqn:E; [|reflexivity].
  assert (Hst : st c1 = STOPPED).
  { unfold check_nr in E. destruct (_ <=? _); [|discriminate]. destruct (release _ _ _) as [kb q']. inversion E; subst. exact Hs. }
  rewrite Hst. reflexivity.
Qed.

(* STOPDT act: received I-frames are acknowledged first; STOPDT con is sent in this step exactly when no
   transmitted event ASDU is still unacknowledged *)
Lemma stopdt_rule g now s c f :
  wmode c = 0 -> Z.land (nth 2 f 0) 1 =? 0 = false -> Z.land (nth 2 f 0) 67 =? 67 = false -> Z.land (nth 2 f 0) 7 =? 7 = false ->
  Z.land (nth 2 f 0) 19 =? 19 = true ->
  let r := handle_message g now s c f in
  let pre := (if st c =? STARTED then [OEv (cid c) EV_DEACT] else []) ++ [ORxStop (cid c)] in
  let ack := if 0 <? unconf c then [OTx (cid c) (enc_s (vr c))] else [] in
  res_ok r = true /\
  res_obs r = pre ++ ack ++ (if mq_has_sent (mq s) then [] else [OTx (cid c) u_stopdt_con]) /\
  st (res_conn r) = (if mq_has_sent (mq s) then UNCONF else STOPPED).
Proof.
  intros Hw H1 H2 H3 H4. unfold handle_message. rewrite H1, H2, H3, H4. cbv zeta.
  unfold send_s_raw, wr. cbn. rewrite ?Hw. cbn.
  destruct (0 <? unconf c) eqn:Eu; cbn; rewrite ?Hw; cbn;
  destruct (mq_has_sent (mq s)); cbn; rewrite ?Hw; cbn; rewrite ?app_nil_r, <- ?app_assoc; auto.
Qed.

(* ------------------------------------------------------------------ C11: acknowledgement duty and supervision timers *)

(* t2: an unacknowledged received I-frame that is t2 old at a tick is acknowledged in that tick with the
   current N(R), and nothing stays unacknowledged *)
Lemma t2_fires g now c :
  wmode c = 0 -> 0 < unconf c -> lastconf c <> NOTIME -> lastconf c < now -> now - lastconf c >= c_t2 g * 1000 ->
  let r := tmo_t2 g now c in snd r = [OTx (cid c) (enc_s (vr c))] /\ unconf (fst r) = 0.
Proof.
  intros Hw Hu Hl1 Hl2 Hl3. unfold tmo_t2.
  assert (A1 : 0 <? unconf c = true) by (apply Z.ltb_lt; exact Hu).
  assert (A2 : lastconf c =? NOTIME = false) by (apply Z.eqb_neq; exact Hl1).
  assert (A3 : lastconf c >? now = false) by (rewrite Z.gtb_ltb; apply Z.ltb_ge; lia).
  assert (A4 : now >? lastconf c = true) by (rewrite Z.gtb_ltb; apply Z.ltb_lt; lia).
  assert (A5 : now - lastconf c >=? c_t2 g * 1000 = true) by (rewrite Z.geb_leb; apply Z.leb_le; lia).
  rewrite A1, A2, A3. cbn [negb andb]. rewrite A2, A4, A5. cbn [negb andb].
  unfold send_s_raw, wr. cbn. rewrite Hw. cbn. auto.
Qed.

(* ... and not before: younger than t2 nothing is sent by the timer *)
Lemma t2_quiet g now c :
  lastconf c <> NOTIME -> lastconf c <= now -> now - lastconf c < c_t2 g * 1000 -> tmo_t2 g now c = (c, []).
Proof.
  intros Hl1 Hl2 Hl3. unfold tmo_t2. destruct (0 <? unconf c); [|reflexivity].
  assert (A2 : lastconf c =? NOTIME = false) by (apply Z.eqb_neq; exact Hl1).
  assert (A3 : lastconf c >? now = false) by (rewrite Z.gtb_ltb; apply Z.ltb_ge; lia).
  assert (A5 : now - lastconf c >=? c_t2 g * 1000 = false) by (rewrite Z.geb_leb; apply Z.leb_gt; lia).
  rewrite A2, A3. cbn [negb andb]. rewrite A2, A5. rewrite andb_false_r. reflexivity.
Qed.

(* t1 on sent I-frames: the tick reports a timeout exactly when the oldest unacknowledged I-frame is t1 old *)
Lemma t1_rule g now c e r : kbuf c = e :: r -> k_time e <= now ->
  snd (tmo_t1 g now c) = negb ((k_time e <? now) && (c_t1 g * 1000 <=? now - k_time e)).
Proof.
  intros Hk Ht. unfold tmo_t1. rewrite Hk.
  assert (A : k_time e >? now = false) by (rewrite Z.gtb_ltb; apply Z.ltb_ge; lia). rewrite A. cbn [snd].
  rewrite Z.gtb_ltb, Z.geb_leb. reflexivity.
Qed.
Lemma t1_empty g now c : kbuf c = [] -> tmo_t1 g now c = (c, true).
Proof. intros H. unfold tmo_t1. rewrite H. reflexivity. Qed.

(* t3: after t3 without receiving anything a TESTFR act is sent (unless one is pending) and its own t1 starts *)
Lemma t3_fires g now c :
  wmode c = 0 -> wtest c = false -> nextT3 c <= now + c_t3 g * 1000 -> nextT3 c < now ->
  let r := tmo_t3 g now c in
  snd r = [OTx (cid c) u_testfr_act] /\ wtest (fst r) = true /\ nextTest (fst r) = now + c_t1 g * 1000.
Proof.
  intros Hw Hwt Hp Hn. unfold tmo_t3. rewrite Hwt.
  assert (A : nextT3 c >? now + c_t3 g * 1000 = false) by (rewrite Z.gtb_ltb; apply Z.ltb_ge; lia). rewrite A.
  assert (B : now >? nextT3 c = true) by (rewrite Z.gtb_ltb; apply Z.ltb_lt; lia). rewrite B.
  unfold wr. rewrite Hw. cbn. auto.
Qed.
Lemma t3_quiet g now c : wtest c = false -> now <= nextT3 c <= now + c_t3 g * 1000 -> tmo_t3 g now c = (c, []).
Proof.
  intros Hwt Hn. unfold tmo_t3. rewrite Hwt.
  assert (A : nextT3 c >? now + c_t3 g * 1000 = false) by (rewrite Z.gtb_ltb; apply Z.ltb_ge; lia). rewrite A.
  assert (B : now >? nextT3 c = false) by (rewrite Z.gtb_ltb; apply Z.ltb_ge; lia). rewrite B. reflexivity.
Qed.

(* TESTFR act unanswered: the tick reports a timeout exactly when now is beyond its t1 deadline *)
Lemma testfr_rule g now c : wtest c = true -> nextTest c <= now + c_t1 g * 1000 ->
  snd (tmo_test g now c) = negb (nextTest c <? now).
Proof.
  intros Hw Hp. unfold tmo_test. rewrite Hw.
  assert (A : nextTest c >? now + c_t1 g * 1000 = false) by (rewrite Z.gtb_ltb; apply Z.ltb_ge; lia). rewrite A.
  cbn [snd]. rewrite Z.gtb_ltb. reflexivity.
Qed.

(* w: after handling a frame, w unacknowledged received I-frames force an S-frame in the same step *)
Lemma w_rule g now s c :
  forall rs' rest f, recv_call (rs c) (avail c) (peer_closed c) = (rs', rest, RFrame f) -> running c = true ->
  let '(s2, c2, ok, o) := handle_message g now s (c <| rs := rs' |> <| avail := rest |>) f in
  let c3 := if ok then c2 else c2 <| running := false |> in
  c_w g <= unconf c3 -> wmode c3 = 0 ->
  exists o', (let '(_, _, ob) := handle_tcp g now s c in ob) = o' ++ [OTx (cid c3) (enc_s (vr c3))].
Proof.
  intros rs' rest f Hr Hrun. unfold handle_tcp. rewrite Hr. cbn [running]. 
  assert (Hrun' : running (c <| rs := rs' |> <| avail := rest |>) = true) by exact Hrun. rewrite Hrun'.
  destruct (handle_message g now s (c <| rs := rs' |> <| avail := rest |>) f) as [[[s2 c2] ok] o].
  intros Hw Hwm.
  assert (A : unconf (if ok then c2 else c2 <| running := false |>) >=? c_w g = true) by (rewrite Z.geb_leb; apply Z.leb_le; exact Hw).
  rewrite A. unfold send_s_raw, wr. cbn. 
  assert (B : wmode (if ok then c2 else c2 <| running := false |>) = 0) by exact Hwm.
  destruct ok; cbn in *; rewrite B; cbn; eexists; reflexivity.
Qed.
