(* C07: what handleMessage does with U/S/I frames in each state (Cs104/Server.v). *)
From Coq Require Import ZArith List Bool Lia.
From RecordUpdate Require Import RecordSet.
From L60870 Require Import Apci.Reasm Apci.Frame Cs104.Server.
Import ListNotations RecordSetNotations.
Local Open Scope Z_scope.

Definition res_ok (r : server * conn * bool * list obs) : bool := let '(_, _, b, _) := r in b.
Definition res_obs (r : server * conn * bool * list obs) : list obs := let '(_, _, _, o) := r in o.
Definition res_conn (r : server * conn * bool * list obs) : conn := let '(_, c, _, _) := r in c.

Lemma wr_open c b : wmode c = 0 -> wr c b = (Z.of_nat (length b), [OTx (cid c) b]).
Proof. intros H. unfold wr. rewrite H. reflexivity. Qed.

(* TESTFR act is always answered with TESTFR con, in the same step *)
Lemma testfr_answered g now s c f :
  wmode c = 0 -> Z.land (nth 2 f 0) 1 =? 0 = false -> Z.land (nth 2 f 0) 67 =? 67 = true ->
  let r := handle_message g now s c f in
  res_ok r = true /\ res_obs r = [OTx (cid c) u_testfr_con].
Proof.
  intros Hw H1 H2. unfold handle_message. rewrite H1, H2. rewrite wr_open by exact Hw. cbn. auto.
Qed.

(* STARTDT act is always answered with STARTDT con; data transfer is started by that very step *)
Lemma startdt_answered g now s c f :
  wmode c = 0 -> Z.land (nth 2 f 0) 1 =? 0 = false -> Z.land (nth 2 f 0) 67 =? 67 = false -> Z.land (nth 2 f 0) 7 =? 7 = true ->
  let r := handle_message g now s c f in
  res_ok r = true /\ st (res_conn r) = STARTED /\
  res_obs r = (if st c =? STARTED then [] else [OEv (cid c) EV_ACT]) ++ [OTx (cid c) u_startdt_con].
Proof.
  intros Hw H1 H2 H3. unfold handle_message. rewrite H1, H2, H3.
  assert (Hw' : wmode (c <| st := STARTED |> <| hp := [] |>) = 0) by exact Hw.
  rewrite wr_open by exact Hw'. cbn. auto.
Qed.

(* an I-format APDU on a connection that is not started closes it and delivers nothing *)
Lemma i_not_started_closes g now s c f :
  Z.land (nth 2 f 0) 1 =? 0 = true -> st c =? STARTED = false ->
  let r := handle_message g now s c f in res_ok r = false /\ res_obs r = [].
Proof.
  intros H1 H2. unfold handle_message. rewrite H1. destruct (Z.of_nat (length f) <? 7); [cbn; auto|].
  rewrite H2. cbn. auto.
Qed.

(* an I-format APDU with the wrong N(S) closes the connection and delivers nothing *)
Lemma i_wrong_ns_closes g now s c f :
  Z.land (nth 2 f 0) 1 =? 0 = true -> ns_dec f =? vr c = false ->
  let r := handle_message g now s c f in res_ok r = false /\ res_obs r = [].
Proof.
  intros H1 H2. unfold handle_message. rewrite H1. destruct (Z.of_nat (length f) <? 7); [cbn; auto|].
  destruct (st c =? STARTED); cbn [negb]; [|cbn; auto].
  destruct (t2trig c); cbn; cbn in H2; rewrite H2; cbn; auto.
Qed.

(* an S-format APDU in the stopped state closes the connection *)
Lemma s_in_stopped_closes g now s c f :
  Z.land (nth 2 f 0) 1 =? 0 = false -> Z.land (nth 2 f 0) 67 =? 67 = false -> Z.land (nth 2 f 0) 7 =? 7 = false ->
  Z.land (nth 2 f 0) 19 =? 19 = false -> Z.land (nth 2 f 0) 131 =? 131 = false -> nth 2 f 0 =? 1 = true ->
  st c = STOPPED ->
  res_ok (handle_message g now s c f) = false.
Proof.
  intros H1 H2 H3 H4 H5 H6 Hs. unfold handle_message. rewrite H1, H2, H3, H4, H5, H6.
  destruct (check_nr c (mq s) _) as [[c1 q1]|] eqn:E; [|reflexivity].
  assert (Hst : st c1 = STOPPED).
  { unfold check_nr in E. destruct (_ <=? _); [|discriminate]. destruct (release _ _ _) as [kb q']. inversion E; subst. exact Hs. }
  rewrite Hst. reflexivity.
Qed.

(* STOPDT act: received I-frames are acknowledged first; STOPDT con is sent in this step exactly when no
   transmitted event ASDU is still unacknowledged *)
Lemma stopdt_rule g now s c f :
  wmode c = 0 -> Z.land (nth 2 f 0) 1 =? 0 = false -> Z.land (nth 2 f 0) 67 =? 67 = false -> Z.land (nth 2 f 0) 7 =? 7 = false ->
  Z.land (nth 2 f 0) 19 =? 19 = true ->
  let r := handle_message g now s c f in
  let pre := (if st c =? STARTED then [OEv (cid c) EV_DEACT] else []) ++ [ORxStop (cid c)] in
  let ack := if 0 <? unconf c then [OTx (cid c) (enc_s (vr c))] else [] in
  res_ok r = true /\
  res_obs r = pre ++ ack ++ (if mq_has_sent (mq s) then [] else [OTx (cid c) u_stopdt_con]) /\
  st (res_conn r) = (if mq_has_sent (mq s) then UNCONF else STOPPED).
Proof.
  intros Hw H1 H2 H3 H4. unfold handle_message. rewrite H1, H2, H3, H4. cbv zeta.
  unfold send_s_raw, wr. cbn. rewrite ?Hw. cbn.
  destruct (0 <? unconf c) eqn:Eu; cbn; rewrite ?Hw; cbn;
  destruct (mq_has_sent (mq s)); cbn; rewrite ?Hw; cbn; rewrite ?app_nil_r, <- ?app_assoc; auto.
Qed.
