(* C05: feeding ANY segmentation of a byte stream to the literal receiveMessage model gives the same
   frames / failure as the octet-at-a-time reference on the concatenated stream. *)
From Coq Require Import ZArith List Bool Lia.
From L60870 Require Import Apci.Reasm.
Import ListNotations.
Local Open Scope Z_scope.

Definition byte_ok (b : Z) : Prop := 0 <= b < 256.
Definition bytes_ok (l : list Z) : Prop := Forall byte_ok l.

Definition WF (st : rstate) : Prop :=
  (rpos st = 0 /\ rbuf st = []) \/
  (rpos st = 1 /\ rbuf st = [104]) \/
  (2 <= rpos st /\ Z.of_nat (length (rbuf st)) = rpos st /\ nth 0 (rbuf st) 0 = 104 /\
   1 <= nth 1 (rbuf st) 0 /\ rpos st < nth 1 (rbuf st) 0 + 2).

Lemma WF_init : WF rinit.
Proof. left. split; reflexivity. Qed.

Lemma bytes_run_app st a b acc :
  bytes_run st (a ++ b) acc =
  let '(acc', o) := bytes_run st a acc in
  match o with Failed => (acc', Failed) | Open st' => bytes_run st' b acc' end.
Proof.
  revert st acc. induction a as [|x a IH]; intros st acc; cbn [app bytes_run].
  - reflexivity.
  - destruct (byte_step st x) as [st' r]. destruct r; try apply IH. reflexivity.
Qed.

(* feeding body octets to a state that is inside a frame *)
Lemma body_run : forall (bs : list Z) st acc,
  2 <= rpos st -> Z.of_nat (length (rbuf st)) = rpos st ->
  rpos st + Z.of_nat (length bs) <= nth 1 (rbuf st) 0 + 2 -> bs <> [] ->
  bytes_run st bs acc =
  if rpos st + Z.of_nat (length bs) =? nth 1 (rbuf st) 0 + 2
  then (acc ++ [rbuf st ++ bs], Open {| rpos := 0; rbuf := [] |})
  else (acc, Open {| rpos := rpos st + Z.of_nat (length bs); rbuf := rbuf st ++ bs |}).
Proof.
  induction bs as [|b bs IH]; intros st acc H2 Hlen Hle Hne; [congruence|].
  cbn [bytes_run]. unfold byte_step.
  assert (E0 : rpos st =? 0 = false) by (apply Z.eqb_neq; lia).
  assert (E1 : rpos st =? 1 = false) by (apply Z.eqb_neq; lia).
  rewrite E0, E1. cbn [length] in *.
  assert (Hn1 : nth 1 (rbuf st ++ [b]) 0 = nth 1 (rbuf st) 0).
  { rewrite app_nth1; [reflexivity|]. apply Nat2Z.inj_lt. lia. }
  destruct bs as [|c bs].
  - cbn [length] in *. destruct (rpos st + 1 =? nth 1 (rbuf st) 0 + 2) eqn:E.
    + cbn [bytes_run]. replace (rpos st + Z.of_nat 1) with (rpos st + 1) by lia. rewrite E. reflexivity.
    + cbn [bytes_run]. replace (rpos st + Z.of_nat 1) with (rpos st + 1) by lia. rewrite E. reflexivity.
  - assert (E : rpos st + 1 =? nth 1 (rbuf st) 0 + 2 = false) by (apply Z.eqb_neq; cbn [length] in Hle; lia).
    rewrite E.
    rewrite IH; cbn [rpos rbuf]; try rewrite Hn1; try (rewrite app_length; cbn [length]); cbn [length] in *; try lia; try discriminate.
    replace (rpos st + 1 + Z.of_nat (S (length bs))) with (rpos st + Z.of_nat (S (S (length bs)))) by lia.
    rewrite <- app_assoc. cbn [app]. reflexivity.
Qed.

Lemma sock_read_open av size : 1 <= size ->
  sock_read av false size =
  (Z.min size (Z.of_nat (length av)), firstn (Z.to_nat (Z.min size (Z.of_nat (length av)))) av,
   skipn (Z.to_nat (Z.min size (Z.of_nat (length av)))) av).
Proof.
  intros H. unfold sock_read. assert (E : size <=? 0 = false) by (apply Z.leb_gt; lia). rewrite E.
  destruct av as [|a av]; [|reflexivity].
  cbn [length]. replace (Z.min size (Z.of_nat 0)) with 0 by lia. reflexivity.
Qed.

Definition post (st : rstate) (consumed : list Z) (acc : list (list Z)) (st' : rstate) (r : rres) : Prop :=
  match r with
  | RErr => bytes_run st consumed acc = (acc, Failed)
  | RFrame f => bytes_run st consumed acc = (acc ++ [f], Open st') /\ WF st'
  | RNone => bytes_run st consumed acc = (acc, Open st') /\ WF st'
  end.

(* third phase of receiveMessage: state already holds start and length octets *)
Lemma phase3 st av acc :
  2 <= rpos st -> Z.of_nat (length (rbuf st)) = rpos st -> nth 0 (rbuf st) 0 = 104 ->
  1 <= nth 1 (rbuf st) 0 -> rpos st < nth 1 (rbuf st) 0 + 2 ->
  let '(st', rest, rr) := recv_phase3 st av false in
  exists got, av = got ++ rest /\ (av <> [] -> got <> []) /\ post st got acc st' rr.
Proof.
  intros H2 Hlen H0 H1 Hlt. unfold recv_phase3. cbv zeta.
  set (remaining := nth 1 (rbuf st) 0 - rpos st + 2).
  assert (Hrem : 1 <= remaining) by (unfold remaining; lia).
  rewrite (sock_read_open av remaining Hrem). cbv beta iota.
  set (n := Z.min remaining (Z.of_nat (length av))).
  assert (Hn : 0 <= n <= remaining) by (unfold n; lia).
  assert (Hgl : Z.of_nat (length (firstn (Z.to_nat n) av)) = n).
  { rewrite firstn_length. unfold n. lia. }
  assert (Hprog : av <> [] -> firstn (Z.to_nat n) av <> []).
  { intros Hne C. rewrite C in Hgl. cbn [length] in Hgl. destruct av; [congruence|]. cbn [length] in n. unfold n in Hgl. lia. }
  destruct (n =? remaining) eqn:E.
  - exists (firstn (Z.to_nat n) av). split; [symmetry; apply firstn_skipn|]. split; [exact Hprog|].
    apply Z.eqb_eq in E. unfold post. split; [|left; split; reflexivity].
    rewrite body_run; try lia.
    + rewrite Hgl. assert (X : rpos st + n =? nth 1 (rbuf st) 0 + 2 = true) by (apply Z.eqb_eq; unfold remaining in E; lia).
      rewrite X. reflexivity.
    + intros C. rewrite C in Hgl. cbn in Hgl. lia.
  - apply Z.eqb_neq in E. assert (E2 : n =? -1 = false) by (apply Z.eqb_neq; lia). rewrite E2.
    exists (firstn (Z.to_nat n) av). split; [symmetry; apply firstn_skipn|]. split; [exact Hprog|].
    unfold post. destruct (firstn (Z.to_nat n) av) as [|g gs] eqn:G.
    + cbn [length] in Hgl. cbn [bytes_run]. replace n with 0 by lia. rewrite Z.add_0_r, app_nil_r.
      split; [destruct st; reflexivity|]. right; right. cbn [rpos rbuf]. repeat split; lia.
    + rewrite body_run; try lia; try discriminate.
      assert (X : rpos st + Z.of_nat (length (g :: gs)) =? nth 1 (rbuf st) 0 + 2 = false) by (apply Z.eqb_neq; unfold remaining in *; lia).
      rewrite X, Hgl. split; [reflexivity|].
      right; right. cbn [rpos rbuf].
      assert (Hn1 : nth 1 (rbuf st ++ g :: gs) 0 = nth 1 (rbuf st) 0) by (rewrite app_nth1; [reflexivity | apply Nat2Z.inj_lt; lia]).
      assert (Hn0 : nth 0 (rbuf st ++ g :: gs) 0 = nth 0 (rbuf st) 0) by (rewrite app_nth1; [reflexivity | apply Nat2Z.inj_lt; lia]).
      rewrite Hn1, Hn0, app_length. unfold remaining in *. repeat split; lia.
Qed.

(* second phase, entered with exactly the start octet buffered *)
Lemma phase2 av acc : bytes_ok av ->
  let st := {| rpos := 1; rbuf := [104] |} in
  let '(st', rest, rr) := recv_phase2 st av false in
  exists got, av = got ++ rest /\ (av <> [] -> got <> []) /\ post st got acc st' rr.
Proof.
  intros Hb. cbv zeta. unfold recv_phase2. cbn [rpos rbuf]. change (1 =? 1) with true. cbv iota.
  rewrite sock_read_open by lia. cbv beta iota. cbn [firstn].
  destruct av as [|c tl].
  - cbn [length]. change (Z.min 1 (Z.of_nat 0)) with 0. cbn [Z.to_nat firstn skipn]. change (0 <? 0) with false. change (0 =? 0) with true. cbv iota.
    exists []. split; [reflexivity|]. split; [congruence|]. unfold post. cbn [bytes_run]. split; [reflexivity|]. right; left. split; reflexivity.
  - assert (M : Z.min 1 (Z.of_nat (length (c :: tl))) = 1) by (cbn [length]; lia). rewrite M.
    change (Z.to_nat 1) with 1%nat. cbn [firstn skipn]. change (1 <? 0) with false. change (1 =? 0) with false. cbv iota. cbn [app].
    inversion Hb as [|x l Hc Htl]; subst. unfold byte_ok in Hc.
    destruct (Z.eq_dec c 0) as [-> | Hc0].
    + (* length octet 0: the read of 0 octets fails *)
      unfold recv_phase3. cbn [rpos rbuf nth]. change (0 - 2 + 2) with 0.
      unfold sock_read. change (0 <=? 0) with true. cbv iota beta. change (-1 =? 0) with false. change (-1 =? -1) with true. cbv iota.
      exists [0]. split; [reflexivity|]. split; [discriminate|]. unfold post. cbn [bytes_run]. unfold byte_step. cbn [rpos rbuf]. reflexivity.
    + pose proof (phase3 {| rpos := 2; rbuf := [104; c] |} tl acc) as P3. cbn [rpos rbuf nth length] in P3.
      specialize (P3 ltac:(lia) ltac:(reflexivity) ltac:(reflexivity) ltac:(lia) ltac:(lia)).
      destruct (recv_phase3 {| rpos := 2; rbuf := [104; c] |} tl false) as [[st' rest] rr].
      destruct P3 as (got & Eg & _ & Pg). exists (c :: got). split; [cbn [app]; congruence|]. split; [discriminate|].
      assert (Step : forall a, bytes_run {| rpos := 1; rbuf := [104] |} (c :: got) a = bytes_run {| rpos := 2; rbuf := [104; c] |} got a).
      { intros a. cbn [bytes_run]. unfold byte_step at 1. cbn [rpos rbuf]. change (1 =? 0) with false. change (1 =? 1) with true. cbv iota.
        assert (X : c <=? 0 = false) by (apply Z.leb_gt; lia). rewrite X. reflexivity. }
      unfold post in *. destruct rr; rewrite Step; exact Pg.
Qed.

Lemma recv_call_ok st av acc : WF st -> bytes_ok av -> av <> [] ->
  let '(st', rest, rr) := recv_call st av false in
  exists got, av = got ++ rest /\ got <> [] /\ post st got acc st' rr.
Proof.
  intros Hwf Hb Hne. unfold recv_call.
  destruct Hwf as [[P B] | [[P B] | (P2 & Hl & H0 & H1 & Hlt)]].
  - (* nothing buffered *)
    rewrite P. change (0 =? 0) with true. cbv iota.
    destruct av as [|b tl]; [congruence|].
    rewrite sock_read_open by lia.
    assert (M : Z.min 1 (Z.of_nat (length (b :: tl))) = 1) by (cbn [length]; lia). rewrite M.
    change (Z.to_nat 1) with 1%nat. cbn [firstn skipn]. cbv beta iota. change (1 <? 1) with false. cbv iota. cbn [nth].
    inversion Hb as [|x l Hc Htl]; subst.
    destruct (b =? 104) eqn:E; cbn [negb]; cbv iota.
    + apply Z.eqb_eq in E. subst b.
      pose proof (phase2 tl acc Htl) as P2'. cbv zeta in P2'.
      destruct (recv_phase2 {| rpos := 1; rbuf := [104] |} tl false) as [[st' rest] rr].
      destruct P2' as (got & Eg & _ & Pg). exists (104 :: got). split; [cbn [app]; congruence|]. split; [discriminate|].
      assert (Step : forall a, bytes_run st (104 :: got) a = bytes_run {| rpos := 1; rbuf := [104] |} got a).
      { intros a. cbn [bytes_run]. unfold byte_step at 1. rewrite P. change (0 =? 0) with true. change (104 =? 104) with true. cbv iota. reflexivity. }
      unfold post in *. destruct rr; rewrite Step; exact Pg.
    + exists [b]. split; [reflexivity|]. split; [discriminate|]. unfold post. cbn [bytes_run]. unfold byte_step. rewrite P.
      change (0 =? 0) with true. rewrite E. reflexivity.
  - (* start octet buffered *)
    rewrite P. change (1 =? 0) with false. cbv iota.
    destruct st as [p bf]. cbn [rpos rbuf] in *. subst p bf.
    pose proof (phase2 av acc Hb) as P2'. cbv zeta in P2'.
    destruct (recv_phase2 {| rpos := 1; rbuf := [104] |} av false) as [[st' rest] rr].
    destruct P2' as (got & Eg & Hp & Pg). exists got. split; [exact Eg|]. split; [exact (Hp Hne)|exact Pg].
  - assert (E0 : rpos st =? 0 = false) by (apply Z.eqb_neq; lia). rewrite E0. cbv iota.
    unfold recv_phase2. assert (E1 : rpos st =? 1 = false) by (apply Z.eqb_neq; lia). rewrite E1. cbv iota.
    pose proof (phase3 st av acc P2 Hl H0 H1 Hlt) as P3.
    destruct (recv_phase3 st av false) as [[st' rest] rr].
    destruct P3 as (got & Eg & Hp & Pg). exists got. split; [exact Eg|]. split; [exact (Hp Hne)|exact Pg].
Qed.

Lemma drain_ok : forall fuel st av acc, WF st -> bytes_ok av -> (length av < fuel)%nat ->
  let '(acc', o, _) := drain fuel st av acc in
  (acc', o) = bytes_run st av acc /\ match o with Open st' => WF st' | Failed => True end.
Proof.
  induction fuel as [|fuel IH]; intros st av acc Hwf Hb Hlt; [lia|].
  cbn [drain]. destruct av as [|a av']; [cbn [bytes_run]; split; [reflexivity | exact Hwf]|].
  set (av := a :: av') in *.
  pose proof (recv_call_ok st av acc Hwf Hb ltac:(discriminate)) as R.
  destruct (recv_call st av false) as [[st' rest] rr].
  destruct R as (got & Eg & Hne & Pg).
  assert (Hbr : bytes_ok rest) by (unfold bytes_ok in *; rewrite Eg in Hb; apply Forall_app in Hb; tauto).
  assert (Hlr : (length rest < fuel)%nat).
  { assert (L : length av = (length got + length rest)%nat) by (rewrite Eg; apply app_length).
    destruct got; [congruence|]. cbn [length] in L. lia. }
  rewrite Eg, bytes_run_app. unfold post in Pg.
  destruct rr as [f| |].
  - destruct Pg as [Pg Hwf']. rewrite Pg. apply IH; assumption.
  - destruct Pg as [Pg Hwf']. rewrite Pg. apply IH; assumption.
  - rewrite Pg. split; [reflexivity | exact I].
Qed.

(* C05, segmentation independence: any split of the stream into reads gives what the octet-wise
   reference gives on the whole stream -- hence any two splits of one stream agree *)
Theorem feed_is_bytes_run : forall chunks st acc, WF st -> Forall bytes_ok chunks ->
  feed st chunks acc = bytes_run st (concat chunks) acc.
Proof.
  induction chunks as [|c cs IH]; intros st acc Hwf Hb; [reflexivity|].
  cbn [feed concat]. inversion Hb as [|x l Hc Hcs]; subst.
  pose proof (drain_ok (S (length c)) st c acc Hwf Hc ltac:(lia)) as D.
  destruct (drain (S (length c)) st c acc) as [[acc' o] rest].
  destruct D as [D Hwf']. rewrite bytes_run_app, <- D.
  destruct o as [st'|]; [apply IH; assumption | reflexivity].
Qed.

Corollary segmentation_independent : forall c1 c2, Forall bytes_ok c1 -> Forall bytes_ok c2 ->
  concat c1 = concat c2 -> feed rinit c1 [] = feed rinit c2 [].
Proof.
  intros c1 c2 H1 H2 E. rewrite !feed_is_bytes_run by (try apply WF_init; assumption). rewrite E. reflexivity.
Qed.

(* every frame handed on is well delimited: 68, L, then exactly L octets, 1 <= L *)
Definition framed (f : list Z) : Prop :=
  exists l body, f = 104 :: l :: body /\ 1 <= l /\ Z.of_nat (length body) = l.

Lemma bytes_run_framed : forall bs st acc, WF st -> Forall framed acc ->
  Forall framed (fst (bytes_run st bs acc)).
Proof.
  induction bs as [|b bs IH]; intros st acc Hwf Hacc; [exact Hacc|].
  cbn [bytes_run]. unfold byte_step.
  destruct Hwf as [[P B] | [[P B] | (P2 & Hl & H0 & H1 & Hlt)]].
  - rewrite P. change (0 =? 0) with true. cbv iota. destruct (b =? 104) eqn:E; [|exact Hacc].
    apply IH; [|exact Hacc]. right; left. cbn [rpos rbuf]. apply Z.eqb_eq in E. subst. split; reflexivity.
  - rewrite P. change (1 =? 0) with false. change (1 =? 1) with true. cbv iota.
    destruct (b <=? 0) eqn:E; [exact Hacc|]. apply Z.leb_gt in E.
    apply IH; [|exact Hacc]. right; right. rewrite B. cbn [rpos rbuf app nth length]. repeat split; lia.
  - assert (E0 : rpos st =? 0 = false) by (apply Z.eqb_neq; lia).
    assert (E1 : rpos st =? 1 = false) by (apply Z.eqb_neq; lia). rewrite E0, E1.
    assert (Hn1 : nth 1 (rbuf st ++ [b]) 0 = nth 1 (rbuf st) 0) by (rewrite app_nth1; [reflexivity | apply Nat2Z.inj_lt; lia]).
    assert (Hn0 : nth 0 (rbuf st ++ [b]) 0 = nth 0 (rbuf st) 0) by (rewrite app_nth1; [reflexivity | apply Nat2Z.inj_lt; lia]).
    destruct (rpos st + 1 =? nth 1 (rbuf st) 0 + 2) eqn:E.
    + apply Z.eqb_eq in E. apply IH; [left; split; reflexivity|].
      apply Forall_app. split; [exact Hacc|]. constructor; [|constructor].
      destruct (rbuf st) as [|x0 [|x1 body]] eqn:RB; cbn [length] in Hl; try lia.
      cbn [nth] in *. subst x0. exists x1, (body ++ [b]). split; [reflexivity|]. split; [lia|].
      rewrite app_length. cbn [length]. lia.
    + apply Z.eqb_neq in E. apply IH; [|exact Hacc]. right; right. cbn [rpos rbuf].
      rewrite Hn1, Hn0, app_length. cbn [length]. repeat split; lia.
Qed.
