(* C03: APDU byte layout as written by sendIMessage()/_sendSMessage() (cs104_slave.c) and
   T104Frame_prepareToSend()/sendSMessage() (cs104_frame.c, cs104_connection.c), and the send/receive
   sequence counters.  The station is observed through its events: it sends an I-frame, sends an
   S-frame, sends a U-frame, or accepts an I-frame from the peer. *)
From Coq Require Import ZArith List Bool Lia.
Import ListNotations.
Local Open Scope Z_scope.

Definition zlen (l : list Z) : Z := Z.of_nat (length l).

Definition enc_i (ns nr : Z) (asdu : list Z) : list Z :=
  [104; (6 + zlen asdu - 2) mod 256; ((ns mod 128) * 2) mod 256; (ns / 128) mod 256;
   ((nr mod 128) * 2) mod 256; (nr / 128) mod 256] ++ asdu.
Definition enc_s (nr : Z) : list Z := [104; 4; 1; 0; ((nr mod 128) * 2) mod 256; (nr / 128) mod 256].
Definition enc_u (c : Z) : list Z := [104; 4; c; 0; 0; 0].

Definition u_ok (c : Z) : bool := (c =? 7) || (c =? 11) || (c =? 19) || (c =? 35) || (c =? 67) || (c =? 131).

(* well-formed APDU: start 0x68, length octet = number of following octets and in 4..253, valid control field *)
Definition wf_apdu (f : list Z) : bool :=
  match f with
  | s :: l :: c1 :: c2 :: c3 :: c4 :: rest =>
      (s =? 104) && (l =? 4 + zlen rest) && (4 <=? l) && (l <=? 253) &&
      (if Z.land c1 1 =? 0 then Z.land c3 1 =? 0
       else if Z.land c1 3 =? 1 then (c1 =? 1) && (c2 =? 0) && (Z.land c3 1 =? 0) && (zlen rest =? 0)
       else u_ok c1 && (c2 =? 0) && (c3 =? 0) && (c4 =? 0) && (zlen rest =? 0))
  | _ => false
  end.

(* the receiver's decoding (checkMessage / handleMessage) *)
Definition ns_dec (f : list Z) : Z := Z.quot (nth 3 f 0 * 256 + Z.land (nth 2 f 0) 254) 2.
Definition nr_dec (f : list Z) : Z := Z.quot (nth 5 f 0 * 256 + Z.land (nth 4 f 0) 254) 2.
Definition is_iframe (f : list Z) : bool := Z.land (nth 2 f 0) 1 =? 0.
Definition is_sframe (f : list Z) : bool := nth 2 f 0 =? 1.

(* ---- sequence counters *)
Record sq := { vs : Z; vr : Z }.
Inductive sev := ESendI (asdu : list Z) | ESendS | ESendU (c : Z) | EAccept.

Definition sq_step (s : sq) (e : sev) : sq * list (list Z) :=
  match e with
  | ESendI a => ({| vs := (vs s + 1) mod 32768; vr := vr s |}, [enc_i (vs s) (vr s) a])
  | ESendS => (s, [enc_s (vr s)])
  | ESendU c => (s, [enc_u c])
  | EAccept => ({| vs := vs s; vr := (vr s + 1) mod 32768 |}, [])
  end.

Fixpoint sq_run (s : sq) (es : list sev) : list (list Z) :=
  match es with
  | [] => []
  | e :: rest => let '(s', out) := sq_step s e in out ++ sq_run s' rest
  end.

Fixpoint count_accept (es : list sev) : Z :=
  match es with [] => 0 | EAccept :: r => 1 + count_accept r | _ :: r => count_accept r end.
Fixpoint count_sendi (es : list sev) : Z :=
  match es with [] => 0 | ESendI _ :: r => 1 + count_sendi r | _ :: r => count_sendi r end.
