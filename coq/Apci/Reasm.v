(* C05: APDU reassembly.  `recv_call` is a literal transcription of receiveMessage() in
   cs104_connection.c (and of the repaired copy in cs104_slave.c): one call performs up to three
   Socket_read()s.  The simulated socket follows hal/socket/linux/socket_linux.c: a read of `size`
   octets returns min(size, available) when something is readable, 0 when nothing is, -1 when the
   peer has closed and everything was drained, and -1 for size <= 0 (recv(fd,buf,0) = 0 -> -1). *)
From Coq Require Import ZArith List Bool Lia.
Import ListNotations.
Local Open Scope Z_scope.

Record rstate := { rpos : Z; rbuf : list Z }.       (* rbuf: the first rpos octets of recvBuffer *)
Definition rinit : rstate := {| rpos := 0; rbuf := [] |}.

Inductive rres := RFrame (f : list Z) | RNone | RErr.

(* Socket_read(size) on a socket holding `avail`; returns (return value, octets read, rest) *)
Definition sock_read (avail : list Z) (closed : bool) (size : Z) : Z * list Z * list Z :=
  if size <=? 0 then (-1, [], avail)
  else match avail with
       | [] => (if closed then -1 else 0, [], [])
       | _ => let n := Z.min size (Z.of_nat (length avail)) in
              (n, firstn (Z.to_nat n) avail, skipn (Z.to_nat n) avail)
       end.

(* one call of receiveMessage: returns new state, what is left in the socket, and the outcome.
   The three `if (bufPos ...)` blocks of the C function are the three definitions below. *)
Definition recv_phase3 (st : rstate) (avail : list Z) (closed : bool) : rstate * list Z * rres :=
  (* read remaining frame (bufPos > 1 here) *)
  let len := nth 1 (rbuf st) 0 in
  let remaining := len - rpos st + 2 in
  let '(r, got, rest) := sock_read avail closed remaining in
  if r =? remaining then ({| rpos := 0; rbuf := [] |}, rest, RFrame (rbuf st ++ got))
  else if r =? -1 then ({| rpos := 0; rbuf := [] |}, rest, RErr)
  else ({| rpos := rpos st + r; rbuf := rbuf st ++ got |}, rest, RNone).

Definition recv_phase2 (st : rstate) (avail : list Z) (closed : bool) : rstate * list Z * rres :=
  (* read length byte *)
  if rpos st =? 1 then
    let '(r, got, rest) := sock_read avail closed 1 in
    if r <? 0 then ({| rpos := 0; rbuf := [] |}, rest, RErr)
    else if r =? 0 then ({| rpos := 1; rbuf := firstn 1 (rbuf st) |}, rest, RNone)
    else recv_phase3 {| rpos := 2; rbuf := firstn 1 (rbuf st) ++ got |} rest closed
  else recv_phase3 st avail closed.

Definition recv_call (st : rstate) (avail : list Z) (closed : bool) : rstate * list Z * rres :=
  (* read start byte *)
  if rpos st =? 0 then
    let '(r, got, rest) := sock_read avail closed 1 in
    if r <? 1 then (st, rest, if r =? 0 then RNone else RErr)          (* return readFirst; recvBufPos untouched *)
    else if negb (nth 0 got 0 =? 104) then (st, rest, RErr)            (* message error: recvBufPos untouched *)
    else recv_phase2 {| rpos := 1; rbuf := got |} rest closed
  else recv_phase2 st avail closed.

(* the connection loop: call receiveMessage while the socket is readable; stop at the first error *)
Inductive outcome := Open (st : rstate) | Failed.

Fixpoint drain (fuel : nat) (st : rstate) (avail : list Z) (acc : list (list Z)) : list (list Z) * outcome * list Z :=
  match fuel with
  | O => (acc, Open st, avail)
  | S f =>
    match avail with
    | [] => (acc, Open st, [])
    | _ =>
      let '(st', rest, r) := recv_call st avail false in
      match r with
      | RErr => (acc, Failed, rest)
      | RFrame fr => drain f st' rest (acc ++ [fr])
      | RNone => drain f st' rest acc
      end
    end
  end.

(* feed chunks one after the other (each chunk = what one TCP segment made readable) *)
Fixpoint feed (st : rstate) (chunks : list (list Z)) (acc : list (list Z)) : list (list Z) * outcome :=
  match chunks with
  | [] => (acc, Open st)
  | c :: cs =>
    let '(acc', o, _) := drain (S (length c)) st c acc in
    match o with
    | Failed => (acc', Failed)
    | Open st' => feed st' cs acc'
    end
  end.

(* ------------------------------------------------------------------------------------------
   Reference: an octet-at-a-time receiver (the standard's framing: 68 L then L octets, L >= 1) *)
Inductive bres := BFrame (f : list Z) | BNone | BErr.
Definition byte_step (st : rstate) (b : Z) : rstate * bres :=
  if rpos st =? 0 then
    if b =? 104 then ({| rpos := 1; rbuf := [b] |}, BNone) else (st, BErr)
  else if rpos st =? 1 then
    if b <=? 0 then ({| rpos := 0; rbuf := [] |}, BErr)         (* length 0: nothing can follow *)
    else ({| rpos := 2; rbuf := rbuf st ++ [b] |}, BNone)
  else
    let len := nth 1 (rbuf st) 0 in
    if rpos st + 1 =? len + 2 then ({| rpos := 0; rbuf := [] |}, BFrame (rbuf st ++ [b]))
    else ({| rpos := rpos st + 1; rbuf := rbuf st ++ [b] |}, BNone).

Fixpoint bytes_run (st : rstate) (bs : list Z) (acc : list (list Z)) : list (list Z) * outcome :=
  match bs with
  | [] => (acc, Open st)
  | b :: rest =>
    let '(st', r) := byte_step st b in
    match r with
    | BErr => (acc, Failed)
    | BFrame f => bytes_run st' rest (acc ++ [f])
    | BNone => bytes_run st' rest acc
    end
  end.
