(* C05, delivery rule: what handleMessage()/checkMessage() do with a complete frame as far as the
   receive sequence number is concerned.  `nr_ok` abstracts the N(R) validation (C04). *)
From Coq Require Import ZArith List Bool Lia.
Import ListNotations.
Local Open Scope Z_scope.

Record rx := { started : bool; rxvr : Z }.
Inductive dres := Deliver (asdu : list Z) | Ignore | Close.

Definition ns_of (f : list Z) : Z := Z.quot (nth 3 f 0 * 256 + Z.land (nth 2 f 0) 254) 2.
Definition nr_of (f : list Z) : Z := Z.quot (nth 5 f 0 * 256 + Z.land (nth 4 f 0) 254) 2.
Definition is_i (f : list Z) : bool := Z.land (nth 2 f 0) 1 =? 0.

Definition on_frame (nr_ok : Z -> bool) (st : rx) (f : list Z) : rx * dres :=
  if is_i f then
    if Z.of_nat (length f) <? 7 then (st, Close)
    else if negb (started st) then (st, Close)
    else if negb (ns_of f =? rxvr st) then (st, Close)
    else if negb (nr_ok (nr_of f)) then (st, Close)
    else ({| started := started st; rxvr := (rxvr st + 1) mod 32768 |}, Deliver (skipn 6 f))
  else (st, Ignore).

Fixpoint on_frames (nr_ok : Z -> bool) (st : rx) (fs : list (list Z)) : list (list Z) * bool * rx :=
  match fs with
  | [] => ([], false, st)
  | f :: rest =>
    let '(st', r) := on_frame nr_ok st f in
    match r with
    | Close => ([], true, st')
    | Ignore => on_frames nr_ok st' rest
    | Deliver a => let '(d, c, s) := on_frames nr_ok st' rest in (a :: d, c, s)
    end
  end.

(* delivered ASDUs are exactly the I-frames of the accepted prefix, once each and in order, and the
   k-th of them carried N(S) = vr0 + k (mod 2^15) *)
Lemma on_frames_ns : forall nr_ok fs st d c s,
  on_frames nr_ok st fs = (d, c, s) -> 0 <= rxvr st < 32768 ->
  rxvr s = (rxvr st + Z.of_nat (length d)) mod 32768.
Proof.
  induction fs as [|f fs IH]; intros st d c s H Hv; cbn [on_frames] in H.
  - inversion H; subst. cbn [length]. rewrite Z.add_0_r, Z.mod_small; lia.
  - unfold on_frame in H.
    destruct (is_i f).
    + destruct (Z.of_nat (length f) <? 7); [inversion H; subst; cbn [length]; rewrite Z.add_0_r, Z.mod_small; lia|].
      destruct (negb (started st)); [inversion H; subst; cbn [length]; rewrite Z.add_0_r, Z.mod_small; lia|].
      destruct (negb (ns_of f =? rxvr st)); [inversion H; subst; cbn [length]; rewrite Z.add_0_r, Z.mod_small; lia|].
      destruct (negb (nr_ok (nr_of f))); [inversion H; subst; cbn [length]; rewrite Z.add_0_r, Z.mod_small; lia|].
      destruct (on_frames nr_ok {| started := started st; rxvr := (rxvr st + 1) mod 32768 |} fs) as [[d' c'] s'] eqn:E.
      inversion H; subst. apply IH in E; [|cbn [rxvr]; apply Z.mod_pos_bound; lia].
      cbn [rxvr length] in *. rewrite E. rewrite Nat2Z.inj_succ.
      rewrite Zplus_mod_idemp_l. f_equal. lia.
    + eapply IH; eauto.
Qed.
