(* C04: the k-buffer (ring of sent-but-unacknowledged I-frames) and checkSequenceNumber(), transcribed
   literally from cs104_connection.c; the copy in cs104_slave.c differs only in confirming queue
   entries on the way (observations, modelled by [confirmed]) and is tied by the same correspondence.
   A slot stores the N(R) value that acknowledges its frame, i.e. N(S)+1 mod 2^15 (sendIMessage returns
   the incremented counter). *)
From Coq Require Import ZArith List Bool Lia.
Import ListNotations.
Local Open Scope Z_scope.

Record kbuf := { maxk : Z; oldest : Z; newest : Z; slots : list Z }.

Definition slot (kb : kbuf) (i : Z) : Z := nth (Z.to_nat i) (slots kb) 0.
Definition set_oldest (kb : kbuf) (o : Z) : kbuf :=
  {| maxk := maxk kb; oldest := o; newest := newest kb; slots := slots kb |}.

Fixpoint upd_nth (i : nat) (v : Z) (l : list Z) : list Z :=
  match l, i with
  | [], _ => []
  | _ :: t, O => v :: t
  | h :: t, S j => h :: upd_nth j v t
  end.

Definition kempty (k : Z) : kbuf := {| maxk := k; oldest := -1; newest := -1; slots := repeat 0 (Z.to_nat k) |}.

Definition is_full (kb : kbuf) : bool :=
  if oldest kb =? -1 then false else (newest kb + 1) mod maxk kb =? oldest kb.

(* sendASDU / sendIMessageAndUpdateSentASDUs: v is the incremented send counter *)
Definition push (kb : kbuf) (v : Z) : kbuf :=
  if oldest kb =? -1 then
    {| maxk := maxk kb; oldest := 0; newest := 0; slots := upd_nth 0 v (slots kb) |}
  else
    let i := (newest kb + 1) mod maxk kb in
    {| maxk := maxk kb; oldest := oldest kb; newest := i; slots := upd_nth (Z.to_nat i) v (slots kb) |}.

(* the do { ... } while (true) loop; fuel is the static bound maxk+1, None = fuel exhausted *)
Fixpoint loop (fuel : nat) (kb : kbuf) (seqNo oldestValid : Z) (overflow : bool) : option kbuf :=
  match fuel with
  | O => None
  | S f =>
    let cur := slot kb (oldest kb) in
    if (negb overflow && (seqNo <? cur))%bool then Some kb
    else if seqNo =? oldestValid then Some kb
    else if cur =? seqNo then
      Some (if oldest kb =? newest kb then set_oldest kb (-1)
            else set_oldest kb ((oldest kb + 1) mod maxk kb))
    else
      let o' := (oldest kb + 1) mod maxk kb in
      if o' =? (newest kb + 1) mod maxk kb then Some (set_oldest kb (-1))
      else loop f (set_oldest kb o') seqNo oldestValid overflow
  end.

Definition check_seq (kb : kbuf) (sendCount seqNo : Z) : option (bool * kbuf) :=
  if oldest kb =? -1 then Some (seqNo =? sendCount, kb)
  else
    let a := slot kb (oldest kb) in
    let b := slot kb (newest kb) in
    let '(v1, ovf) := if a <=? b then ((seqNo >=? a) && (seqNo <=? b), false)
                      else ((seqNo >=? a) || (seqNo <=? b), true) in
    let ov := if a =? 0 then 32767 else Z.rem (a - 1) 32768 in
    if (v1 || (ov =? seqNo))%bool
    then option_map (pair true) (loop (S (Z.to_nat (maxk kb))) kb seqNo ov ovf)
    else Some (false, kb).

(* ---- abstract view: the acknowledgement numbers of the outstanding frames, oldest first *)
Fixpoint walk (fuel : nat) (kb : kbuf) (i : Z) : list Z :=
  match fuel with
  | O => []
  | S f => slot kb i :: (if i =? newest kb then [] else walk f kb ((i + 1) mod maxk kb))
  end.
Definition outstanding (kb : kbuf) : list Z :=
  if oldest kb =? -1 then [] else walk (Z.to_nat (maxk kb)) kb (oldest kb).

(* specification of the window rule: with c outstanding frames and next N(S) = vs, a received N(R) = n is
   acceptable iff  (n - (vs - c)) mod 2^15 <= c, and it releases that many frames *)
Definition d15 (a b : Z) : Z := (b - a) mod 32768.
Definition spec_accept (vs c n : Z) : bool := d15 (vs - c) n <=? c.
