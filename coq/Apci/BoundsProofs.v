(* C10: index bounds of the CS104 receive path and of the k-buffer in every reachable state.
   recvBuffer has 260 octets (cs104_slave.c / cs104_connection.c); a read in state `st` writes the octets
   [rpos st, len + 2) where len is the second octet of the buffer. *)
From Coq Require Import ZArith List Bool Lia.
From L60870 Require Import Apci.Reasm Apci.ReasmProofs Apci.KBuf Apci.KBufProofs.
Import ListNotations.
Local Open Scope Z_scope.

Definition WFB (st : rstate) : Prop := WF st /\ bytes_ok (rbuf st).

Lemma WFB_init : WFB rinit.
Proof. split; [exact WF_init | constructor]. Qed.

Lemma bytes_ok_snoc l b : bytes_ok l -> byte_ok b -> bytes_ok (l ++ [b]).
Proof. intros H Hb. apply Forall_app. split; [exact H | constructor; [exact Hb | constructor]]. Qed.

Lemma nth_snoc_lt (l : list Z) b i : (i < length l)%nat -> nth i (l ++ [b]) 0 = nth i l 0.
Proof. intros H. apply app_nth1. exact H. Qed.

Lemma byte_step_wfb st b : WFB st -> byte_ok b -> WFB (fst (byte_step st b)).
Proof.
  intros [Hwf Hb] Hbyte. unfold byte_step.
  destruct Hwf as [[P B] | [[P B] | (P2 & Hl & H0 & H1 & Hlt)]].
  - rewrite P. change (0 =? 0) with true. cbv iota.
    destruct (b =? 104) eqn:E; cbn [fst].
    + apply Z.eqb_eq in E. subst b. split; [right; left; split; reflexivity | constructor; [exact Hbyte | constructor]].
    + split; [left; split; assumption | exact Hb].
  - rewrite P. change (1 =? 0) with false. change (1 =? 1) with true. cbv iota.
    destruct (b <=? 0) eqn:E; cbn [fst].
    + split; [left; split; reflexivity | constructor].
    + apply Z.leb_gt in E. rewrite B. split.
      * right; right. unfold byte_ok in Hbyte. cbn. repeat split; lia.
      * constructor; [unfold byte_ok; lia | constructor; [exact Hbyte | constructor]].
  - assert (E0 : rpos st =? 0 = false) by (apply Z.eqb_neq; lia).
    assert (E1 : rpos st =? 1 = false) by (apply Z.eqb_neq; lia).
    rewrite E0, E1.
    destruct (rpos st + 1 =? nth 1 (rbuf st) 0 + 2) eqn:E; cbn [fst].
    + split; [left; split; reflexivity | constructor].
    + apply Z.eqb_neq in E. split.
      * right; right. cbn [rpos rbuf]. rewrite app_length. cbn [length].
        assert (Hlen : (2 <= length (rbuf st))%nat) by lia.
        rewrite !nth_snoc_lt by lia. repeat split; try lia.
      * apply bytes_ok_snoc; assumption.
Qed.

Lemma bytes_run_wfb : forall bs st acc acc' st', WFB st -> bytes_ok bs ->
  bytes_run st bs acc = (acc', Open st') -> WFB st'.
Proof.
  induction bs as [|b bs IH]; intros st acc acc' st' Hw Hb E.
  - cbn [bytes_run] in E. inversion E; subst. exact Hw.
  - cbn [bytes_run] in E. inversion Hb as [|? ? Hb1 Hb2]; subst.
    pose proof (byte_step_wfb st b Hw Hb1) as Hn.
    destruct (byte_step st b) as [st1 r]. cbn [fst] in Hn.
    destruct r; [eapply IH; eassumption | eapply IH; eassumption | discriminate].
Qed.

Lemma bytes_ok_concat chunks : Forall bytes_ok chunks -> bytes_ok (concat chunks).
Proof. induction 1 as [|c cs Hc _ IH]; [constructor | cbn; apply Forall_app; split; assumption]. Qed.

(* every state reachable by feeding octets in any segmentation keeps the write position inside the buffer:
   the position is at most 256 and the pending frame ends at octet len + 2 <= 257 < 260 *)
Theorem rx_in_buffer : forall chunks acc' st', Forall bytes_ok chunks ->
  feed rinit chunks [] = (acc', Open st') ->
  0 <= rpos st' <= 256 /\ (2 <= rpos st' -> rpos st' < nth 1 (rbuf st') 0 + 2 <= 257).
Proof.
  intros chunks acc' st' Hc E.
  rewrite (feed_is_bytes_run chunks rinit [] WF_init Hc) in E.
  pose proof (bytes_run_wfb _ _ _ _ _ WFB_init (bytes_ok_concat _ Hc) E) as [Hwf Hb].
  destruct Hwf as [[P B] | [[P B] | (P2 & Hl & H0 & H1 & Hlt)]].
  - rewrite P. split; lia.
  - rewrite P. split; lia.
  - assert (Hlen : (2 <= length (rbuf st'))%nat) by lia.
    assert (B1 : byte_ok (nth 1 (rbuf st') 0)).
    { pose proof (proj1 (Forall_forall _ _) Hb) as F. apply F. apply nth_In. lia. }
    unfold byte_ok in B1. split; [lia | intros _; lia].
Qed.

(* k-buffer: whenever something is outstanding the two ring indices address slots of the array *)
Theorem kbuf_indices_in_range : forall kb vs c, Inv kb vs c -> 1 <= c ->
  0 <= oldest kb < maxk kb /\ 0 <= newest kb < maxk kb.
Proof.
  intros kb vs c (Hk & _ & _ & _ & HR) Hc. destruct (HR Hc) as (Ho & Hn & _).
  split; [exact Ho|]. rewrite Hn. apply Z.mod_pos_bound. lia.
Qed.
