(* C04: checkSequenceNumber() implements exactly the modular window rule, for every k, every
   occupancy, every alignment to the 32767->0 wrap and every N(R). *)
From Coq Require Import ZArith List Bool Lia.
From L60870 Require Import Apci.KBuf.
Import ListNotations.
Local Open Scope Z_scope.
Ltac Zify.zify_post_hook ::= Z.div_mod_to_equations.

(* kb holds c outstanding frames whose acknowledgement numbers are vs-c+1 .. vs (mod 2^15) *)
Definition Inv (kb : kbuf) (vs c : Z) : Prop :=
  1 <= maxk kb <= 32767 /\ 0 <= vs < 32768 /\ 0 <= c <= maxk kb /\
  (c = 0 -> oldest kb = -1) /\
  (1 <= c ->
     0 <= oldest kb < maxk kb /\ newest kb = (oldest kb + (c - 1)) mod maxk kb /\
     forall j, 0 <= j < c -> slot kb ((oldest kb + j) mod maxk kb) = (vs - c + 1 + j) mod 32768).

Lemma slot_set_oldest kb o i : slot (set_oldest kb o) i = slot kb i.
Proof. reflexivity. Qed.

Lemma mod_add_mod a b m : 0 < m -> ((a mod m) + b) mod m = (a + b) mod m.
Proof. intros H. apply Zplus_mod_idemp_l. Qed.

Lemma ring_distinct o i j m : 0 < m -> 0 <= i < j -> j - i < m -> (o + i) mod m <> (o + j) mod m.
Proof.
  intros Hm Hij Hd E.
  assert (X : ((o + j) - (o + i)) mod m = 0).
  { rewrite Zminus_mod, E, Z.sub_diag. apply Z.mod_0_l. lia. }
  replace (o + j - (o + i)) with (j - i) in X by lia.
  rewrite Z.mod_small in X; lia.
Qed.

Lemma ack_ne_base vs c d m : 1 <= m <= 32767 -> 0 <= vs < 32768 -> 0 <= c <= m -> 1 <= d <= c ->
  (vs - c + d) mod 32768 <> (vs - c) mod 32768.
Proof. intros. lia. Qed.

(* the loop started with j frames already released (j <= d-1), d >= 1 frames to release in total *)
Lemma loop_spec : forall (fuel : nat) kb vs c n ovf ov j d,
  Inv kb vs c -> 1 <= c ->
  let a := (vs - c + 1) mod 32768 in
  ov = (vs - c) mod 32768 -> n = (vs - c + d) mod 32768 -> 1 <= d <= c -> 0 <= j <= d - 1 ->
  (ovf = false -> a + c - 1 = vs) ->
  (Z.of_nat fuel >= d - j) ->
  loop fuel (set_oldest kb ((oldest kb + j) mod maxk kb)) n ov ovf =
  Some (if d =? c then set_oldest kb (-1) else set_oldest kb ((oldest kb + d) mod maxk kb)).
Proof.
  induction fuel as [|fuel IH]; intros kb vs c n ovf ov j d HI Hc a Hov Hn Hd Hj Hovf Hfuel; [lia|].
  destruct HI as (Hk & Hvs & Hcc & _ & HR). specialize (HR Hc). destruct HR as (Ho & Hnew & Hsl).
  cbn [loop]. rewrite slot_set_oldest. cbn [oldest newest maxk set_oldest].
  rewrite (Hsl j) by lia.
  set (cur := (vs - c + 1 + j) mod 32768).
  (* first test never fires *)
  assert (T1 : (negb ovf && (n <? cur))%bool = false).
  { destruct ovf; [reflexivity|]. cbn [negb andb]. apply Z.ltb_ge. specialize (Hovf eq_refl). unfold a in Hovf.
    unfold cur. subst n. clear - Hk Hvs Hcc Hc Hd Hj Hovf. lia. }
  rewrite T1.
  assert (T2 : n =? ov = false).
  { apply Z.eqb_neq. subst n ov. apply (ack_ne_base vs c d (maxk kb)); assumption. }
  rewrite T2.
  destruct (cur =? n) eqn:E.
  - (* reached the acknowledged frame: j = d - 1 *)
    apply Z.eqb_eq in E. assert (Hjd : j = d - 1) by (unfold cur in E; subst n; clear - Hk Hvs Hcc Hc Hd Hj E; lia). subst j.
    destruct (d =? c) eqn:Edc.
    + apply Z.eqb_eq in Edc. subst d. rewrite Hnew. rewrite Z.eqb_refl. reflexivity.
    + apply Z.eqb_neq in Edc.
      assert (X : (oldest kb + (d - 1)) mod maxk kb =? newest kb = false).
      { apply Z.eqb_neq. rewrite Hnew. apply ring_distinct; clear - Hk Hcc Hd Edc; lia. }
      rewrite X. rewrite mod_add_mod by (clear - Hk; lia). replace (oldest kb + (d - 1) + 1) with (oldest kb + d) by (clear; lia). reflexivity.
  - apply Z.eqb_neq in E.
    assert (Hjd : j < d - 1) by (unfold cur in E; subst n; clear - Hk Hvs Hcc Hc Hd Hj E; lia).
    rewrite mod_add_mod by (clear - Hk; lia).
    assert (X : (oldest kb + j + 1) mod maxk kb =? (newest kb + 1) mod maxk kb = false).
    { apply Z.eqb_neq. rewrite Hnew, mod_add_mod by (clear - Hk; lia).
      replace (oldest kb + j + 1) with (oldest kb + (j + 1)) by (clear; lia).
      replace (oldest kb + (c - 1) + 1) with (oldest kb + c) by (clear; lia).
      apply ring_distinct; clear - Hk Hcc Hd Hj Hjd; lia. }
    rewrite X.
    replace (oldest kb + j + 1) with (oldest kb + (j + 1)) by (clear; lia).
    assert (S1 : set_oldest (set_oldest kb ((oldest kb + j) mod maxk kb)) ((oldest kb + (j + 1)) mod maxk kb)
                 = set_oldest kb ((oldest kb + (j + 1)) mod maxk kb)) by reflexivity.
    rewrite S1.
    apply (IH kb vs c n ovf ov (j + 1) d); try assumption; try (clear - Hj Hjd Hfuel; lia).
    unfold Inv. repeat split; try (clear - Hk Hvs Hcc Ho Hc; lia); try assumption.

Qed.

Lemma mod_small_idx o m : 0 <= o < m -> (o + 0) mod m = o.
Proof. intros H. rewrite Z.add_0_r. apply Z.mod_small. exact H. Qed.

(* pure arithmetic of the two-case range test + the "already released" value *)
Lemma accept_arith vs c n a :
  0 <= vs < 32768 -> 1 <= c <= 32767 -> 0 <= n < 32768 -> a = (vs - c + 1) mod 32768 ->
  let v1 := if a <=? vs then (n >=? a) && (n <=? vs) else (n >=? a) || (n <=? vs) in
  let ov := if a =? 0 then 32767 else Z.rem (a - 1) 32768 in
  ov = (vs - c) mod 32768 /\
  (v1 || (ov =? n))%bool = (d15 (vs - c) n <=? c) /\
  ((ov =? n) = true <-> d15 (vs - c) n = 0) /\
  (a <= vs -> a + c - 1 = vs).
Proof.
  intros Hvs Hc Hn Ha. cbv zeta.
  assert (Hov : (if a =? 0 then 32767 else Z.rem (a - 1) 32768) = (vs - c) mod 32768).
  { destruct (a =? 0) eqn:E; [apply Z.eqb_eq in E | apply Z.eqb_neq in E].
    - subst a. lia.
    - assert (0 < a < 32768) by (subst a; lia). rewrite Z.rem_small by lia. subst a. lia. }
  rewrite Hov. unfold d15.
  split; [reflexivity|]. split; [|split].
  - destruct (a <=? vs) eqn:E1; [apply Z.leb_le in E1 | apply Z.leb_gt in E1];
    destruct (n >=? a) eqn:E2; rewrite ?Z.geb_leb in E2; [apply Z.leb_le in E2 | apply Z.leb_gt in E2 | apply Z.leb_le in E2 | apply Z.leb_gt in E2];
    destruct (n <=? vs) eqn:E3; [apply Z.leb_le in E3 | apply Z.leb_gt in E3 | apply Z.leb_le in E3 | apply Z.leb_gt in E3 | apply Z.leb_le in E3 | apply Z.leb_gt in E3 | apply Z.leb_le in E3 | apply Z.leb_gt in E3];
    destruct ((vs - c) mod 32768 =? n) eqn:E4; [apply Z.eqb_eq in E4 | apply Z.eqb_neq in E4 | apply Z.eqb_eq in E4 | apply Z.eqb_neq in E4 | apply Z.eqb_eq in E4 | apply Z.eqb_neq in E4 | apply Z.eqb_eq in E4 | apply Z.eqb_neq in E4
                                                  | apply Z.eqb_eq in E4 | apply Z.eqb_neq in E4 | apply Z.eqb_eq in E4 | apply Z.eqb_neq in E4 | apply Z.eqb_eq in E4 | apply Z.eqb_neq in E4 | apply Z.eqb_eq in E4 | apply Z.eqb_neq in E4];
    cbn [andb orb]; symmetry; (apply Z.leb_le || apply Z.leb_gt); subst a; lia.
  - rewrite Z.eqb_eq. split; intros H; lia.
  - intros H. subst a. lia.
Qed.

Theorem check_seq_spec : forall kb vs c n, Inv kb vs c -> 0 <= n < 32768 ->
  exists kb', check_seq kb vs n = Some (spec_accept vs c n, kb') /\
              (spec_accept vs c n = true -> Inv kb' vs (c - d15 (vs - c) n)) /\
              (spec_accept vs c n = false -> kb' = kb).
Proof.
  intros kb vs c n HI Hn. pose proof HI as HI0.
  destruct HI as (Hk & Hvs & Hcc & H0 & HR).
  destruct (Z.eq_dec c 0) as [-> | Hc0].
  - (* empty window *)
    specialize (H0 eq_refl). unfold check_seq. rewrite H0. change (-1 =? -1) with true. cbv iota.
    exists kb. unfold spec_accept, d15. rewrite Z.sub_0_r.
    assert (E : (n =? vs) = ((n - vs) mod 32768 <=? 0)).
    { destruct (n =? vs) eqn:E1; [apply Z.eqb_eq in E1 | apply Z.eqb_neq in E1]; symmetry; [apply Z.leb_le | apply Z.leb_gt]; clear - Hvs Hn E1; lia. }
    rewrite E. split; [reflexivity|]. split; [|reflexivity].
    intros Hacc. apply Z.leb_le in Hacc.
    assert (D : (n - vs) mod 32768 = 0) by (clear - Hacc; lia). rewrite D. exact HI0.
  - assert (Hc : 1 <= c) by lia. specialize (HR Hc). destruct HR as (Ho & Hnew & Hsl).
    assert (Ha : slot kb (oldest kb) = (vs - c + 1) mod 32768).
    { rewrite <- (mod_small_idx (oldest kb) (maxk kb) Ho) at 1. rewrite (Hsl 0) by lia. f_equal. lia. }
    assert (Hb : slot kb (newest kb) = vs).
    { rewrite Hnew, (Hsl (c - 1)) by lia. replace (vs - c + 1 + (c - 1)) with vs by lia. apply Z.mod_small. exact Hvs. }
    unfold check_seq.
    assert (E1 : oldest kb =? -1 = false) by (apply Z.eqb_neq; lia). rewrite E1. cbv zeta. rewrite Ha, Hb.
    set (a := (vs - c + 1) mod 32768).
    destruct (accept_arith vs c n a Hvs ltac:(lia) Hn eq_refl) as (Hov & Hacc & Hzero & Hnowrap). cbv zeta in Hov, Hacc, Hzero.
    fold (spec_accept vs c n) in Hacc.
    (* split on the two-case test to expose ovf *)
    assert (Main : forall (v1 ovf : bool),
               (ovf = false -> a <= vs) ->
               (v1 || ((if a =? 0 then 32767 else Z.rem (a - 1) 32768) =? n))%bool = spec_accept vs c n ->
               exists kb', (if (v1 || ((if a =? 0 then 32767 else Z.rem (a - 1) 32768) =? n))%bool
                            then option_map (pair true) (loop (S (Z.to_nat (maxk kb))) kb n (if a =? 0 then 32767 else Z.rem (a - 1) 32768) ovf)
                            else Some (false, kb)) = Some (spec_accept vs c n, kb') /\
                           (spec_accept vs c n = true -> Inv kb' vs (c - d15 (vs - c) n)) /\
                           (spec_accept vs c n = false -> kb' = kb)).
    { intros v1 ovf Hovf Hv. rewrite Hv. destruct (spec_accept vs c n) eqn:SA.
      - (* accepted *)
        unfold spec_accept in SA. apply Z.leb_le in SA.
        set (d := d15 (vs - c) n) in *.
        assert (Hd0 : 0 <= d) by (unfold d, d15; apply Z.mod_pos_bound; lia).
        destruct (Z.eq_dec d 0) as [Ed | Ed].
        + (* N(R) acknowledges nothing new *)
          apply Hzero in Ed. exists kb. split.
          * cbn [loop]. rewrite (Z.eqb_sym n), Ed. destruct (negb ovf && (n <? slot kb (oldest kb)))%bool; reflexivity.
          * split; [|discriminate]. intros _. apply Hzero in Ed. fold d in Ed. rewrite Ed, Z.sub_0_r. exact HI0.
        + assert (Hd : 1 <= d <= c) by lia.
          pose proof (loop_spec (S (Z.to_nat (maxk kb))) kb vs c n ovf _ 0 d HI0 Hc Hov) as L. cbv zeta in L.
          assert (Hnd : n = (vs - c + d) mod 32768).
          { unfold d, d15. clear - Hvs Hn Hcc Hk. lia. }
          specialize (L Hnd Hd ltac:(lia)).
          assert (Hw : ovf = false -> (vs - c + 1) mod 32768 + c - 1 = vs) by (intros X; apply Hnowrap; apply Hovf; exact X).
          specialize (L Hw ltac:(clear - Hd Hcc Hk; lia)).
          rewrite (mod_small_idx _ _ Ho) in L.
          assert (Sk : set_oldest kb (oldest kb) = kb) by (destruct kb; reflexivity). rewrite Sk in L.
          rewrite L. cbn [option_map]. eexists. split; [reflexivity|]. split; [|discriminate]. intros _.
          destruct (d =? c) eqn:Edc; [apply Z.eqb_eq in Edc | apply Z.eqb_neq in Edc].
          * rewrite Edc, Z.sub_diag. unfold Inv. cbn [maxk oldest newest set_oldest].
            repeat split; try lia.
          * unfold Inv. cbn [maxk oldest newest set_oldest]. rewrite ?slot_set_oldest.
            assert (Hm : 0 < maxk kb) by lia.
            repeat split; try lia.
            -- rewrite Hnew, mod_add_mod by lia. f_equal. lia.
            -- intros j Hj. rewrite slot_set_oldest. rewrite mod_add_mod by lia.
               replace (oldest kb + d + j) with (oldest kb + (d + j)) by lia.
               rewrite (Hsl (d + j)) by lia. f_equal. lia.
      - exists kb. split; [reflexivity|]. split; [discriminate | reflexivity]. }
    destruct (a <=? vs) eqn:Eab; [apply Z.leb_le in Eab | apply Z.leb_gt in Eab].
    + apply Main; [intros _; exact Eab|]. rewrite <- Hacc. destruct (a <=? vs) eqn:X; [reflexivity | apply Z.leb_gt in X; lia].
    + apply Main; [discriminate|]. rewrite <- Hacc. destruct (a <=? vs) eqn:X; [apply Z.leb_le in X; lia | reflexivity].
Qed.

(* ---- sending: push keeps the invariant; the window is full exactly when it holds k frames *)
Definition InvL (kb : kbuf) (vs c : Z) : Prop := Inv kb vs c /\ Z.of_nat (length (slots kb)) = maxk kb.

Lemma upd_nth_length i v l : length (upd_nth i v l) = length l.
Proof. revert i; induction l as [|h t IH]; intros [|i]; cbn; auto. Qed.
Lemma nth_upd_same i v l : (i < length l)%nat -> nth i (upd_nth i v l) 0 = v.
Proof. revert i; induction l as [|h t IH]; intros [|i] H; cbn in *; try lia; auto. apply IH. lia. Qed.
Lemma nth_upd_other i j v l : i <> j -> nth j (upd_nth i v l) 0 = nth j l 0.
Proof. revert i j; induction l as [|h t IH]; intros [|i] [|j] H; cbn; auto; try congruence. Qed.

Lemma is_full_spec kb vs c : Inv kb vs c -> is_full kb = (c =? maxk kb).
Proof.
  intros (Hk & Hvs & Hcc & H0 & HR). unfold is_full.
  destruct (Z.eq_dec c 0) as [-> | Hc0].
  - rewrite (H0 eq_refl). change (-1 =? -1) with true. cbv iota. symmetry. apply Z.eqb_neq. lia.
  - destruct (HR ltac:(lia)) as (Ho & Hnew & _).
    assert (E : oldest kb =? -1 = false) by (apply Z.eqb_neq; lia). rewrite E.
    rewrite Hnew, mod_add_mod by lia. replace (oldest kb + (c - 1) + 1) with (oldest kb + c) by lia.
    destruct (c =? maxk kb) eqn:Ec; [apply Z.eqb_eq in Ec | apply Z.eqb_neq in Ec].
    + rewrite Ec. rewrite Z.add_mod, Z.mod_same, Z.add_0_r, Z.mod_mod, Z.mod_small by lia. apply Z.eqb_refl.
    + apply Z.eqb_neq. rewrite <- (mod_small_idx (oldest kb) (maxk kb) Ho) at 2.
      intros X. symmetry in X. revert X. apply ring_distinct; lia.
Qed.

Lemma Inv_intro kb vs c :
  1 <= maxk kb <= 32767 -> 0 <= vs < 32768 -> 1 <= c <= maxk kb ->
  0 <= oldest kb < maxk kb -> newest kb = (oldest kb + (c - 1)) mod maxk kb ->
  (forall j, 0 <= j < c -> slot kb ((oldest kb + j) mod maxk kb) = (vs - c + 1 + j) mod 32768) ->
  Inv kb vs c.
Proof. intros. unfold Inv. split; [assumption|]. split; [assumption|]. split; [lia|]. split; [intros; lia|]. intros _. auto. Qed.

Lemma push_inv kb vs c : InvL kb vs c -> c < maxk kb ->
  let vs' := (vs + 1) mod 32768 in InvL (push kb vs') vs' (c + 1).
Proof.
  intros [(Hk & Hvs & Hcc & H0 & HR) HL] Hlt vs'.
  assert (Hvs' : 0 <= vs' < 32768) by (unfold vs'; apply Z.mod_pos_bound; lia).
  unfold push. destruct (Z.eq_dec c 0) as [-> | Hc0].
  - rewrite (H0 eq_refl). change (-1 =? -1) with true. cbv iota. split; [|cbn [slots maxk]; rewrite upd_nth_length; exact HL].
    apply Inv_intro; cbn [maxk oldest newest]; try lia.
    + rewrite Z.add_0_l. symmetry. apply Z.mod_small. lia.
    + intros j Hj. assert (j = 0) by lia. subst j. rewrite Z.add_0_l, Z.mod_small by lia.
      unfold slot. cbn [slots Z.to_nat]. rewrite nth_upd_same by lia.
      replace (vs' - (0 + 1) + 1 + 0) with vs' by lia. symmetry. apply Z.mod_small. exact Hvs'.
  - destruct (HR ltac:(lia)) as (Ho & Hnew & Hsl).
    assert (E : oldest kb =? -1 = false) by (apply Z.eqb_neq; lia). rewrite E. cbv zeta.
    split; [|cbn [slots maxk]; rewrite upd_nth_length; exact HL].
    assert (Hi : (newest kb + 1) mod maxk kb = (oldest kb + c) mod maxk kb).
    { rewrite Hnew, mod_add_mod by lia. f_equal. lia. }
    apply Inv_intro; cbn [maxk oldest newest]; try lia.
    + rewrite Hi. f_equal. lia.
    + intros j Hj. unfold slot. cbn [slots]. rewrite Hi.
      destruct (Z.eq_dec j c) as [-> | Hjc].
      * rewrite nth_upd_same.
        -- replace (vs' - (c + 1) + 1 + c) with vs' by lia. symmetry. apply Z.mod_small. exact Hvs'.
        -- pose proof (Z.mod_pos_bound (oldest kb + c) (maxk kb) ltac:(lia)). lia.
      * rewrite nth_upd_other.
        -- fold (slot kb ((oldest kb + j) mod maxk kb)). rewrite (Hsl j) by lia. unfold vs'. clear - Hvs. lia.
        -- intros X. apply Z2Nat.inj in X; try (apply Z.mod_pos_bound; lia).
           symmetry in X. revert X. apply ring_distinct; lia.
Qed.

Lemma Inv_empty k : 1 <= k <= 32767 -> forall vs, 0 <= vs < 32768 -> InvL (kempty k) vs 0.
Proof.
  intros Hk vs Hvs. split; [|cbn [kempty slots maxk]; rewrite repeat_length; lia].
  unfold Inv. cbn [kempty maxk oldest]. repeat split; try lia.
Qed.

(* ---- every history of sends and received acknowledgements *)
Inductive kop := KSend | KAck (n : Z).
Definition kstep (s : kbuf * Z) (o : kop) : option (kbuf * Z) :=
  let '(kb, vs) := s in
  match o with
  | KSend => if is_full kb then Some (kb, vs)                 (* refused / deferred: nothing changes *)
             else let vs' := (vs + 1) mod 32768 in Some (push kb vs', vs')
  | KAck n => match check_seq kb vs (n mod 32768) with
              | Some (true, kb') => Some (kb', vs)
              | _ => None                                       (* connection closed *)
              end
  end.
Fixpoint krun (s : kbuf * Z) (ops : list kop) : option (kbuf * Z) :=
  match ops with
  | [] => Some s
  | o :: rest => match kstep s o with Some s' => krun s' rest | None => None end
  end.

Lemma check_seq_len kb vs n b kb' : check_seq kb vs n = Some (b, kb') -> slots kb' = slots kb /\ maxk kb' = maxk kb.
Proof.
  unfold check_seq. destruct (oldest kb =? -1); [intros H; inversion H; auto|].
  cbv zeta. destruct (if slot kb (oldest kb) <=? slot kb (newest kb) then _ else _) as [v1 ovf].
  destruct (v1 || _)%bool; [|intros H; inversion H; auto].
  generalize (S (Z.to_nat (maxk kb))). intros fuel.
  assert (G : forall fuel k0 n ov ovf k1, loop fuel k0 n ov ovf = Some k1 -> slots k1 = slots k0 /\ maxk k1 = maxk k0).
  { induction fuel0 as [|f IH]; intros k0 n0 ov0 ovf0 k1 H; cbn [loop] in H; [discriminate|].
    destruct (negb ovf0 && _)%bool; [inversion H; auto|].
    destruct (n0 =? ov0); [inversion H; auto|].
    destruct (slot k0 (oldest k0) =? n0); [inversion H; destruct (oldest k0 =? newest k0); auto|].
    destruct (_ =? _); [inversion H; auto|].
    apply IH in H. cbn [set_oldest slots maxk] in H. exact H. }
  destruct (loop fuel kb n _ ovf) eqn:L; cbn [option_map]; intros H; inversion H; subst. eapply G; eauto.
Qed.

Theorem krun_inv : forall ops kb vs c, InvL kb vs c ->
  match krun (kb, vs) ops with
  | Some (kb', vs') => exists c', InvL kb' vs' c' /\ 0 <= c' <= maxk kb'
  | None => True
  end.
Proof.
  induction ops as [|o ops IH]; intros kb vs c HI.
  - cbn [krun]. exists c. split; [exact HI|]. destruct HI as [(_ & _ & Hc & _) _]. exact Hc.
  - cbn [krun kstep]. destruct o as [|n].
    + rewrite (is_full_spec kb vs c (proj1 HI)).
      destruct (c =? maxk kb) eqn:E; [apply (IH kb vs c HI)|].
      apply Z.eqb_neq in E. apply (IH _ _ (c + 1)). apply push_inv; [exact HI|].
      destruct HI as [(_ & _ & Hc & _) _]. lia.
    + assert (Hn : 0 <= n mod 32768 < 32768) by (apply Z.mod_pos_bound; lia).
      destruct (check_seq_spec kb vs c (n mod 32768) (proj1 HI) Hn) as (kb' & E & Ht & Hf).
      rewrite E. destruct (spec_accept vs c (n mod 32768)) eqn:SA; [|exact I].
      apply (IH kb' vs (c - d15 (vs - c) (n mod 32768))). split; [apply Ht; reflexivity|].
      destruct (check_seq_len _ _ _ _ _ E) as [E1 E2]. rewrite E1, E2. exact (proj2 HI).
Qed.
