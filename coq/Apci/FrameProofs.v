From Coq Require Import ZArith List Bool Lia.
From L60870 Require Import Base.Sweep Apci.Frame.
Import ListNotations.
Local Open Scope Z_scope.
Ltac Zify.zify_post_hook ::= Z.div_mod_to_equations.

Definition seqno (n : Z) : Prop := 0 <= n < 32768.

Lemma land254_even : forall m, 0 <= m < 128 -> Z.land (m * 2) 254 = m * 2 /\ Z.land (m * 2) 1 = 0.
Proof.
  assert (S : forall m, 0 <= m < 128 -> Z.land (m * 2) 254 = m * 2) by sweep.
  assert (T : forall m, 0 <= m < 128 -> Z.land (m * 2) 1 = 0) by sweep.
  intros m H. split; [apply S | apply T]; exact H.
Qed.

Lemma lo_byte n : seqno n -> ((n mod 128) * 2) mod 256 = (n mod 128) * 2.
Proof. unfold seqno. intros H. apply Z.mod_small. lia. Qed.
Lemma hi_byte n : seqno n -> (n / 128) mod 256 = n / 128.
Proof. unfold seqno. intros H. apply Z.mod_small. lia. Qed.

Lemma dec_pair n : seqno n -> Z.quot ((n / 128) * 256 + Z.land ((n mod 128) * 2) 254) 2 = n.
Proof.
  intros H. destruct (land254_even (n mod 128) ltac:(unfold seqno in H; lia)) as [E _]. rewrite E.
  unfold seqno in H. rewrite Z.quot_div_nonneg by lia. lia.
Qed.

(* decoding what was encoded gives the counters back *)
Lemma dec_enc_i ns nr a : seqno ns -> seqno nr ->
  ns_dec (enc_i ns nr a) = ns /\ nr_dec (enc_i ns nr a) = nr /\ is_iframe (enc_i ns nr a) = true.
Proof.
  intros Hs Hr. unfold ns_dec, nr_dec, is_iframe, enc_i. cbn [app nth].
  rewrite !lo_byte, !hi_byte by assumption. rewrite !dec_pair by assumption.
  destruct (land254_even (ns mod 128) ltac:(unfold seqno in Hs; lia)) as [_ E]. rewrite E. auto.
Qed.

Lemma dec_enc_s nr : seqno nr -> nr_dec (enc_s nr) = nr /\ is_sframe (enc_s nr) = true /\ is_iframe (enc_s nr) = false.
Proof.
  intros Hr. unfold nr_dec, is_sframe, is_iframe, enc_s. cbn [nth].
  rewrite lo_byte, hi_byte by assumption. rewrite dec_pair by assumption. auto.
Qed.

(* everything the station writes is a well-formed APDU (ASDU of 1..249 octets) *)
Lemma wf_enc_i ns nr a : seqno ns -> seqno nr -> 1 <= zlen a <= 249 -> wf_apdu (enc_i ns nr a) = true.
Proof.
  intros Hs Hr Ha. unfold wf_apdu, enc_i. cbn [app].
  rewrite !lo_byte, !hi_byte by assumption.
  rewrite (Z.mod_small (6 + zlen a - 2)) by lia.
  destruct (land254_even (ns mod 128) ltac:(unfold seqno in Hs; lia)) as [_ E1].
  destruct (land254_even (nr mod 128) ltac:(unfold seqno in Hr; lia)) as [_ E2].
  rewrite E1, E2. change (0 =? 0) with true. change (104 =? 104) with true. cbn [andb].
  repeat (apply andb_true_intro; split); try reflexivity; try (apply Z.eqb_eq; lia); try (apply Z.leb_le; lia).
Qed.

Lemma wf_enc_s nr : seqno nr -> wf_apdu (enc_s nr) = true.
Proof.
  intros Hr. unfold wf_apdu, enc_s. rewrite lo_byte, hi_byte by assumption.
  destruct (land254_even (nr mod 128) ltac:(unfold seqno in Hr; lia)) as [_ E2]. rewrite E2. reflexivity.
Qed.

Lemma wf_enc_u c : u_ok c = true -> wf_apdu (enc_u c) = true.
Proof.
  unfold u_ok. intros H. repeat (apply orb_prop in H; destruct H as [H | H]); apply Z.eqb_eq in H; subst; reflexivity.
Qed.

(* ---- the counters along any history *)
Definition ev_ok (e : sev) : Prop :=
  match e with ESendI a => 1 <= zlen a <= 249 | ESendU c => u_ok c = true | _ => True end.

Lemma run_wf : forall es s, seqno (vs s) -> seqno (vr s) -> Forall ev_ok es ->
  Forall (fun f => wf_apdu f = true) (sq_run s es).
Proof.
  induction es as [|e es IH]; intros s Hs Hr Hok; [constructor|].
  inversion Hok as [|x l He Hes]; subst. cbn [sq_run]. destruct e; cbn [sq_step]; cbn [app].
  - constructor; [apply wf_enc_i; assumption|]. apply IH; cbn [vs vr]; try assumption. apply Z.mod_pos_bound; lia.
  - constructor; [apply wf_enc_s; assumption|]. apply IH; assumption.
  - constructor; [apply wf_enc_u; exact He|]. apply IH; assumption.
  - apply IH; cbn [vs vr]; try assumption. apply Z.mod_pos_bound; lia.
Qed.

(* N(S) of the I-frames sent: vs0, vs0+1, ... (mod 2^15); N(R) of every I/S frame: vr0 + accepted so far *)
Fixpoint expect_ns (v : Z) (fs : list (list Z)) : Prop :=
  match fs with
  | [] => True
  | f :: r => if is_iframe f then ns_dec f = v /\ expect_ns ((v + 1) mod 32768) r else expect_ns v r
  end.

Lemma u_ok_odd c : u_ok c = true -> Z.land c 1 =? 0 = false.
Proof.
  unfold u_ok. intros H. repeat (apply orb_prop in H; destruct H as [H | H]); apply Z.eqb_eq in H; subst; reflexivity.
Qed.

Lemma run_ns : forall es s, seqno (vs s) -> seqno (vr s) -> Forall ev_ok es -> expect_ns (vs s) (sq_run s es).
Proof.
  induction es as [|e es IH]; intros s Hs Hr Hok; [exact I|].
  inversion Hok as [|x l He Hes]; subst.
  cbn [sq_run]. destruct e; cbn [sq_step app].
  - cbn [expect_ns]. destruct (dec_enc_i (vs s) (vr s) asdu Hs Hr) as (E1 & _ & E3). rewrite E3. split; [exact E1|].
    apply (IH {| vs := (vs s + 1) mod 32768; vr := vr s |}); cbn [vs vr]; [apply Z.mod_pos_bound; lia | exact Hr | exact Hes].
  - cbn [expect_ns]. destruct (dec_enc_s (vr s) Hr) as (_ & _ & E). rewrite E. apply IH; assumption.
  - cbn [expect_ns]. unfold is_iframe, enc_u. cbn [nth]. rewrite (u_ok_odd c He). apply IH; assumption.
  - apply (IH {| vs := vs s; vr := (vr s + 1) mod 32768 |}); cbn [vs vr]; [exact Hs | apply Z.mod_pos_bound; lia | exact Hes].
Qed.

(* N(R) carried by every I- and S-frame = vr0 + number of I-frames accepted before it (mod 2^15) *)
Fixpoint nr_trace (s : sq) (es : list sev) : list (Z * Z) :=      (* (N(R) on the wire, value of V(R) at that moment) *)
  match es with
  | [] => []
  | e :: rest =>
    let '(s', out) := sq_step s e in
    match e with
    | ESendI _ | ESendS => map (fun f => (nr_dec f, vr s)) out ++ nr_trace s' rest
    | _ => nr_trace s' rest
    end
  end.

Lemma run_nr : forall es s, seqno (vs s) -> seqno (vr s) -> Forall (fun p => fst p = snd p) (nr_trace s es).
Proof.
  induction es as [|e es IH]; intros s Hs Hr; [constructor|].
  cbn [nr_trace]. destruct e; cbn [sq_step map app].
  - constructor; [cbn [fst snd]; apply (dec_enc_i (vs s) (vr s) asdu Hs Hr)|].
    apply (IH {| vs := (vs s + 1) mod 32768; vr := vr s |}); cbn [vs vr]; [apply Z.mod_pos_bound; lia | exact Hr].
  - constructor; [cbn [fst snd]; apply (dec_enc_s (vr s) Hr)|]. apply IH; assumption.
  - apply IH; assumption.
  - apply (IH {| vs := vs s; vr := (vr s + 1) mod 32768 |}); cbn [vs vr]; [exact Hs | apply Z.mod_pos_bound; lia].
Qed.

Lemma vr_after : forall es s, seqno (vr s) ->
  vr (fold_left (fun st e => fst (sq_step st e)) es s) = (vr s + count_accept es) mod 32768.
Proof.
  induction es as [|e es IH]; intros s Hr; cbn [fold_left count_accept].
  - rewrite Z.add_0_r. symmetry. apply Z.mod_small. exact Hr.
  - destruct e; cbn [sq_step fst]; try (rewrite IH by (cbn [vr]; assumption); cbn [vr]; reflexivity).
    rewrite IH by (cbn [vr]; apply Z.mod_pos_bound; lia). cbn [vr].
    rewrite Zplus_mod_idemp_l. f_equal. lia.
Qed.

Lemma vs_after : forall es s, seqno (vs s) ->
  vs (fold_left (fun st e => fst (sq_step st e)) es s) = (vs s + count_sendi es) mod 32768.
Proof.
  induction es as [|e es IH]; intros s Hr; cbn [fold_left count_sendi].
  - rewrite Z.add_0_r. symmetry. apply Z.mod_small. exact Hr.
  - destruct e; cbn [sq_step fst]; try (rewrite IH by (cbn [vs]; assumption); cbn [vs]; reflexivity).
    rewrite IH by (cbn [vs]; apply Z.mod_pos_bound; lia). cbn [vs].
    rewrite Zplus_mod_idemp_l. f_equal. lia.
Qed.
