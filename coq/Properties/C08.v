(* C08 -- redundancy groups: one active connection per group, correct admission (Cs104/Groups.v). *)
From Coq Require Import ZArith List Bool.
From L60870 Require Import Cs104.Groups Cs104.GroupsProofs.
Import ListNotations.
Local Open Scope Z_scope.

(* a connection is attached to the FIRST group that lists its address ... *)
Theorem C08_listed_group : forall gs a idx ca pre g post,
  gs = pre ++ g :: post -> g_matches g a = true -> Forall (fun x => g_matches x a = false) pre ->
  match_group gs a idx ca = Some (idx + Z.of_nat (length pre)).
Proof. exact match_group_listed. Qed.
(* ... otherwise to the (last) catch-all group ... *)
Theorem C08_catch_all : forall gs a idx ca, Forall (fun x => g_matches x a = false) gs ->
  match_group gs a idx ca =
  match filter (fun p => g_catchall (snd p)) (combine (map (fun n => idx + Z.of_nat n) (seq 0 (length gs))) gs) with
  | [] => ca
  | l => Some (fst (last l (0, {| g_allowed := None |})))
  end.
Proof. exact match_group_unlisted. Qed.
(* ... otherwise it is not admitted *)
Theorem C08_no_group_refused : forall gs a idx,
  Forall (fun x => g_matches x a = false) gs -> Forall (fun x => g_catchall x = false) gs -> match_group gs a idx None = None.
Proof. exact match_group_none. Qed.

(* not admitted while the configured open-connection limit is reached, nor when the callback says no *)
Theorem C08_limit : forall mode gs maxopen opencnt reqret free peer,
  1 <= maxopen <= opencnt -> admission mode gs maxopen opencnt reqret free peer = None.
Proof. exact admission_limit. Qed.
Theorem C08_callback_refuses : forall mode gs maxopen opencnt free peer, admission mode gs maxopen opencnt false free peer = None.
Proof. exact admission_callback_refuses. Qed.
Theorem C08_multi_group_admission : forall mode gs maxopen opencnt peer, mode = MULTI -> (1 <=? maxopen) && (maxopen <=? opencnt) = false ->
  admission mode gs maxopen opencnt true true peer = match_group gs (parse_ip (peer_ip peer)) 0 None.
Proof. exact admission_multi. Qed.

(* after STARTDT act on slot i no OTHER connection of the same group is started (single group: any other) *)
Theorem C08_one_active : forall mode l i me k x,
  nth_error l i = Some me -> nth_error (activate mode l i) k = Some x -> k <> i ->
  s_used x = true -> same_group mode me x = true -> s_st x <> STARTED.
Proof. exact one_active_after_startdt. Qed.

(* connection-is-group mode: other connections are untouched by a STARTDT *)
Theorem C08_independent : forall l i me k, nth_error l i = Some me -> k <> i ->
  nth_error (activate CONN_IS_GROUP l i) k = nth_error l k.
Proof. exact conn_is_group_independent. Qed.

(* the address parser: dotted IPv4 and full-form IPv6 write every octet; a compressed IPv6 form does not
   (the remaining octets stay uninitialised in the C struct, so equality with it is unpredictable) *)
Example C08_parse_examples :
  parse_ip [49;48;46;48;46;48;46;53] = IP4 [Some 10; Some 0; Some 0; Some 5] /\
  (exists l, parse_ip [58;58;49] = IP6 l /\ In None l).
Proof. split; [vm_compute; reflexivity | eexists; split; [vm_compute; reflexivity | cbn; auto 20]]. Qed.
