(* C10 -- no peer input can crash, corrupt or wedge a protocol stack.
   Memory safety of the C code is a run-time matter (sanitizer builds of the real stacks under grammar / mutation /
   random input: pylib/props/c10.py).  What the models can carry is proved here for ALL inputs and histories:
   every index the receive paths compute stays inside the fixed-size storage, decoders and dispatchers are total and
   never hand on an object that is not completely inside the received octets, and a protocol error has no effect
   other than closing the connection (CS104) or ignoring the frame (CS101).  Every model used here is executed
   against the real code on every run by the check that owns it (C02 C04 C05 C07 C09 C14). *)
From Coq Require Import ZArith List Bool String.
From L60870 Require Import Apci.Reasm Apci.ReasmProofs Apci.KBuf Apci.KBufProofs Apci.BoundsProofs.
From L60870 Require Import Apci.Frame Cs104.Server Cs104.ServerProofs Cs104.MsgQueue Cs104.HpRingProofs Cs104.MqRingProofs.
From L60870 Require Import Link.Ft12 Link.Ft12Proofs Link.LinkSec Link.LinkPrim Link.LinkProofs.
From L60870 Require Import Asdu.Layout Asdu.Codec Asdu.CodecProofs.
From L60870 Require Import Dispatch.DispatchBase Dispatch.Dispatch104 Dispatch.Dispatch101 Dispatch.DispatchSpec Dispatch.DispatchProofs Dispatch.Builders Dispatch.BuildersProofs.
Import ListNotations.
Local Open Scope Z_scope.

(* CS104 receive buffer (260 octets): in every state reachable by feeding ANY octets in ANY segmentation the write
   position is at most 256 and the frame being assembled ends at octet L + 2 <= 257 *)
Theorem C10_rx_buffer_bounded : forall chunks acc' st', Forall bytes_ok chunks ->
  feed rinit chunks [] = (acc', Open st') ->
  0 <= rpos st' <= 256 /\ (2 <= rpos st' -> rpos st' < nth 1 (rbuf st') 0 + 2 <= 257).
Proof. exact rx_in_buffer. Qed.

(* ... and everything handed to message handling is one delimited APDU (68 L + L octets) *)
Theorem C10_rx_frames_delimited : forall bs st acc, WF st -> Forall framed acc -> Forall framed (fst (bytes_run st bs acc)).
Proof. exact bytes_run_framed. Qed.

(* k-buffer ring: along every history of sends and acknowledgements (valid or not) the invariant holds, at most k
   entries are outstanding and the ring indices address slots of the array *)
Theorem C10_kbuf_history : forall ops kb vs c, InvL kb vs c ->
  match krun (kb, vs) ops with
  | Some (kb', vs') => exists c', InvL kb' vs' c' /\ 0 <= c' <= maxk kb'
  | None => True
  end.
Proof. exact krun_inv. Qed.
Theorem C10_kbuf_indices : forall kb vs c, Inv kb vs c -> 1 <= c ->
  0 <= oldest kb < maxk kb /\ 0 <= newest kb < maxk kb.
Proof. exact kbuf_indices_in_range. Qed.

(* the two queue rings of the server (event queue, high-priority queue): along every history no header is read where no
   live entry starts, and every live entry lies inside its arena *)
Theorem C10_event_ring_no_stale_read : forall n ops, 1 <= n -> 1 + Z.of_nat (List.length ops) < TWO64 - 1 ->
  exists q' outs l', mq_run (mq_new n) [] ops = MsgQueue.Ok (q', outs) /\ MQInv q' l'.
Proof. intros n ops Hn Hl. apply (mq_no_fault ops (mq_new n) [] []); [apply MQInv_new; exact Hn | constructor | exact Hl]. Qed.
Theorem C10_event_ring_in_arena : forall q l p, MQInv q l -> In p l -> 0 <= fst p /\ fst p + MqRingProofs.esz (snd p) <= qsize q.
Proof. exact mq_entries_in_arena. Qed.
Theorem C10_response_ring_no_stale_read : forall n ops, 1 <= n ->
  exists q' outs accs, hp_run (hp_new n) ops = MsgQueue.Ok (q', outs) /\ outs = fifo_run [] ops accs /\ List.length accs = List.length ops.
Proof. intros n ops H. apply hp_refines_fifo. apply HPInv_new. exact H. Qed.

(* CS104 protocol errors close the offending connection and produce nothing else *)
Theorem C10_i_frame_when_not_started_closes : forall g now s c f,
  Z.land (nth 2 f 0) 1 =? 0 = true -> st c =? STARTED = false ->
  let r := handle_message g now s c f in res_ok r = false /\ res_obs r = [].
Proof. exact i_not_started_closes. Qed.
Theorem C10_i_frame_wrong_sequence_closes : forall g now s c f,
  Z.land (nth 2 f 0) 1 =? 0 = true -> ns_dec f =? vr c = false ->
  let r := handle_message g now s c f in res_ok r = false /\ res_obs r = [].
Proof. exact i_wrong_ns_closes. Qed.

(* FT 1.2: whatever the transceiver hands to the link layer has one of the three shapes with the announced size;
   a well-formed frame has at most 261 octets (the frame buffers have 261 / 300) *)
Theorem C10_ft12_delimited_shape : forall alen rx m rest, read_next alen rx = (Some m, rest) ->
  m = [229] \/ (Ft12.nthz m 0 = 16 /\ Ft12.lenz m = 4 + alen) \/ (Ft12.nthz m 0 = 104 /\ Ft12.lenz m = Ft12.nthz m 1 + 6).
Proof. exact read_next_shape. Qed.
Theorem C10_ft12_frame_size : forall alen f, 0 <= alen <= 2 -> wf_frame alen f -> 1 <= Ft12.lenz f <= 261.
Proof. exact wf_frame_length. Qed.

(* CS101: a frame the parser rejects is never answered and never passed on, in any state *)
Theorem C10_link_reject_silent_unbalanced_slave : forall v c now s msg,
  (forall fc bc fcb fcv uds udl, parse_su (ff v) (alen c) (su_addr s) msg <> SuOk fc bc fcb fcv uds udl) ->
  silent (snd (su_on_msg v c now s msg)).
Proof. exact su_reject_silent. Qed.
Theorem C10_link_reject_silent_balanced : forall v c now b msg, parse_bp (ff v) (alen c) msg = BpDrop -> bal_on_msg v c now b msg = (b, []).
Proof. exact bal_reject_silent. Qed.
Theorem C10_link_reject_silent_unbalanced_master : forall v c now p msg, parse_bp (ff v) (alen c) msg = BpDrop -> pu_on_msg v c now p msg = (p, []).
Proof. exact pu_reject_silent. Qed.
(* accepted user data is an octet range of the received frame *)
Theorem C10_link_indicated_data_inside_frame : forall v c now s msg bc d, In (OInd bc d) (snd (su_on_msg v c now s msg)) ->
  exists fc fcb fcv uds udl, parse_su (ff v) (alen c) (su_addr s) msg = SuOk fc bc fcb fcv uds udl /\ d = user_data msg uds udl.
Proof. exact su_ind_data. Qed.

(* ASDU decoding is total for every type, index and truncation: the answer is "no object" or an object, never a fault;
   an object is returned only when it lies completely inside the supplied octets (C02_exact) *)
Theorem C10_decoder_total : forall tbl a msg idx, ioa_ok a -> 0 <= idx ->
  (forall r, find_row tbl (msg_type msg) = Some r -> row_dec_okb r = true) ->
  exists res, get_element tbl a msg idx = Ok res.
Proof. exact get_element_total. Qed.

(* a truncated command never reaches a command-specific application callback (both slaves) *)
Theorem C10_truncated_command_not_delivered_104 : forall p hs a rw, table R104 (tid a) = Some rw -> dec p (r_body rw) (payload a) = None ->
  count is_specific_call (dispatch104 p hs a) = 0.
Proof. exact dispatch104_truncated. Qed.
Theorem C10_truncated_command_not_delivered_101 : forall p hs a rw, table R101 (tid a) = Some rw -> dec p (r_body rw) (payload a) = None ->
  count is_specific_call (dispatch101 p hs a) = 0.
Proof. exact dispatch101_truncated. Qed.

(* non-vacuity: a stream cut inside the APCI leaves the receiver waiting inside the buffer *)
Example C10_example :
  exists acc st', feed rinit [[104; 14; 0]; [0; 0; 0; 100]] [] = (acc, Open st') /\ rpos st' = 7.
Proof. eexists. eexists. vm_compute. split; reflexivity. Qed.
