(* C18 -- connection lifecycle, accounting and event notifications of the CS104 server (Cs104/Lifecycle.v).
   `reach n fx ops` is the state after the operation sequence `ops` (create / start / stop / destroy / connect /
   input / peer close / write failure / request refused / application close / tick, in any order and number)
   from the initial state with a connection table of n slots; fx selects the variant with the proposed fix
   C18-null-free-connection.  Events: 0 OPENED, 1 CLOSED, 2 ACTIVATED, 3 DEACTIVATED.
   phase_of log id folds the grammar  PNone -OPENED-> PStopped -ACTIVATED-> PStarted -DEACTIVATED-> PStopped,
   PStopped|PStarted -CLOSED-> PClosed, everything else -> PErr  over the events reported for connection id.
   Not covered by these theorems (searched on the real code by pylib/props/c18.py): the client, the threaded
   server, timers / I-frames / event queues, and the release of memory. *)
From Coq Require Import ZArith List Bool.
From L60870 Require Import Cs104.Lifecycle Cs104.LifecycleProofs.
Import ListNotations.
Local Open Scope Z_scope.

(* after every step the reported number of open connections is the number of slots in use *)
Theorem C18_accounting : forall n fx ops, v_open (reach n fx ops) = count_used (v_slots (reach n fx ops)).
Proof. exact accounting. Qed.

(* per connection: OPENED first and once, CLOSED at most once and last, ACTIVATED / DEACTIVATED alternate *)
Theorem C18_event_grammar : forall n fx ops id, phase_of (v_log (reach n fx ops)) id <> PErr.
Proof. exact grammar. Qed.

(* an open connection has been reported OPENED and not CLOSED; it is in state STARTED only if the last report was
   ACTIVATED, and while it is running exactly if *)
Theorem C18_state_matches_events : forall n fx ops x, let s := reach n fx ops in
  In x (v_slots s) -> c_used x = true ->
  (phase_of (v_log s) (c_sid x) = PStopped \/ phase_of (v_log s) (c_sid x) = PStarted) /\
  (c_st x = 1 -> phase_of (v_log s) (c_sid x) = PStarted) /\
  (c_run x = true -> (c_st x = 1 <-> phase_of (v_log s) (c_sid x) = PStarted)).
Proof. exact state_matches_events. Qed.

(* STARTDT act on an open, running connection: state STARTED, last report ACTIVATED *)
Theorem C18_startdt_handled : forall s i x, Inv s -> nth_error (v_slots s) i = Some x -> c_used x = true -> c_run x = true ->
  mem (c_sid x) (v_wfail s) = false ->          (* STARTDT con could be written; otherwise the connection ends, not activated *)
  let s' := handle_msg i (c_sid x) MStart s in
  exists x', nth_error (v_slots s') i = Some x' /\ c_st x' = 1 /\ c_sid x' = c_sid x /\
             phase_of (v_log s') (c_sid x) = PStarted.
Proof. exact startdt_handled. Qed.
(* STOPDT act: state STOPPED, the connection is reported not active *)
Theorem C18_stopdt_handled : forall s i x, Inv s -> nth_error (v_slots s) i = Some x -> c_used x = true -> c_run x = true ->
  mem (c_sid x) (v_wfail s) = false ->
  let s' := handle_msg i (c_sid x) MStop s in
  exists x', nth_error (v_slots s') i = Some x' /\ c_st x' = 0 /\ c_sid x' = c_sid x /\
             phase_of (v_log s') (c_sid x) = PStopped.
Proof. exact stopdt_handled. Qed.
(* every reachable state satisfies the invariant the two statements above start from *)
Theorem C18_reachable_inv : forall n fx ops, Inv (reach n fx ops).
Proof. exact reachable_inv. Qed.

(* no two slots hold the same connection *)
Theorem C18_distinct_connections : forall n fx ops, NoDup (used_ids (reach n fx ops)).
Proof. exact distinct_connections. Qed.

(* a connection that leaves the table while the server keeps running (any operation but stop / destroy) was reported
   CLOSED, nothing was reported after it, and its socket was destroyed *)
Theorem C18_closed_reported : forall n fx ops o id, let s := reach n fx ops in
  o <> OStop -> o <> ODestroy -> In id (used_ids s) -> ~ In id (used_ids (step s o)) ->
  phase_of (v_log (step s o)) id = PClosed /\ In id (v_dead (step s o)).
Proof. exact closed_when_released. Qed.

(* stop and destroy: no slot in use, counter 0, the socket of every open connection destroyed, nothing reported *)
Theorem C18_stop_closes_all : forall n fx ops o, let s := reach n fx ops in
  v_crashed s = false -> o = OStop \/ o = ODestroy ->
  used_ids (step s o) = [] /\ v_open (step s o) = 0 /\ Forall (fun x => c_used x = false) (v_slots (step s o)) /\
  (forall id, In id (used_ids s) -> In id (v_dead (step s o))) /\ v_log (step s o) = v_log s.
Proof. exact stop_closes_all. Qed.

(* slots are reusable: with a running server, a pending connection, the limit not reached, the application and the group
   configuration admitting it and fewer slots in use than the table has, the next tick opens the pending connection *)
Theorem C18_slot_reuse : forall n fx ops id g rest, let s := reach n fx ops in
  v_exists s = true -> v_crashed s = false -> v_running s = true -> v_backlog s = (id, g) :: rest -> v_reqret s = true ->
  (v_maxopen s <? 1) || (v_open s <? v_maxopen s) = true -> (v_mode s = LMulti -> g <> None) ->
  count_used (v_slots s) < Z.of_nat (length (v_slots s)) ->
  let a := accept_step s in
  v_open a = v_open s + 1 /\ v_log a = v_log s ++ [(id, 0)] /\ In id (used_ids a) /\ v_backlog a = rest /\
  tick s = handle_clients a /\ exists l, v_log (tick s) = v_log s ++ (id, 0) :: l.
Proof. exact accept_reuses_slot. Qed.

(* nothing is ever reported for a connection that is neither open nor pending (after CLOSED, after stop, after a refusal) *)
Theorem C18_silent_when_not_open : forall n fx ops more id, let s := reach n fx ops in
  id < v_next s -> ~ In id (used_ids s) -> ~ In id (backlog_ids s) ->
  events_of id (v_log (run_ops s more)) = events_of id (v_log s).
Proof. exact silent_when_not_open. Qed.

(* every connection ever attempted is pending, or open in a slot, or its socket was destroyed -- exactly one of the three *)
Theorem C18_sockets_accounted : forall n fx ops id, let s := reach n fx ops in
  (0 <= id < v_next s ->
     (In id (backlog_ids s) /\ ~ In id (used_ids s) /\ ~ In id (v_dead s)) \/
     (~ In id (backlog_ids s) /\ In id (used_ids s) /\ ~ In id (v_dead s)) \/
     (~ In id (backlog_ids s) /\ ~ In id (used_ids s) /\ In id (v_dead s))) /\
  (~ (0 <= id < v_next s) -> ~ In id (backlog_ids s) /\ ~ In id (used_ids s) /\ ~ In id (v_dead s)).
Proof. exact sockets_accounted. Qed.

(* the accept path never works on a NULL connection: with the proposed fix, and without it as long as every
   configured open-connection limit is at least 1 *)
Theorem C18_no_null_connection_fixed : forall n ops, v_crashed (reach n true ops) = false.
Proof. exact no_crash_when_fixed. Qed.
Theorem C18_no_null_connection_limited : forall n fx ops, (1 <= n)%nat -> Forall limited_op ops -> v_crashed (reach n fx ops) = false.
Proof. exact no_crash_with_limit. Qed.
(* the code as it was: CS104_Slave_setMaxOpenConnections(slave, 0) ("no limit"), CONNECTION_IS_REDUNDANCY_GROUP, a full
   table and one more connection: `connection->lowPrioQueue` with connection == NULL *)
Theorem C18_null_connection_refuted : exists n ops, v_crashed (reach n false ops) = true.
Proof. exact null_connection_refuted. Qed.

(* the hypotheses are inhabited: two connections opened, started in turn (the first is deactivated), one closed by its
   peer, stop; and a slot reused under an open-connection limit of 1 *)
Example C18_example_lifecycle :
  let ops := [OCreate LSingle None; OStart; OConnect (Some 0); OConnect (Some 0); OTick; OTick;
              OFeed 0 MStart; OTick; OFeed 1 MStart; OTick; OFeed 1 MStop; OTick; OPeerClose 0; OTick; OTick; OStop] in
  let s := reach 3 false ops in
  v_log s = [(0, 0); (1, 0); (0, 2); (0, 3); (1, 2); (1, 3); (0, 1)] /\ v_open s = 0 /\ v_dead s = [1; 0] /\
  phase_of (v_log s) 0 = PClosed /\ phase_of (v_log s) 1 = PStopped.
Proof. exact ex_lifecycle. Qed.
Example C18_example_reuse :
  let ops := [OCreate LConn (Some 1); OStart; OConnect (Some 0); OTick; OConnect (Some 0); OTick; OAppClose 0; OTick; OTick] in
  let s := reach 1 false ops in
  v_log s = [(0, 0); (0, 1); (1, 0)] /\ v_open s = 1 /\ used_ids s = [1].
Proof. exact ex_reuse. Qed.
