(* C19 -- time tags, counters and scaled/normalised values are lossless field records.
   Only statements here; every c_* below is regenerated from /repo on each run. *)
From Coq Require Import ZArith List Bool.
From L60870 Require Import Base.CInt Time.FloatPrims Time.C19Frames Time.C19Time Time.C19Scaled Time.C19Clamp
     gen.GenTime gen.GenBcr gen.GenIO gen.GenFloat.
Import ListNotations.
Local Open Scope Z_scope.

(* ms timestamp -> CP56Time2a -> ms timestamp, every instant of 2000-01-01 .. 2099-12-31, any initial buffer *)
Theorem C19_time_roundtrip : forall l t, rec_ok 7 l -> 946684800000 <= t < 4102444800000 ->
  c_CP56Time2a_toMsTimestamp (c_CP56Time2a_setFromMsTimestamp l t) = t.
Proof. exact time_roundtrip. Qed.

(* CP56Time2a: each setter changes its own field of the full field list and nothing else *)
Theorem C19_frame_cp56 : forall l, rec_ok 7 l -> c_CP56Time2a_getSecond l <= 59 ->
  (forall v, 0 <= v < 1000 -> fields56 (c_CP56Time2a_setMillisecond l v) = upd 0 v (fields56 l)) /\
  (forall v, 0 <= v < 60 -> fields56 (c_CP56Time2a_setSecond l v) = upd 1 v (fields56 l)) /\
  (forall v, 0 <= v < 60 -> fields56 (c_CP56Time2a_setMinute l v) = upd 2 v (fields56 l)) /\
  (forall v, 0 <= v < 2 -> fields56 (c_CP56Time2a_setSubstituted l v) = upd 3 v (fields56 l)) /\
  (forall v, 0 <= v < 2 -> fields56 (c_CP56Time2a_setInvalid l v) = upd 4 v (fields56 l)) /\
  (forall v, 0 <= v < 24 -> fields56 (c_CP56Time2a_setHour l v) = upd 5 v (fields56 l)) /\
  (forall v, 0 <= v < 2 -> fields56 (c_CP56Time2a_setSummerTime l v) = upd 7 v (fields56 l)) /\
  (forall v, 0 <= v < 32 -> fields56 (c_CP56Time2a_setDayOfMonth l v) = upd 8 v (fields56 l)) /\
  (forall v, 0 <= v < 8 -> fields56 (c_CP56Time2a_setDayOfWeek l v) = upd 9 v (fields56 l)) /\
  (forall v, 0 <= v < 16 -> fields56 (c_CP56Time2a_setMonth l v) = upd 10 v (fields56 l)) /\
  (forall v, 0 <= v < 100 -> fields56 (c_CP56Time2a_setYear l v) = upd 12 v (fields56 l)).
Proof.
  intros l H Hs. repeat split; intros v Hv;
  [ exact (frame56_ms l v H Hs Hv) | exact (frame56_sec l v H Hs Hv) | exact (frame56_min l v H Hv)
  | exact (frame56_subst l v H Hv) | exact (frame56_invalid l v H Hv) | exact (frame56_hour l v H Hv)
  | exact (frame56_su l v H Hv) | exact (frame56_dom l v H Hv) | exact (frame56_dow l v H Hv)
  | exact (frame56_month l v H Hv) | exact (frame56_year l v H Hv) ].
Qed.

(* the field list covers every bit of the record *)
Theorem C19_fields56_complete : forall l l', rec_ok 7 l -> rec_ok 7 l' ->
  c_CP56Time2a_getSecond l <= 59 -> c_CP56Time2a_getSecond l' <= 59 -> fields56 l = fields56 l' -> l = l'.
Proof. exact fields56_injective. Qed.

(* the range hypothesis on the second field is necessary *)
Theorem C19_frame_cp56_refuted_outside_range :
  exists l v, rec_ok 7 l /\ 0 <= v < 1000 /\ c_CP56Time2a_getSecond l = 65 /\
              fields56 (c_CP56Time2a_setMillisecond l v) <> upd 0 v (fields56 l).
Proof. exact frame56_ms_refuted_outside_range. Qed.

Theorem C19_frame_cp32 : forall l, rec_ok 4 l -> c_CP32Time2a_getSecond l <= 59 ->
  (forall v, 0 <= v < 1000 -> fields32 (c_CP32Time2a_setMillisecond l v) = upd 0 v (fields32 l)) /\
  (forall v, 0 <= v < 60 -> fields32 (c_CP32Time2a_setSecond l v) = upd 1 v (fields32 l)) /\
  (forall v, 0 <= v < 60 -> fields32 (c_CP32Time2a_setMinute l v) = upd 2 v (fields32 l)) /\
  (forall v, 0 <= v < 2 -> fields32 (c_CP32Time2a_setSubstituted l v) = upd 3 v (fields32 l)) /\
  (forall v, 0 <= v < 2 -> fields32 (c_CP32Time2a_setInvalid l v) = upd 4 v (fields32 l)) /\
  (forall v, 0 <= v < 24 -> fields32 (c_CP32Time2a_setHour l v) = upd 5 v (fields32 l)) /\
  (forall v, 0 <= v < 2 -> fields32 (c_CP32Time2a_setSummerTime l v) = upd 7 v (fields32 l)).
Proof.
  intros l H Hs. repeat split; intros v Hv;
  [ exact (frame32_ms l v H Hs Hv) | exact (frame32_sec l v H Hs Hv) | exact (frame32_min l v H Hv)
  | exact (frame32_subst l v H Hv) | exact (frame32_invalid l v H Hv) | exact (frame32_hour l v H Hv)
  | exact (frame32_su l v H Hv) ].
Qed.

Theorem C19_frame_cp24 : forall l, rec_ok 3 l -> c_CP24Time2a_getSecond l <= 59 ->
  (forall v, 0 <= v < 1000 -> fields24 (c_CP24Time2a_setMillisecond l v) = upd 0 v (fields24 l)) /\
  (forall v, 0 <= v < 60 -> fields24 (c_CP24Time2a_setSecond l v) = upd 1 v (fields24 l)) /\
  (forall v, 0 <= v < 60 -> fields24 (c_CP24Time2a_setMinute l v) = upd 2 v (fields24 l)) /\
  (forall v, 0 <= v < 2 -> fields24 (c_CP24Time2a_setSubstituted l v) = upd 3 v (fields24 l)) /\
  (forall v, 0 <= v < 2 -> fields24 (c_CP24Time2a_setInvalid l v) = upd 4 v (fields24 l)).
Proof.
  intros l H Hs. repeat split; intros v Hv;
  [ exact (frame24_ms l v H Hs Hv) | exact (frame24_sec l v H Hs Hv) | exact (frame24_min l v H Hv)
  | exact (frame24_subst l v H Hv) | exact (frame24_invalid l v H Hv) ].
Qed.

Theorem C19_frame_cp16 : forall l v, rec_ok 2 l -> 0 <= v < 65536 ->
  c_CP16Time2a_getEplapsedTimeInMs (c_CP16Time2a_setEplapsedTimeInMs l v) = v.
Proof. exact frame16. Qed.

Theorem C19_frame_bcr : forall l, rec_ok 5 l ->
  (forall v, -2147483648 <= v < 2147483648 -> fieldsBcr (c_BinaryCounterReading_setValue l v) = upd 0 v (fieldsBcr l)) /\
  (forall v, 0 <= v < 32 -> fieldsBcr (c_BinaryCounterReading_setSequenceNumber l v) = upd 1 v (fieldsBcr l)) /\
  (forall v, 0 <= v < 2 -> fieldsBcr (c_BinaryCounterReading_setCarry l v) = upd 2 v (fieldsBcr l)) /\
  (forall v, 0 <= v < 2 -> fieldsBcr (c_BinaryCounterReading_setAdjusted l v) = upd 3 v (fieldsBcr l)) /\
  (forall v, 0 <= v < 2 -> fieldsBcr (c_BinaryCounterReading_setInvalid l v) = upd 4 v (fieldsBcr l)).
Proof.
  intros l H. repeat split; intros v Hv;
  [ exact (frameBcr_value l v H Hv) | exact (frameBcr_seq l v H Hv) | exact (frameBcr_carry l v H Hv)
  | exact (frameBcr_adjusted l v H Hv) | exact (frameBcr_invalid l v H Hv) ].
Qed.

Theorem C19_frame_single_event : forall l, rec_ok 1 l ->
  (forall v, 0 <= v < 4 -> fieldsSE (c_SingleEvent_setEventState l v) = upd 0 v (fieldsSE l)) /\
  (forall q, 0 <= q < 64 -> fieldsSE (c_SingleEvent_setQDP l (4 * q)) = upd 1 (4 * q) (fieldsSE l)).
Proof. intros l H. split; intros v Hv; [exact (frameSE_state l v H Hv) | exact (frameSE_qdp l v H Hv)]. Qed.

Theorem C19_frame_scd : forall l, rec_ok 4 l ->
  (forall v, 0 <= v < 65536 -> fieldsSCD (c_StatusAndStatusChangeDetection_setSTn l v) = upd 0 v (fieldsSCD l)) /\
  (forall i, 0 <= i < 16 ->
     c_StatusAndStatusChangeDetection_getST l i = Z.land (Z.shiftr (c_StatusAndStatusChangeDetection_getSTn l) i) 1 /\
     c_StatusAndStatusChangeDetection_getCD l i = Z.land (Z.shiftr (c_StatusAndStatusChangeDetection_getCDn l) i) 1).
Proof. intros l H. split; [intros v Hv; exact (frameSCD_st l v H Hv) | intros i Hi; exact (SCD_bits l i H Hi)]. Qed.

(* every 16-bit raw value round-trips through the normalised float *)
Theorem C19_raw_roundtrip : forall r, -32768 <= r < 32768 ->
  c_NormalizedValue_toScaled (c_NormalizedValue_fromScaled r) = r.
Proof. exact raw_roundtrip. Qed.

Theorem C19_scaled_octets : forall l r, length l = 2%nat -> -32768 <= r < 32768 ->
  c_getScaledValue (c_setScaledValue l r) = r.
Proof. exact scaled_octets. Qed.

(* saturation.  PARTIAL: the two tails are proved for every float (infinities included, NaN excluded
   by the comparison being false); that the middle of the range stays inside [-32768, 32767]
   (monotonicity of rounding) is not proved here -- it is swept natively over all 2^32 floats
   by the thorough tier (harness/h_time `floatall`). *)
Theorem C19_saturate_partial : forall f,
  (f_gt f NMAX = true -> c_NormalizedValue_toScaled f = 32767) /\
  (f_lt f NMIN = true -> c_NormalizedValue_toScaled f = -32768).
Proof. intros f. split; [exact (saturate_high f) | exact (saturate_low f)]. Qed.

(* saturation in the other direction, for EVERY C int (modelled as Z): out-of-range scaled integers are clamped to the
   ends of the 16-bit range before the division, so raw -> normalised float -> raw is exactly the clamp (the identity
   inside the range); the two ends are the floats 32767/32768 and -1 at which the float direction saturates *)
Theorem C19_fromScaled_saturates : forall r,
  (32767 < r -> c_NormalizedValue_fromScaled r = c_NormalizedValue_fromScaled 32767) /\
  (r < -32768 -> c_NormalizedValue_fromScaled r = c_NormalizedValue_fromScaled (-32768)) /\
  c_NormalizedValue_toScaled (c_NormalizedValue_fromScaled r) = clamp16 r.
Proof. intros r. split; [exact (fromScaled_high r) | split; [exact (fromScaled_low r) | exact (raw_clamp r)]]. Qed.
Theorem C19_fromScaled_ends :
  f_eq (c_NormalizedValue_fromScaled 32767) NMAX = true /\ f_eq (c_NormalizedValue_fromScaled (-32768)) NMIN = true.
Proof. exact fromScaled_ends. Qed.
Example C19_fromScaled_saturates_nonvacuous :
  clamp16 40000 = 32767 /\ clamp16 (-40000) = -32768 /\ clamp16 123 = 123 /\
  c_NormalizedValue_toScaled (c_NormalizedValue_fromScaled 2147483647) = 32767.
Proof. repeat split; vm_compute; reflexivity. Qed.
