(* C11 -- acknowledgement duty (w, t2) and supervision timers (t1, t3) of the CS104 server, stated on the
   four blocks of handleTimeouts() and on handleTcpConnection() as transcribed in Cs104/Server.v.  The
   configured values c_w, c_t1, c_t2, c_t3 of `cfg` are the ones read in every guard (the tie to the code
   -- that these are conParameters.{w,t1,t2,t3} -- is the trace correspondence with varied parameters). *)
From Coq Require Import ZArith List Bool.
From L60870 Require Import Apci.Reasm Apci.Frame Cs104.Server Cs104.ServerProofs.
From RecordUpdate Require Import RecordSet.
Import ListNotations RecordSetNotations.
Local Open Scope Z_scope.

(* w: the step that makes the w-th unacknowledged received I-frame ends with an S-frame carrying N(R) *)
Theorem C11_w : forall g now s c rs' rest f,
  recv_call (rs c) (avail c) (peer_closed c) = (rs', rest, RFrame f) -> running c = true ->
  let '(s2, c2, ok, o) := handle_message g now s (c <| rs := rs' |> <| avail := rest |>) f in
  let c3 := if ok then c2 else c2 <| running := false |> in
  c_w g <= unconf c3 -> wmode c3 = 0 ->
  exists o', (let '(_, _, ob) := handle_tcp g now s c in ob) = o' ++ [OTx (cid c3) (enc_s (vr c3))].
Proof. exact w_rule. Qed.

(* t2: at the first tick at or after t2 since the first unacknowledged I-frame an S-frame is sent ... *)
Theorem C11_t2_fires : forall g now c,
  wmode c = 0 -> 0 < unconf c -> lastconf c <> NOTIME -> lastconf c < now -> now - lastconf c >= c_t2 g * 1000 ->
  let r := tmo_t2 g now c in snd r = [OTx (cid c) (enc_s (vr c))] /\ unconf (fst r) = 0.
Proof. exact t2_fires. Qed.
(* ... and the timer sends nothing earlier *)
Theorem C11_t2_not_before : forall g now c,
  lastconf c <> NOTIME -> lastconf c <= now -> now - lastconf c < c_t2 g * 1000 -> tmo_t2 g now c = (c, []).
Proof. exact t2_quiet. Qed.

(* t1 for I-frames: timeout reported exactly when the oldest unacknowledged I-frame is t1 old, not before *)
Theorem C11_t1 : forall g now c e r, kbuf c = e :: r -> k_time e <= now ->
  snd (tmo_t1 g now c) = negb ((k_time e <? now) && (c_t1 g * 1000 <=? now - k_time e)).
Proof. exact t1_rule. Qed.
Theorem C11_t1_nothing_sent : forall g now c, kbuf c = [] -> tmo_t1 g now c = (c, true).
Proof. exact t1_empty. Qed.

(* t3: TESTFR act after t3 of silence unless one is pending; its own t1 deadline starts then *)
Theorem C11_t3_fires : forall g now c,
  wmode c = 0 -> wtest c = false -> nextT3 c <= now + c_t3 g * 1000 -> nextT3 c < now ->
  let r := tmo_t3 g now c in
  snd r = [OTx (cid c) u_testfr_act] /\ wtest (fst r) = true /\ nextTest (fst r) = now + c_t1 g * 1000.
Proof. exact t3_fires. Qed.
Theorem C11_t3_not_before : forall g now c,
  wtest c = false -> now <= nextT3 c <= now + c_t3 g * 1000 -> tmo_t3 g now c = (c, []).
Proof. exact t3_quiet. Qed.

(* t1 for TESTFR act: timeout exactly when now is beyond the deadline *)
Theorem C11_testfr_t1 : forall g now c, wtest c = true -> nextTest c <= now + c_t1 g * 1000 ->
  snd (tmo_test g now c) = negb (nextTest c <? now).
Proof. exact testfr_rule. Qed.

(* before STOPDT con the received I-frames are acknowledged (same statement as C07_stopdt, ack part) *)
Theorem C11_ack_before_stop : forall g now s c f,
  wmode c = 0 -> Z.land (nth 2 f 0) 1 =? 0 = false -> Z.land (nth 2 f 0) 67 =? 67 = false -> Z.land (nth 2 f 0) 7 =? 7 = false ->
  Z.land (nth 2 f 0) 19 =? 19 = true -> 0 < unconf c ->
  exists pre post, res_obs (handle_message g now s c f) = pre ++ [OTx (cid c) (enc_s (vr c))] ++ post /\
                   ~ In (OTx (cid c) u_stopdt_con) pre.
Proof.
  intros g now s c f Hw H1 H2 H3 H4 Hu.
  destruct (stopdt_rule g now s c f Hw H1 H2 H3 H4) as (_ & Ho & _). cbv zeta in Ho.
  assert (A : 0 <? unconf c = true) by (apply Z.ltb_lt; exact Hu). rewrite A in Ho.
  exists ((if st c =? STARTED then [OEv (cid c) EV_DEACT] else []) ++ [ORxStop (cid c)]),
         (if mq_has_sent (mq s) then [] else [OTx (cid c) u_stopdt_con]).
  split; [rewrite Ho; reflexivity|].
  intros X. apply in_app_or in X. destruct X as [X | X].
  - destruct (st c =? STARTED); cbn in X; [destruct X as [X | X]; [discriminate | exact X] | exact X].
  - cbn in X. destruct X as [X | X]; [discriminate | exact X].
Qed.
