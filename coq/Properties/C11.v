(* C11 -- acknowledgement duty (w, t2) and supervision timers (t1, t3) of the CS104 server, stated on the
   four blocks of handleTimeouts() and on handleTcpConnection() as transcribed in Cs104/Server.v.  The
   configured values c_w, c_t1, c_t2, c_t3 of `cfg` are the ones read in every guard (the tie to the code
   -- that these are conParameters.{w,t1,t2,t3} -- is the trace correspondence with varied parameters). *)
From Coq Require Import ZArith List Bool.
From L60870 Require Import Apci.Reasm Apci.Frame Cs104.Server Cs104.ServerProofs.
From L60870 Require Cs104.Client Cs104.ClientProofs.
From RecordUpdate Require Import RecordSet.
Import ListNotations RecordSetNotations.
Local Open Scope Z_scope.

(* w: the step that makes the w-th unacknowledged received I-frame ends with an S-frame carrying N(R) *)
Theorem C11_w : forall g now s c rs' rest f,
  recv_call (rs c) (avail c) (peer_closed c) = (rs', rest, RFrame f) -> running c = true ->
  let '(s2, c2, ok, o) := handle_message g now s (c <| rs := rs' |> <| avail := rest |>) f in
  let c3 := if ok then c2 else c2 <| running := false |> in
  c_w g <= unconf c3 -> wmode c3 = 0 ->
  exists o', (let '(_, _, ob) := handle_tcp g now s c in ob) = o' ++ [OTx (cid c3) (enc_s (vr c3))].
Proof. exact w_rule. Qed.

(* t2: at the first tick at or after t2 since the first unacknowledged I-frame an S-frame is sent ... *)
Theorem C11_t2_fires : forall g now c,
  wmode c = 0 -> 0 < unconf c -> lastconf c <> NOTIME -> lastconf c < now -> now - lastconf c >= c_t2 g * 1000 ->
  let r := tmo_t2 g now c in snd r = [OTx (cid c) (enc_s (vr c))] /\ unconf (fst r) = 0.
Proof. exact t2_fires. Qed.
(* ... and the timer sends nothing earlier *)
Theorem C11_t2_not_before : forall g now c,
  lastconf c <> NOTIME -> lastconf c <= now -> now - lastconf c < c_t2 g * 1000 -> tmo_t2 g now c = (c, []).
Proof. exact t2_quiet. Qed.

(* t1 for I-frames: timeout reported exactly when the oldest unacknowledged I-frame is t1 old, not before *)
Theorem C11_t1 : forall g now c e r, kbuf c = e :: r -> k_time e <= now ->
  snd (tmo_t1 g now c) = negb ((k_time e <? now) && (c_t1 g * 1000 <=? now - k_time e)).
Proof. exact t1_rule. Qed.
Theorem C11_t1_nothing_sent : forall g now c, kbuf c = [] -> tmo_t1 g now c = (c, true).
Proof. exact t1_empty. Qed.

(* t3: TESTFR act after t3 of silence unless one is pending; its own t1 deadline starts then *)
Theorem C11_t3_fires : forall g now c,
  wmode c = 0 -> wtest c = false -> nextT3 c <= now + c_t3 g * 1000 -> nextT3 c < now ->
  let r := tmo_t3 g now c in
  snd r = [OTx (cid c) u_testfr_act] /\ wtest (fst r) = true /\ nextTest (fst r) = now + c_t1 g * 1000.
Proof. exact t3_fires. Qed.
Theorem C11_t3_not_before : forall g now c,
  wtest c = false -> now <= nextT3 c <= now + c_t3 g * 1000 -> tmo_t3 g now c = (c, []).
Proof. exact t3_quiet. Qed.

(* t1 for TESTFR act: timeout exactly when now is beyond the deadline *)
Theorem C11_testfr_t1 : forall g now c, wtest c = true -> nextTest c <= now + c_t1 g * 1000 ->
  snd (tmo_test g now c) = negb (nextTest c <? now).
Proof. exact testfr_rule. Qed.

(* before STOPDT con the received I-frames are acknowledged (same statement as C07_stopdt, ack part) *)
Theorem C11_ack_before_stop : forall g now s c f,
  wmode c = 0 -> Z.land (nth 2 f 0) 1 =? 0 = false -> Z.land (nth 2 f 0) 67 =? 67 = false -> Z.land (nth 2 f 0) 7 =? 7 = false ->
  Z.land (nth 2 f 0) 19 =? 19 = true -> 0 < unconf c ->
  exists pre post, res_obs (handle_message g now s c f) = pre ++ [OTx (cid c) (enc_s (vr c))] ++ post /\
                   ~ In (OTx (cid c) u_stopdt_con) pre.
Proof.
  intros g now s c f Hw H1 H2 H3 H4 Hu.
  destruct (stopdt_rule g now s c f Hw H1 H2 H3 H4) as (_ & Ho & _). cbv zeta in Ho.
  assert (A : 0 <? unconf c = true) by (apply Z.ltb_lt; exact Hu). rewrite A in Ho.
  exists ((if st c =? STARTED then [OEv (cid c) EV_DEACT] else []) ++ [ORxStop (cid c)]),
         (if mq_has_sent (mq s) then [] else [OTx (cid c) u_stopdt_con]).
  split; [rewrite Ho; reflexivity|].
  intros X. apply in_app_or in X. destruct X as [X | X].
  - destruct (st c =? STARTED); cbn in X; [destruct X as [X | X]; [discriminate | exact X] | exact X].
  - cbn in X. destruct X as [X | X]; [discriminate | exact X].
Qed.

(* ---- client role: Cs104/Client.v is the connection loop of cs104_connection.c (checkMessage, the w-acknowledgement,
   handleTimeouts, exit), executed against the real client on every run (driver/d_client.ml vs harness/h_cs104c.c). *)
Import Cs104.Client Cs104.ClientProofs.   (* from here on `running`, `cstate` ... are the client's *)

(* w: once w received I-format APDUs are unacknowledged the S-format APDU with N(R) = V(R) is written in the same iteration *)
Theorem C11_client_w : forall g now cm, cc_w g <= cunconf cm ->
  cwack g now cm = confirm_outstanding now cm /\ snd (cwack g now cm) = [CTx (enc_s (cvr cm)) (cwmode cm =? 0)].
Proof. exact client_w_rule. Qed.
Theorem C11_client_w_not_before : forall g now cm, cunconf cm < cc_w g -> cstate cm <> ST_WAIT_STOP -> cwack g now cm = (cm, []).
Proof. exact client_w_quiet. Qed.

(* t2 *)
Theorem C11_client_t2_fires : forall g now c, 0 < cunconf c -> clastconf c < now -> cc_t2 g * 1000 <= now - clastconf c ->
  exists c1, ctmo_t2 g now c = (c1, [CTx (enc_s (cvr c)) (cwmode c =? 0)]) /\ cunconf c1 = 0 /\ ct2trig c1 = false /\ clastconf c1 = now.
Proof. exact client_t2_fires. Qed.
Theorem C11_client_t2_not_before : forall g now c, cunconf c = 0 \/ now - clastconf c < cc_t2 g * 1000 -> ctmo_t2 g now c = (c, []).
Proof. exact client_t2_quiet. Qed.

(* t1 for I-format APDUs: decided by the oldest unacknowledged one, t1 after its transmission and not before *)
Theorem C11_client_t1 : forall g now c t r, ckb c = t :: r -> ctmo_t1 g now c = (t <? now) && (cc_t1 g * 1000 <=? now - t).
Proof. exact client_t1_rule. Qed.
Theorem C11_client_t1_nothing_sent : forall g now c, ckb c = [] -> ctmo_t1 g now c = false.
Proof. exact client_t1_empty. Qed.

(* t3: TESTFR act after t3 without reception, supervised by t1; closed when it stays unanswered, not before *)
Theorem C11_client_t3_fires : forall g now c, cumt c = 0 -> cnt3 c < now -> couttest c <= 2 ->
  exists c1, ctmo_t3 g now c = (c1, true, [CTx (enc_u 67) (cwmode c =? 0)]) /\ cumt c1 = now + cc_t1 g * 1000 /\
             cnt3 c1 = now + cc_t3 g * 1000 /\ couttest c1 = couttest c + 1.
Proof. exact client_t3_sends_testfr. Qed.
Theorem C11_client_t3_pending_keeps_deadline : forall g now c, cumt c <> 0 -> cnt3 c < now ->
  exists c1, ctmo_t3 g now c = (c1, true, []) /\ cumt c1 = cumt c /\ cnt3 c1 = now + cc_t3 g * 1000.
Proof. exact client_t3_pending. Qed.
Theorem C11_client_t3_not_before : forall g now c, now <= cnt3 c -> ctmo_t3 g now c = (c, true, []).
Proof. exact client_t3_quiet. Qed.
Theorem C11_client_testfr_t1 : forall g now c, cumt c <> 0 -> cumt c < now -> chandle_timeouts g now c = (c, false, []).
Proof. exact client_testfr_t1_closes. Qed.
Theorem C11_client_testfr_t1_not_before : forall now c, now <= cumt c -> ctmo_u now c = false.
Proof. exact client_testfr_t1_not_before. Qed.

(* acknowledge before stopping data transfer / closing on its own initiative *)
Theorem C11_client_ack_before_stop : forall now c, running c = true ->
  snd (cstopdt now c) = [CTx (enc_s (cvr c)) (cwmode c =? 0); CTx (enc_u 19) (cwmode c =? 0)].
Proof. exact client_stopdt_acks_first. Qed.
Theorem C11_client_ack_before_close : forall now c, 0 < cunconf c -> snd (cexit now c) = [CTx (enc_s (cvr c)) (cwmode c =? 0); CEv 1].
Proof. exact client_exit_acks. Qed.

(* the configured k is the one in force on every connection (and the window never exceeds it: C04_client_window_bound) *)
Theorem C11_client_k_in_force : forall g now c, ckmax (fst (cconnect g now c true)) = cc_k g /\ ckb (fst (cconnect g now c true)) = [].
Proof. exact client_connect_uses_k. Qed.
