(* C02 -- placeholder while the proofs are being written *)
From Coq Require Import ZArith List.
From L60870 Require Import Asdu.Layout Asdu.Codec gen.AsduTable.
Theorem C02_table_nonempty : table <> nil.
Proof. discriminate. Qed.
