(* C02 -- parsing untrusted ASDU bytes is total, memory-safe and exact about truncation.
   Model: Asdu/Codec.v (get_element = CS101_ASDU_createFromBuffer + CS101_ASDU_getElementEx over checked reads;
   a read outside the supplied octets or a write through a NULL result is the outcome `Fault`).
   The theorems hold for EVERY table row that satisfies the decidable predicate row_dec_okb, every address-size
   configuration, every octet string and every index >= 0; C02_current re-establishes the predicate by evaluation
   over the table regenerated from /repo on this run. *)
From Coq Require Import ZArith List Bool String.
From L60870 Require Import Asdu.Layout Asdu.Codec Asdu.CodecProofs gen.AsduTable gen.AsduKnown.
Import ListNotations.
Local Open Scope Z_scope.

(* never a Fault: no read outside the message, no write through a NULL result -- for all byte strings and indices *)
Theorem C02_total_safe : forall tbl a msg idx, ioa_ok a -> 0 <= idx ->
  (forall r, find_row tbl (msg_type msg) = Some r -> row_dec_okb r = true) ->
  exists res, get_element tbl a msg idx = Ok res.
Proof. exact get_element_total. Qed.

(* unknown type identifications yield no object *)
Theorem C02_unknown_type : forall tbl a msg idx, find_row tbl (msg_type msg) = None -> get_element tbl a msg idx = Ok None.
Proof. exact get_element_unknown. Qed.

(* an object is returned exactly when the element lies completely inside the supplied octets (standard's layout:
   lay_off/lay_len are computed from std_len, the SQ bit and the address size only) *)
Theorem C02_exact : forall tbl a msg idx r n, ioa_ok a -> 0 <= idx -> 0 <= hdr_len a ->
  find_row tbl (msg_type msg) = Some r -> row_dec_okb r = true -> std_len (tid r) = Some (Fixed n) ->
  ((exists o, get_element tbl a msg idx = Ok (Some o)) <->
   hdr_len a <= len msg /\
   lay_off (r_elem r) a (msg_sq msg) n idx + lay_len (r_elem r) a (msg_sq msg) n <= len msg - hdr_len a).
Proof. exact get_element_exact. Qed.

(* and the object consists of exactly those octets: the implementation model equals the specification function
   spec_element, which is written from the standard's layout alone *)
Theorem C02_decodes_exact_octets : forall tbl a msg idx r, ioa_ok a -> 0 <= idx ->
  find_row tbl (msg_type msg) = Some r -> row_dec_okb r = true ->
  get_element tbl a msg idx = Ok (spec_element tbl a msg idx).
Proof. exact get_element_spec. Qed.

(* the header is accepted iff all its octets are present *)
Theorem C02_header : forall a msg, parse_hdr a msg = None <-> len msg < hdr_len a.
Proof. exact parse_hdr_none. Qed.

(* per run: every row of the table regenerated from the working tree (except rows named by open findings) is right *)
Theorem C02_current : forall r, In r table -> ~ In (tid r) known_C02 -> row_c02_okb r = true.
Proof. apply rows_okb_sound. vm_compute. reflexivity. Qed.

(* the hypotheses are inhabited, and they are necessary: the same row without the guard on the SQ address fix-up faults *)
Definition ex_row (g : bool) : row :=
  {| tid := 13; rname := "M_ME_NC_1"%string; r_enc := EncUnrecognised ""%string;
     r_dec := Dec true (MStd 5) None IoaSq [RAt 0; RAt 1; RAt 2; RAt 3; RAt 4]; r_elem := ESeq 5 5 g g |}.
Definition ex_alp : alp := {| cot_sz := 1; ca_sz := 1; ioa_sz := 1; max_asdu := 249 |}.
Example C02_inhabited :
  row_dec_okb (ex_row true) = true /\
  get_element [ex_row true] ex_alp [13; 129; 3; 1; 5; 1; 2; 3; 4; 5] 0 = Ok (Some {| io_addr := 5; io_body := [1; 2; 3; 4; 5] |}) /\
  get_element [ex_row true] ex_alp [13; 129; 3; 1; 5; 1; 2; 3; 4] 0 = Ok None.
Proof. vm_compute. repeat split. Qed.
Example C02_guard_necessary :
  get_element [ex_row false] ex_alp [13; 129; 3; 1; 5; 1; 2; 3; 4] 0 = Fault NullWrite /\
  get_element [ex_row false] ex_alp [13; 129; 3; 1] 0 = Fault OOBRead.
Proof. vm_compute. split; reflexivity. Qed.
