(* C17 -- threaded operation: lock discipline, deadlock freedom (data races are searched at run time, not proved).
   gen/LockProgram.v is regenerated from the C sources on every run (translate/locks.py); gen/LockKnown.v lists the
   functions named by open findings (their own paths are excluded: `exec known program` never enters them).
   With known = [] the statements below cover every path of every function of the analysed files. *)
From Coq Require Import String List Bool Permutation.
From L60870 Require Import Locks.Skeleton Locks.Checker Locks.CheckerSound Locks.Deadlock gen.LockProgram gen.LockKnown.
Import ListNotations.

(* the per-run obligation: every function outside the known rows passes the checker against the certificates *)
Theorem C17_current : check_except known program = true.
Proof. vm_compute. reflexivity. Qed.

(* lock discipline on every path (also every cut-off prefix, k = OAbort) of every function:
   run from the lock its contract requires (none for all but the unlock wrappers) plus any frame F that ranks below
   everything the function may acquire, the sequence of lock operations replays without error -- no post without
   matching wait, no second wait on an instance already held (value stays in {0,1}), every acquisition strictly above
   everything held in the certified ranking -- and a completed path ends with exactly the contract's lock + F held *)
Theorem C17_discipline :
  forall d, In d (funs program) -> mem (fname d) known = false ->
  forall r tr k r1 F H, exec known program r (fbody d) tr k r1 ->
    Permutation H (insts r (olist (fpre d)) ++ F) -> frame_ok program F (facq d) ->
    exists H1, replay (rk program) tr H = Some H1 /\
               (k = ONormal \/ k = ORet \/ k = OAbort) /\
               (k = ONormal \/ k = ORet -> Permutation H1 (insts r (olist (fpost d)) ++ F)).
Proof. exact (check_sound_fn known program C17_current). Qed.

(* ordinary (balanced) functions, started with nothing held: nothing is held at any return *)
Theorem C17_balance :
  forall d, In d (funs program) -> mem (fname d) known = false -> fpre d = None -> fpost d = None ->
  forall r tr k r1, exec known program r (fbody d) tr k r1 ->
    exists H1, replay (rk program) tr [] = Some H1 /\ (k = ONormal \/ k = ORet \/ k = OAbort) /\ (k <> OAbort -> H1 = []).
Proof. exact (check_sound_balance known program C17_current). Qed.

(* a trace that replays keeps every per-thread counter in {0,1} at every intermediate point *)
Theorem C17_counters : forall tr H1, replay (rk program) tr [] = Some H1 ->
  forall t1 t2, tr = t1 ++ t2 -> exists Hm, replay (rk program) t1 [] = Some Hm /\ NoDup Hm.
Proof. exact (disciplined_prefixes (rk program)). Qed.

(* any number of threads, each running a complete path of a balanced function (thread roots, API calls made by
   application threads, callbacks calling back into the API are part of `exec`), every semaphore created with value 1,
   arbitrary scheduler: in every reachable state each semaphore value is <= 1 with at most one holder (mutual exclusion
   is never lost) and, while any thread has work left, some thread can move (no deadlock) *)
Theorem C17_no_deadlock :
  forall st, Forall (thread_of_program known program) st ->
  forall s, steps (fun _ => 1, st) s ->
    (forall i, fst s i <= 1 /\ holders (snd s) i <= 1) /\
    ((exists t, In t (snd s) /\ unfinished t) -> exists s', step s s').
Proof. exact (check_sound_order known program C17_current). Qed.

(* non-vacuity: the program is not empty, locks are taken, the ranking is not trivial, and the real thread entry points
   (listener, connection threads, CS101 worker threads) are balanced functions of the program, i.e. they satisfy the
   contract hypotheses of C17_balance / C17_no_deadlock *)
Example C17_example :
  length (funs program) > 100 /\ length (ranks program) >= 5 /\
  existsb (fun d => match fpost d with Some _ => true | None => false end) (funs program) = true /\
  forallb (fun f => match find_fn program f with
                    | Some d => andb (is_none (fpre d)) (is_none (fpost d))
                    | None => false
                    end) thread_roots = true.
Proof. vm_compute. repeat split; repeat constructor. Qed.
