(* C20 -- file transfer through the file-service plugin is byte-exact and checksummed.
   File/FileServer.v transcribes CS101_FileServer_handleAsdu and CS101_FileServer_runTask (tied to the compiled
   plugin by differential execution, white-box state included, on every run). *)
From Coq Require Import ZArith List Bool.
From L60870 Require Import Dispatch.DispatchBase File.FileServer File.FileSpec File.FileProofs File.FileInv File.UploadProofs File.ConnProofs.
Import ListNotations.
Local Open Scope Z_scope.

(* Download, for ANY file (1..254 non-empty sections of any sizes), any address sizes / maximum ASDU size with room
   for at least one octet per segment, and a master following the procedure
     select, call file, ( call section k, [negative section ack -> the section is repeated]*, positive section ack )*, ack file
   (messages characterised by their content: any encoding that decodes to them):
   the trace is exactly  file-ready(length of file) , section-ready(1) , <sections> , last-section(file checksum) , transferComplete(true)
   where <sections> decomposes (file_obs) into one block per section k in which the segments for k concatenate to
   (1 + number of repetitions) exact copies of the section, no segment of another section appears, every segment is at
   most max_seg = maxSizeOfASDU - header - IOA - 4 octets, every last-segment message carries sum(section) mod 256
   -- also after repetitions -- and the last-section message carries sum(file) mod 256.  The provider is told exactly once. *)
Theorem C20_bytes_exact : forall c e s0 now sel_m callf pls ackf,
  good_cfg c -> good_env e -> e_secs e <> [] -> st s0 = Idle ->
  is_select c e sel_m -> is_call_file c e callf -> length pls = length (e_secs e) -> plan_ok c e 1 pls -> is_ack c e ackf 1 ->
  exists s' os oa0 oa1 oa2,
    run c e ([ERx 0 sel_m; ERx 0 callf] ++ file_events pls (e_secs e) ++ [ERx 0 ackf]) s0 now [] =
    ROk s' now ([CGetFile (e_ca e) (e_ioa e) (e_nof e) (-1); CFileSize (file_size e);
                 OSend 0 oa0 (e_ca e) (e_ioa e) (e_nof e) (TFileReady (file_size e) true);
                 CSectionSize 0 (len (hd [] (e_secs e)));
                 OSend 0 oa1 (e_ca e) (e_ioa e) (e_nof e) (TSectionReady 1 (len (hd [] (e_secs e))))]
                ++ os ++
                [CSectionSize (Z.of_nat (length (e_secs e))) 0;
                 OSend 0 oa2 (e_ca e) (e_ioa e) (e_nof e) (TLastSection (Z.of_nat (length (e_secs e)) + 1) (chk (concat (e_secs e))));
                 CComplete true]) /\
    st s' = Idle /\ sel s' = false /\ file_obs c 1 (e_secs e) pls os.
Proof. exact download_exact. Qed.

(* inside the section blocks nothing else happens: no outcome notification, no last-section message, all segments in size *)
Theorem C20_section_blocks_quiet : forall c k secs pls os, file_obs c k secs pls os ->
  completes os = [] /\ last_sections os = [] /\ forallb (seg_len_ok (max_seg c)) os = true.
Proof. exact file_obs_quiet. Qed.

(* the segment pump alone (any start offset, any running checksum): used for first transmissions and repetitions *)
Theorem C20_segment_pump : forall c e b k sec, good_cfg c -> section e k sec -> sel b = true -> selc b = 0 ->
  forall n o sc fc now, 0 <= o <= len sec -> 0 <= sc < 256 -> (Z.to_nat (len sec - o) < n)%nat ->
  exists obs,
    run c e (repeat (ERun 0) n) (mkS b Transmit k o (len sec) sc fc now) now [] =
      ROk (mkS b WaitSectionAck k (len sec) (len sec) ((sc + sum (skipn (Z.to_nat o) sec)) mod 256) fc now) now obs /\
    segments k obs = skipn (Z.to_nat o) sec /\ forallb (seg_len_ok (max_seg c)) obs = true /\
    last_segments obs = [(k, (sc + sum (skipn (Z.to_nat o) sec)) mod 256)] /\ forallb (only_transfer k) obs = true.
Proof. exact transmit_runs. Qed.

(* repeating a section (negative section acknowledgement, any number of times) leaves state and checksums unchanged *)
Theorem C20_repeat_keeps_checksums : forall c e b k sec fc now, good_cfg c -> bound b e -> section e k sec ->
  forall nacks, Forall (fun a => is_ack c e a 4) nacks ->
  exists os, run c e (concat (map (round_events sec) nacks)) (mkS b WaitSectionAck k (len sec) (len sec) (chk sec) fc now) now [] =
             ROk (mkS b WaitSectionAck k (len sec) (len sec) (chk sec) fc now) now os /\ sec_obs c k sec (length nacks) os.
Proof. exact repeated_rounds. Qed.

(* Upload: the receiver callback gets every segment of a section octet-exact with offsets 0, los1, los1+los2, ... *)
Theorem C20_upload_offsets : forall c e now, 0 <= f_timeout c ->
  forall msgs s, Forall (fun m => is_segment_msg c (fst (fst m)) (snd (fst m)) (snd m)) msgs ->
  st s = Receive -> rcv s = true -> last s = now ->
  run c e (map (fun m => ERx 0 (fst (fst m))) msgs) s now [] =
  ROk (set_last (set_sec s (nos s) (off s + total_len msgs) (size s)) now) now (offsets_obs (off s) msgs).
Proof. exact upload_offsets. Qed.

(* Upload, whole procedure: file ready (accepted by the application), any number of sections each announced, sent in any
   number of segments and closed by a last-segment message, then last-section: the trace is
   fileReady callback . call-file . blocks . positive file ack . finished(success), each block (ups_obs / up_obs) being
   call-section(k) . the receiver callbacks with offsets 0, los1, los1+los2, ... and the segments' octets . positive section ack *)
Theorem C20_upload : forall c e s0 now fr its ls ca ioa nof lof kl,
  0 <= f_timeout c -> e_recv e = 1 -> is_file_ready_msg c fr ca ioa nof lof -> up_ok c 1 its -> is_last_msg c ls kl 1 ->
  exists s' os oa0 oa1,
    run c e ([ERx 0 fr] ++ ups_events its ++ [ERx 0 ls]) s0 now [] =
    ROk s' now ([CFileReady ca ioa nof lof; OSend 0 oa0 ca ioa nof TCallFile] ++ os ++ [OSend 0 oa1 ca ioa nof (TAck kl 1); CFinished 0]) /\
    st s' = Idle /\ ups_obs ca ioa nof 1 its os.
Proof. exact upload_complete. Qed.

(* whatever state the server is in and whatever it receives (any message, any time): the provider is told an outcome only
   by a file acknowledgement (F_AF_NA_1), at most one notification per message, and the transfer is over afterwards
   (idle, nothing selected -- so one selection is reported at most once); the segment pump never reports anything *)
Theorem C20_outcome_only_on_file_ack : forall c e now conn a s s' o r b,
  handle_asdu c e now conn a s = HOk s' o r -> In (CComplete b) o ->
  tid a = 124 /\ st s' = Idle /\ sel s' = false /\ o = [CComplete b].
Proof. exact outcome_only_on_file_ack. Qed.
Theorem C20_pump_tells_no_outcome : forall c e now conn s b, ~ In (CComplete b) (snd (run_task c e now conn s)).
Proof. exact run_task_tells_no_outcome. Qed.

(* several connections (CS104 server with more than one client; the slave runs the plugin task for every connection):
   a request is answered on the connection it arrived on and nowhere else; the segment pump sends only when it runs for the
   connection that selected the file, and on that connection; run for any other connection it sends nothing and changes
   nothing except the supervision timeout.  History level: over EVERY sequence of messages from any connection, task runs for
   any connection and clock steps, starting at power-up, a monitor that remembers the connection of the last positive FILE READY
   never sees a segment or last-segment on another connection (mon_data_owner spells out what acceptance means). *)
Theorem C20_answers_on_asking_connection : forall c e now conn a s s' o r,
  handle_asdu c e now conn a s = HOk s' o r -> forall x c', In x o -> obs_conn x = Some c' -> c' = conn.
Proof. exact answers_on_asking_connection. Qed.
Theorem C20_pump_only_to_selecting_connection : forall c e now conn s x c',
  In x (snd (run_task c e now conn s)) -> obs_conn x = Some c' -> c' = conn /\ selc s = conn /\ sel s = true /\ st s = Transmit.
Proof. exact pump_only_to_selecting_connection. Qed.
Theorem C20_pump_other_connection_inert : forall c e now conn s, selc s <> conn ->
  snd (run_task c e now conn s) = [] /\ (fst (run_task c e now conn s) = s \/ fst (run_task c e now conn s) = set_st s Idle).
Proof. exact pump_other_connection_inert. Qed.
Theorem C20_data_goes_to_the_selecting_connection : forall c e evs s' now' o,
  run c e evs fs0 0 [] = ROk s' now' o -> exists ow', mon None o = Some ow'.
Proof. exact data_goes_to_the_selecting_connection. Qed.
Theorem C20_data_monitor_meaning : forall o ow ow' pre cn oa ca ioa nof t post,
  mon ow o = Some ow' -> o = pre ++ OSend cn oa ca ioa nof t :: post -> is_data t = true ->
  exists w, mon ow pre = Some (Some w) /\ w = cn.
Proof. exact mon_data_owner. Qed.
Example C20_two_connections_example :
  let o := obs_of (run (cfg0 true) env0 two_conn_script fs0 0 []) in
  data_conns o = [0; 0; 0] /\ ready_conns o = [0; 1] /\ mon None o = Some (Some 0).
Proof. exact two_connections. Qed.

(* "reported successful only if all octets were transferred" does NOT hold for arbitrary masters: a negative
   call-section skips a section and the positive file acknowledgement is still reported as success (open finding);
   C20_bytes_exact is the part that holds (partial: procedure-following masters incl. repetitions) *)
Theorem C20_success_only_if_complete_refuted :
  let o := obs_of (run (cfg0 true) env0 skip_script fs0 1000 []) in
  completes o = [true] /\ segments 1 o = [] /\ segments 2 o = [1; 2].
Proof. exact skip_section_success. Qed.

(* the pinned snapshot (before the repairs): witnesses *)
Theorem C20_snapshot_repeat_checksum_refuted :
  last_sections (obs_of (run (cfg0 false) env0 repeat_script fs0 1000 [])) = [(3, 123)] /\ chk (concat (e_secs env0)) = 63 /\
  last_sections (obs_of (run (cfg0 true) env0 repeat_script fs0 1000 [])) = [(3, 63)].
Proof. exact snapshot_repeat_falsifies_checksum. Qed.
Theorem C20_snapshot_stale_section_checksum_refuted :
  last_segments (obs_of (run (cfg0 false) env0 stale_script fs0 1000 [])) = [(1, 120)] /\
  last_segments (obs_of (run (cfg0 true) env0 stale_script fs0 1000 [])) = [(1, 60)] /\ chk [10; 20; 30] = 60.
Proof. exact snapshot_stale_section_checksum. Qed.
Theorem C20_snapshot_truncated_null_deref_refuted :
  run (cfg0 false) env0 [ERx 0 (fmsg 122 13 [1; 0])] fs0 1000 [] = RFault /\
  run (cfg0 false) env0 [ERx 0 (fmsg 123 13 [1; 0])] fs0 1000 [] = RFault /\
  run (cfg0 false) env0 [ERx 0 (fmsg 120 13 [1; 0])] fs0 1000 [] = RFault /\
  run (cfg0 false) env0 [ERx 0 m_select; ERx 0 (fmsg 124 13 [1; 0])] fs0 1000 [] = RFault /\
  run (cfg0 false) env0 [ERx 0 (fmsg 120 13 [1; 0; 5; 0; 0; 0]); ERx 0 (fmsg 121 13 [1; 0])] fs0 1000 [] = RFault /\
  run (cfg0 false) env0 [ERx 0 (fmsg 120 13 [1; 0; 5; 0; 0; 0]); ERx 0 (fmsg 121 13 [1; 0; 1; 5; 0; 0; 0]); ERx 0 (fmsg 125 13 [1; 0; 1; 9; 7])] fs0 1000 [] = RFault /\
  (exists s o, run (cfg0 true) env0 [ERx 0 (fmsg 122 13 [1; 0])] fs0 1000 [] = ROk s 1000 o).
Proof. exact snapshot_truncated_faults. Qed.

(* non-vacuity: concrete messages satisfy the hypotheses of C20_bytes_exact (two sections, one repetition) *)
Example C20_example :
  good_cfg (cfg0 true) /\ good_env env0 /\ is_select (cfg0 true) env0 m_select /\ is_call_file (cfg0 true) env0 m_callfile /\
  plan_ok (cfg0 true) env0 1 [(m_callsec 1, [m_ack 1 4], m_ack 1 3); (m_callsec 2, [], m_ack 2 3)] /\ is_ack (cfg0 true) env0 (m_ack 3 1) 1.
Proof. exact example_messages_ok. Qed.
