(* C20 -- placeholder while the proofs are being written *)
From Coq Require Import ZArith List Bool.
From L60870 Require Import Dispatch.DispatchBase File.FileServer.
Import ListNotations.
Local Open Scope Z_scope.
Example C20_example : max_seg {| f_alp := {| cot_sz := 2; ca_sz := 2; ioa_sz := 3 |}; f_max := 249; f_timeout := 3000; f_fixd := true |} = 236.
Proof. reflexivity. Qed.
