(* C12 -- building ASDUs never exceeds configured size or storage, and fails cleanly.
   Model: Asdu/Codec.v add_io (= CS101_ASDU_addInformationObject over the row's encoder), add_payload.  `used` is
   asduHeaderLength + payloadSize; a write beyond encodedData[255] is the outcome Fault OOBWrite.
   Hypotheses common to the theorems: the row's encoder satisfies enc_okb (check constants = octets written = n),
   the facts about addInformationObject (limit 127, type octet written only after a successful encode) hold,
   the object's body has the type's length, maxSizeOfASDU <= 256. *)
From Coq Require Import ZArith List Bool String.
From L60870 Require Import Asdu.Layout Asdu.Codec Asdu.CodecProofs gen.AsduTable gen.AsduKnown.
Import ListNotations.
Local Open Scope Z_scope.

Section C12.
  Variables (fnl : asdu_level) (tbl : list row) (a : alp) (s s' : asdu) (t : Z) (o : io) (r : row) (n : Z).
  Hypothesis Hf : find_row tbl t = Some r.
  Hypothesis He : enc_okb (r_enc r) n = true.
  Hypothesis Hb : len (io_body o) = n.
  Hypothesis Hl : add_limit fnl = Some 127.
  Hypothesis Hg : add_type_guarded fnl = Some true.
  Hypothesis Ha : ioa_ok a.
  Hypothesis Hm : max_asdu a <= 256.

  (* the ASDU never grows beyond the configured maximum (hence never beyond its 256 octets of storage) *)
  Theorem C12_size : forall b, add_io fnl tbl a s t o = Ok (b, s') -> used s <= max_asdu a -> used s' <= max_asdu a <= 256.
  Proof. exact (add_size_bounded fnl tbl a s s' t o r n Hf He Hb Hl Hg Ha Hm). Qed.

  (* the element count grows by exactly one per accepted object, never exceeds 127, never touches the SQ bit *)
  Theorem C12_count : add_io fnl tbl a s t o = Ok (true, s') -> 2 <= len (a_hdr s) -> 0 <= a_vsq s < 256 ->
    a_count s' = a_count s + 1 /\ a_count s' <= 127 /\ a_sq s' = a_sq s.
  Proof. exact (add_count fnl tbl a s s' t o r n Hf He Hb Hl Hg Ha Hm). Qed.

  (* a refused addition (does not fit / other type / address not consecutive / 127 reached) leaves every octet unchanged *)
  Theorem C12_atomic : add_io fnl tbl a s t o = Ok (false, s') -> s' = s.
  Proof. exact (add_refused_unchanged fnl tbl a s s' t o r n Hf He Hb Hl Hg Ha Hm). Qed.

  (* an accepted addition appends exactly the object's encoding *)
  Theorem C12_append : add_io fnl tbl a s t o = Ok (true, s') ->
    a_pay s' = a_pay s ++ enc_bytes a (add_sq s) o /\ len (a_hdr s') = len (a_hdr s) /\
    used s' = used s + enc_size a (add_sq s) n /\ used s' <= max_asdu a.
  Proof. exact (add_accepted_appends fnl tbl a s s' t o r n Hf He Hb Hl Hg Ha Hm). Qed.

  (* no construction step writes outside the storage *)
  Theorem C12_no_fault : exists b s2, add_io fnl tbl a s t o = Ok (b, s2).
  Proof. exact (add_no_fault fnl tbl a s t o r n Hf He Hb Hl Hg Ha Hm). Qed.

  (* which additions are accepted: exactly those that fit and respect type / continuity / the 127 limit *)
  Theorem C12_decision : add_io fnl tbl a s t o =
    Ok (if add_allowed a s t o && negb (max_asdu a - used s <? enc_size a (add_sq s) n) then (true, add_result a s t o) else (false, s)).
  Proof. exact (add_io_spec fnl tbl a s t o r n Hf He Hb Hl Hg Ha Hm). Qed.
End C12.

(* raw payload: accepted iff it fits the 256 octets of storage, appended unchanged, otherwise nothing happens *)
Theorem C12_add_payload : forall fnl s bs, payload_bound fnl = Some 256 ->
  add_payload fnl s bs = Ok (if used s + len bs <=? 256 then (true, append bs s) else (false, s)).
Proof. exact add_payload_spec. Qed.

(* per run: encoders and addInformationObject/addPayload/getSpaceLeft of the working tree satisfy the hypotheses *)
Theorem C12_current : forall r, In r table -> ~ In (tid r) known_C12 -> row_c12_okb r = true.
Proof. apply rows_okb_sound. vm_compute. reflexivity. Qed.
Theorem C12_current_asdu_level : add_limit asdu_fn = Some 127 /\ add_type_guarded asdu_fn = Some true /\ payload_bound asdu_fn = Some 256.
Proof. apply asdu_fn_okb_sound. vm_compute. reflexivity. Qed.

(* inhabited, and the hypothesis on the check is necessary: with the check of the original F_SR_NA_1 encoder (1 instead of 7)
   the same addition produces an ASDU longer than the maximum *)
Definition ex_row (c : Z) : row :=
  {| tid := 121; rname := "F_SR_NA_1"%string; r_enc := Enc (Some (ECk c c false)) false [EL LIoa; EL LByte; EL LByte; EL LByte; EL LByte; EL LByte; EL LByte; EL LByte];
     r_dec := DecUnrecognised ""%string; r_elem := ESingle |}.
Definition ex_alp : alp := {| cot_sz := 1; ca_sz := 1; ioa_sz := 1; max_asdu := 10 |}.
Definition ex_fn : asdu_level := {| add_limit := Some 127; add_type_guarded := Some true; payload_bound := Some 256; space_formula := true |}.
Definition ex_obj : io := {| io_addr := 9; io_body := [1; 2; 3; 4; 5; 6; 7] |}.
Example C12_inhabited :
  enc_okb (r_enc (ex_row 7)) 7 = true /\
  add_io ex_fn [ex_row 7] ex_alp (new_asdu ex_alp false 3 0 1 false false) 121 ex_obj = Ok (false, new_asdu ex_alp false 3 0 1 false false).
Proof. vm_compute. split; reflexivity. Qed.
Example C12_check_necessary :
  exists s', add_io ex_fn [ex_row 1] ex_alp (new_asdu ex_alp false 3 0 1 false false) 121 ex_obj = Ok (true, s') /\ used s' = 12 /\ max_asdu ex_alp = 10.
Proof. eexists. vm_compute. repeat split. Qed.
