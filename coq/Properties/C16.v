(* C16 -- CS101 end-to-end delivery while the link is up.   LEVEL: partial.
   Proved here: (1) SEND/CONFIRM with a frame count bit and an unnumbered acknowledgement over a lossy channel delivers
   every message exactly once, in order (abstract model Link/Abp.v, all event sequences, by invariant);
   (2) the CS101 queue ring (cs101_queue.c, literal model Link/Cs101Queue.v) refines a bounded FIFO that displaces the
   oldest entry; (3) class order: a class 1 entry is taken only by a class 1 request, the access-demand bit tells the
   master to ask for class 1 first.
   (4) literal model of the unbalanced primary (LinkPrim, the sc_ functions), ALL sequences of received frames, clock values and application
   calls (send, class 1/2 request, link test): a message handed over is written as a NEW user-data frame at most once unless the
   link failure was reported, the slave answered negatively or the message was confirmed (repaired code; refuted for the original).
   (5) COMPOSITION, balanced line, master -> slave direction (Link/LinkLine.v): the literal balanced primary (pb_run / pb_handle)
   of one station and the literal balanced secondary (sb_handle) of the other, connected by octets on a line that may lose any
   frame in either direction and delivers the others at once (each station parses what it receives with the literal
   parse_bp): for EVERY sequence of station runs at any clock values, losses, hand-overs, link test requests and idle-timer
   resets, while the link has not been reported in error, what the receiving application was handed is what the sender took
   from its queue -- in order, each message once -- except possibly the one message whose confirmation is outstanding
   (C16_line_exactly_once); the data phase starts synchronised after RESET REMOTE LINK (C16_line_reset_synchronises); on the
   original code the statement is false (C16_line_exactly_once_refuted: link test requested while a message is outstanding).
   (6) COMPOSITION, unbalanced line, one slave connection, BOTH directions (Link/LinkLineU.v): the literal unbalanced primary
   (sc_run / sc_handle) and the literal unbalanced secondary (su_on_msg / su_handle / su_request), octets on the same kind of line:
   messages of the master by SEND/CONFIRM, class 1 / class 2 data of the slave by REQUEST/RESPOND (taken from the class queue on a
   request with the expected bit, remembered, repeated for a repeated request), link tests; every history of runs, losses and
   application calls on either side: delivered = taken in both directions, in order, each once, except possibly the one outstanding
   item (C16_uline_exactly_once).  Refuted for the original secondary (fi: an ASDU delivered twice after a link test) and the original
   primary (fg: a message never transmitted again).
   (7) SEVERAL SLAVES on one unbalanced line (Link/LinkLineM.v): the literal master (pu_sm: round robin over the slave connections,
   one outstanding request; pu_on_msg: routing of the answer by address, or to the current connection for the single character)
   and n literal slave stations with distinct addresses that all see every frame: each master run is, for the connection the
   scheduler selected, exactly one step of the single-connection line of (6); the other connections are untouched and the other
   stations ignore the frame (parse_su on a frame for another address).  Hence for EVERY slave whose connection has not been
   reported in error the exactly-once statement of (6) holds, whatever the scheduler does (C16_mline_exactly_once).
   (8) FRAMES IN TRANSIT on the balanced line (Link/LinkLineD.v): a frame written by A stays on the line until a later event
   delivers or loses it, and so does B's answer; runs of A at any clock values, deliveries, losses and application calls
   interleave in any order.  Under the timing assumption of the procedure (no transmission while a frame or its answer is still
   in transit, i.e. the acknowledgement timeout exceeds the round trip; the flag `dtim` records a breach) the exactly-once
   statement of (5) holds for every history (C16_dline_exactly_once), and in the quiescent state the line is empty and both
   frame count bits agree (C16_dline_quiescent).  Without the assumption the statement is false for the procedure itself
   (C16_dline_needs_timing: the acknowledgement of a premature repetition is taken for the confirmation of the next message).
   (9) THE SLAVE WITH ITS CLASS-QUEUE RINGS (Link/LinkSecQ.v): the handler of the unbalanced secondary transcribed with the literal
   rings of cs101_queue.c in place of the lists (a class request dequeues, ACD = not isEmpty(class 1 ring)) is, for every frame
   and every ring state satisfying the ring invariant, the list version on the abstraction of the rings (C16_slave_rings_handler,
   _run); an ASDU handed over goes into the FIFO of the configured capacity that displaces its oldest entry (C16_slave_rings_enqueue);
   for every history of frames and hand-overs the ring-backed station produces the list station's output (C16_slave_rings_history).
   su_run_r is the function the composed line executes against the real CS101 slaves on every run.
   (10) THE UNBALANCED LINE WITH THE RINGS (Link/LinkLineUQ.v, LinkLineUR.v): the line of (6) with bounded class queues (a hand-over
   displaces the oldest entry when the queue is full) keeps its invariant and its exactly-once statement (C16_ulineq_exactly_once);
   the line whose slave is the ring-backed station of (9) is, step by step and history by history, that line under the abstraction
   of the rings (C16_uline_r_refines), hence: literal primary x literal secondary x literal class-queue rings over a lossy line,
   every history: delivered = taken from the rings, in order, each once (C16_uline_r_exactly_once).
   (11) FRAMES IN TRANSIT on the unbalanced line (Link/LinkLineUD.v): as (8) for the master's slave connection and the slave: runs,
   deliveries, losses and application calls on either side in any order; under the same timing assumption the statement of (6)
   holds for every history in both directions (C16_udline_exactly_once, C16_udline_quiescent).
   NOT proved: more than one frame per direction in transit and answers arriving after the acknowledgement timeout (excluded by
   the timing assumption), the broadcast service of the unbalanced master, several slaves with frames in transit, and the composition with the
   ring of the class queues (cs101_queue.c; the slave application here is the FIFO stub of the harness).  Those stay with the
   differential execution of the composed model against the real CS101_Master / CS101_Slave objects on the simulated
   line, and with the exactly-once oracle, on every run. *)
From Coq Require Import ZArith List Bool.
From L60870 Require Import Link.Abp Link.AbpProofs Link.Cs101Queue Link.Cs101QueueProofs Link.Ft12 Link.LinkSec Link.LinkPrim Link.Ft12Proofs Link.LinkProofs Link.LinkOnce Link.LinkLine Link.LinkLineU Link.LinkLineM Link.LinkLineD Link.LinkSecQ Link.LinkLineUQ Link.LinkLineUR Link.LinkLineUD.
Import ListNotations.
Local Open Scope Z_scope.

Theorem C16_exactly_once_abstract_partial : forall (msg : Type) (todo : list msg) (evs : list ev),
  let s := abp_run msg (abp_init msg todo) evs in
  delivered msg s = taken msg s \/ exists m, taken msg s = delivered msg s ++ [m] /\ Abp.out msg s = Some m.
Proof. exact abp_exactly_once. Qed.

Theorem C16_confirmed_means_delivered : forall (msg : Type) (todo : list msg) (evs : list ev),
  let s := abp_run msg (abp_init msg todo) evs in Abp.out msg s = None -> delivered msg s = taken msg s.
Proof. exact abp_confirmed_delivered. Qed.

Theorem C16_fifo : forall (msg : Type) (todo : list msg) (evs : list ev),
  let s := abp_run msg (abp_init msg todo) evs in todo = taken msg s ++ inq msg s.
Proof. exact abp_taken_prefix. Qed.

Theorem C16_no_duplicates : forall (msg : Type) (todo : list msg) (evs : list ev),
  NoDup todo -> NoDup (delivered msg (abp_run msg (abp_init msg todo) evs)).
Proof. exact abp_no_dup. Qed.

Theorem C16_progress_after_loss : forall (msg : Type) (s : abp msg) m rest, AInv msg s -> Abp.out msg s = None -> inq msg s = m :: rest ->
  let s' := abp_run msg s [ESend; ELoseData; ETimeout; ERecv; ELoseAck; ETimeout; ERecv; EAck] in
  delivered msg s' = delivered msg s ++ [m] /\ Abp.out msg s' = None /\ inq msg s' = rest.
Proof. exact abp_progress_after_loss. Qed.

(* the slave queues hold exactly the configured number of ASDUs and displace the oldest first *)
Theorem C16_queue_refines_fifo : forall ops q out, QInv q ->
  let '(q', o1) := cq_run q ops out in let '(l', o2) := fifo_run (q_size q) (cq_abs q) ops out in
  o1 = o2 /\ cq_abs q' = l' /\ QInv q'.
Proof. exact Q101_refines. Qed.

Theorem C16_queue_capacity : forall n l e, 1 <= n -> Z.of_nat (length l) <= n -> Z.of_nat (length (fifo_enqueue n l e)) <= n.
Proof. exact fifo_bounded. Qed.

Theorem C16_queue_displaces_oldest : forall n l e, Z.of_nat (length l) = n -> 1 <= n -> fifo_enqueue n l e = tl l ++ [e].
Proof. exact fifo_displaces_oldest. Qed.

Theorem C16_queue_init : forall n, 1 <= n -> QInv (cq_init n) /\ cq_abs (cq_init n) = [].
Proof. exact QInv_init. Qed.

(* class order at the slave: a request takes the head of ITS class queue only, exactly once even when repeated *)
Theorem C16_class_order : forall c s (cls : bool) fcb d rest, fcb = su_efcb s -> (if cls then su_q1 s else su_q2 s) = d :: rest ->
  let s' := fst (su_request c s cls fcb true) in
  su_efcb s' = negb (su_efcb s) /\ su_udbuf s' = d /\ su_udsz s' = lenz d mod 256 /\ su_addr s' = su_addr s /\
  (if cls then su_q1 s' = rest /\ su_q2 s' = su_q2 s else su_q2 s' = rest /\ su_q1 s' = su_q1 s) /\
  snd (su_request c s cls fcb true) = tx_opt (enc_var (alen c) 8 (su_addr s) false false (q_nonempty (su_q1 s')) false d).
Proof. exact su_request_new. Qed.

(* the master side, literal model, every history: no message goes out as a new frame twice while the link is up *)
Theorem C16_message_new_frame_once_unbalanced : forall v c evs s m, fg v = true -> good s m -> m_bad (u_mon v c s m evs) = false.
Proof. exact sc_message_new_once. Qed.

Theorem C16_message_new_frame_once_unbalanced_from_power_up : forall v c a evs, fg v = true ->
  m_bad (u_mon v c (sc_init a) {| m_sent := false; m_bad := false |} evs) = false.
Proof. exact sc_message_new_once_from_power_up. Qed.

Theorem C16_message_new_frame_once_unbalanced_refuted : exists v c s evs,
  fg v = false /\ good s {| m_sent := false; m_bad := false |} /\
  m_bad (u_mon v c s {| m_sent := false; m_bad := false |} evs) = true.
Proof. exact sc_message_new_once_refuted. Qed.

(* the monitor's events are the real ones: a "new user-data frame" is one FC 3 frame with FCV, the next frame count bit and the
   waiting message; "failure reported" is the link-state callback *)
Theorem C16_new_frame_is_user_data : forall v c now s,
  sc_ps s = PLL_AVAILABLE -> sc_ps (fst (sc_run v c now s)) = PLL_SEND_CONFIRM ->
  snd (sc_run v c now s) = tx_opt (enc_var (alen c) 3 (sc_addr s) true false (sc_nfcb s) true (sc_msg s)) /\ sc_has s = true.
Proof. exact new_data_frame_octets. Qed.

Theorem C16_failure_is_reported : forall v c s e, sc_ls s <> LS_ERROR -> sc_ls (fst (u_step v c s e)) = LS_ERROR ->
  In (OLs (sc_addr s) LS_ERROR) (snd (u_step v c s e)).
Proof. exact failure_is_reported. Qed.

(* composition of the literal balanced primary and secondary over a lossy line (Link/LinkLine.v).  `J` is the joint invariant of
   the data phase: A's link state AVAILABLE, queued messages well-formed, and either A idle with both frame count bits equal and
   delivered = taken, or a test frame outstanding (delivered = taken), or a message outstanding (taken = pre ++ [it], and B either
   still expects its bit and has delivered pre, or has toggled and delivered pre ++ [it]). *)
Theorem C16_line_exactly_once : forall v c addrB dirA dirB, 0 <= alen c <= 2 -> fb v = true -> fg v = true -> addr_in_range (alen c) addrB ->
  forall evs st, J c st -> lfail st = false ->
  let st' := fold_left (lstep v c addrB dirA dirB) evs st in lfail st' = false ->
  lD st' = lT st' \/ (lT st' = lD st' ++ [pb_last (lp st')] /\ pb_ps (lp st') = PLL_SEND_CONFIRM).
Proof. exact line_exactly_once. Qed.

Theorem C16_line_invariant : forall v c addrB dirA dirB, 0 <= alen c <= 2 -> fb v = true -> fg v = true -> addr_in_range (alen c) addrB ->
  forall evs st, J c st -> lfail st = false -> lfail (fold_left (lstep v c addrB dirA dirB) evs st) = false ->
  J c (fold_left (lstep v c addrB dirA dirB) evs st).
Proof. exact line_invariant. Qed.

Theorem C16_line_reset_synchronises : forall v c addrB dirA dirB, 0 <= alen c <= 2 -> addr_in_range (alen c) addrB ->
  forall now p s q, pb_ps p = PLL_RESET -> pb_nfcb p = true -> Forall (msg_ok c) q ->
  let '(s1, ob) := b_recv v c addrB dirB s (reset_frame c (pb_other p) dirA) in
  ob = [OTx (bal_ack c addrB dirB)] /\
  let '(p1, oa) := a_recv v c dirA now p (bal_ack c addrB dirB) in
  J c {| lp := p1; lq := q; lsb := s1; lT := []; lD := []; lfail := false |}.
Proof. exact reset_synchronises. Qed.

Example C16_line_example :
  let st' := fold_left (lstep ex_v ex_c 2 true false) ex_evs ex_st in
  lfail st' = false /\ lD st' = [[45; 1; 6; 0; 1; 0; 7; 0]; [45; 1; 6; 0; 2; 0; 8; 1]] /\ lT st' = lD st' /\ lq st' = [].
Proof. exact line_example. Qed.

Theorem C16_line_exactly_once_refuted :
  let st' := fold_left (lstep ex_v0 ex_c 2 true false) [LEnq [45; 1; 6; 0; 1; 0; 7; 0]; LRun 10 true false; LTest; LRun 250 false false] ex_st in
  lfail st' = false /\ pb_ps (lp st') = PLL_AVAILABLE /\ lT st' = [[45; 1; 6; 0; 1; 0; 7; 0]] /\ lD st' = [].
Proof. exact line_exactly_once_refuted. Qed.

(* composition of the literal unbalanced primary (one slave connection) and secondary, both directions (Link/LinkLineU.v).
   uT / uD: messages of the master taken for transmission as a new frame / handed to the slave application;
   uR / uU: ASDUs taken from the slave's class queues / handed to the master application. *)
Theorem C16_uline_exactly_once : forall v c addr, 0 <= alen c <= 2 -> fc_ v = true -> fg v = true -> fh v = true -> fi v = true ->
  addr_in_range (alen c) addr -> addr <> broadcast_addr (alen c) ->
  forall evs st, JU c addr st -> ufail st = false ->
  let st' := fold_left (ustep v c) evs st in ufail st' = false ->
  (uD st' = uT st' \/ (uT st' = uD st' ++ [sc_msg (um st')] /\ sc_ps (um st') = PLL_SEND_CONFIRM)) /\
  (uU st' = uR st' \/ (uR st' = uU st' ++ [su_udbuf (us st')] /\ sc_ps (um st') = PLL_REQUEST_RESPOND)).
Proof. exact uline_exactly_once. Qed.

Theorem C16_uline_invariant : forall v c addr, 0 <= alen c <= 2 -> fc_ v = true -> fg v = true -> fh v = true -> fi v = true ->
  addr_in_range (alen c) addr -> addr <> broadcast_addr (alen c) ->
  forall evs st, JU c addr st -> ufail st = false -> ufail (fold_left (ustep v c) evs st) = false -> JU c addr (fold_left (ustep v c) evs st).
Proof. exact uline_invariant. Qed.

Example C16_uline_example :
  let st' := fold_left (ustep uex_v uex_c) uex_evs uex_st in
  ufail st' = false /\ uD st' = [[45; 1; 6; 0; 1; 0; 7]] /\ uT st' = uD st' /\
  uU st' = [[30; 1; 3; 0; 1; 0; 1]; [30; 1; 3; 0; 1; 0; 2]; [9; 1; 3; 0; 1; 0; 3]] /\ uR st' = uU st'.
Proof. exact uline_example. Qed.

Theorem C16_uline_exactly_once_refuted_secondary :
  let st' := fold_left (ustep uex_v_nofi uex_c)
               [UEnq true [30; 1; 3; 0; 1; 0; 1]; UReq true; URun 10 false false; UTest; URun 100 false false;
                UEnq true [30; 1; 3; 0; 1; 0; 2]; UReq true; URun 200 false false; URun 300 false false] uex_st in
  ufail st' = false /\ sc_ps (um st') = PLL_AVAILABLE /\ uR st' = [[30; 1; 3; 0; 1; 0; 1]; [30; 1; 3; 0; 1; 0; 2]] /\
  uU st' = [[30; 1; 3; 0; 1; 0; 1]; [30; 1; 3; 0; 1; 0; 1]; [30; 1; 3; 0; 1; 0; 2]].
Proof. exact uline_exactly_once_refuted_fi. Qed.

Theorem C16_uline_exactly_once_refuted_primary :
  let st' := fold_left (ustep uex_v_nofg uex_c)
               [UMsg [45; 1; 6; 0; 1; 0; 7]; URun 10 true false; UTest; URun 250 false false; URun 300 false false; URun 400 false false; URun 500 false false] uex_st in
  ufail st' = false /\ sc_ps (um st') = PLL_AVAILABLE /\ uT st' = [[45; 1; 6; 0; 1; 0; 7]] /\ uD st' = [].
Proof. exact uline_exactly_once_refuted_fg. Qed.

(* several slaves on one unbalanced line (Link/LinkLineM.v).  WF: distinct station addresses in range, each station paired with its
   connection object, the scheduler index inside the table.  Pp p: the connection was reported in error, or the joint invariant JU of
   (6) holds for it. *)
Theorem C16_mline_exactly_once : forall v c, 0 <= alen c <= 2 -> fc_ v = true -> fg v = true -> fh v = true -> fi v = true ->
  forall evs st, WF c st -> Forall (Pp c) (mpairs st) ->
  Forall (fun p => ufail p = false ->
            (uD p = uT p \/ (uT p = uD p ++ [sc_msg (um p)] /\ sc_ps (um p) = PLL_SEND_CONFIRM)) /\
            (uU p = uR p \/ (uR p = uU p ++ [su_udbuf (us p)] /\ sc_ps (um p) = PLL_REQUEST_RESPOND)))
         (mpairs (fold_left (mstep v c) evs st)).
Proof. exact mline_exactly_once. Qed.

Theorem C16_mline_invariant : forall v c, 0 <= alen c <= 2 -> fc_ v = true -> fg v = true -> fh v = true -> fi v = true ->
  forall evs st, WF c st -> Forall (Pp c) (mpairs st) ->
  WF c (fold_left (mstep v c) evs st) /\ Forall (Pp c) (mpairs (fold_left (mstep v c) evs st)).
Proof. exact mline_invariant. Qed.

Example C16_mline_hypotheses : WF uex_c mex_st /\ Forall (Pp uex_c) (mpairs mex_st).
Proof. exact mline_hypotheses. Qed.

Example C16_mline_example :
  let st' := fold_left (mstep uex_v uex_c) mex_evs mex_st in
  map (fun p => (sc_addr (um p), ufail p, uD p, uU p)) (mpairs st') =
  [(3, false, [], [[30; 1; 3; 0; 1; 0; 1]]);
   (5, false, [[45; 1; 6; 0; 1; 0; 7]], [[30; 1; 3; 0; 1; 0; 2]; [9; 1; 3; 0; 1; 0; 3]])] /\
  map (fun p => (uT p, uR p)) (mpairs st') = map (fun p => (uD p, uU p)) (mpairs st').
Proof. exact mline_example. Qed.

(* the balanced line with frames in transit (Link/LinkLineD.v).  JD is J of the synchronous line plus the place of the frame while
   A waits: the outstanding frame under way to B, nothing on the line (lost), or B's acknowledgement under way and B's bit toggled.
   dtim st' = false is the timing assumption: A never transmitted while something was still in transit. *)
Theorem C16_dline_exactly_once : forall v c addrB dirA dirB, 0 <= alen c <= 2 -> fb v = true -> fg v = true -> addr_in_range (alen c) addrB ->
  forall evs st, JD c addrB dirA dirB st -> dfail st = false -> dtim st = false ->
  let st' := fold_left (dstep v c addrB dirA dirB) evs st in dfail st' = false -> dtim st' = false ->
  dD st' = dT st' \/ (dT st' = dD st' ++ [pb_last (dp st')] /\ pb_ps (dp st') = PLL_SEND_CONFIRM).
Proof. exact dline_exactly_once. Qed.

Theorem C16_dline_invariant : forall v c addrB dirA dirB, 0 <= alen c <= 2 -> fb v = true -> fg v = true -> addr_in_range (alen c) addrB ->
  forall evs st, JD c addrB dirA dirB st -> dfail st = false -> dtim st = false ->
  dfail (fold_left (dstep v c addrB dirA dirB) evs st) = false -> dtim (fold_left (dstep v c addrB dirA dirB) evs st) = false ->
  JD c addrB dirA dirB (fold_left (dstep v c addrB dirA dirB) evs st).
Proof. exact dline_invariant. Qed.

Theorem C16_dline_quiescent : forall v c addrB dirA dirB, 0 <= alen c <= 2 -> fb v = true -> fg v = true -> addr_in_range (alen c) addrB ->
  forall evs st, JD c addrB dirA dirB st -> dfail st = false -> dtim st = false ->
  let st' := fold_left (dstep v c addrB dirA dirB) evs st in dfail st' = false -> dtim st' = false -> pb_ps (dp st') = PLL_AVAILABLE ->
  dD st' = dT st' /\ dAB st' = None /\ dBA st' = None /\ pb_nfcb (dp st') = sb_efcb (dsb st').
Proof. exact dline_quiescent. Qed.

Example C16_dline_hypotheses : JD ex_c 2 true false exd_st.
Proof. exact dline_hypotheses. Qed.

Example C16_dline_example :
  let st' := fold_left (dstep ex_v ex_c 2 true false) exd_evs exd_st in
  dfail st' = false /\ dtim st' = false /\ dD st' = [exd_m1; exd_m2] /\ dT st' = dD st' /\ dq st' = [] /\ dAB st' = None /\ dBA st' = None.
Proof. exact dline_example. Qed.

Theorem C16_dline_needs_timing :
  let st' := fold_left (dstep ex_v ex_c 2 true false)
               [DEnq exd_m1; DEnq exd_m2; DRun 10; DToB; DRun 250; DToA 260; DToB; DRun 270; DLoseAB; DToA 280] exd_st in
  dfail st' = false /\ dtim st' = true /\ pb_ps (dp st') = PLL_AVAILABLE /\ dT st' = [exd_m1; exd_m2] /\ dD st' = [exd_m1].
Proof. exact dline_needs_timing. Qed.

(* the unbalanced secondary with the literal class-queue rings (Link/LinkSecQ.v).  QI x: both rings satisfy the invariant of
   Cs101QueueProofs.v; suq_abs x: the station of Link/LinkSec.v whose two lists are the rings' contents, oldest first. *)
Theorem C16_slave_rings_handler : forall fi_ c x fc bc fcb fcv msg uds udl, QI x ->
  su_handle fi_ c (suq_abs x) fc bc fcb fcv msg uds udl =
    (suq_abs (fst (su_handle_r fi_ c x fc bc fcb fcv msg uds udl)), snd (su_handle_r fi_ c x fc bc fcb fcv msg uds udl)) /\
  QI (fst (su_handle_r fi_ c x fc bc fcb fcv msg uds udl)).
Proof. exact su_handle_r_refines. Qed.

Theorem C16_slave_rings_run : forall v c now x rx, QI x ->
  su_run v c now (suq_abs x) rx =
    (suq_abs (fst (fst (su_run_r v c now x rx))), snd (fst (su_run_r v c now x rx)), snd (su_run_r v c now x rx)) /\
  QI (fst (fst (su_run_r v c now x rx))).
Proof. exact su_run_r_refines. Qed.

Theorem C16_slave_rings_enqueue : forall x class1 d, QI x ->
  QI (suq_enqueue x class1 d) /\
  suq_abs (suq_enqueue x class1 d) =
    (if class1 then su_with_q (suq_abs x) (fifo_enqueue (q_size (sq_1 x)) (cq_abs (sq_1 x)) d) (cq_abs (sq_2 x))
     else su_with_q (suq_abs x) (cq_abs (sq_1 x)) (fifo_enqueue (q_size (sq_2 x)) (cq_abs (sq_2 x)) d)).
Proof. exact suq_enqueue_refines. Qed.

Theorem C16_slave_rings_history : forall fi_ c es x, QI x ->
  qrun_l fi_ c (q_size (sq_1 x)) (q_size (sq_2 x)) (suq_abs x) es = (suq_abs (fst (qrun_r fi_ c x es)), snd (qrun_r fi_ c x es)) /\
  QI (fst (qrun_r fi_ c x es)).
Proof. exact suq_history. Qed.

Example C16_slave_rings_example :
  QI exq_x /\
  map (fun o => match o with OTx f => if nth 0 f 0 =? 104 then nth 4 f 0 else nth 1 f 0 | _ => -1 end) (snd (qrun_r true exq_c exq_x exq_es)) =
  [40; 8; 8; 9].
Proof. exact suq_example. Qed.

(* the unbalanced line with bounded class queues (Link/LinkLineUQ.v): ustepq = ustep, except that a hand-over to a full class queue
   first displaces its oldest entry (the FIFO the rings refine) *)
Theorem C16_ulineq_exactly_once : forall v c addr, 0 <= alen c <= 2 -> fc_ v = true -> fg v = true -> fh v = true -> fi v = true ->
  addr_in_range (alen c) addr -> addr <> broadcast_addr (alen c) ->
  forall n1 n2 evs st, JU c addr st -> ufail st = false ->
  let st' := fold_left (ustepq v c n1 n2) evs st in ufail st' = false ->
  (uD st' = uT st' \/ (uT st' = uD st' ++ [sc_msg (um st')] /\ sc_ps (um st') = PLL_SEND_CONFIRM)) /\
  (uU st' = uR st' \/ (uR st' = uU st' ++ [su_udbuf (us st')] /\ sc_ps (um st') = PLL_REQUEST_RESPOND)).
Proof. exact ulineq_exactly_once. Qed.

Theorem C16_ulineq_enqueue : forall v c n1 n2 st cls d, umsg_okb c d = true ->
  us (ustepq v c n1 n2 st (UEnq cls d)) =
  (if cls then su_with_q (us st) (fifo_enqueue n1 (su_q1 (us st)) d) (su_q2 (us st))
   else su_with_q (us st) (su_q1 (us st)) (fifo_enqueue n2 (su_q2 (us st)) d)).
Proof. exact ustepq_enqueue. Qed.

(* the line whose slave keeps its class queues in the literal rings (Link/LinkLineUR.v) *)
Theorem C16_uline_r_refines : forall v c evs st, QI (rs st) ->
  absR (fold_left (ustep_r v c) evs st) = fold_left (ustepq v c (fst (sizes (rs st))) (snd (sizes (rs st)))) evs (absR st) /\
  QI (rs (fold_left (ustep_r v c) evs st)).
Proof. exact uline_r_refines. Qed.

Theorem C16_uline_r_exactly_once : forall v c addr, 0 <= alen c <= 2 -> fc_ v = true -> fg v = true -> fh v = true -> fi v = true ->
  addr_in_range (alen c) addr -> addr <> broadcast_addr (alen c) ->
  forall evs st, QI (rs st) -> JU c addr (absR st) -> rfail st = false ->
  let st' := fold_left (ustep_r v c) evs st in rfail st' = false ->
  (rD st' = rT st' \/ (rT st' = rD st' ++ [sc_msg (rm st')] /\ sc_ps (rm st') = PLL_SEND_CONFIRM)) /\
  (rU st' = rR st' \/ (rR st' = rU st' ++ [su_udbuf (sq_s (rs st'))] /\ sc_ps (rm st') = PLL_REQUEST_RESPOND)).
Proof. exact uline_r_exactly_once. Qed.

Example C16_uline_r_hypotheses : QI (rs uexr_st) /\ absR uexr_st = uex_st /\ JU uex_c 3 (absR uexr_st).
Proof. split; [exact (proj1 uline_r_hypotheses)|]. split; [exact (proj2 uline_r_hypotheses) | exact uline_r_invariant_holds_initially]. Qed.

Example C16_uline_r_example :
  let st' := fold_left (ustep_r uex_v uex_c) uex_evs uexr_st in
  rfail st' = false /\ rD st' = [[45; 1; 6; 0; 1; 0; 7]] /\ rT st' = rD st' /\
  rU st' = [[30; 1; 3; 0; 1; 0; 2]; [9; 1; 3; 0; 1; 0; 3]] /\ rR st' = rU st'.
Proof. exact uline_r_example. Qed.

(* the unbalanced line with frames in transit (Link/LinkLineUD.v).  JUD is JU of the synchronous line plus the place of the outstanding
   frame: under way to the slave, nothing on the line, or the slave's answer under way (and then the slave has processed the frame). *)
Theorem C16_udline_exactly_once : forall v c addr, 0 <= alen c <= 2 -> fc_ v = true -> fg v = true -> fh v = true -> fi v = true ->
  addr_in_range (alen c) addr -> addr <> broadcast_addr (alen c) ->
  forall evs st, JUD c addr st -> xfl st = false -> xtm st = false ->
  let st' := fold_left (xstep v c) evs st in xfl st' = false -> xtm st' = false ->
  (xD st' = xT st' \/ (xT st' = xD st' ++ [sc_msg (xm st')] /\ sc_ps (xm st') = PLL_SEND_CONFIRM)) /\
  (xU st' = xR st' \/ (xR st' = xU st' ++ [su_udbuf (xs st')] /\ sc_ps (xm st') = PLL_REQUEST_RESPOND)).
Proof. exact udline_exactly_once. Qed.

Theorem C16_udline_invariant : forall v c addr, 0 <= alen c <= 2 -> fc_ v = true -> fg v = true -> fh v = true -> fi v = true ->
  addr_in_range (alen c) addr -> addr <> broadcast_addr (alen c) ->
  forall evs st, JUD c addr st -> xfl st = false -> xtm st = false ->
  xfl (fold_left (xstep v c) evs st) = false -> xtm (fold_left (xstep v c) evs st) = false ->
  JUD c addr (fold_left (xstep v c) evs st).
Proof. exact udline_invariant. Qed.

Theorem C16_udline_quiescent : forall v c addr, 0 <= alen c <= 2 -> fc_ v = true -> fg v = true -> fh v = true -> fi v = true ->
  addr_in_range (alen c) addr -> addr <> broadcast_addr (alen c) ->
  forall evs st, JUD c addr st -> xfl st = false -> xtm st = false ->
  let st' := fold_left (xstep v c) evs st in xfl st' = false -> xtm st' = false -> sc_ps (xm st') = PLL_AVAILABLE ->
  xD st' = xT st' /\ xU st' = xR st' /\ xAB st' = None /\ xBA st' = None /\ sc_nfcb (xm st') = su_efcb (xs st').
Proof. exact udline_quiescent. Qed.

Example C16_udline_hypotheses : JUD uex_c 3 udex_st.
Proof. exact udline_hypotheses. Qed.

Example C16_udline_example :
  let st' := fold_left (xstep uex_v uex_c) udex_evs udex_st in
  xfl st' = false /\ xtm st' = false /\ xD st' = [[45; 1; 6; 0; 1; 0; 7]] /\ xT st' = xD st' /\
  xU st' = [[30; 1; 3; 0; 1; 0; 1]; [30; 1; 3; 0; 1; 0; 2]; [30; 1; 3; 0; 1; 0; 4]; [9; 1; 3; 0; 1; 0; 3]] /\ xR st' = xU st' /\
  xAB st' = None /\ xBA st' = None.
Proof. exact udline_example. Qed.

Example C16_example :
  delivered nat (abp_run nat (abp_init nat [1; 2; 3]%nat)
    [ESend; ELoseData; ETimeout; ERecv; ELoseAck; ETimeout; ERecv; EAck; ESend; ERecv; EAck; ESend; ERecv; ELoseAck; ETimeout; ERecv; EAck])
  = [1; 2; 3]%nat.
Proof. vm_compute. reflexivity. Qed.
