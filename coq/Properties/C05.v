(* C05 -- received I-frames are delivered exactly once, in order, for ANY TCP segmentation. *)
From Coq Require Import ZArith List Bool.
From L60870 Require Import Apci.Reasm Apci.ReasmProofs Apci.Deliver.
Import ListNotations.
Local Open Scope Z_scope.

(* the literal receiveMessage model fed with any chunking = the octet-wise reference on the whole stream *)
Theorem C05_feed_is_reference : forall chunks st acc, WF st -> Forall bytes_ok chunks ->
  feed st chunks acc = bytes_run st (concat chunks) acc.
Proof. exact feed_is_bytes_run. Qed.

(* hence: two segmentations of the same stream give the same frames and the same open/failed outcome *)
Theorem C05_segmentation : forall c1 c2, Forall bytes_ok c1 -> Forall bytes_ok c2 ->
  concat c1 = concat c2 -> feed rinit c1 [] = feed rinit c2 [].
Proof. exact segmentation_independent. Qed.

(* everything handed to message handling is exactly one delimited APDU: 68 L and L octets, L >= 1 *)
Theorem C05_frames_delimited : forall bs st acc, WF st -> Forall framed acc ->
  Forall framed (fst (bytes_run st bs acc)).
Proof. exact bytes_run_framed. Qed.

(* receive counter = number of delivered I-frames (mod 2^15): the k-th delivery carried N(S) = vr0 + k *)
Theorem C05_delivery_count : forall nr_ok fs st d c s,
  on_frames nr_ok st fs = (d, c, s) -> 0 <= rxvr st < 32768 ->
  rxvr s = (rxvr st + Z.of_nat (length d)) mod 32768.
Proof. exact on_frames_ns. Qed.

(* non-vacuity: a stream cut in the middle of the APCI and in the middle of the ASDU *)
Example C05_example :
  feed rinit [[104]; [4; 7; 0]; [0; 0; 104; 14; 0; 0]; [0; 0; 100; 1; 6; 0; 1; 0; 0; 0; 0; 20]] [] =
  ([[104; 4; 7; 0; 0; 0]; [104; 14; 0; 0; 0; 0; 100; 1; 6; 0; 1; 0; 0; 0; 0; 20]], Open rinit).
Proof. vm_compute. reflexivity. Qed.
