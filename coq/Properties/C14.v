(* C14 -- FT 1.2 link framing: only intact frames for this station reach the application.
   Models: Link/Ft12.v (encoders = SendFixedFrame/SendVariableLengthFrame/SendSingleCharCharacter, read_next =
   SerialTransceiverFT12_readNextMessage, parse_su / parse_bp = the two header parsers) and the station step
   functions of Link/LinkSec.v / LinkPrim.v.  `ff v = true` is the tree with proposed_fixes/C14-short-length-field. *)
From Coq Require Import ZArith List Bool.
From L60870 Require Import Link.Ft12 Link.Ft12Proofs Link.LinkSec Link.LinkPrim Link.LinkProofs Link.Ft12Bp.
Import ListNotations.
Local Open Scope Z_scope.

(* -------- transmit side: for ALL function codes, addresses, flag combinations and user data *)
Theorem C14_fixed_frame_wf : forall alen fc address prm dir acd dfc, 0 <= alen <= 2 ->
  wf_frame alen (enc_fixed alen fc address prm dir acd dfc) /\ lenz (enc_fixed alen fc address prm dir acd dfc) = 4 + alen.
Proof. exact enc_fixed_wf. Qed.

(* 68 L L 68 C A.. data CS 16 with L1 = L2 = 1 + alen + |data| (the true length), CS = sum mod 256, at most 261 octets *)
Theorem C14_variable_frame_wf : forall alen fc address prm dir acd dfc data f, 0 <= alen <= 2 ->
  enc_var alen fc address prm dir acd dfc data = Some f ->
  wf_frame alen f /\ lenz f = lenz data + alen + 7 /\ lenz f <= 261 /\
  nthz f 1 = 1 + alen + lenz data /\ nthz f 2 = 1 + alen + lenz data.
Proof. exact enc_var_wf. Qed.

Theorem C14_checksum_is_sum_mod_256 : forall l, cs8 l = sumz l mod 256.
Proof. exact cs8_spec. Qed.

(* user data that does not fit (L > 255) is refused, never truncated *)
Theorem C14_variable_frame_refused : forall alen fc address prm dir acd dfc data,
  enc_var alen fc address prm dir acd dfc data = None <-> 255 < 1 + alen + lenz data.
Proof. exact enc_var_none. Qed.

(* every frame any of the three station kinds writes, in any state, on any input, is well formed *)
Theorem C14_tx_wf_unbalanced_slave : forall v c now s rx, 0 <= alen c <= 2 -> outs_wf (alen c) (snd (su_run v c now s rx)).
Proof. exact su_tx_wf. Qed.
Theorem C14_tx_wf_balanced : forall v c now b rx, 0 <= alen c <= 2 -> outs_wf (alen c) (snd (bal_run v c now b rx)).
Proof. exact bal_tx_wf. Qed.
Theorem C14_tx_wf_unbalanced_master : forall v c now p rx, 0 <= alen c <= 2 -> outs_wf (alen c) (snd (pu_run v c now p rx)).
Proof. exact pu_tx_wf. Qed.

(* -------- receive side *)
(* the transceiver hands on exactly one well-formed frame and leaves the rest of the line untouched *)
Theorem C14_delimit : forall alen f rest, 0 <= alen <= 2 -> wf_frame alen f -> read_next alen (f ++ rest) = (Some f, rest).
Proof. exact read_next_wf. Qed.

(* acceptance implies every receive clause of the property: equal length octets, length consistent with the octets
   received (and covering C and A), checksum, own or broadcast address (broadcast only with FC 4), PRM = 1 *)
Theorem C14_rx_accept_sound_unbalanced_slave : forall alen own msg fc bc fcb fcv uds udl, 0 <= alen <= 2 ->
  parse_su true alen own msg = SuOk fc bc fcb fcv uds udl -> su_accepts alen own msg fc bc fcb fcv uds udl.
Proof. exact parse_su_sound. Qed.

(* ... and conversely every frame satisfying the clauses is accepted: acceptance is EXACTLY the specification predicate *)
Theorem C14_rx_accept_complete_unbalanced_slave : forall alen own msg fc bc fcb fcv uds udl, 0 <= alen <= 2 ->
  own <> broadcast_addr alen -> su_accepts alen own msg fc bc fcb fcv uds udl ->
  parse_su true alen own msg = SuOk fc bc fcb fcv uds udl.
Proof. exact parse_su_complete. Qed.

Theorem C14_rx_accept_sound_balanced_and_master : forall alen msg, 0 <= alen <= 2 ->
  match parse_bp true alen msg with
  | BpDrop => True
  | BpAck => nthz msg 0 = 229
  | BpSec fc fcb fcv uds udl =>
      bp_accepts alen msg uds udl /\ bitz (rx_ctrl msg) 64 = true /\ fc = rx_ctrl msg mod 16 /\
      fcb = bitz (rx_ctrl msg) 32 /\ fcv = bitz (rx_ctrl msg) 16
  | BpPri fc dir dfc acd address uds udl =>
      bp_accepts alen msg uds udl /\ bitz (rx_ctrl msg) 64 = false /\ fc = rx_ctrl msg mod 16 /\
      address = rx_address alen msg /\ dfc = bitz (rx_ctrl msg) 16 /\ acd = bitz (rx_ctrl msg) 32
  end.
Proof. exact parse_bp_sound. Qed.

(* a frame failing a clause is rejected ... *)
Theorem C14_rx_reject_unbalanced_slave : forall alen own msg fc bc fcb fcv uds udl, 0 <= alen <= 2 ->
  (~ rx_var_ok alen msg /\ ~ rx_fixed_ok alen msg) \/
  (rx_address alen msg <> own /\ rx_address alen msg <> broadcast_addr alen) ->
  parse_su true alen own msg <> SuOk fc bc fcb fcv uds udl.
Proof. exact parse_su_rejects. Qed.
Theorem C14_rx_reject_balanced_and_master : forall alen msg, 0 <= alen <= 2 -> nthz msg 0 <> 229 ->
  ~ rx_var_ok alen msg -> ~ rx_fixed_ok alen msg -> parse_bp true alen msg = BpDrop.
Proof. exact parse_bp_rejects. Qed.

(* ... and a rejected frame is never answered and never passed on (only the link-state callback may fire) *)
Theorem C14_rx_silent_unbalanced_slave : forall v c now s msg,
  (forall fc bc fcb fcv uds udl, parse_su (ff v) (alen c) (su_addr s) msg <> SuOk fc bc fcb fcv uds udl) ->
  silent (snd (su_on_msg v c now s msg)).
Proof. exact su_reject_silent. Qed.
Theorem C14_rx_silent_balanced : forall v c now b msg, parse_bp (ff v) (alen c) msg = BpDrop -> bal_on_msg v c now b msg = (b, []).
Proof. exact bal_reject_silent. Qed.
Theorem C14_rx_silent_unbalanced_master : forall v c now p msg, parse_bp (ff v) (alen c) msg = BpDrop -> pu_on_msg v c now p msg = (p, []).
Proof. exact pu_reject_silent. Qed.

(* accepted user data is passed through unmodified: what is indicated is the octet range of the frame ... *)
Theorem C14_indicated_data : forall v c now s msg bc d, In (OInd bc d) (snd (su_on_msg v c now s msg)) ->
  exists fc fcb fcv uds udl, parse_su (ff v) (alen c) (su_addr s) msg = SuOk fc bc fcb fcv uds udl /\ d = user_data msg uds udl.
Proof. exact su_ind_data. Qed.

(* ... and for a frame built by the encoder that range is exactly the data given to the encoder (round trip) *)
Theorem C14_roundtrip : forall ff alen own fc dir fcb fcv data f, 0 <= alen <= 2 -> 0 <= fc < 16 ->
  addr_in_range alen own -> own <> broadcast_addr alen ->
  enc_var alen fc own true dir fcb fcv data = Some f ->
  parse_su ff alen own f = SuOk fc false fcb fcv (5 + alen) (lenz data) /\ user_data f (5 + alen) (lenz data) = data.
Proof. exact parse_su_roundtrip. Qed.

(* the same round trips for the parser of a balanced station / of the unbalanced primary (HandleMessageBalancedAndPrimaryUnbalanced):
   the single character, fixed frames in both directions (PRM = 1: function code, FCB, FCV; PRM = 0: function code, DIR, DFC, ACD,
   address) and variable frames with PRM = 1 (fields and exactly the user data given to the encoder), all address widths *)
Theorem C14_roundtrip_balanced_single : forall ff alen, parse_bp ff alen E5 = BpAck.
Proof. exact parse_bp_single. Qed.
Theorem C14_roundtrip_balanced_fixed_prm : forall ff alen fc address dir fcb fcv, 0 <= alen <= 2 -> 0 <= fc < 16 ->
  parse_bp ff alen (enc_fixed alen fc address true dir fcb fcv) = BpSec fc fcb fcv 0 0.
Proof. exact parse_bp_fixed_prm. Qed.
Theorem C14_roundtrip_balanced_fixed_sec : forall ff alen fc address dir acd dfc, 0 <= alen <= 2 -> 0 <= fc < 16 -> addr_in_range alen address ->
  parse_bp ff alen (enc_fixed alen fc address false dir acd dfc) = BpPri fc dir dfc acd address 0 0.
Proof. exact parse_bp_fixed_sec. Qed.
Theorem C14_roundtrip_balanced_variable : forall ff alen fc address dir fcb fcv data f, 0 <= alen <= 2 -> 0 <= fc < 16 ->
  enc_var alen fc address true dir fcb fcv data = Some f ->
  parse_bp ff alen f = BpSec fc fcb fcv (5 + alen) (lenz data) /\ user_data f (5 + alen) (lenz data) = data.
Proof. exact parse_bp_var_prm. Qed.

Theorem C14_roundtrip_balanced_variable_sec : forall ff alen fc address dir acd dfc data f, 0 <= alen <= 2 -> 0 <= fc < 16 -> addr_in_range alen address ->
  enc_var alen fc address false dir acd dfc data = Some f ->
  parse_bp ff alen f = BpPri fc dir dfc acd address (5 + alen) (lenz data) /\ user_data f (5 + alen) (lenz data) = data.
Proof. exact parse_bp_var_sec. Qed.
(* and a fixed frame at the unbalanced secondary (its own address, not the broadcast address) *)
Theorem C14_roundtrip_fixed_unbalanced : forall ff alen own fc dir fcb fcv, 0 <= alen <= 2 -> 0 <= fc < 16 ->
  addr_in_range alen own -> own <> broadcast_addr alen ->
  parse_su ff alen own (enc_fixed alen fc own true dir fcb fcv) = SuOk fc false fcb fcv 0 0.
Proof. exact parse_su_fixed. Qed.

(* the original parser (ff = false) answers a variable frame whose L is too small to hold the address field,
   taking the checksum octet as the address: 68 01 01 68 43 43 16 is acknowledged by station 0x43 *)
Theorem C14_short_length_refuted :
  parse_su false 1 67 [104; 1; 1; 104; 67; 67; 22] = SuOk 3 false false false 6 (-1) /\
  parse_su true 1 67 [104; 1; 1; 104; 67; 67; 22] = SuErr.
Proof. vm_compute. split; reflexivity. Qed.

(* non-vacuity: a class 2 request for station 3 is answered with the queued user data *)
Example C14_example :
  let c := {| alen := 1; single_ack := false; t_ack := 200; t_rep := 1000; t_ls := 5000 |} in
  let v := {| fa := true; fb := true; fc_ := true; fd := true; fe := true; ff := true; fg := true; fh := true; fi := true |} in
  let s := su_with_q (su_init v 3 500) [] [[1; 2; 3]] in
  snd (su_run v c 1000 s [16; 123; 3; 126; 22]) =
  [ORx [16; 123; 3; 126; 22]; OLs (-1) 3; OTx [104; 5; 5; 104; 8; 3; 1; 2; 3; 17; 22]].
Proof. vm_compute. reflexivity. Qed.
