(* C15 -- frame count bit: alternation, identical retransmission, duplicate suppression.
   Models: Link/LinkPrim.v (pb_* balanced primary, sc_* unbalanced primary per slave), Link/LinkSec.v (su_* unbalanced
   secondary, sb_* balanced secondary), literal transcriptions of link_layer.c with the clock explicit.
   Variant flags: fa = nextFcb re-initialised when RESET REMOTE LINK is sent (proposed_fixes/C15-fcb-not-reset),
   fb = balanced secondary repeats the confirmation (C15-balanced-duplicate-no-ack), fc_ = a request is repeated
   with its own function code (C15-class1-repeated-as-class2), fg = a link test request is cleared when the test frame is sent and
   what is retransmitted / confirmed is what is outstanding, not what was requested meanwhile, fh = a negative answer ends a
   REQUEST/RESPOND service of the unbalanced primary.  Theorems named _refuted are about the original code. *)
From Coq Require Import ZArith List Bool.
From L60870 Require Import Link.Ft12 Link.LinkSec Link.LinkPrim Link.LinkProofs Link.LinkHist Link.LinkOnce Link.LinkRepeat.
Import ListNotations.
Local Open Scope Z_scope.

(* ---------------- history level (induction over ALL sequences of received frames, clock values, queued data and -- for
   the unbalanced primary -- application requests): FNew b = a step that took the machine from AVAILABLE into a
   SEND/CONFIRM or REQUEST/RESPOND exchange and wrote a frame with FCV=1, FCB=b; FReset = RESET REMOTE LINK written.
   log_ok: consecutive new frames alternate; the first new frame after a reset (and after power-up) carries 1.
   Retransmissions are not new frames (they happen inside the exchange) and are covered by the _identical theorems. *)
Theorem C15_history_balanced : forall v c dir evs p prev, fa v = true -> linked prev p -> log_ok prev (pb_log v c dir p evs).
Proof. exact pb_history_fcb. Qed.
Theorem C15_history_balanced_from_power_up : forall v c dir other idle evs, fa v = true ->
  log_ok (Some FReset) (pb_log v c dir (pb_init other idle) evs).
Proof. exact pb_history_from_init. Qed.
Theorem C15_history_unbalanced : forall v c evs s prev, fa v = true -> linked_sc prev s -> log_ok prev (sc_log v c s evs).
Proof. exact sc_history_fcb. Qed.
Theorem C15_history_unbalanced_from_power_up : forall v c a evs, fa v = true -> log_ok (Some FReset) (sc_log v c (sc_init a) evs).
Proof. exact sc_history_from_init. Qed.
Theorem C15_new_frame_octets_balanced : forall v c now dir p q b,
  classify p (fst (fst (pb_run v c now dir p q))) = Some (FNew b) ->
  snd (pb_run v c now dir p q) = [OTx (enc_fixed (alen c) 2 (pb_other p) true dir b true)] \/
  exists d, snd (pb_run v c now dir p q) = tx_opt (enc_var (alen c) 3 (pb_other p) true dir b true d).
Proof. exact pb_new_frame_octets. Qed.

(* ---------------- history level: EVERY frame a primary writes while it stays inside an exchange (SEND/CONFIRM, REQUEST/RESPOND) is octet
   for octet the frame that opened the exchange -- along every sequence of received frames, runs at any clock values and application
   calls (send, class request, link test) made at any time.  rep_trace / brep_trace list (what was written, what opened the exchange). *)
Theorem C15_retransmissions_identical_unbalanced : forall v c evs s last, fg v = true -> fc_ v = true -> rgood c s last ->
  Forall (fun p => fst p = snd p) (rep_trace v c s last evs).
Proof. exact sc_retransmissions_identical. Qed.
Theorem C15_retransmissions_identical_unbalanced_from_power_up : forall v c a evs, fg v = true -> fc_ v = true ->
  Forall (fun p => fst p = snd p) (rep_trace v c (sc_init a) [] evs).
Proof. exact sc_retransmissions_identical_from_power_up. Qed.
Theorem C15_retransmissions_identical_unbalanced_refuted : exists v c s evs,
  fg v = false /\ rgood c s [] /\ exists o l, In (o, l) (rep_trace v c s [] evs) /\ o <> l.
Proof. exact sc_retransmissions_identical_refuted. Qed.
Theorem C15_retransmissions_identical_balanced : forall v c dir evs p last, fg v = true -> bgood c dir p last ->
  Forall (fun x => fst x = snd x) (brep_trace v c dir p last evs).
Proof. exact pb_retransmissions_identical. Qed.
Theorem C15_retransmissions_identical_balanced_from_power_up : forall v c dir other idle evs, fg v = true ->
  Forall (fun x => fst x = snd x) (brep_trace v c dir (pb_init other idle) [] evs).
Proof. exact pb_retransmissions_identical_from_power_up. Qed.
Theorem C15_retransmissions_identical_balanced_refuted : exists v c dir p evs,
  fg v = false /\ bgood c dir p [] /\ exists o l, In (o, l) (brep_trace v c dir p [] evs) /\ o <> l.
Proof. exact pb_retransmissions_identical_refuted. Qed.

(* ---------------- primary, balanced *)
Theorem C15_toggle_balanced : forall v c now dir p d rest,
  pb_ps p = PLL_AVAILABLE -> pb_test p = false -> now - clamp (pb_lastrx p) now <= pb_idle p ->
  let '(p', q', o) := pb_run v c now dir p (d :: rest) in
  o = fcv_frame c 3 (pb_other p) dir (pb_nfcb p) d /\ q' = rest /\
  pb_ps p' = PLL_SEND_CONFIRM /\ pb_nfcb p' = negb (pb_nfcb p) /\ pb_last p' = d /\ pb_test p' = false /\
  pb_lastsend p' = now /\ pb_origsend p' = now /\ pb_other p' = pb_other p /\ (fg v = true -> pb_tout p' = false).
Proof. exact pb_send_new. Qed.

(* req = the application asked for a link test while the frame was waiting for its confirmation: the retransmission is the
   identical frame all the same, and the request stays pending (repaired code, variant g) *)
Theorem C15_retransmit_identical_balanced : forall v c t0 t1 dir p d rest (req : bool), fg v = true ->
  pb_ps p = PLL_AVAILABLE -> pb_test p = false -> t0 - clamp (pb_lastrx p) t0 <= pb_idle p ->
  0 <= t_ack c -> t0 + t_ack c < t1 -> t1 <= t0 + t_rep c ->
  let '(p1, q1, o1) := pb_run v c t0 dir p (d :: rest) in
  let '(p2, q2, o2) := pb_run v c t1 dir (if req then pb_with_test p1 true else p1) [] in
  o2 = o1 /\ pb_nfcb p2 = pb_nfcb p1 /\ pb_nfcb p1 = negb (pb_nfcb p) /\ pb_test p2 = req.
Proof. exact pb_retransmit_identical. Qed.

(* original code: the retransmission of lost user data is replaced by a test frame with the same bit *)
Theorem C15_retransmit_identical_balanced_refuted : exists v c t0 t1 dir p d,
  fg v = false /\ pb_ps p = PLL_AVAILABLE /\ pb_test p = false /\ t0 + t_ack c < t1 /\ t1 <= t0 + t_rep c /\
  let '(p1, q1, o1) := pb_run v c t0 dir p [d] in
  let '(p2, q2, o2) := pb_run v c t1 dir (pb_with_test p1 true) [] in
  o1 = fcv_frame c 3 2 dir true d /\ o2 = [OTx (enc_fixed 1 2 2 true dir true true)].
Proof. exact pb_retransmit_identical_refuted. Qed.

Theorem C15_repeat_stops_balanced : forall v c now dir p,
  pb_ps p = PLL_SEND_CONFIRM -> pb_lastsend p <= now -> pb_lastsend p + t_ack c < now -> pb_origsend p + t_rep c < now ->
  let '(p', q', o) := pb_run v c now dir p [] in
  pb_ps p' = PLL_IDLE /\ pb_ls p' = LS_ERROR /\ o = (if pb_ls p =? LS_ERROR then [] else [OLs (-1) LS_ERROR]).
Proof. exact pb_repeat_stops. Qed.

Theorem C15_reestablish_balanced : forall v c now dir p q, pb_ps p = PLL_IDLE ->
  snd (pb_run v c now dir p q) = [OTx (enc_fixed (alen c) 9 (pb_other p) true dir false false)] /\
  pb_ps (fst (fst (pb_run v c now dir p q))) = PLL_REQ_STATUS.
Proof. exact pb_idle_requests_status. Qed.

Theorem C15_first_after_reset_balanced : forall v c now dir p d rest, fa v = true ->
  pb_ps p = PLL_REQ_STATUS -> pb_test p = false -> 0 <= pb_idle p ->
  let p1 := fst (pb_handle v c now dir p 11 false) in
  let p2 := fst (pb_handle v c now dir p1 0 false) in
  snd (pb_run v c now dir p2 (d :: rest)) = fcv_frame c 3 (pb_other p) dir true d.
Proof. exact pb_first_after_reset. Qed.

Theorem C15_first_after_reset_balanced_refuted : exists v c now dir p d,
  fa v = false /\ pb_ps p = PLL_REQ_STATUS /\
  let p1 := fst (pb_handle v c now dir p 11 false) in
  let p2 := fst (pb_handle v c now dir p1 0 false) in
  snd (pb_run v c now dir p2 [d]) = fcv_frame c 3 (pb_other p) dir false d.
Proof. exact pb_first_after_reset_refuted. Qed.

(* ---------------- primary, unbalanced (per slave) *)
Theorem C15_retransmit_identical_unbalanced : forall v c t0 t1 s (req : bool), fg v = true ->
  sc_ps s = PLL_AVAILABLE -> sc_test s = false -> sc_has s = true -> 0 <= t_ack c -> t0 + t_ack c < t1 -> t1 <= t0 + t_rep c ->
  let '(s1, o1) := sc_run v c t0 s in let '(s2, o2) := sc_run v c t1 (if req then sc_with_test s1 true else s1) in o2 = o1.
Proof. exact sc_retransmit_identical. Qed.

(* each message is a new frame once: its confirmation takes it, whatever the application requested meanwhile (variant g) *)
Theorem C15_confirmation_takes_message_unbalanced : forall v c now s acd address msg uds udl, fg v = true -> sc_ps s = PLL_SEND_CONFIRM ->
  let s' := fst (sc_handle v c now s 0 acd false address msg uds udl) in
  sc_has s' = false /\ sc_ps s' = PLL_AVAILABLE /\ sc_test s' = sc_test s /\ sc_nfcb s' = sc_nfcb s.
Proof. exact sc_confirm_takes_message. Qed.

Theorem C15_confirmation_takes_message_unbalanced_refuted : exists v c now s,
  fg v = false /\ sc_ps s = PLL_SEND_CONFIRM /\ sc_has s = true /\
  let s1 := fst (sc_handle v c now s 0 false false 1 [] 0 0) in
  let '(s2, o2) := sc_run v c now s1 in
  sc_has s1 = true /\ o2 = fcv_frame c 3 1 false (sc_nfcb s) (sc_msg s).
Proof. exact sc_confirm_takes_message_refuted. Qed.

Theorem C15_test_request_served_once_unbalanced : forall v c now s, fg v = true -> sc_ps s = PLL_AVAILABLE -> sc_test s = true ->
  let '(s', o) := sc_run v c now s in
  o = [OTx (enc_fixed (alen c) 2 (sc_addr s) true false (sc_nfcb s) true)] /\ sc_test s' = false /\ sc_ps s' = PLL_REQUEST_RESPOND /\
  sc_has s' = sc_has s /\ sc_msg s' = sc_msg s /\ sc_nfcb s' = negb (sc_nfcb s) /\ sc_lastfc s' = 2.
Proof. exact sc_test_request_served. Qed.

Theorem C15_test_request_served_once_unbalanced_refuted : exists v c now s,
  fg v = false /\ sc_ps s = PLL_AVAILABLE /\ sc_test s = true /\ sc_has s = true /\
  let '(s1, o1) := sc_run v c now s in
  let s2 := fst (sc_handle v c now s1 0 false false 1 [] 0 0) in
  let '(s3, o3) := sc_run v c now s2 in
  sc_test s2 = true /\ o3 = [OTx (enc_fixed 1 2 1 true false (negb (sc_nfcb s)) true)].
Proof. exact sc_test_request_served_refuted. Qed.

(* a negative answer (service not functioning / not implemented) ends a REQUEST/RESPOND service: link stays available (variant h) *)
Theorem C15_negative_answer_ends_request : forall v c now s fc acd address msg uds udl, fh v = true -> fc = 14 \/ fc = 15 ->
  sc_ps s = PLL_REQUEST_RESPOND ->
  let '(s', o) := sc_handle v c now s fc acd false address msg uds udl in
  sc_ps s' = PLL_AVAILABLE /\ sc_ls s' = LS_AVAILABLE /\ sc_nfcb s' = sc_nfcb s /\ sc_has s' = sc_has s /\ sc_test s' = sc_test s.
Proof. exact sc_negative_answer_ends_request. Qed.

Theorem C15_negative_answer_refuted : exists v c s t1,
  fh v = false /\ sc_ps s = PLL_REQUEST_RESPOND /\
  let s1 := fst (sc_handle v c 1100 s 15 false false 1 [] 0 0) in
  let '(s2, o2) := sc_run v c t1 s1 in
  sc_ps s1 = PLL_REQUEST_RESPOND /\ o2 = [OTx (enc_fixed 1 2 1 true false true true)].
Proof. exact sc_negative_answer_refuted. Qed.

Theorem C15_toggle_unbalanced_request : forall v c now s,
  sc_ps s = PLL_AVAILABLE -> sc_test s = false -> sc_has s = false -> (sc_r1 s = true \/ sc_r2 s = true) ->
  let fcode := if sc_r1 s then 10 else 11 in
  let '(s', o) := sc_run v c now s in
  o = [OTx (enc_fixed (alen c) fcode (sc_addr s) true false (sc_nfcb s) true)] /\ sc_ps s' = PLL_REQUEST_RESPOND /\
  sc_nfcb s' = negb (sc_nfcb s) /\ sc_lastfc s' = fcode /\ sc_lastsend s' = now /\ sc_origsend s' = now /\ sc_addr s' = sc_addr s /\
  sc_r1 s' = false.
Proof. exact sc_request_new. Qed.

Theorem C15_request_repeat_identical : forall v c t0 t1 s, fc_ v = true ->
  sc_ps s = PLL_AVAILABLE -> sc_test s = false -> sc_has s = false -> (sc_r1 s = true \/ sc_r2 s = true) ->
  0 <= t_ack c -> t0 + t_ack c < t1 -> t1 <= t0 + t_rep c ->
  let '(s1, o1) := sc_run v c t0 s in let '(s2, o2) := sc_run v c t1 s1 in o2 = o1.
Proof. exact sc_request_repeat_identical. Qed.

Theorem C15_request_repeat_refuted : exists v c t0 t1 s,
  fc_ v = false /\ sc_ps s = PLL_AVAILABLE /\ sc_r1 s = true /\ t0 + t_ack c < t1 /\ t1 <= t0 + t_rep c /\
  let '(s1, o1) := sc_run v c t0 s in let '(s2, o2) := sc_run v c t1 s1 in
  o1 = [OTx (enc_fixed 1 10 1 true false true true)] /\ o2 = [OTx (enc_fixed 1 11 1 true false true true)].
Proof. exact sc_request_repeat_refuted. Qed.

Theorem C15_reset_sets_fcb_unbalanced : forall v c now s, fa v = true -> sc_ps s = PLL_REQ_STATUS ->
  (forall acd address msg uds udl, sc_nfcb (fst (sc_handle v c now s 11 acd false address msg uds udl)) = true) /\
  (sc_wait s = false -> sc_nfcb (fst (sc_run v c now s)) = true).
Proof. exact sc_reset_fcb. Qed.

Theorem C15_reset_sets_fcb_unbalanced_refuted : exists v c now s,
  fa v = false /\ sc_ps s = PLL_REQ_STATUS /\ sc_nfcb (fst (sc_handle v c now s 11 false false 1 [] 0 0)) = false /\
  In (OTx (reset_frame c 1 false)) (snd (sc_handle v c now s 11 false false 1 [] 0 0)).
Proof. exact sc_reset_fcb_refuted. Qed.

(* ---------------- secondary *)
Theorem C15_sec_deliver_once_unbalanced : forall fi_ c s bc fcb msg uds udl, su_ls s = LS_AVAILABLE -> fcb = su_efcb s -> 0 < udl ->
  su_handle fi_ c s 3 bc fcb true msg uds udl =
  (su_with_efcb s (negb (su_efcb s)),
   [OInd bc (user_data msg uds udl); OTx (su_ack c (su_with_efcb s (negb (su_efcb s))) (q_nonempty (su_q1 s)))]).
Proof. exact su_fc3_new. Qed.

Theorem C15_sec_duplicate_unbalanced : forall fi_ c s bc fcb msg uds udl, su_ls s = LS_AVAILABLE -> fcb = negb (su_efcb s) ->
  su_handle fi_ c s 3 bc fcb true msg uds udl = (s, [OTx (su_ack c s (q_nonempty (su_q1 s)))]).
Proof. exact su_fc3_dup. Qed.

Theorem C15_sec_repeats_response : forall c s (cls cls' : bool) fcb d rest, fcb = su_efcb s ->
  (if cls then su_q1 s else su_q2 s) = d :: rest -> 0 < lenz d < 256 ->
  let '(s1, o1) := su_request c s cls fcb true in
  let '(s2, o2) := su_request c s1 cls' fcb true in
  o2 = o1 /\ s2 = s1.
Proof. exact su_poll_repeat_identical. Qed.

Theorem C15_sec_reset_unbalanced : forall fi_ c s fc bc msg uds udl, fc = 0 \/ fc = 7 ->
  su_efcb (fst (su_handle fi_ c s fc bc false false msg uds udl)) = true.
Proof. exact su_reset_expect. Qed.

(* a frame with FCV = 1 whose service the unbalanced secondary does not implement (the primary's link test): answered negatively,
   and it takes part in the alternation like every other FCV frame (variant fi); a repetition leaves the expectation alone *)
Theorem C15_sec_unserved_frame_takes_bit : forall c s fc bc fcb msg uds udl, su_served fc = false -> fcb = su_efcb s ->
  let '(s', o) := su_handle true c s fc bc fcb true msg uds udl in
  su_efcb s' = negb (su_efcb s) /\ In (OTx (enc_fixed (alen c) 15 (su_addr s) false false false false)) o /\
  su_q1 s' = su_q1 s /\ su_q2 s' = su_q2 s /\ su_udsz s' = su_udsz s /\ su_udbuf s' = su_udbuf s.
Proof. exact su_unserved_takes_fcb. Qed.

Theorem C15_sec_unserved_frame_repeated : forall fi_ c s fc bc fcb msg uds udl, su_served fc = false -> fcb = negb (su_efcb s) ->
  su_efcb (fst (su_handle fi_ c s fc bc fcb true msg uds udl)) = su_efcb s.
Proof. exact su_unserved_repeat. Qed.

Theorem C15_sec_unserved_frame_takes_bit_refuted : exists c s, su_efcb s = true /\
  su_efcb (fst (su_handle false c s 2 false true true [] 0 0)) = true.
Proof. exact su_unserved_takes_fcb_refuted. Qed.

Theorem C15_sec_deliver_once_balanced : forall v c addr dir s fcb msg uds udl, fcb = sb_efcb s -> 0 < udl ->
  sb_handle v c addr dir true s 3 fcb true msg uds udl =
  ({| sb_efcb := negb (sb_efcb s) |}, [OInd false (user_data msg uds udl); OTx (bal_ack c addr dir)]).
Proof. exact sb_fc3_new. Qed.

Theorem C15_sec_duplicate_balanced : forall v c addr dir indret s fcb msg uds udl, fb v = true -> fcb = negb (sb_efcb s) ->
  sb_handle v c addr dir indret s 3 fcb true msg uds udl = (s, [OTx (bal_ack c addr dir)]).
Proof. exact sb_fc3_dup. Qed.

Theorem C15_sec_duplicate_balanced_refuted : forall v c addr dir indret s fcb msg uds udl, fb v = false -> fcb = negb (sb_efcb s) ->
  sb_handle v c addr dir indret s 3 fcb true msg uds udl = (s, []).
Proof. exact sb_fc3_dup_refuted. Qed.

Theorem C15_sec_reset_balanced : forall v c addr dir indret s msg uds udl,
  sb_efcb (fst (sb_handle v c addr dir indret s 0 false false msg uds udl)) = true.
Proof. exact sb_reset_expect. Qed.

(* a primary that alternates the bit for new frames and repeats a frame any number of times with the same bit:
   the secondary rule "deliver iff the bit is the expected one" hands on every frame exactly once, in order *)
Theorem C15_sec_at_most_once : forall msgs e, snd (sec_recv e (pri_frames e msgs)) = map fst msgs.
Proof. exact sec_at_most_once. Qed.

Example C15_example :
  snd (sec_recv true (pri_frames true [([1], 0%nat); ([2], 3%nat); ([3], 1%nat)])) = [[1]; [2]; [3]].
Proof. vm_compute. reflexivity. Qed.
