(* C07 -- CS104 server data-transfer state machine.  Statements about Cs104/Server.v
   (handleMessage of cs104_slave.c, transcribed); the model is executed against the real server on
   every run.  u_* are the six-octet U-format APDUs. *)
From Coq Require Import ZArith List Bool.
From L60870 Require Import Apci.Frame Cs104.Server Cs104.ServerProofs Cs104.TraceProofs.
Import ListNotations.
Local Open Scope Z_scope.

(* TESTFR act -> TESTFR con in the same step (any state) *)
Theorem C07_testfr_con : forall g now s c f,
  wmode c = 0 -> Z.land (nth 2 f 0) 1 =? 0 = false -> Z.land (nth 2 f 0) 67 =? 67 = true ->
  let r := handle_message g now s c f in
  res_ok r = true /\ res_obs r = [OTx (cid c) u_testfr_con].
Proof. exact testfr_answered. Qed.

(* STARTDT act -> STARTDT con in the same step, and only this step makes the connection STARTED *)
Theorem C07_startdt_con : forall g now s c f,
  wmode c = 0 -> Z.land (nth 2 f 0) 1 =? 0 = false -> Z.land (nth 2 f 0) 67 =? 67 = false -> Z.land (nth 2 f 0) 7 =? 7 = true ->
  let r := handle_message g now s c f in
  res_ok r = true /\ st (res_conn r) = STARTED /\
  res_obs r = (if st c =? STARTED then [] else [OEv (cid c) EV_ACT]) ++ [OTx (cid c) u_startdt_con].
Proof. exact startdt_answered. Qed.

(* STOPDT act: the acknowledgement of received I-frames comes first; STOPDT con is sent in this step
   exactly when no transmitted event ASDU is unacknowledged, otherwise the state is UNCONFIRMED_STOPPED *)
Theorem C07_stopdt : forall g now s c f,
  wmode c = 0 -> Z.land (nth 2 f 0) 1 =? 0 = false -> Z.land (nth 2 f 0) 67 =? 67 = false -> Z.land (nth 2 f 0) 7 =? 7 = false ->
  Z.land (nth 2 f 0) 19 =? 19 = true ->
  let r := handle_message g now s c f in
  let pre := (if st c =? STARTED then [OEv (cid c) EV_DEACT] else []) ++ [ORxStop (cid c)] in
  let ack := if 0 <? unconf c then [OTx (cid c) (enc_s (vr c))] else [] in
  res_ok r = true /\
  res_obs r = pre ++ ack ++ (if mq_has_sent (mq s) then [] else [OTx (cid c) u_stopdt_con]) /\
  st (res_conn r) = (if mq_has_sent (mq s) then UNCONF else STOPPED).
Proof. exact stopdt_rule. Qed.

(* an I-format APDU on a connection that is not started closes it without delivering anything *)
Theorem C07_i_not_started_closes : forall g now s c f,
  Z.land (nth 2 f 0) 1 =? 0 = true -> st c =? STARTED = false ->
  let r := handle_message g now s c f in res_ok r = false /\ res_obs r = [].
Proof. exact i_not_started_closes. Qed.

Theorem C07_i_wrong_ns_closes : forall g now s c f,
  Z.land (nth 2 f 0) 1 =? 0 = true -> ns_dec f =? vr c = false ->
  let r := handle_message g now s c f in res_ok r = false /\ res_obs r = [].
Proof. exact i_wrong_ns_closes. Qed.

(* an S-format APDU in the stopped state closes the connection *)
Theorem C07_s_in_stopped_closes : forall g now s c f,
  Z.land (nth 2 f 0) 1 =? 0 = false -> Z.land (nth 2 f 0) 67 =? 67 = false -> Z.land (nth 2 f 0) 7 =? 7 = false ->
  Z.land (nth 2 f 0) 19 =? 19 = false -> Z.land (nth 2 f 0) 131 =? 131 = false -> nth 2 f 0 =? 1 = true ->
  st c = STOPPED -> res_ok (handle_message g now s c f) = false.
Proof. exact s_in_stopped_closes. Qed.

(* ---- history level --------------------------------------------------------------------------------------------
   `mon` (Cs104/TraceProofs.v) reads the observation stream: ACTIVATED sets the started flag; DEACTIVATED, the STOPDT act
   marker, OPENED and CLOSED clear it; an I-format APDU written while the flag is clear makes it fail.  For EVERY sequence
   of stimuli (connection attempts, ticks, received octets in any segmentation, enqueued events, peer closes, write
   failures, any clock values) from the initial state the monitor never fails and ends in the connection's state *)
Theorem C07_history : forall xs g,
  mon false (snd (srun g server_init xs)) = Some (flag_of (fst (srun g server_init xs))).
Proof. intros xs g. exact (no_iframe_outside_started xs g server_init). Qed.

(* hence: wherever an I-format APDU occurs in the stream, data transfer had been started and not stopped before it *)
Theorem C07_iframe_only_when_started : forall xs g pre c b post,
  snd (srun g server_init xs) = pre ++ OTx c b :: post -> is_i b = true -> mon false pre = Some true.
Proof. exact iframe_only_when_started. Qed.
