(* C03 -- CS104 wire format and send/receive sequence numbering.  A station is viewed through its
   events (send I-frame / send S-frame / send U-frame / accept an I-frame); the initial counters are
   arbitrary in 0..32767, so the 32767 -> 0 wrap is inside the quantifier. *)
From Coq Require Import ZArith List Bool.
From L60870 Require Import Apci.Frame Apci.FrameProofs.
Import ListNotations.
Local Open Scope Z_scope.

(* everything written is a concatenation of well-formed APDUs (ASDUs of 1..249 octets) *)
Theorem C03_wf : forall es s, seqno (vs s) -> seqno (vr s) -> Forall ev_ok es ->
  Forall (fun f => wf_apdu f = true) (sq_run s es).
Proof. exact run_wf. Qed.

(* the n-th I-frame sent carries N(S) = vs0 + n - 1 (mod 2^15), as decoded by the peer's own formula *)
Theorem C03_ns : forall es s, seqno (vs s) -> seqno (vr s) -> Forall ev_ok es -> expect_ns (vs s) (sq_run s es).
Proof. exact run_ns. Qed.

(* every N(R) sent (I- or S-format) equals V(R) at that moment ... *)
Theorem C03_nr : forall es s, seqno (vs s) -> seqno (vr s) -> Forall (fun p => fst p = snd p) (nr_trace s es).
Proof. exact run_nr. Qed.

(* ... and V(R) is the number of I-frames accepted so far, V(S) the number sent so far, mod 2^15 *)
Theorem C03_counters : forall es s, seqno (vs s) -> seqno (vr s) ->
  vr (fold_left (fun st e => fst (sq_step st e)) es s) = (vr s + count_accept es) mod 32768 /\
  vs (fold_left (fun st e => fst (sq_step st e)) es s) = (vs s + count_sendi es) mod 32768.
Proof. intros es s Hs Hr. split; [apply vr_after; exact Hr | apply vs_after; exact Hs]. Qed.

(* the byte formulas invert: the receiver's decoding of what was encoded returns the counters *)
Theorem C03_codec : forall ns nr a, seqno ns -> seqno nr ->
  ns_dec (enc_i ns nr a) = ns /\ nr_dec (enc_i ns nr a) = nr /\ is_iframe (enc_i ns nr a) = true.
Proof. exact dec_enc_i. Qed.

Example C03_example :
  sq_run {| vs := 32767; vr := 32767 |} [ESendI [1; 2; 3]; EAccept; ESendS; ESendI [9]] =
  [[104; 7; 254; 255; 254; 255; 1; 2; 3]; [104; 4; 1; 0; 0; 0]; [104; 5; 0; 0; 0; 0; 9]].
Proof. vm_compute. reflexivity. Qed.
