(* C06 -- server event buffer.  Two layers:
   (1) the event LOG (abstract view used by Cs104/Server.v): theorems below, for every history;
   (2) the byte-offset RING (Cs104/MsgQueue.v, transcription of the MessageQueue functions): executed against the C
       functions operation by operation on every run, and checked against the abstract log by the oracle.
   PARTIAL: the ring invariant ("the walk from firstEntry to lastEntry visits exactly the log, in order,
   inside the arena") is not proved in Coq; the refinement ring -> log is checked at run time only. *)
From Coq Require Import ZArith List Bool.
From L60870 Require Import Cs104.Server Cs104.EventLogProofs Cs104.MsgQueue.
Import ListNotations.
Local Open Scope Z_scope.

(* what is handed out for transmission is the OLDEST waiting entry; exactly it becomes "sent" *)
Theorem C06_next_is_oldest_waiting : forall q e q', Server.mq_next_waiting q = Some (e, q') ->
  exists pre post, q = pre ++ e :: post /\ q_st e = Server.QWAIT /\ Forall (fun x => q_st x <> Server.QWAIT) pre /\
                   q' = pre ++ {| q_id := q_id e; q_asdu := q_asdu e; q_st := Server.QSENT |} :: post.
Proof. exact next_waiting_spec. Qed.

(* when a connection ends every sent-but-unacknowledged entry waits again; ids, octets and order untouched *)
Theorem C06_loss_rearms : forall q,
  map q_id (Server.mq_reset_waiting q) = map q_id q /\ map q_asdu (Server.mq_reset_waiting q) = map q_asdu q /\
  Forall (fun x => q_st x <> Server.QSENT) (Server.mq_reset_waiting q) /\
  Forall2 (fun a b => q_st b = (if q_st a =? Server.QSENT then Server.QWAIT else q_st a)) q (Server.mq_reset_waiting q).
Proof. exact reset_waiting_spec. Qed.

(* acknowledging an id kills it ... *)
Theorem C06_ack_kills : forall id q, NoDup (map q_id q) -> dead id (Server.mq_mark id q).
Proof. exact dead_after_mark. Qed.
(* ... and a dead id is never handed out again along ANY later history of enqueue / next / ack / loss *)
Theorem C06_acked_never_resent : forall ops s id, LInv s -> id < snd s -> dead id (fst s) ->
  ~ In (Some id) (snd (lrun s ops)).
Proof. exact acked_never_resent. Qed.

(* nothing but an acknowledgement removes an entry from the log: enqueue appends, next/loss keep ids *)
Theorem C06_log_inv : forall s o, LInv s -> LInv (fst (lstep s o)).
Proof. exact lstep_inv. Qed.

(* the ring model: a wrap that drops the upper run leaves a consistent single-entry queue (the state the
   repaired lastInBufferEntry update is about) *)
Example C06_ring_wrap_example :
  let q0 := mq_new 1 in
  exists q, (match mq_enqueue q0 (repeat 0 9) with Ok a => match mq_enqueue a (repeat 0 8) with Ok b =>
             match mq_enqueue b (repeat 0 200) with Ok c => match mq_enqueue c (repeat 0 9) with Ok d =>
             mq_enqueue d (repeat 0 248) | Fault w => Fault w end | Fault w => Fault w end | Fault w => Fault w end | Fault w => Fault w end) = Ok q
            /\ cnt q = 1 /\ first q = 0 /\ last q = 0 /\ lib q = 0.
Proof. cbv zeta. eexists. split; [vm_compute; reflexivity | repeat split]. Qed.
