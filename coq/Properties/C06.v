(* C06 -- server event buffer.  Two layers:
   (1) the event LOG (abstract view used by Cs104/Server.v): theorems below, for every history;
   (2) the byte-offset RING (Cs104/MsgQueue.v, literal transcription of the MessageQueue functions, executed against the
       C functions operation by operation on every run): proved in Cs104/MqRingProofs.v for EVERY ring size and EVERY
       history -- the walk from firstEntry to lastEntry visits exactly the live entries, oldest first, inside the arena;
       no header is ever read where no live entry starts; enqueue loses nothing but a prefix of the OLDEST entries;
       getNextWaiting hands out the oldest waiting entry; confirmation by (entry pointer, entry id) is safe for every pair
       ever handed out, however stale (last theorems of this file).
   (3) the two layers are connected (Cs104/QueueRefine.v): under the abstraction `absq` (forget the offsets) every ring
       operation IS the corresponding list operation of Cs104/Server.v, displacement of the D oldest entries being the
       only difference (last four theorems).
   (4) the capacity clause is proved on the ring (Cs104/MqCapacity.v, theorems C06_capacity_equal_sizes and C06_capacity_step): for every ring size n, every ASDU
       size z and every history in which all enqueued ASDUs have z octets, an enqueue displaces an entry only if at least n
       entries are in the ring afterwards (and then exactly one, the oldest).
   (5) COMPOSITION of the scheduler with the ring (Cs104/SchedMq.v, theorems C06_sched_mq_ below): the four places where the server
       touches the event queue - sendNextLowPriorityASDU, the release loop of checkSequenceNumber, CS104_Slave_enqueueASDU, the
       re-arming when a connection ends - transcribed with the literal ring (and the (id, offset) pairs the k-buffer entries
       remember) ARE the list versions of Cs104/Server.v for every ring state that represents the list (Rq): no fault, same frames,
       same connection, the ring represents the list version's queue; an enqueue first displaces the D oldest entries.  With the
       high-priority ring of C13: sendWaitingASDUs on both rings = send_waiting of the server model (C06_sched_mq_send_waiting).
       The ring-backed functions are run against the real static functions on a real connection on every run (`sch` scripts).
   (6) HISTORIES (Cs104/SchedHist.v, C06_sched_history): every sequence of scheduler operations on a connection with both rings in
       place - enqueue, response, scheduling round, acknowledgement of n entries, connection end, socket failure, state change -
       runs without a fault and is, frame by frame and return value by return value, a history of the scheduler of the server model
       in which the environment chooses, per enqueue, how many of the oldest events are displaced first and, per response,
       whether it is refused.  `rstep` is the machine the `sch` scripts execute against the real functions on every run.
   PARTIAL: the scheduler sub-machine is composed; the message handling of the server model's step function (handleMessage, timers)
   is not re-stated with rings. *)
From Coq Require Import ZArith List Bool.
From RecordUpdate Require Import RecordSet.
From L60870 Require Import Cs104.Server Cs104.EventLogProofs Cs104.MsgQueue Cs104.MqRingProofs Cs104.QueueRefine Cs104.MqCapacity Cs104.SchedProofs Cs104.HpRingProofs Cs104.SchedRing Cs104.SchedMq Cs104.SchedHist.
Import ListNotations RecordSetNotations.
Local Open Scope Z_scope.

(* what is handed out for transmission is the OLDEST waiting entry; exactly it becomes "sent" *)
Theorem C06_next_is_oldest_waiting : forall q e q', Server.mq_next_waiting q = Some (e, q') ->
  exists pre post, q = pre ++ e :: post /\ q_st e = Server.QWAIT /\ Forall (fun x => q_st x <> Server.QWAIT) pre /\
                   q' = pre ++ {| q_id := q_id e; q_asdu := q_asdu e; q_st := Server.QSENT |} :: post.
Proof. exact next_waiting_spec. Qed.

(* when a connection ends every sent-but-unacknowledged entry waits again; ids, octets and order untouched *)
Theorem C06_loss_rearms : forall q,
  map q_id (Server.mq_reset_waiting q) = map q_id q /\ map q_asdu (Server.mq_reset_waiting q) = map q_asdu q /\
  Forall (fun x => q_st x <> Server.QSENT) (Server.mq_reset_waiting q) /\
  Forall2 (fun a b => q_st b = (if q_st a =? Server.QSENT then Server.QWAIT else q_st a)) q (Server.mq_reset_waiting q).
Proof. exact reset_waiting_spec. Qed.

(* acknowledging an id kills it ... *)
Theorem C06_ack_kills : forall id q, NoDup (map q_id q) -> dead id (Server.mq_mark id q).
Proof. exact dead_after_mark. Qed.
(* ... and a dead id is never handed out again along ANY later history of enqueue / next / ack / loss *)
Theorem C06_acked_never_resent : forall ops s id, LInv s -> id < snd s -> dead id (fst s) ->
  ~ In (Some id) (snd (lrun s ops)).
Proof. exact acked_never_resent. Qed.

(* nothing but an acknowledgement removes an entry from the log: enqueue appends, next/loss keep ids *)
Theorem C06_log_inv : forall s o, LInv s -> LInv (fst (lstep s o)).
Proof. exact lstep_inv. Qed.

(* the ring model: a wrap that drops the upper run leaves a consistent single-entry queue (the state the
   repaired lastInBufferEntry update is about) *)
Example C06_ring_wrap_example :
  let q0 := mq_new 1 in
  exists q, (match mq_enqueue q0 (repeat 0 9) with Ok a => match mq_enqueue a (repeat 0 8) with Ok b =>
             match mq_enqueue b (repeat 0 200) with Ok c => match mq_enqueue c (repeat 0 9) with Ok d =>
             mq_enqueue d (repeat 0 248) | Fault w => Fault w end | Fault w => Fault w end | Fault w => Fault w end | Fault w => Fault w end) = Ok q
            /\ cnt q = 1 /\ first q = 0 /\ last q = 0 /\ lib q = 0.
Proof. cbv zeta. eexists. split; [vm_compute; reflexivity | repeat split]. Qed.

(* ---- layer 2: the byte ring -----------------------------------------------------------------------------------
   MQInv q l: l is the list of (offset, entry) pairs of the live entries, oldest first; it says the entries are stored
   back to back in at most two runs inside [0, qsize), carry consecutive ids ending at nid-1, and that
   firstEntry / lastEntry / lastInBufferEntry / entryCounter describe exactly this layout. *)

(* every history on a ring of any size: enqueue (any ASDU), getNextWaiting, confirm (of ANY pair handed out before,
   however old), setWaitingWhenNotConfirmed, the read-only queries -- never a read of a header where no live entry starts *)
Theorem C06_ring_history : forall n ops, 1 <= n -> 1 + Z.of_nat (length ops) < TWO64 - 1 ->
  exists q' outs l', mq_run (mq_new n) [] ops = MsgQueue.Ok (q', outs) /\ MQInv q' l'.
Proof.
  intros n ops Hn Hl. apply (mq_no_fault ops (mq_new n) [] []); [apply MQInv_new; exact Hn | constructor | exact Hl].
Qed.

(* enqueue: the new entry (id = next id, state waiting, the ASDU's octets) goes to the tail; the ONLY loss is a prefix of
   the oldest entries (what is retained is the most recent contiguous run); an ASDU above 250 octets changes nothing *)
Theorem C06_ring_enqueue : forall q l a, MQInv q l ->
  (250 < MqRingProofs.lenz a -> mq_enqueue q a = MsgQueue.Ok q) /\
  (MqRingProofs.lenz a <= 250 -> exists q' D nx, mq_enqueue q a = MsgQueue.Ok q' /\ (D <= length l)%nat /\
       MQInv q' (skipn D l ++ [(nx, new_ent q a)]) /\ nid q' = nid q + 1 /\ qsize q' = qsize q).
Proof. exact mq_enqueue_spec. Qed.

(* getNextWaitingASDU: the oldest waiting entry, with its octets, is handed out and marked sent; nothing else changes *)
Theorem C06_ring_next : forall q l, MQInv q l ->
  match first_waiting l with
  | None => mq_next q = MsgQueue.Ok (None, q)
  | Some (o, e) => exists q', mq_next q = MsgQueue.Ok (Some (o, e), q') /\ MQInv q' (upd_at o MsgQueue.QSENT l) /\ In (o, e) l /\
                              nid q' = nid q /\ cnt q' = cnt q /\ qsize q' = qsize q
  end.
Proof. exact mq_next_spec. Qed.

(* markAsduAsConfirmed with a pair from the k-buffer: a stale pair is ignored without touching the arena, a live one is
   marked confirmed and, when it is the head, released *)
Theorem C06_ring_confirm : forall q l o id, MQInv q l -> nid q < TWO64 -> valid_pair q l o id ->
  exists q', mq_confirm q o id = MsgQueue.Ok q' /\ MQInv q' (confirm_lay q l o id) /\ nid q' = nid q /\ qsize q' = qsize q.
Proof. exact mq_confirm_spec. Qed.

(* connection loss: every sent entry waits again; layout, ids and octets untouched *)
Theorem C06_ring_reset : forall q l, MQInv q l ->
  exists q', mq_reset_waiting q = MsgQueue.Ok q' /\ MQInv q' (reset_lay l l) /\ nid q' = nid q /\ cnt q' = cnt q /\ qsize q' = qsize q.
Proof. exact mq_reset_waiting_spec. Qed.

(* live entries lie inside the arena of n * 272 octets *)
Theorem C06_ring_entries_in_arena : forall q l p, MQInv q l -> In p l -> 0 <= fst p /\ fst p + MqRingProofs.esz (snd p) <= qsize q.
Proof. exact mq_entries_in_arena. Qed.

(* ---- layer 3: the ring IS the log ----------------------------------------------------------------------------------
   absq l forgets the offsets of a layout; the operations on the right are those of the server model (Cs104/Server.v). *)
Theorem C06_refine_enqueue : forall q l a D nx, absq (skipn D l ++ [(nx, new_ent q a)]) =
  skipn D (absq l) ++ [{| Server.q_id := nid q; Server.q_asdu := a; Server.q_st := Server.QWAIT |}].
Proof. exact refine_enqueue. Qed.
Theorem C06_refine_next : forall q l, MQInv q l ->
  match first_waiting l with
  | Some (o, e) => Server.mq_next_waiting (absq l) = Some (absent e, absq (upd_at o MsgQueue.QSENT l))
  | None => Server.mq_next_waiting (absq l) = None
  end.
Proof. intros q l H. apply refine_next. apply (inv_offsets_nodup q l H). Qed.
Theorem C06_refine_confirm : forall q l o id, MQInv q l -> valid_pair q l o id ->
  absq (confirm_lay q l o id) = Server.mq_mark id (absq l).
Proof. exact refine_confirm. Qed.
Theorem C06_refine_reset : forall q l, MQInv q l -> absq (reset_lay l l) = Server.mq_reset_waiting (absq l).
Proof. intros q l H. apply refine_reset. apply (inv_offsets_nodup q l H). Qed.

(* capacity: "a queue configured for N entries retains at least the N most recent ASDUs when they are of equal size".
   cap_run n q issued ops says: along the run, every enqueue either displaces nothing (entry count + 1) or leaves the count
   unchanged -- exactly one entry, by C06_ring_enqueue the oldest, is displaced -- and then at least n entries are in the ring.
   For EVERY ring size n >= 1, every ASDU size z in 0..250 and every history of enqueue (z octets each) / getNextWaiting /
   confirm (any pair handed out before) / setWaitingWhenNotConfirmed / queries from the empty ring. *)
Theorem C06_capacity_equal_sizes : forall n z ops, 1 <= n -> 0 <= z <= 250 ->
  (forall a, In (MEnq a) ops -> MqRingProofs.lenz a = z) -> 1 + Z.of_nat (length ops) < TWO64 - 1 ->
  cap_run n (mq_new n) [] ops.
Proof. exact mq_capacity. Qed.
(* one step, from any state satisfying the invariants (W = 16 + z is the slot width) *)
Theorem C06_capacity_step : forall W z q l issued o, 0 <= z <= 250 -> W = HDR + z -> MQInv q l -> Ext W q l -> Issued q l issued ->
  nid q < TWO64 - 1 -> (forall a, o = MEnq a -> MqRingProofs.lenz a = z) ->
  exists q' l' issued' out, mq_step q issued o = MsgQueue.Ok (q', issued', out) /\ MQInv q' l' /\ Ext W q' l' /\ Issued q' l' issued' /\
    nid q <= nid q' <= nid q + 1 /\ qsize q' = qsize q /\
    (forall a, o = MEnq a -> cnt q' = cnt q + 1 \/ (cnt q' = cnt q /\ qsize q < (cnt q' + 1) * W)).
Proof. exact cap_step. Qed.
(* sharpness / non-vacuity: n = 2 with the largest ASDUs keeps exactly the two most recent; smaller ones keep more than n *)
Example C06_capacity_example :
  match mq_run (mq_new 2) [] [MEnq (repeat 1 250); MEnq (repeat 2 250); MEnq (repeat 3 250); MEnq (repeat 4 250)] with
  | MsgQueue.Ok (q, _) => cnt q = 2 /\ map (fun p => e_id (snd p)) (match mq_entries q with MsgQueue.Ok l => l | MsgQueue.Fault _ => [] end) = [3; 4]
  | MsgQueue.Fault _ => False end.
Proof. exact cap_example. Qed.

(* ---- scheduler x event ring (Cs104/SchedMq.v).  Rq q t kb ql: the ring q represents the list ql (MQInv + absq), every (id, offset)
   pair in t is valid for q (live at that offset, or older than everything in the ring), and every event entry of the k-buffer kb has
   its pair in t. *)
Theorem C06_sched_mq_send_event : forall g now s c q t, Rq q t (kbuf c) (mq s) ->
  exists c' q' t' o, ev_send_r g now c q t = MsgQueue.Ok (c', q', t', o) /\
    exists s', ev_send g now s c = (s', c', o) /\ Rq q' t' (kbuf c') (mq s') /\ nid q' = nid q.
Proof. exact ev_send_ring. Qed.

(* the tail of send_waiting in Server.v is ev_send *)
Theorem C06_sched_mq_split : forall g now s c,
  send_waiting g now s c =
  let '(c1, go, o1) := send_hp (S (length (hp c))) g now c in
  if go then let '(s', c2, o2) := ev_send g now s c1 in (s', c2, o1 ++ o2) else (s, c1, o1).
Proof. exact send_waiting_split. Qed.

(* acknowledgement: releasing the n oldest k-buffer entries confirms their events in the ring exactly as in the list *)
Theorem C06_sched_mq_release : forall n kb q t ql, Rq q t kb ql -> nid q < TWO64 ->
  exists kb' q', release_r n kb t q = MsgQueue.Ok (kb', q') /\ Rq q' t kb' (snd (release n kb ql)) /\ fst (release n kb ql) = kb' /\ nid q' = nid q.
Proof. exact release_ring. Qed.

(* enqueue: the D oldest entries are displaced (D = 0 while there is room), then the new entry is appended with the next id *)
Theorem C06_sched_mq_enqueue : forall q t kb ql a, Rq q t kb ql -> lenz a <= 250 ->
  exists q' D, mq_enqueue q a = MsgQueue.Ok q' /\ (D <= length ql)%nat /\
    Rq q' t kb (skipn D ql ++ [{| q_id := nid q; q_asdu := a; q_st := Server.QWAIT |}]) /\ nid q' = nid q + 1.
Proof. exact enqueue_ring. Qed.

(* a connection ends: what was sent and not confirmed waits again *)
Theorem C06_sched_mq_connection_end : forall q t kb ql, Rq q t kb ql ->
  exists q', mq_reset_waiting q = MsgQueue.Ok q' /\ Rq q' t [] (Server.mq_reset_waiting ql) /\ nid q' = nid q.
Proof. exact reset_ring. Qed.

(* sendWaitingASDUs on BOTH rings is send_waiting of the server model *)
Theorem C06_sched_mq_send_waiting : forall g now s c hq L q t, HPInv hq L -> Rq q t (kbuf c) (mq s) ->
  exists c' hq' q' t' o, send_waiting_rr g now c hq q t = MsgQueue.Ok (c', hq', q', t', o) /\
    let '(sm, cm, om) := send_waiting g now s (c <| hp := L |>) in
    c' <| hp := hp cm |> = cm /\ o = om /\ HPInv hq' (hp cm) /\ Rq q' t' (kbuf cm) (mq sm) /\ nid q' = nid q.
Proof. exact send_waiting_rings. Qed.

Example C06_sched_mq_example : exm_run = Some ([exm_ev 1; exm_ev 2; exm_ev 3], [QSENT; QSENT], [QWAIT; QWAIT]) /\ Rq (mq_new 1) [] (kbuf exm_c) [].
Proof. exact sched_mq_example. Qed.

(* ---- histories (Cs104/SchedHist.v).  Rel r (c, s): the ring-side connection is c up to the parked list, the high-priority ring
   represents hp c, the event ring represents mq s (Rq), the next entry ids agree. *)
Theorem C06_sched_history : forall g now ops r cs, Rel r cs -> nid (r_q r) + Z.of_nat (length ops) < TWO64 ->
  exists chs r' xs, rrun g now r ops = MsgQueue.Ok (r', xs) /\ length chs = length ops /\
                    snd (srun g now cs ops chs) = xs /\ Rel r' (fst (srun g now cs ops chs)).
Proof. exact history_sim. Qed.

Theorem C06_sched_history_step : forall g now r cs o, Rel r cs -> nid (r_q r) < TWO64 ->
  exists ch r' x, rstep g now r o = MsgQueue.Ok (r', x) /\ Rel r' (fst (sstep g now cs o ch)) /\ snd (sstep g now cs o ch) = x /\
                  nid (r_q r) <= nid (r_q r') <= nid (r_q r) + 1.
Proof. exact step_sim. Qed.

Theorem C06_sched_history_init : forall g now n m id, 1 <= n -> 1 <= m ->
  Rel {| r_c := new_conn g now id; r_hq := hp_new n; r_q := mq_new m; r_t := [] |} (new_conn g now id, server_init).
Proof. exact Rel_init. Qed.

Example C06_sched_history_example :
  match rrun exh_g 0 {| r_c := new_conn exh_g 0 1; r_hq := hp_new 1; r_q := mq_new 1; r_t := [] |} exh_ops with
  | MsgQueue.Ok (_, xs) => map snd xs = [None; None; None; None; Some true; Some false; None; None; None; None; None; None; None; None; None; None; None] /\
                  itx (flat_map fst xs) = [exm_ev 1; exr_a 1; repeat 8 250; repeat 8 250]
  | MsgQueue.Fault _ => False
  end.
Proof. exact history_example. Qed.
