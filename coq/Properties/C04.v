(* C04 -- k-window and acknowledgement validation.  KBuf.check_seq is the literal transcription of
   checkSequenceNumber(); Inv kb vs c says "c frames outstanding, acknowledgement numbers vs-c+1..vs". *)
From Coq Require Import ZArith List Bool.
From L60870 Require Import Apci.KBuf Apci.KBufProofs.
From L60870 Require Cs104.Client Cs104.ClientProofs.
Import ListNotations.
Local Open Scope Z_scope.

(* a received N(R) = n is accepted exactly when (n - (vs - c)) mod 2^15 <= c, i.e. it lies between the
   N(S) of the oldest unacknowledged APDU and the next N(S) inclusive; acceptance releases exactly the
   acknowledged frames; rejection changes nothing; the loop never runs out of its static bound *)
Theorem C04_accept : forall kb vs c n, Inv kb vs c -> 0 <= n < 32768 ->
  exists kb', check_seq kb vs n = Some (spec_accept vs c n, kb') /\
              (spec_accept vs c n = true -> Inv kb' vs (c - d15 (vs - c) n)) /\
              (spec_accept vs c n = false -> kb' = kb).
Proof. exact check_seq_spec. Qed.

(* sending while not full adds one outstanding frame; "full" is exactly c = k *)
Theorem C04_push : forall kb vs c, InvL kb vs c -> c < maxk kb ->
  let vs' := (vs + 1) mod 32768 in InvL (push kb vs') vs' (c + 1).
Proof. exact push_inv. Qed.

Theorem C04_full : forall kb vs c, Inv kb vs c -> is_full kb = (c =? maxk kb).
Proof. exact is_full_spec. Qed.

(* along every history of sends (refused when full) and acknowledgements, never more than k outstanding *)
Theorem C04_bound : forall ops kb vs c, InvL kb vs c ->
  match krun (kb, vs) ops with
  | Some (kb', vs') => exists c', InvL kb' vs' c' /\ 0 <= c' <= maxk kb'
  | None => True
  end.
Proof. exact krun_inv. Qed.

(* non-vacuity: a window straddling the 32767 -> 0 wrap *)
(* client role, whole connection loop (Cs104/Client.v, executed against the real client on every run): along EVERY history of
   loop iterations, received octets, application sends (also from inside callbacks), STARTDT/STOPDT, close, at any times, the
   number of I-format APDUs sent and not yet acknowledged never exceeds the k the connection was made with; a send while the
   window is full is refused without transmitting anything *)
Theorem C04_client_window_bound : forall xs g now0 c0,
  let c := fst (Client.cconnect g now0 c0 true) in
  ClientProofs.lenkb (ClientProofs.crun g c xs) <= Z.max 0 (Client.cc_k g).
Proof. exact ClientProofs.client_window_bound. Qed.
Theorem C04_client_refused_while_full : forall now c a, Client.running c = true -> Client.ckfull c = true ->
  Client.csend_asdu now c a = (c, false, []).
Proof. exact ClientProofs.csend_asdu_refused. Qed.

Example C04_example :
  let kb := push (push (push (kempty 4) 32767) 0) 1 in
  InvL kb 1 3 /\ check_seq kb 1 0 = Some (true, set_oldest kb 2) /\ check_seq kb 1 5 = Some (false, kb).
Proof.
  cbv zeta. split; [|split; vm_compute; reflexivity].
  pose proof (Inv_empty 4 ltac:(split; [discriminate | discriminate]) 32766 ltac:(split; [discriminate | reflexivity])) as H0.
  apply push_inv in H0; [|reflexivity]. cbv zeta in H0. change ((32766 + 1) mod 32768) with 32767 in H0.
  apply push_inv in H0; [|reflexivity]. cbv zeta in H0. change ((32767 + 1) mod 32768) with 0 in H0.
  apply push_inv in H0; [|reflexivity]. cbv zeta in H0. change ((0 + 1) mod 32768) with 1 in H0. exact H0.
Qed.
