(* C09 -- command dispatch and mirrored negative responses (CS104 and CS101 slave), client command builders.
   Dispatch104.dispatch104 / Dispatch101.dispatch101 are case-by-case transcriptions of the two handleASDU()
   functions (tied to the compiled code by differential execution on every run); DispatchSpec.spec is the
   decision table of the property written from the standard. *)
From Coq Require Import ZArith List Bool.
From L60870 Require Import Dispatch.DispatchBase Dispatch.Dispatch104 Dispatch.Dispatch101 Dispatch.DispatchSpec
                           Dispatch.DispatchProofs Dispatch.Builders Dispatch.BuildersProofs.
Import ListNotations.
Local Open Scope Z_scope.

(* the transcribed functions ARE the decision table: every type 0..255 (any Z), cause, P/N, test bit, address,
   payload (complete or cut anywhere), every set of registered handlers and every handler result *)
Theorem C09_104 : forall p hs a, dispatch104 p hs a = spec R104 p hs a.
Proof. exact dispatch104_is_spec. Qed.
Theorem C09_101 : forall p hs a, dispatch101 p hs a = spec R101 p hs a.
Proof. exact dispatch101_is_spec. Qed.

(* cause not allowed for the type: exactly one response, the mirror with cause 45; no callback *)
Theorem C09_wrong_cause : forall r p hs a rw, table r (tid a) = Some rw -> zmem (cot a) (r_cots rw) = false ->
  spec r p hs a = [Respond (mirror a 45)].
Proof. exact spec_wrong_cot. Qed.

(* CS104, fixed address not zero: exactly one response, the mirror with cause 47; no callback *)
Theorem C09_wrong_address : forall p hs a rw ioa bd h, table R104 (tid a) = Some rw -> zmem (cot a) (r_cots rw) = true ->
  r_fixed rw = true -> specific R104 (tid a) = Some h -> handler_of hs h <> None \/ r_kind rw = KTest ->
  dec p (r_body rw) (payload a) = Some (ioa, bd) -> ioa <> 0 ->
  spec R104 p hs a = [Respond (mirror a 47)].
Proof. exact spec_wrong_ioa. Qed.
Theorem C09_wrong_address_test : forall p hs a rw ioa bd, table R104 (tid a) = Some rw -> zmem (cot a) (r_cots rw) = true ->
  r_kind rw = KTest -> dec p (r_body rw) (payload a) = Some (ioa, bd) -> ioa <> 0 ->
  spec R104 p hs a = [Respond (mirror a 47)].
Proof. exact spec_wrong_ioa_test. Qed.

(* allowed cause, complete, (CS104) address zero: the registered callback first, exactly once, with the decoded
   qualifier / address / delay and the unmodified ASDU; if it accepts nothing else happens, if it declines the
   ASDU goes the "no handler accepts" way (generic callback, else cause 44) *)
Theorem C09_callback : forall r p hs a rw h arg ret ioa bd, table r (tid a) = Some rw -> zmem (cot a) (r_cots rw) = true ->
  r_kind rw = KCmd h arg -> handler_of hs h = Some ret -> dec p (r_body rw) (payload a) = Some (ioa, bd) ->
  (r = R104 -> r_fixed rw = true -> ioa = 0) ->
  exists rest, spec r p hs a = Call h (arg ioa bd) a :: rest /\ count is_specific_call rest = 0 /\
               (ret = true -> rest = []) /\ (ret = false -> rest = generic hs a).
Proof. exact spec_callback. Qed.
Theorem C09_clock_callback : forall r p hs a ret ioa bd, tid a = 103 -> cot a = 6 ->
  hs_cs hs = Some ret -> dec p 7 (payload a) = Some (ioa, bd) -> (r = R104 -> ioa = 0) ->
  exists rest, spec r p hs a = Call HClock bd a :: rest /\ count is_specific_call rest = 0 /\
               (ret = true -> exists c, rest = [Respond c] /\ cot c = 7 /\ pn c = pn a /\ tid c = 103 /\ addr c = addr a).
Proof. exact spec_clock_callback. Qed.

(* no row for the type: generic callback; absent or declining -> exactly one mirror with cause 44 *)
Theorem C09_unknown_type : forall r p hs a, table r (tid a) = None -> spec r p hs a = generic hs a.
Proof. exact spec_unknown_type. Qed.

(* for EVERY input: at most one command-specific callback (the one of the type, with the unmodified ASDU), at most
   one negative response and it is the mirror of the request (type, VSQ, addresses, payload, test bit; P/N set) with
   cause 44, 45 or 47, never both an accepting callback and a negative response, and exactly one of them unless the
   connection is dropped, the stack confirms itself (cause 7) or (CS101, truncated C_CI_NA_1) nothing happens *)
Theorem C09_exactly_one_104 : forall p hs a, good_outcome R104 hs a (dispatch104 p hs a).
Proof. exact dispatch104_good. Qed.
Theorem C09_exactly_one_101 : forall p hs a, good_outcome R101 hs a (dispatch101 p hs a).
Proof. exact dispatch101_good. Qed.

(* a truncated command never reaches a command-specific callback *)
Theorem C09_truncated_104 : forall p hs a rw, table R104 (tid a) = Some rw -> dec p (r_body rw) (payload a) = None ->
  count is_specific_call (dispatch104 p hs a) = 0.
Proof. exact dispatch104_truncated. Qed.
Theorem C09_truncated_101 : forall p hs a rw, table R101 (tid a) = Some rw -> dec p (r_body rw) (payload a) = None ->
  count is_specific_call (dispatch101 p hs a) = 0.
Proof. exact dispatch101_truncated. Qed.

(* client API: the octets built decode to the arguments, and reach the server callback with identical parameters *)
Theorem C09_client_builders_decode : forall p oa t c ca ioa body, alp_ok p -> 0 <= oa < 256 -> 0 <= t < 256 -> 0 <= c < 64 ->
  0 <= ca < 256 ^ ca_sz p -> parse p (build p oa t c ca ioa body) = Some (built p oa t c ca ioa body).
Proof. exact parse_build. Qed.
Theorem C09_client_interrogation : forall p hs oa c ca qoi ret, alp_ok p -> 0 <= oa < 256 -> (c = 6 \/ c = 8) ->
  0 <= ca < 256 ^ ca_sz p -> 0 <= qoi < 256 -> hs_ic hs = Some ret ->
  exists a rest, parse p (build_ic p oa c ca qoi) = Some a /\ dispatch104 p hs a = Call HInterrogation [qoi] a :: rest /\
                 count is_specific_call rest = 0 /\ (ret = true -> rest = []).
Proof. exact client_ic_reaches_callback. Qed.
Theorem C09_client_read : forall p hs oa ca ioa ret, alp_ok p -> 0 <= oa < 256 ->
  0 <= ca < 256 ^ ca_sz p -> 0 <= ioa < 256 ^ ioa_sz p -> hs_rd hs = Some ret ->
  exists a rest, parse p (build_rd p oa ca ioa) = Some a /\ dispatch104 p hs a = Call HRead [ioa] a :: rest /\
                 count is_specific_call rest = 0 /\ (ret = true -> rest = []).
Proof. exact client_rd_reaches_callback. Qed.
Theorem C09_client_clock : forall p hs oa ca time ret, alp_ok p -> 0 <= oa < 256 ->
  0 <= ca < 256 ^ ca_sz p -> length time = 7%nat -> hs_cs hs = Some ret ->
  exists a rest, parse p (build_cs p oa ca time) = Some a /\ dispatch104 p hs a = Call HClock time a :: rest /\
                 count is_specific_call rest = 0.
Proof. exact client_cs_reaches_callback. Qed.
Theorem C09_client_test : forall p hs oa ca tsc time, alp_ok p -> 0 <= oa < 256 ->
  0 <= ca < 256 ^ ca_sz p -> length time = 7%nat ->
  exists a, parse p (build_tsta p oa ca tsc time) = Some a /\ dispatch104 p hs a = [Respond (positive_con a)].
Proof. exact client_tsta_confirmed. Qed.
Theorem C09_record_view_exact : forall p bs a, parse p bs = Some a -> Forall (fun b => 0 <= b < 256) bs -> unparse a = bs.
Proof. exact unparse_parse. Qed.

(* the pinned snapshot (before the repairs) violates the property: witnesses *)
Theorem C09_snapshot_ts_ta_null_deref_refuted : ts_ta_orig p223 (mk 107 5 []) = OFault.
Proof. exact ts_ta_orig_null_deref. Qed.
Theorem C09_snapshot_ts_ta_two_responses_refuted :
  exists acts h a', ts_ta_orig p223 (mk 107 5 [1; 0; 0; 1; 2; 1; 2; 3; 4; 5; 6; 7]) = OFlow (Cont acts h a') /\ count is_neg_resp acts = 2.
Proof. exact ts_ta_orig_two_responses. Qed.
Theorem C09_snapshot_ts_ta_address_unchecked_refuted :
  exists acts h a', ts_ta_orig p223 (mk 107 6 [1; 0; 0; 1; 2; 1; 2; 3; 4; 5; 6; 7]) = OFlow (Cont acts h a') /\ count is_neg_resp acts = 0 /\ count is_actcon acts = 1.
Proof. exact ts_ta_orig_ioa_unchecked. Qed.
Theorem C09_snapshot_cs101_double_response_refuted :
  ~ good_outcome R101 no_handlers (mk 100 7 [0; 0; 0; 20]) (dispatch101_orig p223 no_handlers (mk 100 7 [0; 0; 0; 20])).
Proof. exact dispatch101_orig_not_good. Qed.

(* non-vacuity: an interrogation through the client API, all handlers registered and accepting *)
Example C09_example :
  let p := p223 in
  let hs := {| hs_ic := Some true; hs_ci := Some true; hs_rd := Some true; hs_cs := Some true; hs_rp := Some true; hs_cd := Some true; hs_asdu := Some true |} in
  option_map (dispatch104 p hs) (parse p (build_ic p 0 6 1 20)) =
  Some [Call HInterrogation [20] {| tid := 100; vsq := 1; cot := 6; pn := false; tst := false; addr := [0; 1; 0]; payload := [0; 0; 0; 20] |}]
  /\ option_map (dispatch104 p hs) (parse p [100; 1; 7; 0; 1; 0; 0; 0; 0; 20]) =
     Some [Respond {| tid := 100; vsq := 1; cot := 45; pn := true; tst := false; addr := [0; 1; 0]; payload := [0; 0; 0; 20] |}].
Proof. split; vm_compute; reflexivity. Qed.
