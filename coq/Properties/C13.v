(* C13 -- event ordering and response priority on a CS104 server connection, stated on the scheduler of
   Cs104/Server.v (sendASDUInternal, the high-priority drain loop, sendWaitingASDUs).  `itx o` is the list
   of ASDUs carried by the frames written in the observations o; `hp c` the parked responses.
   PARTIAL with respect to the byte ring: the FIFO behaviour of the HighPriorityASDUQueue ring
   (Cs104/MsgQueue.v, the hp_ functions) is validated operation by operation against the C functions and against a
   FIFO oracle on every run, its ring invariant is not proved in Coq. *)
From Coq Require Import ZArith List Bool.
From L60870 Require Import Cs104.Server Cs104.SchedProofs.
Import ListNotations.
Local Open Scope Z_scope.

(* a response is written at once only when nothing is parked; otherwise it is parked at the tail:
   (written now) ++ (parked afterwards) = (parked before) ++ [response]; the send call reports success *)
Theorem C13_response_keeps_order : forall g now c a, st c = STARTED -> wmode c = 0 ->
  let '(c', r, o) := send_asdu_internal g now c a in
  r = true /\ itx o ++ hp c' = hp c ++ [a] /\ wmode c' = 0 /\ st c' = STARTED.
Proof. exact internal_fifo. Qed.

(* draining writes a prefix of the parked responses in their order and keeps the rest parked in order *)
Theorem C13_drain_fifo : forall fuel g now c, wmode c = 0 ->
  let '(c', go, o) := send_hp fuel g now c in
  itx o ++ hp c' = hp c /\ (go = true -> hp c' = []) /\ wmode c' = 0 /\ st c' = st c.
Proof. exact send_hp_fifo. Qed.

(* one scheduling round: responses first; an event ASDU only when no response stays parked, and then the
   oldest waiting event of the queue *)
Theorem C13_responses_before_events : forall g now s c, wmode c = 0 ->
  let '(s', c', o) := send_waiting g now s c in
  exists sent ev, itx o = sent ++ ev /\ sent ++ hp c' = hp c /\
                  (ev = [] \/ (hp c' = [] /\ exists e q', mq_next_waiting (mq s) = Some (e, q') /\ ev = [q_asdu e] /\ mq s' = q')).
Proof. exact send_waiting_order. Qed.

(* a response refused by the send call (connection not started) changes nothing *)
Theorem C13_refused_unchanged : forall g now c a, st c =? STARTED = false ->
  send_asdu_internal g now c a = (c, false, []).
Proof. intros g now c a H. unfold send_asdu_internal. rewrite H. reflexivity. Qed.
