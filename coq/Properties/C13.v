(* C13 -- event ordering and response priority on a CS104 server connection, stated on the scheduler of
   Cs104/Server.v (sendASDUInternal, the high-priority drain loop, sendWaitingASDUs).  `itx o` is the list
   of ASDUs carried by the frames written in the observations o; `hp c` the parked responses.
   The byte-offset ring of HighPriorityASDUQueue (Cs104/MsgQueue.v, the hp_ functions, a literal transcription that is
   run operation by operation against the C functions on every run) is proved to refine a FIFO for every ring size
   and every history (Cs104/HpRingProofs.v).
   COMPOSITION (Cs104/SchedRing.v, C13_sched_ring_ theorems): the three scheduler functions transcribed with the literal ring in place
   of the list (send_asdu_internal_r, send_hp_r, send_waiting_r; run against the real sendASDUInternal / sendWaitingASDUs on a
   real connection on every run) are the list versions for every ring state that represents the list (HPInv), except that a
   response the ring refuses makes the send call report failure and changes nothing: the order theorems hold with the real ring. *)
From Coq Require Import ZArith List Bool.
From RecordUpdate Require Import RecordSet.
From L60870 Require Import Cs104.Server Cs104.SchedProofs Cs104.MsgQueue Cs104.HpRingProofs Cs104.SchedRing.
Import ListNotations RecordSetNotations.
Local Open Scope Z_scope.

(* a response is written at once only when nothing is parked; otherwise it is parked at the tail:
   (written now) ++ (parked afterwards) = (parked before) ++ [response]; the send call reports success *)
Theorem C13_response_keeps_order : forall g now c a, st c = STARTED -> wmode c = 0 ->
  let '(c', r, o) := send_asdu_internal g now c a in
  r = true /\ itx o ++ hp c' = hp c ++ [a] /\ wmode c' = 0 /\ st c' = STARTED.
Proof. exact internal_fifo. Qed.

(* draining writes a prefix of the parked responses in their order and keeps the rest parked in order *)
Theorem C13_drain_fifo : forall fuel g now c, wmode c = 0 ->
  let '(c', go, o) := send_hp fuel g now c in
  itx o ++ hp c' = hp c /\ (go = true -> hp c' = []) /\ wmode c' = 0 /\ st c' = st c.
Proof. exact send_hp_fifo. Qed.

(* one scheduling round: responses first; an event ASDU only when no response stays parked, and then the
   oldest waiting event of the queue *)
Theorem C13_responses_before_events : forall g now s c, wmode c = 0 ->
  let '(s', c', o) := send_waiting g now s c in
  exists sent ev, itx o = sent ++ ev /\ sent ++ hp c' = hp c /\
                  (ev = [] \/ (hp c' = [] /\ exists e q', mq_next_waiting (mq s) = Some (e, q') /\ ev = [q_asdu e] /\ mq s' = q')).
Proof. exact send_waiting_order. Qed.

(* a response refused by the send call (connection not started) changes nothing *)
Theorem C13_refused_unchanged : forall g now c a, st c =? STARTED = false ->
  send_asdu_internal g now c a = (c, false, []).
Proof. intros g now c a H. unfold send_asdu_internal. rewrite H. reflexivity. Qed.

(* ---- the byte ring behind `hp c` ----------------------------------------------------------------------------
   For every ring size n >= 1 and EVERY sequence of enqueue / getNext / isFull / reset operations on the literal ring:
   no header is ever read where no live entry starts (outcome Fault = the C code would read stale or foreign octets),
   and getNext returns exactly what a FIFO of the accepted ASDUs returns (a refused enqueue leaves the queue as it was). *)
Theorem C13_ring_refines_fifo : forall n ops, 1 <= n ->
  exists q' outs accs, hp_run (hp_new n) ops = MsgQueue.Ok (q', outs) /\ outs = fifo_run [] ops accs /\ length accs = length ops.
Proof. intros n ops H. apply hp_refines_fifo. apply HPInv_new. exact H. Qed.

(* one operation, any reachable state: append-or-refuse / head-of-queue, invariant kept *)
Theorem C13_ring_enqueue : forall q L a, HPInv q L ->
  exists b q', hp_enqueue q a = MsgQueue.Ok (b, q') /\ HPInv q' (if b then L ++ [a] else L) /\
               (b = true -> lenz a <= 250) /\ (L = [] -> lenz a <= 250 -> b = true).
Proof. exact hp_enqueue_spec. Qed.
Theorem C13_ring_next : forall q L, HPInv q L ->
  match L with
  | [] => hp_next q = MsgQueue.Ok (None, q)
  | a :: r => exists q', hp_next q = MsgQueue.Ok (Some a, q') /\ HPInv q' r
  end.
Proof. exact hp_next_spec. Qed.

(* live entries lie inside the arena of n * 258 octets *)
Theorem C13_ring_entries_in_arena : forall q L, HPInv q L -> L <> [] ->
  0 <= hfirst q < hsize q /\ 0 <= hlast q < hsize q /\
  exists z, hfind (hcells q) (hlast q) = Some z /\ hlast q + esz z <= hsize q.
Proof. exact hp_entries_in_arena. Qed.

(* ring of one slot (258 octets): 22 + 232 octets stored, a third entry of 12 octets is refused (no room behind, none in
   front), after one getNext it is accepted at offset 0 (wrapped) and comes out last *)
Example C13_ring_example :
  exists q outs, hp_run (hp_new 1) [HEnq (repeat 1 20); HEnq (repeat 2 230); HEnq (repeat 3 10); HNext; HEnq (repeat 4 10); HNext; HNext; HNext]
                   = MsgQueue.Ok (q, outs) /\
                 outs = [Some (repeat 1 20); Some (repeat 2 230); Some (repeat 4 10); None].
Proof. eexists. eexists. vm_compute. split; reflexivity. Qed.

(* ---- scheduler x ring (Cs104/SchedRing.v).  HPInv q L: the ring state q represents the parked list L (kept by every ring operation). *)
(* sendASDUInternal with the ring: never a fault; success = the list version's step (same frames, same connection, ring represents the
   new list); failure = nothing changed, and only when not started, oversized, or something is parked already (ring full) *)
Theorem C13_sched_ring_internal : forall g now c q a L, HPInv q L ->
  exists c' q' r o, send_asdu_internal_r g now c q a = MsgQueue.Ok (c', q', r, o) /\
    let '(cm, rm, om) := send_asdu_internal g now (c <| hp := L |>) a in
    (r = true -> c' <| hp := hp cm |> = cm /\ o = om /\ HPInv q' (hp cm)) /\
    (r = false -> c' = c /\ o = [] /\ HPInv q' L /\ (st c <> STARTED \/ 250 < lenz a \/ L <> [])).
Proof. exact internal_ring. Qed.

(* the order statement on the ring: (written now) ++ (parked after) = (parked before) ++ [response], or the call reported failure *)
Theorem C13_sched_ring_response_order : forall g now c q a L, HPInv q L -> st c = STARTED -> wmode c = 0 ->
  exists c' q' r o, send_asdu_internal_r g now c q a = MsgQueue.Ok (c', q', r, o) /\
    ((r = true /\ exists L', HPInv q' L' /\ itx o ++ L' = L ++ [a]) \/
     (r = false /\ c' = c /\ o = [] /\ HPInv q' L)).
Proof. exact response_order_ring. Qed.

Theorem C13_sched_ring_drain : forall fuel g now c q L, HPInv q L -> wmode c = 0 ->
  exists c' q' go o L', send_hp_r fuel g now c q = MsgQueue.Ok (c', q', go, o) /\ HPInv q' L' /\ itx o ++ L' = L /\ (go = true -> L' = []).
Proof. exact drain_order_ring. Qed.

Theorem C13_sched_ring_responses_before_events : forall g now s c q L, HPInv q L -> wmode c = 0 ->
  exists s' c' q' o L' sent ev, send_waiting_r g now s c q = MsgQueue.Ok (s', c', q', o) /\ HPInv q' L' /\
    itx o = sent ++ ev /\ sent ++ L' = L /\
    (ev = [] \/ (L' = [] /\ exists e m', Server.mq_next_waiting (mq s) = Some (e, m') /\ ev = [q_asdu e] /\ mq s' = m')).
Proof. exact responses_before_events_ring. Qed.

(* non-vacuity: ring for two worst-case entries, window full: two responses parked, the third refused; after the acknowledgement the
   drain writes the two parked ones in order *)
Example C13_sched_ring_example : exr_run = Some ([true; true; false], [exr_a 1; exr_a 2], true) /\ HPInv (hp_new 2) [] /\ wmode exr_c = 0.
Proof. exact sched_ring_example. Qed.
