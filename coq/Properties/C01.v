(* C01 -- ASDU / information-object codec round-trips for every type and layout.
   Model: Asdu/Codec.v; an information object is (address, body) with the body the octets behind the address.
   Field-level normalisation (constructor arguments -> body, body -> getter values) is outside the Coq model: it is
   decided on the implementation by the reference encoder of the oracle (pylib/props/asdu_spec.py) and, for time tags,
   counters and scaled/normalised values, by C19. *)
From Coq Require Import ZArith List Bool.
From L60870 Require Import Asdu.Layout Asdu.Codec Asdu.CodecProofs gen.AsduTable gen.AsduKnown.
Import ListNotations.
Local Open Scope Z_scope.

(* PARTIAL (composition over element lists not yet proved in Coq): what is proved is
   (1) every accepted addition appends exactly enc_bytes of the object (C12_append, for every row with enc_okb), so the payload of a built
       ASDU is the concatenation of the objects' encodings;
   (2) decoding at the place of an encoding returns the object, for both layouts, every address size, any surrounding octets (below);
   (3) getElementEx reads element idx at the standard's offset with the standard's length (C02_decodes_exact_octets / spec_element).
   Missing: the lemma that offset idx*(IOA+n) into a concatenation of idx+1.. chunks of equal length is the idx-th chunk, and the
   resulting statement `get_element (header ++ concat encodings) idx = nth idx objects`; that composition is exercised on the
   implementation AND on the extracted model by every script of this check (counts 1, 2, K-1, K, up to 127). *)
Theorem C01_roundtrip_partial : forall a sq o n pre post,
  ioa_ok a -> addr_ok a (io_addr o) -> len (io_body o) = n ->
  dec_spec a (pre ++ enc_bytes a sq o ++ post) (len pre) (negb sq) n =
    Some {| io_addr := if sq then 0 else io_addr o; io_body := io_body o |}.
Proof. exact obj_roundtrip. Qed.

(* the encoder of a row with enc_okb produces exactly enc_bytes (address little-endian unless sequence element, then the body) or refuses *)
Theorem C01_encoder_exact : forall e a sq used o n,
  enc_okb e n = true -> len (io_body o) = n -> ioa_ok a -> 0 <= used -> max_asdu a <= 256 ->
  enc_io e a sq used o = if max_asdu a - used <? enc_size a sq n then Ok None else Ok (Some (enc_bytes a sq o)).
Proof. exact enc_io_spec. Qed.

(* the decoder of a row with dec_okb returns exactly dec_spec *)
Theorem C01_decoder_exact : forall d a m start sq n,
  dec_okb d n = true -> ioa_ok a -> 0 <= start ->
  dec_io d a m start sq = Ok (dec_spec a m start (negb (dec_sqp d && sq)) n).
Proof. exact dec_io_spec. Qed.

(* per run: every row regenerated from the working tree agrees with the standard in all three places *)
Theorem C01_current : forall r, In r table -> ~ In (tid r) known_C01 -> row_c01_okb r = true.
Proof. apply rows_okb_sound. vm_compute. reflexivity. Qed.

(* the set of type identifications handled by getElementEx is exactly the supported list (a deleted or added `case` is caught),
   and SQ = 1 is offered wherever the standard defines it *)
Theorem C01_types_complete : map tid table = std_supported.
Proof. vm_compute. reflexivity. Qed.
Theorem C01_sq_offered : forall r, In r table -> std_sq_ok (tid r) = true -> exists a b c d, r_elem r = ESeq a b c d.
Proof.
  assert (H : forallb (fun r => negb (std_sq_ok (tid r)) || match r_elem r with ESeq _ _ _ _ => true | _ => false end) table = true) by (vm_compute; reflexivity).
  rewrite forallb_forall in H. intros r Hr Hs. specialize (H r Hr). rewrite Hs in H. cbn in H.
  destruct (r_elem r); try discriminate. eexists; eexists; eexists; eexists; reflexivity.
Qed.

Example C01_inhabited :
  dec_spec {| cot_sz := 2; ca_sz := 2; ioa_sz := 3; max_asdu := 249 |}
           ([9; 9] ++ enc_bytes {| cot_sz := 2; ca_sz := 2; ioa_sz := 3; max_asdu := 249 |} false {| io_addr := 70000; io_body := [1; 2; 3] |} ++ [7]) 2 true 3
  = Some {| io_addr := 70000; io_body := [1; 2; 3] |}.
Proof. vm_compute. reflexivity. Qed.
