(* C01 -- ASDU / information-object codec round-trips for every type and layout.
   Model: Asdu/Codec.v; an information object is (address, body) with the body the octets behind the address.
   Field-level normalisation (constructor arguments -> body, body -> getter values) is outside the Coq model: it is
   decided on the implementation by the reference encoder of the oracle (pylib/props/asdu_spec.py) and, for time tags,
   counters and scaled/normalised values, by C19. *)
From Coq Require Import ZArith List Bool.
From L60870 Require Import Asdu.Layout Asdu.Codec Asdu.CodecProofs gen.AsduTable gen.AsduKnown.
Import ListNotations.
Local Open Scope Z_scope.

(* Round trip, individually addressed objects (SQ = 0): in ANY message whose header names the row's type with the SQ bit clear and whose
   payload is the concatenation of the objects' encodings, element i is object i -- for every row satisfying row_dec_okb, every address
   size, every element count.  (That the payload of a built ASDU IS this concatenation is C12_append: every accepted addition appends
   exactly enc_bytes.)  Types with exactly one object (ESingle) round-trip their one object. *)
Theorem C01_roundtrip_sq0 : forall tbl a r n h (ios : list io) (d : io) (i : nat),
  ioa_ok a -> len h = hdr_len a -> 2 <= len h ->
  find_row tbl (nthz 0 h) = Some r -> row_dec_okb r = true -> std_len (tid r) = Some (Fixed n) ->
  0 <= nthz 1 h < 128 ->
  (forall o, In o ios -> len (io_body o) = n /\ addr_ok a (io_addr o)) ->
  (r_elem r = ESingle -> i = 0%nat) -> (i < List.length ios)%nat ->
  get_element tbl a (h ++ List.concat (map (enc_bytes a false) ios)) (Z.of_nat i) = Ok (Some (nth i ios d)).
Proof. exact payload_roundtrip_sq0. Qed.

(* Round trip, consecutive addresses (SQ = 1): one address, then the bodies; element i comes back with address base + i *)
Theorem C01_roundtrip_sq1 : forall tbl a r n h base (ios : list io) (d : io) (i : nat) nsq k gn ga,
  ioa_ok a -> len h = hdr_len a -> 2 <= len h ->
  find_row tbl (nthz 0 h) = Some r -> row_dec_okb r = true -> std_len (tid r) = Some (Fixed n) ->
  r_elem r = ESeq nsq k gn ga -> 128 <= nthz 1 h -> addr_ok a base ->
  (forall o, In o ios -> len (io_body o) = n) ->
  (i < List.length ios)%nat ->
  get_element tbl a (h ++ ioa_bytes a base ++ List.concat (map (enc_bytes a true) ios)) (Z.of_nat i) =
    Ok (Some {| io_addr := base + Z.of_nat i; io_body := io_body (nth i ios d) |}).
Proof. exact payload_roundtrip_sq1. Qed.

(* object level: decoding at the place of an encoding returns the object, whatever surrounds it.
   Re-encoding what was parsed reproduces the octets because what was parsed IS the object (theorems above) and the encoder is a function of it.
   Not composed in Coq: that new_asdu/set_type/inc_count produce a header h with nthz 0 h = type and the SQ bit as requested
   (executed by the extracted model and compared with the implementation on every script). *)
Theorem C01_object_roundtrip : forall a sq o n pre post,
  ioa_ok a -> addr_ok a (io_addr o) -> len (io_body o) = n ->
  dec_spec a (pre ++ enc_bytes a sq o ++ post) (len pre) (negb sq) n =
    Some {| io_addr := if sq then 0 else io_addr o; io_body := io_body o |}.
Proof. exact obj_roundtrip. Qed.

(* the encoder of a row with enc_okb produces exactly enc_bytes (address little-endian unless sequence element, then the body) or refuses *)
Theorem C01_encoder_exact : forall e a sq used o n,
  enc_okb e n = true -> len (io_body o) = n -> ioa_ok a -> 0 <= used -> max_asdu a <= 256 ->
  enc_io e a sq used o = if max_asdu a - used <? enc_size a sq n then Ok None else Ok (Some (enc_bytes a sq o)).
Proof. exact enc_io_spec. Qed.

(* the decoder of a row with dec_okb returns exactly dec_spec *)
Theorem C01_decoder_exact : forall d a m start sq n,
  dec_okb d n = true -> ioa_ok a -> 0 <= start ->
  dec_io d a m start sq = Ok (dec_spec a m start (negb (dec_sqp d && sq)) n).
Proof. exact dec_io_spec. Qed.

(* per run: every row regenerated from the working tree agrees with the standard in all three places *)
Theorem C01_current : forall r, In r table -> ~ In (tid r) known_C01 -> row_c01_okb r = true.
Proof. apply rows_okb_sound. vm_compute. reflexivity. Qed.

(* the set of type identifications handled by getElementEx is exactly the supported list (a deleted or added `case` is caught),
   and SQ = 1 is offered wherever the standard defines it *)
Theorem C01_types_complete : map tid table = std_supported.
Proof. vm_compute. reflexivity. Qed.
Theorem C01_sq_offered : forall r, In r table -> std_sq_ok (tid r) = true -> exists a b c d, r_elem r = ESeq a b c d.
Proof.
  assert (H : forallb (fun r => negb (std_sq_ok (tid r)) || match r_elem r with ESeq _ _ _ _ => true | _ => false end) table = true) by (vm_compute; reflexivity).
  rewrite forallb_forall in H. intros r Hr Hs. specialize (H r Hr). rewrite Hs in H. cbn in H.
  destruct (r_elem r); try discriminate. eexists; eexists; eexists; eexists; reflexivity.
Qed.

Example C01_inhabited :
  dec_spec {| cot_sz := 2; ca_sz := 2; ioa_sz := 3; max_asdu := 249 |}
           ([9; 9] ++ enc_bytes {| cot_sz := 2; ca_sz := 2; ioa_sz := 3; max_asdu := 249 |} false {| io_addr := 70000; io_body := [1; 2; 3] |} ++ [7]) 2 true 3
  = Some {| io_addr := 70000; io_body := [1; 2; 3] |}.
Proof. vm_compute. reflexivity. Qed.
