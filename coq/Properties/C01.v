(* C01 -- placeholder while the proofs are being written *)
From Coq Require Import ZArith List.
From L60870 Require Import Asdu.Layout Asdu.Codec gen.AsduTable.
Theorem C01_table_nonempty : table <> nil.
Proof. discriminate. Qed.
