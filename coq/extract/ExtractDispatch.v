From Coq Require Import Extraction ExtrOcamlBasic.
From L60870 Require Import Dispatch.DispatchBase Dispatch.Dispatch104 Dispatch.Dispatch101 Dispatch.DispatchSpec Dispatch.Builders.
Extraction "model_disp.ml" parse unparse dispatch104 dispatch101 dispatch101_orig ts_ta_orig spec
  build_ic build_ci build_rd build_cs build_ts104 build_ts101 build_rp build_cd build_tsta ioa_of dec.
