From Coq Require Import Extraction ExtrOcamlBasic.
From L60870 Require Import Cs104.Groups.
Extraction "model_groups.ml" admission activate parse_ip peer_ip match_group ip_eq.
