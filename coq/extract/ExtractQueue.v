From Coq Require Import Extraction ExtrOcamlBasic.
From L60870 Require Import Cs104.Server Cs104.SchedRing Cs104.SchedMq Cs104.SchedHist Cs104.MsgQueue.
Extraction "model_queue.ml" MsgQueue.mq_new MsgQueue.mq_enqueue MsgQueue.mq_entries MsgQueue.mq_next MsgQueue.mq_confirm MsgQueue.mq_has_unconfirmed
  MsgQueue.mq_available MsgQueue.mq_reset_waiting MsgQueue.mq_release
  hp_new hp_enqueue hp_next hp_full hp_reset
  new_conn rstep.
