From Coq Require Import Extraction ExtrOcamlBasic.
From L60870 Require Import Cs104.MsgQueue.
Extraction "model_queue.ml" mq_new mq_enqueue mq_entries mq_next mq_confirm mq_has_unconfirmed mq_available mq_reset_waiting mq_release
  hp_new hp_enqueue hp_next hp_full hp_reset.
