From Coq Require Import Extraction ExtrOcamlBasic.
From L60870 Require Import Link.Ft12 Link.LinkSec Link.LinkPrim Link.Cs101Queue Link.LinkSecQ.
Extraction "model_link.ml" enc_fixed enc_var read_next parse_su parse_bp user_data
  su_init su_run su_with_q bal_init bal_run bal_with pb_with_test pu_init pu_run pu_send_confirmed pu_send_broadcast pu_request pu_test
  cq_init cq_enqueue cq_dequeue cq_is_full cq_is_empty cq_flush cq_abs fifo_enqueue su_run_r.
