From Coq Require Import Extraction ExtrOcamlBasic ExtrOcamlString.  (* ExtrOcamlString only so that the row names do not define an OCaml type called `string` *)
From L60870 Require Import Asdu.Layout Asdu.Codec gen.AsduTable.
Extraction "model_asdu.ml" table asdu_fn get_element parse_hdr add_io add_payload new_asdu a_bytes set_type set_count set_sq
  set_cot set_test set_neg set_ca remove_all clone norm_body msg_count find_row.
