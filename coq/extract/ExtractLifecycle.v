From Coq Require Import Extraction ExtrOcamlBasic.
From L60870 Require Import Cs104.Groups Cs104.Lifecycle.
Extraction "model_life.ml" init step match_group parse_ip peer_ip.
