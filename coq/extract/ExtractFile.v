From Coq Require Import Extraction ExtrOcamlBasic.
From L60870 Require Import Dispatch.DispatchBase File.FileServer.
Extraction "model_file.ml" parse unparse handle_asdu run_task fs0 enc_send max_seg.
