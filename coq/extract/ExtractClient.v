From Coq Require Import Extraction ExtrOcamlBasic.
From L60870 Require Import Cs104.Client.
Extraction "model_client.ml" cli_idle cconnect cstep cstartdt cstopdt capp_send cclose.
