From Coq Require Import Extraction ExtrOcamlBasic.
From L60870 Require Import Cs104.Server.
Extraction "model_server.ml" step server_init tick.
