From Coq Require Import Extraction ExtrOcamlBasic.
From L60870 Require Import Apci.Reasm Apci.Deliver Apci.KBuf.
Extraction "model_apci.ml" recv_call rinit feed bytes_run on_frame on_frames check_seq is_full push kempty outstanding.
