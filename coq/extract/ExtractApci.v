From Coq Require Import Extraction ExtrOcamlBasic.
From L60870 Require Import Apci.Reasm Apci.Deliver.
Extraction "model_apci.ml" recv_call rinit feed bytes_run on_frame on_frames.
