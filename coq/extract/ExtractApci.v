From Coq Require Import Extraction ExtrOcamlBasic.
From L60870 Require Import Apci.Reasm Apci.Deliver Apci.KBuf Apci.Frame.
Extraction "model_apci.ml" recv_call rinit feed bytes_run on_frame on_frames check_seq is_full push kempty outstanding
  sq_step sq_run enc_i enc_s enc_u wf_apdu ns_dec nr_dec.
