(* C09: the decision table of the property, written from IEC 60870-5-101 7.3.4 / 7.4 and 60870-5-104 (not from the code).
   row = (causes the standard allows for the type in control direction, octets after the IOA, fixed IOA = 0?) *)
From Coq Require Import ZArith List Bool Lia.
From L60870 Require Import Dispatch.DispatchBase.
Import ListNotations.
Local Open Scope Z_scope.

Inductive role := R104 | R101.

Inductive kind :=
| KCmd (h : hname) (arg : Z -> list Z -> list Z)     (* delivered to the application's callback *)
| KClock                                              (* callback, then activation confirmation by the stack *)
| KTest.                                              (* answered by the stack itself *)

Record row := { r_cots : list Z; r_body : Z; r_fixed : bool; r_kind : kind }.

Definition table (r : role) (t : Z) : option row :=
  if t =? 100 then Some {| r_cots := [6; 8]; r_body := 1; r_fixed := true; r_kind := KCmd HInterrogation arg_q |}
  else if t =? 101 then Some {| r_cots := [6; 8]; r_body := 1; r_fixed := true; r_kind := KCmd HCounter arg_q |}
  else if t =? 102 then Some {| r_cots := [5]; r_body := 0; r_fixed := false; r_kind := KCmd HRead arg_ioa |}
  else if t =? 103 then Some {| r_cots := [6]; r_body := 7; r_fixed := true; r_kind := KClock |}
  else if t =? 104 then match r with R101 => Some {| r_cots := [6]; r_body := 2; r_fixed := true; r_kind := KTest |} | R104 => None end
  else if t =? 105 then Some {| r_cots := [6]; r_body := 1; r_fixed := true; r_kind := KCmd HReset arg_q |}
  else if t =? 106 then Some {| r_cots := [6; 3]; r_body := 2; r_fixed := true; r_kind := KCmd HDelay arg_delay |}
  else if t =? 107 then match r with R104 => Some {| r_cots := [6]; r_body := 9; r_fixed := true; r_kind := KTest |} | R101 => None end
  else None.

Definition zmem (x : Z) (l : list Z) : bool := existsb (Z.eqb x) l.

Definition handler_of (hs : handlers) (h : hname) : option bool :=
  match h with
  | HInterrogation => hs_ic hs | HCounter => hs_ci hs | HRead => hs_rd hs | HClock => hs_cs hs
  | HReset => hs_rp hs | HDelay => hs_cd hs | HAsdu => hs_asdu hs
  end.

(* "mirror": same type, VSQ, addresses, payload and test bit; P/N set; the given cause *)
Definition mirror (a : asdu) (cause : Z) : asdu :=
  {| tid := tid a; vsq := vsq a; cot := cause; pn := true; tst := tst a; addr := addr a; payload := payload a |}.

(* nobody else wants it: the generic callback is offered the ASDU; if it is absent or declines: cause 44 *)
Definition generic (hs : handlers) (a : asdu) : list action :=
  match hs_asdu hs with
  | Some true => [Call HAsdu [] a]
  | Some false => [Call HAsdu [] a; Respond (mirror a 44)]
  | None => [Respond (mirror a 44)]
  end.

(* what a slave does with a command whose element is cut short: CS104 drops the connection; CS101 treats it as
   not handled (C_CI_NA_1: silently ignored).  Neither reaches the command's callback. *)
Definition on_truncated (r : role) (hs : handlers) (a : asdu) : list action :=
  match r with
  | R104 => [CloseConn]
  | R101 => if tid a =? 101 then [] else generic hs a
  end.

Definition positive_con (a : asdu) : asdu :=
  {| tid := tid a; vsq := vsq a; cot := 7; pn := pn a; tst := tst a; addr := addr a; payload := payload a |}.

Definition spec (r : role) (p : alp) (hs : handlers) (a : asdu) : list action :=
  match table r (tid a) with
  | None => generic hs a
  | Some rw =>
    if negb (zmem (cot a) (r_cots rw)) then [Respond (mirror a 45)]
    else
      let ioa_bad (ioa : Z) := match r with R104 => r_fixed rw && negb (ioa =? 0) | R101 => false end in
      match r_kind rw with
      | KTest =>
        match r with
        | R101 => [Respond (positive_con a)]
        | R104 => match dec p (r_body rw) (payload a) with
                  | None => [CloseConn]
                  | Some (ioa, _) => if ioa_bad ioa then [Respond (mirror a 47)] else [Respond (positive_con a)]
                  end
        end
      | KCmd h arg =>
        match handler_of hs h with
        | None => generic hs a
        | Some ret =>
          match dec p (r_body rw) (payload a) with
          | None => on_truncated r hs a
          | Some (ioa, bd) =>
            if ioa_bad ioa then [Respond (mirror a 47)]
            else Call h (arg ioa bd) a :: (if ret then [] else generic hs a)
          end
        end
      | KClock =>
        match hs_cs hs with
        | None => generic hs a
        | Some ret =>
          match dec p 7 (payload a) with
          | None => on_truncated r hs a
          | Some (ioa, bd) =>
            if ioa_bad ioa then [Respond (mirror a 47)]
            else Call HClock bd a ::
                 match r, ret with
                 | R104, true => [Respond {| tid := tid a; vsq := (vsq a / 128) mod 2 * 128 + 1; cot := 7; pn := pn a; tst := tst a;
                                             addr := addr a; payload := ioa_enc p 0 ++ bd |}]
                 | R104, false => [Respond (mirror a 7)]            (* negative activation confirmation *)
                 | R101, true => [Respond (positive_con a)]
                 | R101, false => generic hs a
                 end
          end
        end
      end
  end.

(* ---- observations used by the property statements *)
Definition is_call_of (h : hname) (x : action) : bool := match x with Call h' _ _ => hname_eqb h h' | _ => false end.
Definition is_specific_call (x : action) : bool := match x with Call HAsdu _ _ => false | Call _ _ _ => true | _ => false end.
Definition is_neg_resp (x : action) : bool :=
  match x with Respond r => pn r && ((cot r =? 44) || (cot r =? 45) || (cot r =? 47)) | _ => false end.
Definition is_close (x : action) : bool := match x with CloseConn => true | _ => false end.
Definition count (f : action -> bool) (l : list action) : Z := Z.of_nat (length (filter f l)).

(* the command-specific callback of a type *)
Definition specific (r : role) (t : Z) : option hname :=
  match table r t with
  | Some rw => match r_kind rw with KCmd h _ => Some h | KClock => Some HClock | KTest => None end
  | None => None
  end.
