(* C09: handleASDU() of cs104_slave.c, transcribed case by case (plugins: none installed).
   `dispatch104` is the function as it stands in the tree (with the repaired C_TS_TA_1 case);
   `ts_ta_orig` is the C_TS_TA_1 case as it was in the pinned snapshot, kept for the refutation lemmas. *)
From Coq Require Import ZArith List Bool Lia.
From L60870 Require Import Dispatch.DispatchBase.
Import ListNotations.
Local Open Scope Z_scope.

(* the common shape of C_IC / C_CI / C_RD / C_RP / C_CD:
     if (cot allowed) { if (handler != NULL) { io = getElementEx(..); if (io) { [if (ioa != 0) responseNegative(47), handled]
                                                                          else if (handler(..., decoded)) handled }
                                                                    else return false; } }
     else { responseCOTUnknown; handled } *)
Definition cmd104 (p : alp) (a : asdu) (cot_ok : bool) (h : option bool) (hn : hname) (body : Z) (chk_ioa : bool)
                  (arg : Z -> list Z -> list Z) : flow :=
  if cot_ok then
    match h with
    | Some r =>
      match dec p body (payload a) with
      | Some (ioa, bd) =>
        if chk_ioa && negb (ioa =? 0) then Cont [Respond (negate a 47)] true (negate a 47)
        else Cont [Call hn (arg ioa bd) a] r a
      | None => Ret [CloseConn]
      end
    | None => Cont [] false a
    end
  else Cont [Respond (negate a 45)] true (negate a 45).

(* case C_CS_NA_1: the callback's result selects a positive or negative activation confirmation; the positive one
   is rebuilt (removeAllElements; ClockSynchronizationCommand_create(csc, 0, newTime); addInformationObject) *)
Definition cs104 (p : alp) (hs : handlers) (a : asdu) : flow :=
  if cot a =? 6 then
    match hs_cs hs with
    | Some r =>
      match dec p 7 (payload a) with
      | Some (ioa, bd) =>
        if negb (ioa =? 0) then Cont [Respond (negate a 47)] true (negate a 47)
        else if r then
          let a' := set_cot (set_payload a ((vsq a / 128) mod 2 * 128 + 1) (ioa_enc p 0 ++ bd)) 7 in
          Cont [Call HClock (arg_time ioa bd) a; Respond a'] true a'
        else
          let a' := set_neg (set_cot a 7) true in
          Cont [Call HClock (arg_time ioa bd) a; Respond a'] true a'
      | None => Ret [CloseConn]
      end
    | None => Cont [] false a
    end
  else Cont [Respond (negate a 45)] true (negate a 45).

(* case C_TS_TA_1 (repaired): activation -> decode, IOA must be 0, mirrored activation confirmation *)
Definition ts_ta (p : alp) (a : asdu) : flow :=
  if cot a =? 6 then
    match dec p 9 (payload a) with
    | Some (ioa, bd) =>
      if negb (ioa =? 0) then Cont [Respond (negate a 47)] true (negate a 47)
      else Cont [Respond (set_cot a 7)] true (set_cot a 7)
    | None => Ret [CloseConn]
    end
  else Cont [Respond (negate a 45)] true (negate a 45).

(* case C_TS_TA_1 as in the pinned snapshot: the element is decoded only when the cause is wrong and is
   dereferenced without a NULL check (Fault); the final sendASDUInternal is unconditional *)
Inductive oflow := OFault | OFlow (f : flow).
Definition ts_ta_orig (p : alp) (a : asdu) : oflow :=
  if negb (cot a =? 6) then
    match dec p 9 (payload a) with
    | Some (ioa, bd) =>
      if negb (ioa =? 0) then OFlow (Cont [Respond (negate a 47); Respond (negate a 47)] true (negate a 47))
      else OFlow (Cont [Respond (negate a 45)] true (negate a 45))
    | None => OFault                                  (* InformationObject_getObjectAddress(NULL) *)
    end
  else OFlow (Cont [Respond (set_cot a 7)] true (set_cot a 7)).

Definition case104 (p : alp) (hs : handlers) (a : asdu) : flow :=
  let c := cot a in
  if tid a =? 100 then cmd104 p a ((c =? 6) || (c =? 8)) (hs_ic hs) HInterrogation 1 true arg_q
  else if tid a =? 101 then cmd104 p a ((c =? 6) || (c =? 8)) (hs_ci hs) HCounter 1 true arg_q
  else if tid a =? 102 then cmd104 p a (c =? 5) (hs_rd hs) HRead 0 false arg_ioa
  else if tid a =? 103 then cs104 p hs a
  else if tid a =? 104 then Cont [] false a            (* CONFIG_ALLOW_C_TS_NA_1_FOR_CS104 == 0 *)
  else if tid a =? 105 then cmd104 p a (c =? 6) (hs_rp hs) HReset 1 true arg_q
  else if tid a =? 106 then cmd104 p a ((c =? 6) || (c =? 3)) (hs_cd hs) HDelay 2 true arg_delay
  else if tid a =? 107 then ts_ta p a
  else Cont [] false a.

Definition dispatch104 (p : alp) (hs : handlers) (a : asdu) : list action := tail hs (case104 p hs a).
