(* C09: model = decision table, and the property clauses derived from the table. *)
From Coq Require Import ZArith List Bool Lia.
From L60870 Require Import Dispatch.DispatchBase Dispatch.Dispatch104 Dispatch.Dispatch101 Dispatch.DispatchSpec.
Import ListNotations.
Local Open Scope Z_scope.

Lemma negate_mirror44 a : negate a 44 = mirror a 44. Proof. reflexivity. Qed.
Lemma negate_mirror45 a : negate a 45 = mirror a 45. Proof. reflexivity. Qed.
Lemma negate_mirror47 a : negate a 47 = mirror a 47. Proof. reflexivity. Qed.
Lemma setcot7 a : set_cot a 7 = positive_con a. Proof. reflexivity. Qed.

Lemma tail_generic hs a acts : tail hs (Cont acts false a) = acts ++ generic hs a.
Proof. unfold tail, generic. destruct (hs_asdu hs) as [[|]|]; reflexivity. Qed.

Ltac dcase x := destruct x eqn:?.
Ltac fin := cbn; rewrite ?negate_mirror44, ?negate_mirror45, ?negate_mirror47, ?setcot7; try reflexivity.

(* the shared shape against the table row *)
Lemma cmd104_spec p hs a c1 h hn body fixed arg :
  tail hs (cmd104 p a c1 h hn body fixed arg) =
  if negb c1 then [Respond (mirror a 45)]
  else match h with
       | None => generic hs a
       | Some ret => match dec p body (payload a) with
                     | None => [CloseConn]
                     | Some (ioa, bd) => if fixed && negb (ioa =? 0) then [Respond (mirror a 47)]
                                         else Call hn (arg ioa bd) a :: (if ret then [] else generic hs a)
                     end
       end.
Proof.
  intros. unfold cmd104. destruct c1; cbn [negb]; [|fin].
  destruct h as [ret|]; [|rewrite tail_generic; reflexivity].
  destruct (dec p body (payload a)) as [[ioa bd]|]; [|reflexivity].
  destruct (fixed && negb (ioa =? 0)); [fin|].
  destruct ret; [reflexivity|]. rewrite tail_generic. reflexivity.
Qed.

Lemma cmd101_spec fx p hs a c1 h hn body tr arg :
  tail hs (cmd101 fx p a c1 h hn body tr arg) =
  if negb c1 then (if fx then [Respond (mirror a 45)] else [Respond (mirror a 45)] ++ generic hs (mirror a 45))
  else match h with
       | None => generic hs a
       | Some ret => match dec p body (payload a) with
                     | None => match tr with TFall => generic hs a | TReturn => [] end
                     | Some (ioa, bd) => Call hn (arg ioa bd) a :: (if ret then [] else generic hs a)
                     end
       end.
Proof.
  intros. unfold cmd101. destruct c1; cbn [negb].
  - destruct h as [ret|]; [|rewrite tail_generic; reflexivity].
    destruct (dec p body (payload a)) as [[ioa bd]|].
    + destruct ret; [reflexivity|]. rewrite tail_generic. reflexivity.
    + destruct tr; [rewrite tail_generic|]; reflexivity.
  - destruct fx; [fin|]. rewrite tail_generic. rewrite negate_mirror45. reflexivity.
Qed.

Lemma orb_false_r' b : b || false = b. Proof. destruct b; reflexivity. Qed.

Theorem dispatch104_is_spec : forall p hs a, dispatch104 p hs a = spec R104 p hs a.
Proof.
  intros p hs a. unfold dispatch104, case104, spec, table.
  dcase (tid a =? 100). { rewrite cmd104_spec. cbn [r_cots r_kind r_body r_fixed zmem existsb handler_of]. rewrite orb_false_r'. destruct (negb _); reflexivity. }
  dcase (tid a =? 101). { rewrite cmd104_spec. cbn [r_cots r_kind r_body r_fixed zmem existsb handler_of]. rewrite orb_false_r'. destruct (negb _); reflexivity. }
  dcase (tid a =? 102). { rewrite cmd104_spec. cbn [r_cots r_kind r_body r_fixed zmem existsb handler_of andb]. rewrite orb_false_r'. destruct (negb _); [reflexivity|].
                          destruct (hs_rd hs); [|reflexivity]. destruct (dec p 0 (payload a)) as [[? ?]|]; reflexivity. }
  dcase (tid a =? 103). { unfold cs104. cbn [r_cots r_kind r_body r_fixed zmem existsb]. rewrite orb_false_r'.
                          destruct (cot a =? 6); cbn [negb]; [|fin].
                          destruct (hs_cs hs) as [ret|]; [|rewrite tail_generic; reflexivity].
                          destruct (dec p 7 (payload a)) as [[ioa bd]|]; [|reflexivity].
                          cbn [andb]. destruct (negb (ioa =? 0)); [fin|]. destruct ret; reflexivity. }
  dcase (tid a =? 104). { rewrite tail_generic. reflexivity. }
  dcase (tid a =? 105). { rewrite cmd104_spec. cbn [r_cots r_kind r_body r_fixed zmem existsb handler_of]. rewrite orb_false_r'. destruct (negb _); reflexivity. }
  dcase (tid a =? 106). { rewrite cmd104_spec. cbn [r_cots r_kind r_body r_fixed zmem existsb handler_of]. rewrite orb_false_r'. destruct (negb _); reflexivity. }
  dcase (tid a =? 107). { unfold ts_ta. cbn [r_cots r_kind r_body r_fixed zmem existsb]. rewrite orb_false_r'.
                          destruct (cot a =? 6); cbn [negb]; [|fin].
                          destruct (dec p 9 (payload a)) as [[ioa bd]|]; [|reflexivity].
                          cbn [andb]. destruct (negb (ioa =? 0)); fin. }
  rewrite tail_generic. reflexivity.
Qed.

Lemma on_trunc_other hs a : (tid a =? 101) = false -> on_truncated R101 hs a = generic hs a.
Proof. intros H. unfold on_truncated. rewrite H. reflexivity. Qed.
Lemma on_trunc_ci hs a : (tid a =? 101) = true -> on_truncated R101 hs a = [].
Proof. intros H. unfold on_truncated. rewrite H. reflexivity. Qed.

Theorem dispatch101_is_spec : forall p hs a, dispatch101 p hs a = spec R101 p hs a.
Proof.
  intros p hs a. unfold dispatch101, case101, spec, table.
  dcase (tid a =? 100). { rewrite cmd101_spec. cbn [r_cots r_kind r_body r_fixed zmem existsb handler_of]. rewrite orb_false_r'. destruct (negb _); [reflexivity|].
                          destruct (hs_ic hs); [|reflexivity]. rewrite on_trunc_other by (apply Z.eqb_eq in Heqb; rewrite Heqb; reflexivity). destruct (dec p 1 (payload a)) as [[? ?]|]; reflexivity. }
  dcase (tid a =? 101). { rewrite cmd101_spec. cbn [r_cots r_kind r_body r_fixed zmem existsb handler_of]. rewrite orb_false_r'. destruct (negb _); [reflexivity|].
                          destruct (hs_ci hs); [|reflexivity]. rewrite on_trunc_ci by assumption. destruct (dec p 1 (payload a)) as [[? ?]|]; reflexivity. }
  dcase (tid a =? 102). { rewrite cmd101_spec. cbn [r_cots r_kind r_body r_fixed zmem existsb handler_of]. rewrite orb_false_r'. destruct (negb _); [reflexivity|].
                          destruct (hs_rd hs); [|reflexivity]. rewrite on_trunc_other by assumption. destruct (dec p 0 (payload a)) as [[? ?]|]; reflexivity. }
  dcase (tid a =? 103). { unfold cs101. cbn [r_cots r_kind r_body r_fixed zmem existsb]. rewrite orb_false_r'.
                          destruct (cot a =? 6); cbn [negb]; [|fin].
                          destruct (hs_cs hs) as [ret|]; [|rewrite tail_generic; reflexivity].
                          rewrite on_trunc_other by assumption.
                          destruct (dec p 7 (payload a)) as [[ioa bd]|]; [|rewrite tail_generic; reflexivity].
                          destruct ret; [fin|]. rewrite tail_generic. reflexivity. }
  dcase (tid a =? 104). { unfold ts101. cbn [r_cots r_kind r_body r_fixed zmem existsb]. rewrite orb_false_r'. destruct (cot a =? 6); fin. }
  dcase (tid a =? 105). { rewrite cmd101_spec. cbn [r_cots r_kind r_body r_fixed zmem existsb handler_of]. rewrite orb_false_r'. destruct (negb _); [reflexivity|].
                          destruct (hs_rp hs); [|reflexivity]. rewrite on_trunc_other by assumption. destruct (dec p 1 (payload a)) as [[? ?]|]; reflexivity. }
  dcase (tid a =? 106). { rewrite cmd101_spec. cbn [r_cots r_kind r_body r_fixed zmem existsb handler_of]. rewrite orb_false_r'. destruct (negb _); [reflexivity|].
                          destruct (hs_cd hs); [|reflexivity]. rewrite on_trunc_other by assumption. destruct (dec p 2 (payload a)) as [[? ?]|]; reflexivity. }
  dcase (tid a =? 107). { rewrite tail_generic. reflexivity. }
  rewrite tail_generic. reflexivity.
Qed.

(* ------------------------------------------------------------------ clauses of the property, over the table *)
Definition accepts (hs : handlers) (x : action) : bool :=
  match x with Call h _ _ => match handler_of hs h with Some true => true | _ => false end | _ => false end.
Definition is_actcon (x : action) : bool := match x with Respond r => cot r =? 7 | _ => false end.

Lemma generic_shape hs a :
  (generic hs a = [Call HAsdu [] a] /\ hs_asdu hs = Some true) \/
  (generic hs a = [Call HAsdu [] a; Respond (mirror a 44)] /\ hs_asdu hs = Some false) \/
  (generic hs a = [Respond (mirror a 44)] /\ hs_asdu hs = None).
Proof. unfold generic. destruct (hs_asdu hs) as [[|]|]; auto. Qed.

Lemma table_rows r t rw : table r t = Some rw ->
  (t = 100 /\ rw = {| r_cots := [6; 8]; r_body := 1; r_fixed := true; r_kind := KCmd HInterrogation arg_q |}) \/
  (t = 101 /\ rw = {| r_cots := [6; 8]; r_body := 1; r_fixed := true; r_kind := KCmd HCounter arg_q |}) \/
  (t = 102 /\ rw = {| r_cots := [5]; r_body := 0; r_fixed := false; r_kind := KCmd HRead arg_ioa |}) \/
  (t = 103 /\ rw = {| r_cots := [6]; r_body := 7; r_fixed := true; r_kind := KClock |}) \/
  (t = 104 /\ r = R101 /\ rw = {| r_cots := [6]; r_body := 2; r_fixed := true; r_kind := KTest |}) \/
  (t = 105 /\ rw = {| r_cots := [6]; r_body := 1; r_fixed := true; r_kind := KCmd HReset arg_q |}) \/
  (t = 106 /\ rw = {| r_cots := [6; 3]; r_body := 2; r_fixed := true; r_kind := KCmd HDelay arg_delay |}) \/
  (t = 107 /\ r = R104 /\ rw = {| r_cots := [6]; r_body := 9; r_fixed := true; r_kind := KTest |}).
Proof.
  unfold table. intros H.
  destruct (t =? 100) eqn:E0. { apply Z.eqb_eq in E0. inversion H. auto. }
  destruct (t =? 101) eqn:E1. { apply Z.eqb_eq in E1. inversion H. auto. }
  destruct (t =? 102) eqn:E2. { apply Z.eqb_eq in E2. inversion H. auto 6. }
  destruct (t =? 103) eqn:E3. { apply Z.eqb_eq in E3. inversion H. auto 6. }
  destruct (t =? 104) eqn:E4. { apply Z.eqb_eq in E4. destruct r; inversion H. auto 8. }
  destruct (t =? 105) eqn:E5. { apply Z.eqb_eq in E5. inversion H. auto 8. }
  destruct (t =? 106) eqn:E6. { apply Z.eqb_eq in E6. inversion H. auto 10. }
  destruct (t =? 107) eqn:E7. { apply Z.eqb_eq in E7. destruct r; inversion H. auto 12. }
  discriminate.
Qed.

Ltac rows H := apply table_rows in H;
  destruct H as [[? ->]|[[? ->]|[[? ->]|[[? ->]|[[? [? ->]]|[[? ->]|[[? ->]|[? [? ->]]]]]]]]]; try discriminate.

(* 1. wrong cause: exactly the mirrored response with cause 45, nothing else *)
Theorem spec_wrong_cot r p hs a rw : table r (tid a) = Some rw -> zmem (cot a) (r_cots rw) = false ->
  spec r p hs a = [Respond (mirror a 45)].
Proof. intros H1 H2. unfold spec. rewrite H1, H2. reflexivity. Qed.

(* 2. (CS104) fixed address not zero: exactly the mirrored response with cause 47 *)
Theorem spec_wrong_ioa p hs a rw ioa bd h : table R104 (tid a) = Some rw -> zmem (cot a) (r_cots rw) = true ->
  r_fixed rw = true -> specific R104 (tid a) = Some h -> handler_of hs h <> None \/ r_kind rw = KTest ->
  dec p (r_body rw) (payload a) = Some (ioa, bd) -> ioa <> 0 ->
  spec R104 p hs a = [Respond (mirror a 47)].
Proof.
  intros H1 H2 H3 H4 H5 H6 H7. unfold spec. unfold specific in H4. rewrite H1 in *. rewrite H2. cbn [negb].
  assert (E : negb (ioa =? 0) = true) by (apply negb_true_iff, Z.eqb_neq; exact H7).
  destruct (r_kind rw) as [h' arg| |] eqn:K.
  - inversion H4; subst h'. destruct H5 as [H5|H5]; [|discriminate].
    destruct (handler_of hs h) as [ret|]; [|congruence]. rewrite H6, H3, E. reflexivity.
  - inversion H4; subst h. destruct H5 as [H5|H5]; [|discriminate]. cbn [handler_of] in H5.
    destruct (hs_cs hs) as [ret|]; [|congruence].
    rows H1.
    cbn [r_body] in H6. rewrite H6. cbn [r_fixed andb]. rewrite E. reflexivity.
  - discriminate.
Qed.

Theorem spec_wrong_ioa_test p hs a rw ioa bd : table R104 (tid a) = Some rw -> zmem (cot a) (r_cots rw) = true ->
  r_kind rw = KTest -> dec p (r_body rw) (payload a) = Some (ioa, bd) -> ioa <> 0 ->
  spec R104 p hs a = [Respond (mirror a 47)].
Proof.
  intros H1 H2 K H6 H7. unfold spec. rewrite H1, H2, K, H6. cbn [negb].
  rows H1.
  cbn [r_fixed andb]. replace (negb (ioa =? 0)) with true by (symmetry; apply negb_true_iff, Z.eqb_neq; exact H7). reflexivity.
Qed.

(* 3. allowed cause, address fine, complete: the registered callback exactly once, with the decoded parameter, and
      if it accepts there is no negative response *)
Theorem spec_callback r p hs a rw h arg ret ioa bd : table r (tid a) = Some rw -> zmem (cot a) (r_cots rw) = true ->
  r_kind rw = KCmd h arg -> handler_of hs h = Some ret -> dec p (r_body rw) (payload a) = Some (ioa, bd) ->
  (r = R104 -> r_fixed rw = true -> ioa = 0) ->
  exists rest, spec r p hs a = Call h (arg ioa bd) a :: rest /\ count is_specific_call rest = 0 /\
               (ret = true -> rest = []) /\ (ret = false -> rest = generic hs a).
Proof.
  intros H1 H2 K H4 H5 H6. unfold spec. rewrite H1, H2, K, H4, H5. cbn [negb].
  assert (E : (match r with R104 => r_fixed rw && negb (ioa =? 0) | R101 => false end) = false).
  { destruct r; [|reflexivity]. destruct (r_fixed rw); [|reflexivity]. rewrite (H6 eq_refl eq_refl). reflexivity. }
  rewrite E. eexists. split; [reflexivity|]. destruct ret.
  - repeat split; try reflexivity; discriminate.
  - repeat split; try reflexivity; try discriminate.
    destruct (generic_shape hs a) as [[-> _]|[[-> _]|[-> _]]]; reflexivity.
Qed.

Theorem spec_clock_callback r p hs a ret ioa bd : tid a = 103 -> cot a = 6 ->
  hs_cs hs = Some ret -> dec p 7 (payload a) = Some (ioa, bd) -> (r = R104 -> ioa = 0) ->
  exists rest, spec r p hs a = Call HClock bd a :: rest /\ count is_specific_call rest = 0 /\
               (ret = true -> exists c, rest = [Respond c] /\ cot c = 7 /\ pn c = pn a /\ tid c = 103 /\ addr c = addr a).
Proof.
  intros H1 H2 H4 H5 H6. unfold spec, table. rewrite H1, H2. cbn. rewrite H4, H5.
  assert (E : (match r with R104 => negb (ioa =? 0) | R101 => false end) = false).
  { destruct r; [|reflexivity]. rewrite (H6 eq_refl). reflexivity. }
  rewrite E. eexists. split; [reflexivity|]. destruct r, ret; cbn.
  - split; [reflexivity|]. intros _. eexists. repeat split; try reflexivity; cbn; auto.
  - split; [reflexivity|]. discriminate.
  - split; [reflexivity|]. intros _. eexists. repeat split; try reflexivity; cbn; auto.
  - split; [|discriminate]. destruct (generic_shape hs a) as [[-> _]|[[-> _]|[-> _]]]; reflexivity.
Qed.

(* 4. a type without a row, or a command whose callback is not registered: generic callback, else cause 44 *)
Theorem spec_unknown_type r p hs a : table r (tid a) = None -> spec r p hs a = generic hs a.
Proof. intros H. unfold spec. rewrite H. reflexivity. Qed.

(* 5. truncated: the command-specific callback is never reached *)
Theorem spec_truncated r p hs a rw : table r (tid a) = Some rw -> dec p (r_body rw) (payload a) = None ->
  count is_specific_call (spec r p hs a) = 0.
Proof.
  intros H1 H2. unfold spec. rewrite H1.
  destruct (negb (zmem (cot a) (r_cots rw))); [reflexivity|].
  assert (G : count is_specific_call (generic hs a) = 0) by (destruct (generic_shape hs a) as [[-> _]|[[-> _]|[-> _]]]; reflexivity).
  assert (T : count is_specific_call (on_truncated r hs a) = 0).
  { unfold on_truncated. destruct r; [reflexivity|]. destruct (tid a =? 101); [reflexivity|exact G]. }
  destruct (r_kind rw) as [h arg| |] eqn:K.
  - destruct (handler_of hs h); [|exact G]. rewrite H2. exact T.
  - destruct (hs_cs hs); [|exact G].
    rows H1.
    cbn [r_body] in H2. rewrite H2. exact T.
  - destruct r; [|reflexivity]. rewrite H2. reflexivity.
Qed.

(* 6. every negative response (cause 44/45/47) is the mirror of the request, and there is at most one; at most one
      command-specific callback, and it is the one belonging to the type; a callback that accepts excludes a
      negative response *)
Lemma count_app f l1 l2 : count f (l1 ++ l2) = count f l1 + count f l2.
Proof. unfold count. rewrite filter_app, app_length. lia. Qed.

Definition good_outcome (r : role) (hs : handlers) (a : asdu) (acts : list action) : Prop :=
  count is_specific_call acts <= 1 /\ count is_neg_resp acts <= 1 /\
  count (accepts hs) acts + count is_neg_resp acts <= 1 /\
  (forall x, In x acts -> is_neg_resp x = true -> x = Respond (mirror a 44) \/ x = Respond (mirror a 45) \/ x = Respond (mirror a 47)) /\
  (forall h arg a', In (Call h arg a') acts -> a' = a /\ (h = HAsdu \/ specific r (tid a) = Some h)) /\
  (count (accepts hs) acts + count is_neg_resp acts = 1 \/ count is_close acts = 1 \/ count is_actcon acts = 1 \/ acts = []).

Lemma good_generic r hs a : good_outcome r hs a (generic hs a).
Proof.
  unfold good_outcome, count.
  destruct (generic_shape hs a) as [[-> E]|[[-> E]|[-> E]]]; cbn [filter accepts handler_of is_specific_call is_neg_resp is_close is_actcon];
    rewrite ?E; cbn.
  - repeat split; try lia; try (left; reflexivity).
    + intros x [<-|[]]; discriminate.
    + destruct H as [H|[]]. inversion H. reflexivity.
    + destruct H as [H|[]]. inversion H. left; reflexivity.
  - repeat split; try lia; try (left; reflexivity).
    + intros x [<-|[<-|[]]]; [discriminate|auto].
    + destruct H as [H|[H|[]]]; [inversion H; reflexivity|discriminate].
    + destruct H as [H|[H|[]]]; [inversion H; left; reflexivity|discriminate].
  - repeat split; try lia; try (left; reflexivity).
    + intros x [<-|[]]; auto.
    + destruct H as [H|[]]; discriminate.
    + destruct H as [H|[]]; discriminate.
Qed.

Lemma good_single_neg r hs a c : c = 44 \/ c = 45 \/ c = 47 -> good_outcome r hs a [Respond (mirror a c)].
Proof.
  intros Hc. unfold good_outcome. assert (E : is_neg_resp (Respond (mirror a c)) = true) by (destruct Hc as [-> | [-> | ->]]; reflexivity).
  unfold count. cbn [filter accepts is_specific_call is_close]. rewrite E. cbn.
  repeat split; try lia.
  - intros x [<-|[]] _. destruct Hc as [-> | [-> | ->]]; auto.
  - destruct H as [H|[]]. discriminate.
  - destruct H as [H|[]]. discriminate.
Qed.

Lemma good_call_then_generic r hs a h arg : specific r (tid a) = Some h -> h <> HAsdu -> handler_of hs h = Some false ->
  good_outcome r hs a (Call h arg a :: generic hs a).
Proof.
  intros Hs Hn Hh.
  assert (S1 : is_specific_call (Call h arg a) = true) by (destruct h; try reflexivity; congruence).
  assert (A1 : accepts hs (Call h arg a) = false) by (cbn; rewrite Hh; reflexivity).
  unfold good_outcome, count.
  destruct (generic_shape hs a) as [[-> E]|[[-> E]|[-> E]]];
    cbn [filter]; rewrite S1, A1; cbn [accepts handler_of is_specific_call is_neg_resp is_close is_actcon filter]; rewrite ?E; cbn.
  - repeat split; try lia; try (left; reflexivity).
    + intros x [<-|[<-|[]]]; discriminate.
    + destruct H as [H|[H|[]]]; inversion H; reflexivity.
    + destruct H as [H|[H|[]]]; inversion H; subst; auto.
  - repeat split; try lia; try (left; reflexivity).
    + intros x [<-|[<-|[<-|[]]]]; try discriminate; auto.
    + destruct H as [H|[H|[H|[]]]]; inversion H; reflexivity.
    + destruct H as [H|[H|[H|[]]]]; inversion H; subst; auto.
  - repeat split; try lia; try (left; reflexivity).
    + intros x [<-|[<-|[]]]; try discriminate; auto.
    + destruct H as [H|[H|[]]]; inversion H; reflexivity.
    + destruct H as [H|[H|[]]]; inversion H; subst; auto.
Qed.

Lemma good_close r hs a : good_outcome r hs a [CloseConn].
Proof. unfold good_outcome, count. cbn. repeat split; try lia; try (intros x [<-|[]]; discriminate); try (destruct H as [H|[]]; discriminate). Qed.
Lemma good_nil r hs a : good_outcome r hs a [].
Proof. unfold good_outcome, count. cbn. repeat split; try lia; try (intros x []); try (destruct H); auto. Qed.
Lemma good_on_truncated r hs a : good_outcome r hs a (on_truncated r hs a).
Proof. unfold on_truncated. destruct r; [apply good_close|]. destruct (tid a =? 101); [apply good_nil|apply good_generic]. Qed.

Lemma good_call_accepted r hs a h arg : specific r (tid a) = Some h -> h <> HAsdu -> handler_of hs h = Some true ->
  good_outcome r hs a [Call h arg a].
Proof.
  intros Hs Hn Hh.
  assert (S1 : is_specific_call (Call h arg a) = true) by (destruct h; try reflexivity; congruence).
  assert (A1 : accepts hs (Call h arg a) = true) by (cbn; rewrite Hh; reflexivity).
  unfold good_outcome, count. cbn [filter]. rewrite S1, A1. cbn.
  repeat split; try lia; try (left; reflexivity).
  - intros x [<-|[]]; discriminate.
  - destruct H as [H|[]]; inversion H; reflexivity.
  - destruct H as [H|[]]; inversion H; subst; auto.
Qed.

(* a callback followed by the stack's own activation confirmation (cause 7) *)
Lemma good_call_actcon r hs a h arg c : specific r (tid a) = Some h -> h <> HAsdu -> cot c = 7 ->
  good_outcome r hs a [Call h arg a; Respond c].
Proof.
  intros Hs Hn Hc.
  assert (S1 : is_specific_call (Call h arg a) = true) by (destruct h; try reflexivity; congruence).
  assert (N : is_neg_resp (Respond c) = false) by (cbn; rewrite Hc; cbn; apply andb_false_r).
  assert (K : is_actcon (Respond c) = true) by (cbn; rewrite Hc; reflexivity).
  unfold good_outcome, count. cbn [filter]. rewrite S1, N, K. cbn [is_specific_call is_neg_resp is_close is_actcon accepts].
  destruct (match handler_of hs h with Some true => true | _ => false end); cbn.
  all: repeat split; try lia.
  all: try (intros x [<-|[<-|[]]]; [discriminate|rewrite N; discriminate]).
  all: try (destruct H as [H|[H|[]]]; inversion H; subst; auto).
Qed.

Lemma good_actcon r hs a c : cot c = 7 -> good_outcome r hs a [Respond c].
Proof.
  intros Hc.
  assert (N : is_neg_resp (Respond c) = false) by (cbn; rewrite Hc; cbn; apply andb_false_r).
  assert (K : is_actcon (Respond c) = true) by (cbn; rewrite Hc; reflexivity).
  unfold good_outcome, count. cbn [filter]. rewrite N, K. cbn.
  repeat split; try lia.
  - intros x [<-|[]]. rewrite N. discriminate.
  - destruct H as [H|[]]; discriminate.
  - destruct H as [H|[]]; discriminate.
Qed.

Lemma specific_of r a rw : table r (tid a) = Some rw ->
  specific r (tid a) = match r_kind rw with KCmd h _ => Some h | KClock => Some HClock | KTest => None end.
Proof. intros H. unfold specific. rewrite H. reflexivity. Qed.

Theorem spec_good : forall r p hs a, good_outcome r hs a (spec r p hs a).
Proof.
  intros r p hs a. unfold spec. destruct (table r (tid a)) as [rw|] eqn:T; [|apply good_generic].
  destruct (negb (zmem (cot a) (r_cots rw))); [apply good_single_neg; auto|].
  pose proof (specific_of r a rw T) as SP.
  destruct (r_kind rw) as [h arg| |] eqn:K.
  - assert (Hn : h <> HAsdu) by (rows T; cbn in K; inversion K; discriminate).
    destruct (handler_of hs h) as [ret|] eqn:Hh; [|apply good_generic].
    destruct (dec p (r_body rw) (payload a)) as [[ioa bd]|]; [|apply good_on_truncated].
    destruct (match r with R104 => r_fixed rw && negb (ioa =? 0) | R101 => false end); [apply good_single_neg; auto|].
    destruct ret; [apply good_call_accepted|apply good_call_then_generic]; assumption.
  - destruct (hs_cs hs) as [ret|] eqn:Hh; [|apply good_generic].
    destruct (dec p 7 (payload a)) as [[ioa bd]|]; [|apply good_on_truncated].
    destruct (match r with R104 => r_fixed rw && negb (ioa =? 0) | R101 => false end); [apply good_single_neg; auto|].
    destruct r, ret.
    + apply good_call_actcon; [assumption|discriminate|reflexivity].
    + apply good_call_actcon; [assumption|discriminate|reflexivity].
    + apply good_call_actcon; [assumption|discriminate|reflexivity].
    + apply good_call_then_generic; [assumption|discriminate|exact Hh].
  - destruct r.
    + destruct (dec p (r_body rw) (payload a)) as [[ioa bd]|]; [|apply good_close].
      destruct (r_fixed rw && negb (ioa =? 0)); [apply good_single_neg; auto|apply good_actcon; reflexivity].
    + apply good_actcon; reflexivity.
Qed.

(* ------------------------------------------------------------------ the pinned snapshot violates the property *)
Definition p223 : alp := {| cot_sz := 2; ca_sz := 2; ioa_sz := 3 |}.
Definition no_handlers : handlers := {| hs_ic := None; hs_ci := None; hs_rd := None; hs_cs := None; hs_rp := None; hs_cd := None; hs_asdu := None |}.
Definition mk (t c : Z) (pl : list Z) : asdu := {| tid := t; vsq := 1; cot := c; pn := false; tst := false; addr := [0; 1; 0]; payload := pl |}.

(* A12: truncated C_TS_TA_1 with a cause other than activation dereferences NULL; IOA <> 0 gives two responses; with
   cause = activation the IOA is not looked at *)
Lemma ts_ta_orig_null_deref : ts_ta_orig p223 (mk 107 5 []) = OFault.
Proof. reflexivity. Qed.
Lemma ts_ta_orig_two_responses :
  exists acts h a', ts_ta_orig p223 (mk 107 5 [1; 0; 0; 1; 2; 1; 2; 3; 4; 5; 6; 7]) = OFlow (Cont acts h a') /\ count is_neg_resp acts = 2.
Proof. do 3 eexists. split; reflexivity. Qed.
Lemma ts_ta_orig_ioa_unchecked :
  exists acts h a', ts_ta_orig p223 (mk 107 6 [1; 0; 0; 1; 2; 1; 2; 3; 4; 5; 6; 7]) = OFlow (Cont acts h a') /\ count is_neg_resp acts = 0 /\ count is_actcon acts = 1.
Proof. do 3 eexists. repeat split; reflexivity. Qed.

(* A13: CS101, wrong cause: a second response (cause 44) follows the one with cause 45 *)
Lemma dispatch101_orig_double_response :
  dispatch101_orig p223 no_handlers (mk 100 7 [0; 0; 0; 20]) =
  [Respond (mirror (mk 100 7 [0; 0; 0; 20]) 45); Respond (mirror (mk 100 7 [0; 0; 0; 20]) 44)].
Proof. reflexivity. Qed.
Lemma dispatch101_orig_not_good : ~ good_outcome R101 no_handlers (mk 100 7 [0; 0; 0; 20]) (dispatch101_orig p223 no_handlers (mk 100 7 [0; 0; 0; 20])).
Proof. rewrite dispatch101_orig_double_response. intros (_ & H & _). unfold count in H. cbn in H. lia. Qed.
