(* C09: data shared by the two dispatch models.
   An ASDU is kept as a record (fields of the data unit identifier + payload octets); `parse`/`unparse`
   relate it to the octets on the wire exactly as cs101_asdu.c does (CS101_ASDU_createFromBufferEx,
   getTypeID/getCOT/isNegative/isTest, setCOT/setNegative work on octet 2 only). *)
From Coq Require Import ZArith List Bool Lia.
Import ListNotations.
Local Open Scope Z_scope.

Record alp := { cot_sz : Z; ca_sz : Z; ioa_sz : Z }.
Definition hdr_len (p : alp) : Z := 2 + cot_sz p + ca_sz p.
Definition alp_ok (p : alp) : Prop :=
  (cot_sz p = 1 \/ cot_sz p = 2) /\ (ca_sz p = 1 \/ ca_sz p = 2) /\ (ioa_sz p = 1 \/ ioa_sz p = 2 \/ ioa_sz p = 3).

Record asdu := { tid : Z; vsq : Z; cot : Z; pn : bool; tst : bool; addr : list Z; payload : list Z }.

Definition b2z (b : bool) : Z := if b then 1 else 0.
Definition cot_octet (a : asdu) : Z := cot a + 64 * b2z (pn a) + 128 * b2z (tst a).
Definition unparse (a : asdu) : list Z := tid a :: vsq a :: cot_octet a :: addr a ++ payload a.

Definition parse (p : alp) (bs : list Z) : option asdu :=
  if Z.of_nat (length bs) <? hdr_len p then None
  else match bs with
       | t :: v :: c :: rest =>
         Some {| tid := t; vsq := v; cot := c mod 64; pn := (c / 64) mod 2 =? 1; tst := (c / 128) mod 2 =? 1;
                 addr := firstn (Z.to_nat (hdr_len p - 3)) rest; payload := skipn (Z.to_nat (hdr_len p - 3)) rest |}
       | _ => None
       end.

(* CS101_ASDU_setCOT (value & 0x3f, the two flag bits kept) and CS101_ASDU_setNegative *)
Definition set_cot (a : asdu) (c : Z) : asdu :=
  {| tid := tid a; vsq := vsq a; cot := c mod 64; pn := pn a; tst := tst a; addr := addr a; payload := payload a |}.
Definition set_neg (a : asdu) (b : bool) : asdu :=
  {| tid := tid a; vsq := vsq a; cot := cot a; pn := b; tst := tst a; addr := addr a; payload := payload a |}.
Definition set_payload (a : asdu) (v : Z) (pl : list Z) : asdu :=
  {| tid := tid a; vsq := v; cot := cot a; pn := pn a; tst := tst a; addr := addr a; payload := pl |}.

(* InformationObject_ParseObjectAddress at index 0 *)
Definition ioa_of (p : alp) (pl : list Z) : Z :=
  nth 0 pl 0 + (if 1 <? ioa_sz p then nth 1 pl 0 * 256 else 0) + (if 2 <? ioa_sz p then nth 2 pl 0 * 65536 else 0).
Definition ioa_enc (p : alp) (ioa : Z) : list Z :=
  (ioa mod 256) :: (if 1 <? ioa_sz p then [(ioa / 256) mod 256] else []) ++ (if 2 <? ioa_sz p then [(ioa / 65536) mod 256] else []).

(* <Type>_getFromBuffer(io, parameters, payload, payloadSize, 0): NULL unless sizeOfIOA + body octets are present *)
Definition dec (p : alp) (body : Z) (pl : list Z) : option (Z * list Z) :=
  if ioa_sz p + body <=? Z.of_nat (length pl)
  then Some (ioa_of p pl, firstn (Z.to_nat body) (skipn (Z.to_nat (ioa_sz p)) pl))
  else None.

Inductive hname := HInterrogation | HCounter | HRead | HClock | HReset | HDelay | HAsdu.
Definition hname_eqb (x y : hname) : bool :=
  match x, y with
  | HInterrogation, HInterrogation | HCounter, HCounter | HRead, HRead | HClock, HClock
  | HReset, HReset | HDelay, HDelay | HAsdu, HAsdu => true
  | _, _ => false
  end.

(* which callbacks the application registered (None = not registered) and what each returns *)
Record handlers := { hs_ic : option bool; hs_ci : option bool; hs_rd : option bool; hs_cs : option bool;
                     hs_rp : option bool; hs_cd : option bool; hs_asdu : option bool }.

Inductive action :=
| Call (h : hname) (arg : list Z) (a : asdu)      (* callback with its decoded parameter and the ASDU as it was at that moment *)
| Respond (a : asdu)                               (* sendASDUInternal / enqueueUserDataClass1 *)
| CloseConn.                                       (* handleASDU returned false (CS104) *)

(* decoded parameters *)
Definition arg_q (ioa : Z) (bd : list Z) : list Z := [nth 0 bd 0].                       (* QOI / QCC / QRP *)
Definition arg_ioa (ioa : Z) (bd : list Z) : list Z := [ioa].
Definition arg_time (ioa : Z) (bd : list Z) : list Z := bd.                               (* CP56Time2a, 7 octets *)
Definition arg_delay (ioa : Z) (bd : list Z) : list Z := [nth 0 bd 0 + 256 * nth 1 bd 0]. (* CP16Time2a elapsed ms *)

(* control flow of one `case`: either the function returns early, or it leaves the switch *)
Inductive flow :=
| Ret (acts : list action)
| Cont (acts : list action) (handled : bool) (a : asdu).

(* responseNegative / responseCOTUnknown: mutate, then send *)
Definition negate (a : asdu) (cause : Z) : asdu := set_neg (set_cot a cause) true.

(* the statements after the switch: generic handler, then the error response with cause 44 *)
Definition tail (hs : handlers) (f : flow) : list action :=
  match f with
  | Ret acts => acts
  | Cont acts true _ => acts
  | Cont acts false a =>
    match hs_asdu hs with
    | Some true => acts ++ [Call HAsdu [] a]
    | Some false => acts ++ [Call HAsdu [] a; Respond (negate a 44)]
    | None => acts ++ [Respond (negate a 44)]
    end
  end.
