From Coq Require Import ZArith List Bool Lia.
From L60870 Require Import Base.Sweep Dispatch.DispatchBase Dispatch.Dispatch104 Dispatch.Dispatch101 Dispatch.DispatchSpec Dispatch.DispatchProofs Dispatch.Builders.
Import ListNotations.
Local Open Scope Z_scope.
Ltac Zify.zify_post_hook ::= Z.div_mod_to_equations.

Definition ca_bytes (p : alp) (oa ca : Z) : list Z :=
  (if cot_sz p =? 2 then [oa] else []) ++ [ca mod 256] ++ (if ca_sz p =? 2 then [ca / 256] else []).

Definition built (p : alp) (oa t c ca ioa : Z) (body : list Z) : asdu :=
  {| tid := t; vsq := 1; cot := c; pn := false; tst := false; addr := ca_bytes p oa ca; payload := ioa_enc p ioa ++ body |}.

Lemma cot_bits c : 0 <= c < 64 -> c mod 256 mod 64 = c /\ ((c mod 256 / 64) mod 2 =? 1) = false /\ ((c mod 256 / 128) mod 2 =? 1) = false.
Proof. intros H. rewrite (Z.mod_small c 256) by lia. repeat split; [|apply Z.eqb_neq|apply Z.eqb_neq]; lia. Qed.

(* the octets built by the client decode to the arguments *)
Theorem parse_build p oa t c ca ioa body : alp_ok p -> 0 <= oa < 256 -> 0 <= t < 256 -> 0 <= c < 64 ->
  0 <= ca < 256 ^ ca_sz p -> parse p (build p oa t c ca ioa body) = Some (built p oa t c ca ioa body).
Proof.
  intros (Hc & Ha & Hi) Hoa Ht Hcot Hca. destruct (cot_bits c Hcot) as (C1 & C2 & C3).
  unfold parse, build, ident, built, ca_bytes, hdr_len.
  rewrite (Z.mod_small oa 256), (Z.mod_small t 256), (Z.mod_small 1 256) by lia.
  destruct Hc as [-> | ->], Ha as [E | E]; rewrite E in *; cbn [Z.eqb Pos.eqb app];
    rewrite ?app_length; cbn [length app];
    match goal with |- context [Z.of_nat ?n <? ?k] => replace (Z.of_nat n <? k) with false by (symmetry; apply Z.ltb_ge; lia) end;
    cbn [firstn skipn Z.to_nat Z.add Z.sub Z.opp Pos.to_nat Pos.iter_op Nat.add Pos.add Pos.succ Z.pos_sub Pos.pred_double];
    rewrite C1, C2, C3; cbn; repeat f_equal; try lia.
  all: change (256 ^ 2) with 65536 in Hca; change (256 ^ 1) with 256 in Hca; try lia.
  all: change (Pos.to_nat 2) with 2%nat; change (Pos.to_nat 3) with 3%nat; cbn [firstn]; rewrite (Z.mod_small (ca / 256) 256) by lia; reflexivity.
Qed.

Lemma ioa_roundtrip p ioa rest : alp_ok p -> 0 <= ioa < 256 ^ ioa_sz p -> ioa_of p (ioa_enc p ioa ++ rest) = ioa.
Proof.
  intros (_ & _ & Hi) H. unfold ioa_of, ioa_enc.
  destruct Hi as [E | [E | E]]; rewrite E in *; cbn [Z.ltb Z.compare Pos.compare Pos.compare_cont app nth].
  - change (256 ^ 1) with 256 in H. lia.
  - change (256 ^ 2) with 65536 in H. lia.
  - change (256 ^ 3) with 16777216 in H. lia.
Qed.

Lemma ioa_enc_len p ioa : alp_ok p -> Z.of_nat (length (ioa_enc p ioa)) = ioa_sz p.
Proof. intros (_ & _ & Hi). unfold ioa_enc. destruct Hi as [E | [E | E]]; rewrite E; reflexivity. Qed.

Lemma dec_build p ioa body n : alp_ok p -> 0 <= ioa < 256 ^ ioa_sz p -> n = Z.of_nat (length body) ->
  dec p n (ioa_enc p ioa ++ body) = Some (ioa, body).
Proof.
  intros Hp H ->. unfold dec. rewrite app_length, Nat2Z.inj_add, ioa_enc_len by assumption.
  rewrite Z.leb_refl. rewrite ioa_roundtrip by assumption.
  rewrite <- (ioa_enc_len p ioa Hp), !Nat2Z.id, skipn_app, skipn_all, Nat.sub_diag. cbn [app skipn].
  rewrite firstn_all. reflexivity.
Qed.

Lemma pow_pos_ioa p : alp_ok p -> 0 <= 0 < 256 ^ ioa_sz p.
Proof. intros (_ & _ & [E | [E | E]]); rewrite E; split; try lia; reflexivity. Qed.

(* end to end: a command issued through the client API reaches the CS104 server callback with identical parameters *)
Theorem client_ic_reaches_callback p hs oa c ca qoi ret : alp_ok p -> 0 <= oa < 256 -> (c = 6 \/ c = 8) ->
  0 <= ca < 256 ^ ca_sz p -> 0 <= qoi < 256 -> hs_ic hs = Some ret ->
  exists a rest, parse p (build_ic p oa c ca qoi) = Some a /\ dispatch104 p hs a = Call HInterrogation [qoi] a :: rest /\
                 count is_specific_call rest = 0 /\ (ret = true -> rest = []).
Proof.
  intros Hp Hoa Hc Hca Hq Hh. unfold build_ic. rewrite (Z.mod_small qoi 256) by lia.
  eexists. rewrite parse_build by (try assumption; destruct Hc; lia).
  rewrite dispatch104_is_spec.
  destruct (spec_callback R104 p hs (built p oa 100 c ca 0 [qoi]) _ HInterrogation arg_q ret 0 [qoi] eq_refl) as (rest & E & N & R1 & _).
  - cbn. destruct Hc as [-> | ->]; reflexivity.
  - reflexivity.
  - exact Hh.
  - cbn [r_body built payload]. apply dec_build; [assumption|apply pow_pos_ioa; assumption|reflexivity].
  - reflexivity.
  - exists rest. split; [reflexivity|]. split; [exact E|]. split; assumption.
Qed.

Theorem client_rd_reaches_callback p hs oa ca ioa ret : alp_ok p -> 0 <= oa < 256 ->
  0 <= ca < 256 ^ ca_sz p -> 0 <= ioa < 256 ^ ioa_sz p -> hs_rd hs = Some ret ->
  exists a rest, parse p (build_rd p oa ca ioa) = Some a /\ dispatch104 p hs a = Call HRead [ioa] a :: rest /\
                 count is_specific_call rest = 0 /\ (ret = true -> rest = []).
Proof.
  intros Hp Hoa Hca Hi Hh. unfold build_rd.
  eexists. rewrite parse_build by (try assumption; lia).
  rewrite dispatch104_is_spec.
  destruct (spec_callback R104 p hs (built p oa 102 5 ca ioa []) _ HRead arg_ioa ret ioa [] eq_refl) as (rest & E & N & R1 & _).
  - reflexivity.
  - reflexivity.
  - exact Hh.
  - cbn [r_body built payload]. apply dec_build; [assumption|assumption|reflexivity].
  - intros _ H. discriminate H.
  - exists rest. split; [reflexivity|]. split; [exact E|]. split; assumption.
Qed.

Theorem client_cs_reaches_callback p hs oa ca time ret : alp_ok p -> 0 <= oa < 256 ->
  0 <= ca < 256 ^ ca_sz p -> length time = 7%nat -> hs_cs hs = Some ret ->
  exists a rest, parse p (build_cs p oa ca time) = Some a /\ dispatch104 p hs a = Call HClock time a :: rest /\
                 count is_specific_call rest = 0.
Proof.
  intros Hp Hoa Hca Ht Hh. unfold build_cs.
  eexists. rewrite parse_build by (try assumption; lia).
  rewrite dispatch104_is_spec.
  destruct (spec_clock_callback R104 p hs (built p oa 103 6 ca 0 time) ret 0 time eq_refl eq_refl Hh) as (rest & E & N & _).
  - cbn [built payload]. apply dec_build; [assumption|apply pow_pos_ioa; assumption|rewrite Ht; reflexivity].
  - reflexivity.
  - exists rest. split; [reflexivity|]. split; assumption.
Qed.

(* the time-tagged test command is confirmed by the stack with the same octets and cause 7 *)
Theorem client_tsta_confirmed p hs oa ca tsc time : alp_ok p -> 0 <= oa < 256 ->
  0 <= ca < 256 ^ ca_sz p -> length time = 7%nat ->
  exists a, parse p (build_tsta p oa ca tsc time) = Some a /\ dispatch104 p hs a = [Respond (positive_con a)].
Proof.
  intros Hp Hoa Hca Ht. unfold build_tsta.
  eexists. rewrite parse_build by (try assumption; lia). split; [reflexivity|].
  rewrite dispatch104_is_spec. unfold spec. cbn [built tid table Z.eqb Pos.eqb r_cots r_kind r_body cot zmem existsb orb negb payload].
  rewrite dec_build; [|assumption|apply pow_pos_ioa; assumption|cbn [length app]; rewrite Ht; reflexivity].
  reflexivity.
Qed.

Lemma cot_octet_sweep : forall c, 0 <= c < 256 ->
  c mod 64 + 64 * b2z ((c / 64) mod 2 =? 1) + 128 * b2z ((c / 128) mod 2 =? 1) = c.
Proof. sweep. Qed.

(* the record view loses nothing: re-encoding a parsed ASDU gives back the received octets *)
Lemma unparse_parse p bs a : parse p bs = Some a -> Forall (fun b => 0 <= b < 256) bs -> unparse a = bs.
Proof.
  unfold parse. destruct (Z.of_nat (length bs) <? hdr_len p); [discriminate|].
  destruct bs as [|t [|v [|c rest]]]; try discriminate.
  intros H F. inversion H; subst a; clear H. unfold unparse, cot_octet. cbn [tid vsq cot pn tst addr payload].
  rewrite firstn_skipn. f_equal. f_equal. f_equal.
  inversion F as [|? ? _ F1]; inversion F1 as [|? ? _ F2]; inversion F2 as [|? ? Hc _]; subst.
  apply cot_octet_sweep. exact Hc.
Qed.

(* ---- the clauses restated on the two transcribed functions *)
Theorem dispatch104_good p hs a : good_outcome R104 hs a (dispatch104 p hs a).
Proof. rewrite dispatch104_is_spec. apply spec_good. Qed.
Theorem dispatch101_good p hs a : good_outcome R101 hs a (dispatch101 p hs a).
Proof. rewrite dispatch101_is_spec. apply spec_good. Qed.
Theorem dispatch104_truncated p hs a rw : table R104 (tid a) = Some rw -> dec p (r_body rw) (payload a) = None ->
  count is_specific_call (dispatch104 p hs a) = 0.
Proof. rewrite dispatch104_is_spec. apply spec_truncated. Qed.
Theorem dispatch101_truncated p hs a rw : table R101 (tid a) = Some rw -> dec p (r_body rw) (payload a) = None ->
  count is_specific_call (dispatch101 p hs a) = 0.
Proof. rewrite dispatch101_is_spec. apply spec_truncated. Qed.
