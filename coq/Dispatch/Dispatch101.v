(* C09: handleASDU() of cs101_slave.c, transcribed case by case (plugins: none installed).
   `dispatch101` follows the tree with the repair (messageHandled = true after responseCOTUnknown);
   `dispatch101_orig` is the pinned snapshot, where the flag stayed false. *)
From Coq Require Import ZArith List Bool Lia.
From L60870 Require Import Dispatch.DispatchBase.
Import ListNotations.
Local Open Scope Z_scope.

Inductive trunc101 := TFall | TReturn.      (* element == NULL: fall out of the switch (most cases) or `return` (C_CI_NA_1) *)

(* common shape; `fixd` = the repaired code sets messageHandled after responseCOTUnknown *)
Definition cmd101 (fixd : bool) (p : alp) (a : asdu) (cot_ok : bool) (h : option bool) (hn : hname) (body : Z)
                  (tr : trunc101) (arg : Z -> list Z -> list Z) : flow :=
  if cot_ok then
    match h with
    | Some r =>
      match dec p body (payload a) with
      | Some (ioa, bd) => Cont [Call hn (arg ioa bd) a] r a
      | None => match tr with TFall => Cont [] false a | TReturn => Ret [] end
      end
    | None => Cont [] false a
    end
  else Cont [Respond (negate a 45)] fixd (negate a 45).

(* C_CS_NA_1: an accepted time is confirmed with ACT_CON (same octets, cause 7) *)
Definition cs101 (fixd : bool) (p : alp) (hs : handlers) (a : asdu) : flow :=
  if cot a =? 6 then
    match hs_cs hs with
    | Some r =>
      match dec p 7 (payload a) with
      | Some (ioa, bd) =>
        if r then Cont [Call HClock (arg_time ioa bd) a; Respond (set_cot a 7)] true (set_cot a 7)
        else Cont [Call HClock (arg_time ioa bd) a] false a
      | None => Cont [] false a
      end
    | None => Cont [] false a
    end
  else Cont [Respond (negate a 45)] fixd (negate a 45).

(* C_TS_NA_1: answered without decoding *)
Definition ts101 (a : asdu) : flow :=
  if negb (cot a =? 6) then Cont [Respond (negate a 45)] true (negate a 45)
  else Cont [Respond (set_cot a 7)] true (set_cot a 7).

Definition case101 (fixd : bool) (p : alp) (hs : handlers) (a : asdu) : flow :=
  let c := cot a in
  if tid a =? 100 then cmd101 fixd p a ((c =? 6) || (c =? 8)) (hs_ic hs) HInterrogation 1 TFall arg_q
  else if tid a =? 101 then cmd101 fixd p a ((c =? 6) || (c =? 8)) (hs_ci hs) HCounter 1 TReturn arg_q
  else if tid a =? 102 then cmd101 fixd p a (c =? 5) (hs_rd hs) HRead 0 TFall arg_ioa
  else if tid a =? 103 then cs101 fixd p hs a
  else if tid a =? 104 then ts101 a
  else if tid a =? 105 then cmd101 fixd p a (c =? 6) (hs_rp hs) HReset 1 TFall arg_q
  else if tid a =? 106 then cmd101 fixd p a ((c =? 6) || (c =? 3)) (hs_cd hs) HDelay 2 TFall arg_delay
  else Cont [] false a.

Definition dispatch101 (p : alp) (hs : handlers) (a : asdu) : list action := tail hs (case101 true p hs a).
Definition dispatch101_orig (p : alp) (hs : handlers) (a : asdu) : list action := tail hs (case101 false p hs a).
