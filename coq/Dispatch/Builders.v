(* C09: the client-side command builders (cs104_connection.c encodeIdentificationField / encodeIOA and the
   CS104_Connection_send*Command functions; cs101_master.c builds the same octets through
   CS101_ASDU_initializeStatic + addInformationObject). *)
From Coq Require Import ZArith List Bool Lia.
From L60870 Require Import Dispatch.DispatchBase.
Import ListNotations.
Local Open Scope Z_scope.

(* encodeIdentificationField: type, VSQ, (uint8_t) cot, [originator], ca & 0xff, [(ca & 0xff00) >> 8] *)
Definition ident (p : alp) (oa t v c ca : Z) : list Z :=
  [t mod 256; v mod 256; c mod 256] ++ (if cot_sz p =? 2 then [oa mod 256] else []) ++
  [ca mod 256] ++ (if ca_sz p =? 2 then [(ca / 256) mod 256] else []).

Definition build (p : alp) (oa t c ca ioa : Z) (body : list Z) : list Z := ident p oa t 1 c ca ++ ioa_enc p ioa ++ body.

Definition build_ic (p : alp) (oa c ca qoi : Z) := build p oa 100 c ca 0 [qoi mod 256].
Definition build_ci (p : alp) (oa c ca qcc : Z) := build p oa 101 c ca 0 [qcc mod 256].
Definition build_rd (p : alp) (oa ca ioa : Z) := build p oa 102 5 ca ioa [].
Definition build_cs (p : alp) (oa ca : Z) (time : list Z) := build p oa 103 6 ca 0 time.
Definition build_ts104 (p : alp) (oa ca : Z) := build p oa 104 6 ca 0 [204; 85].          (* 0xcc 0x55 *)
Definition build_ts101 (p : alp) (oa ca : Z) := build p oa 104 6 ca 0 [170; 85].          (* 0xaa 0x55 *)
Definition build_rp (p : alp) (oa c ca qrp : Z) := build p oa 105 c ca 0 [qrp mod 256].
Definition build_cd (p : alp) (oa c ca ms : Z) := build p oa 106 c ca 0 [ms mod 256; (ms / 256) mod 256].
Definition build_tsta (p : alp) (oa ca tsc : Z) (time : list Z) := build p oa 107 6 ca 0 ([tsc mod 256; (tsc / 256) mod 256] ++ time).
