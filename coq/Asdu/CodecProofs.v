(* Proofs about the table-driven ASDU codec (Asdu/Codec.v): functional specifications of the decoder, of
   getElementEx and of the encoder for every row satisfying decidable row predicates; consequences for
   totality, exact truncation, size safety and atomicity. *)
From Coq Require Import ZArith List String Bool Lia.
From L60870 Require Import Asdu.Layout Asdu.Codec.
Import ListNotations.
Local Open Scope Z_scope.

(* ---- lists ------------------------------------------------------------------------------------- *)
Lemma len_nonneg l : 0 <= len l.
Proof. unfold len. lia. Qed.
Lemma len_app l1 l2 : len (l1 ++ l2) = len l1 + len l2.
Proof. unfold len. rewrite app_length. lia. Qed.
Lemma len_nil : len [] = 0.
Proof. reflexivity. Qed.
Lemma len_cons x l : len (x :: l) = 1 + len l.
Proof. unfold len. cbn [List.length]. lia. Qed.

Lemma zfirstn_len n l : 0 <= n <= len l -> len (zfirstn n l) = n.
Proof. unfold len, zfirstn. intros H. rewrite firstn_length. lia. Qed.
Lemma zskipn_len n l : 0 <= n <= len l -> len (zskipn n l) = len l - n.
Proof. unfold len, zskipn. intros H. rewrite skipn_length. lia. Qed.
Lemma skipn_skipn_nat (x y : nat) (l : list Z) : skipn y (skipn x l) = skipn (x + y) l.
Proof.
  revert l. induction x as [|x IH]; intros l; [reflexivity|].
  destruct l as [|h t]; cbn [skipn plus]; [destruct y; reflexivity|apply IH].
Qed.
Lemma zskipn_zskipn a b l : 0 <= a -> 0 <= b -> zskipn b (zskipn a l) = zskipn (a + b) l.
Proof.
  unfold zskipn. intros Ha Hb. rewrite skipn_skipn_nat. f_equal. lia.
Qed.
Lemma zskipn_0 l : zskipn 0 l = l.
Proof. reflexivity. Qed.
Lemma zfirstn_split a b l : 0 <= a -> 0 <= b -> zfirstn a l ++ zfirstn b (zskipn a l) = zfirstn (a + b) l.
Proof.
  unfold zfirstn, zskipn. intros Ha Hb.
  replace (Z.to_nat (a + b)) with (Z.to_nat a + Z.to_nat b)%nat by lia.
  revert l. generalize (Z.to_nat a) as x. generalize (Z.to_nat b) as y. intros y x.
  induction x as [|x IH]; intros l; [reflexivity|].
  destruct l as [|h t]; cbn [firstn skipn plus app].
  - rewrite !firstn_nil. reflexivity.
  - f_equal. apply IH.
Qed.
Lemma zfirstn_app_exact l1 l2 : zfirstn (len l1) (l1 ++ l2) = l1.
Proof.
  unfold zfirstn, len. rewrite Nat2Z.id. rewrite firstn_app, Nat.sub_diag, firstn_all. cbn. apply app_nil_r.
Qed.
Lemma zskipn_app_exact l1 l2 : zskipn (len l1) (l1 ++ l2) = l2.
Proof.
  unfold zskipn, len. rewrite Nat2Z.id. rewrite skipn_app, Nat.sub_diag, skipn_all. reflexivity.
Qed.
Lemma zfirstn_all l : zfirstn (len l) l = l.
Proof. unfold zfirstn, len. rewrite Nat2Z.id. apply firstn_all. Qed.
Lemma zfirstn_0 l : zfirstn 0 l = [].
Proof. reflexivity. Qed.

Lemma sub_ok m off n : 0 <= off -> 0 <= n -> off + n <= len m -> sub m off n = Ok (zfirstn n (zskipn off m)).
Proof.
  intros H1 H2 H3. unfold sub.
  destruct (0 <=? off) eqn:E1; [|lia]. destruct (0 <=? n) eqn:E2; [|lia]. destruct (off + n <=? len m) eqn:E3; [|lia].
  reflexivity.
Qed.

(* ---- decoder ------------------------------------------------------------------------------------ *)
Fixpoint reads_tile (rs : list rop) (pos n : Z) : bool :=
  match rs with
  | [] => pos =? n
  | RAt off :: t => (off =? pos) && reads_tile t (pos + 1) n
  | RGuard off k :: t => (off =? pos) && (0 <? k) && reads_tile t (pos + k) n
  | RData _ :: _ => false
  end.

Lemma reads_tile_le rs : forall pos n, reads_tile rs pos n = true -> pos <= n.
Proof.
  induction rs as [|r t IH]; intros pos n H; cbn [reads_tile] in H.
  - lia.
  - destruct r as [off|off k|off].
    + apply andb_prop in H as [_ H]. apply IH in H. lia.
    + apply andb_prop in H as [H0 H]. apply andb_prop in H0 as [_ Hk]. apply IH in H. lia.
    + discriminate.
Qed.

Lemma run_reads_tile m cur los rs : forall pos n,
  reads_tile rs pos n = true -> 0 <= pos -> 0 <= cur -> cur + n <= len m ->
  run_reads m cur los rs = Ok (zfirstn (n - pos) (zskipn (cur + pos) m)).
Proof.
  induction rs as [|r t IH]; intros pos n H Hp Hc Hn; cbn [reads_tile run_reads] in *.
  - replace (n - pos) with 0 by lia. reflexivity.
  - destruct r as [off|off k|off]; [| |discriminate].
    + apply andb_prop in H as [Ho H]. assert (off = pos) by lia. subst off.
      pose proof (reads_tile_le _ _ _ H) as Hle.
      rewrite sub_ok by lia. cbn [bind].
      rewrite (IH (pos + 1) n H) by lia. cbn [bind].
      f_equal. replace (cur + (pos + 1)) with ((cur + pos) + 1) by lia.
      rewrite <- (zskipn_zskipn (cur + pos) 1) by lia.
      replace (n - pos) with (1 + (n - (pos + 1))) by lia.
      apply zfirstn_split; lia.
    + apply andb_prop in H as [Ho H]. apply andb_prop in Ho as [Ho Hk].
      assert (off = pos) by lia. subst off. assert (0 < k) by lia.
      pose proof (reads_tile_le _ _ _ H) as Hle.
      destruct (len m <? cur + pos + k) eqn:E; [lia|].
      rewrite sub_ok by lia. cbn [bind].
      rewrite (IH (pos + k) n H) by lia. cbn [bind].
      f_equal. replace (cur + (pos + k)) with ((cur + pos) + k) by lia.
      rewrite <- (zskipn_zskipn (cur + pos) k) by lia.
      replace (n - pos) with (k + (n - (pos + k))) by lia.
      apply zfirstn_split; lia.
Qed.

Definition dec_sqp (d : dec_t) : bool := match d with Dec sqp _ _ _ _ => sqp | _ => false end.

Definition dec_okb (d : dec_t) (n : Z) : bool :=
  match d with
  | Dec sqp mn None ioaf reads =>
    (0 <=? n) && reads_tile reads 0 n &&
    (if sqp then match mn, ioaf with MStd k, IoaSq => k =? n | _, _ => false end
     else match mn, ioaf with MIoa k, IoaAlways => k =? n | _, _ => false end)
  | _ => false
  end.

Definition ioa_ok (a : alp) : Prop := ioa_sz a = 1 \/ ioa_sz a = 2 \/ ioa_sz a = 3.

(* what a correct decoder returns: None when the element does not fit, else the object made of exactly its octets *)
Definition dec_spec (a : alp) (m : list Z) (start : Z) (with_ioa : bool) (n : Z) : option io :=
  let w := if with_ioa then ioa_sz a else 0 in
  if len m <? start + w + n then None
  else Some {| io_addr := le_dec (zfirstn w (zskipn start m)); io_body := zfirstn n (zskipn (start + w) m) |}.

Lemma dec_io_spec d a m start sq n :
  dec_okb d n = true -> ioa_ok a -> 0 <= start ->
  dec_io d a m start sq = Ok (dec_spec a m start (negb (dec_sqp d && sq)) n).
Proof.
  intros Hok Ha Hs. destruct d as [sqp mn var ioaf reads|]; [|discriminate].
  cbn [dec_okb] in Hok. destruct var; [discriminate|].
  apply andb_prop in Hok as [Hok Hf]. apply andb_prop in Hok as [Hn Ht].
  assert (0 <= n) by lia. assert (0 < ioa_sz a <= 3) by (unfold ioa_ok in Ha; lia).
  unfold dec_io, dec_spec. cbn [dec_sqp].
  destruct sqp.
  - destruct mn as [k|k|k]; try discriminate. destruct ioaf; try discriminate. assert (k = n) by lia. subst k.
    cbn [andb]. destruct sq; cbn [negb min_size].
    + replace (start + n + 0) with (start + 0 + n) by lia.
      destruct (len m <? start + 0 + n) eqn:E; [reflexivity|].
      cbn [bind]. rewrite (run_reads_tile m start 0 reads 0 n Ht) by lia. cbn [bind].
      rewrite zfirstn_0. replace (start + 0) with start by lia. replace (n - 0) with n by lia. reflexivity.
    + replace (start + n + ioa_sz a) with (start + ioa_sz a + n) by lia.
      destruct (len m <? start + ioa_sz a + n) eqn:E; [reflexivity|].
      cbn [bind]. rewrite sub_ok by lia. cbn [bind].
      rewrite (run_reads_tile m (start + ioa_sz a) 0 reads 0 n Ht) by lia. cbn [bind].
      replace (start + ioa_sz a + 0) with (start + ioa_sz a) by lia. replace (n - 0) with n by lia. reflexivity.
  - destruct mn as [k|k|k]; try discriminate. destruct ioaf; try discriminate. assert (k = n) by lia. subst k.
    cbn [andb negb min_size].
    destruct (len m <? start + ioa_sz a + n) eqn:E; [reflexivity|].
    cbn [bind]. rewrite sub_ok by lia. cbn [bind].
    rewrite (run_reads_tile m (start + ioa_sz a) 0 reads 0 n Ht) by lia. cbn [bind].
    replace (start + ioa_sz a + 0) with (start + ioa_sz a) by lia. replace (n - 0) with n by lia. reflexivity.
Qed.

(* ---- CS101_ASDU_getElementEx --------------------------------------------------------------------- *)
Definition elem_okb (e : elem_t) (sqp : bool) (n t : Z) : bool :=
  match e with
  | ESeq nsq k gn ga => sqp && (nsq =? n) && (k =? n) && gn && ga
  | EIdx k => negb sqp && (k =? n) && negb (std_sq_ok t)
  | ESingle => negb sqp && std_one t && negb (std_sq_ok t)
  | ElemUnrecognised _ => false
  end.

(* decoder and getElementEx case agree with the standard's length of the type *)
Definition row_dec_okb (r : row) : bool :=
  match std_len (tid r) with
  | Some (Fixed n) => dec_okb (r_dec r) n && elem_okb (r_elem r) (dec_sqp (r_dec r)) n (tid r)
  | _ => false
  end.

(* the element a receiver must see, from the standard's layout alone (n = std_len): SQ=1: one address followed by
   elements of n octets; SQ=0: objects of IOA + n octets; single-object types: the object at offset 0 *)
Definition spec_element (tbl : list row) (a : alp) (msg : list Z) (idx : Z) : option io :=
  if len msg <? hdr_len a then None else
  match find_row tbl (msg_type msg) with
  | None => None
  | Some r =>
    match std_len (tid r) with
    | Some (Fixed n) =>
      let pay := zskipn (hdr_len a) msg in
      match r_elem r with
      | ESeq _ _ _ _ =>
        if msg_sq msg then
          match dec_spec a pay (ioa_sz a + idx * n) false n with
          | None => None
          | Some x => Some {| io_addr := le_dec (zfirstn (ioa_sz a) pay) + idx; io_body := io_body x |}
          end
        else dec_spec a pay (idx * (ioa_sz a + n)) true n
      | EIdx _ => dec_spec a pay (idx * (ioa_sz a + n)) true n
      | _ => dec_spec a pay 0 true n
      end
    | _ => None
    end
  end.

Lemma dec_okb_nonneg d n : dec_okb d n = true -> 0 <= n.
Proof.
  destruct d as [sqp mn var ioaf reads|]; [|discriminate]. cbn [dec_okb]. destruct var; [discriminate|].
  intros H. apply andb_prop in H as [H _]. apply andb_prop in H as [H _]. lia.
Qed.

Theorem get_element_spec tbl a msg idx r :
  ioa_ok a -> 0 <= idx -> find_row tbl (msg_type msg) = Some r -> row_dec_okb r = true ->
  get_element tbl a msg idx = Ok (spec_element tbl a msg idx).
Proof.
  intros Ha Hi Hf Hr. unfold get_element, spec_element. rewrite Hf.
  destruct (len msg <? hdr_len a) eqn:Eh; [reflexivity|].
  unfold row_dec_okb in Hr. destruct (std_len (tid r)) as [[n|f k]|]; try discriminate.
  apply andb_prop in Hr as [Hd He]. pose proof (dec_okb_nonneg _ _ Hd) as Hn.
  assert (0 < ioa_sz a <= 3) by (unfold ioa_ok in Ha; lia).
  set (pay := zskipn (hdr_len a) msg).
  destruct (r_elem r) as [nsq k gn ga|k| |why]; cbn [elem_okb] in He; try discriminate.
  - apply andb_prop in He as [He Hga]. apply andb_prop in He as [He Hgn]. apply andb_prop in He as [He Hk].
    apply andb_prop in He as [Hsq Hnsq]. assert (nsq = n) by lia. assert (k = n) by lia. subst nsq k gn ga.
    destruct (msg_sq msg).
    + assert (0 <= idx * n) by (apply Z.mul_nonneg_nonneg; lia).
      rewrite (dec_io_spec _ a pay (ioa_sz a + idx * n) true n Hd Ha) by lia.
      rewrite Hsq. cbn [andb negb bind].
      unfold dec_spec. replace (ioa_sz a + idx * n + 0 + n) with (ioa_sz a + idx * n + n) by lia.
      destruct (len pay <? ioa_sz a + idx * n + n) eqn:E; [reflexivity|].
      rewrite sub_ok by lia. cbn [bind io_body]. rewrite zskipn_0. reflexivity.
    + assert (0 <= idx * (ioa_sz a + n)) by (apply Z.mul_nonneg_nonneg; lia).
      rewrite (dec_io_spec _ a pay (idx * (ioa_sz a + n)) false n Hd Ha) by lia.
      rewrite andb_false_r. reflexivity.
  - apply andb_prop in He as [He _]. apply andb_prop in He as [Hsq Hk]. assert (k = n) by lia. subst k.
    assert (0 <= idx * (ioa_sz a + n)) by (apply Z.mul_nonneg_nonneg; lia).
    rewrite (dec_io_spec _ a pay (idx * (ioa_sz a + n)) false n Hd Ha) by lia.
    rewrite andb_false_r. reflexivity.
  - rewrite (dec_io_spec _ a pay 0 false n Hd Ha) by lia.
    rewrite andb_false_r. reflexivity.
Qed.

Theorem get_element_unknown tbl a msg idx :
  find_row tbl (msg_type msg) = None -> get_element tbl a msg idx = Ok None.
Proof.
  intros Hf. unfold get_element. rewrite Hf. destruct (len msg <? hdr_len a); reflexivity.
Qed.

(* offset and length of element idx in the payload according to the standard's layout *)
Definition lay_off (e : elem_t) (a : alp) (sq : bool) (n idx : Z) : Z :=
  match e with
  | ESeq _ _ _ _ => if sq then ioa_sz a + idx * n else idx * (ioa_sz a + n)
  | EIdx _ => idx * (ioa_sz a + n)
  | _ => 0
  end.
Definition lay_len (e : elem_t) (a : alp) (sq : bool) (n : Z) : Z :=
  match e with ESeq _ _ _ _ => if sq then n else ioa_sz a + n | _ => ioa_sz a + n end.

Lemma dec_spec_some a m start (w : bool) n L :
  L = start + (if w then ioa_sz a else 0) + n ->
  ((exists o, dec_spec a m start w n = Some o) <-> L <= len m).
Proof.
  intros ->. unfold dec_spec. destruct (len m <? start + (if w then ioa_sz a else 0) + n) eqn:E; split.
  - intros [o Ho]. discriminate.
  - lia.
  - lia.
  - intros _. eexists. reflexivity.
Qed.

(* an object is returned exactly when the element lies completely inside the supplied octets *)
Theorem spec_element_exact tbl a msg idx r n :
  find_row tbl (msg_type msg) = Some r -> std_len (tid r) = Some (Fixed n) -> 0 <= hdr_len a <= len msg ->
  ((exists o, spec_element tbl a msg idx = Some o) <->
   lay_off (r_elem r) a (msg_sq msg) n idx + lay_len (r_elem r) a (msg_sq msg) n <= len msg - hdr_len a).
Proof.
  intros Hf Hs Hh. unfold spec_element. rewrite Hf, Hs.
  destruct (len msg <? hdr_len a) eqn:E; [lia|].
  assert (Hl : len (zskipn (hdr_len a) msg) = len msg - hdr_len a) by (apply zskipn_len; lia).
  rewrite <- Hl. set (pay := zskipn (hdr_len a) msg).
  destruct (r_elem r) as [nsq k gn ga|k| |why]; cbn [lay_off lay_len].
  - destruct (msg_sq msg).
    + etransitivity; [|apply (dec_spec_some a pay (ioa_sz a + idx * n) false n); cbn; lia].
      destruct (dec_spec a pay (ioa_sz a + idx * n) false n); split; intros [o Ho]; try discriminate; eexists; reflexivity.
    + apply dec_spec_some. cbn. lia.
  - apply dec_spec_some. cbn. lia.
  - apply dec_spec_some. cbn. lia.
  - apply dec_spec_some. cbn. lia.
Qed.

(* ---- encoder ------------------------------------------------------------------------------------- *)
Fixpoint plain_len (ls : list leaf) : option Z :=
  match ls with
  | [] => Some 0
  | LByte :: t => match plain_len t with Some k => Some (k + 1) | None => None end
  | LBytes j :: t => if 0 <=? j then match plain_len t with Some k => Some (k + j) | None => None end else None
  | _ => None
  end.
Fixpoint els_of (ops : list eop) : option (list leaf) :=
  match ops with
  | [] => Some []
  | EL l :: t => match els_of t with Some ls => Some (l :: ls) | None => None end
  | ECall _ _ :: _ => None
  end.

Definition enc_okb (e : enc_t) (n : Z) : bool :=
  match e with
  | Enc (Some (ECk ca cb false)) false (hd :: tl) =>
    (ca =? n) && (cb =? n) && (0 <=? n) &&
    match els_of tl with
    | None => false
    | Some tls =>
      match plain_len tls with
      | None => false
      | Some kt =>
        match hd with
        | EL LIoa => kt =? n
        | ECall chk (LIoa :: pls) =>
          match plain_len pls with
          | None => false
          | Some kp => (kp + kt =? n) && match chk with None => true | Some (pa, pb) => (pa <=? n) && (pb <=? n) end
          end
        | _ => false
        end
      end
    end
  | _ => false
  end.

Lemma plain_len_nonneg ls : forall k, plain_len ls = Some k -> 0 <= k.
Proof.
  induction ls as [|l t IH]; intros k H; cbn [plain_len] in H.
  - inversion H. lia.
  - destruct l; try discriminate.
    + destruct (plain_len t) as [k'|]; [|discriminate]. injection H as <-. specialize (IH k' eq_refl). lia.
    + destruct (0 <=? n) eqn:E; [|discriminate]. apply Z.leb_le in E. destruct (plain_len t) as [k'|]; [|discriminate]. injection H as <-. specialize (IH k' eq_refl). lia.
Qed.

Lemma takep_enough n l : 0 <= n <= len l -> takep n l = zfirstn n l.
Proof.
  unfold takep, zfirstn, len. intros H. rewrite firstn_app.
  replace (Z.to_nat n - List.length l)%nat with 0%nat by lia. cbn. apply app_nil_r.
Qed.

Lemma run_leafs_plain a sq o ls : forall k w rest, plain_len ls = Some k -> k <= len rest ->
  run_leafs a sq o ls w rest = (w ++ zfirstn k rest, zskipn k rest).
Proof.
  induction ls as [|l t IH]; intros k w rest H Hk; cbn [plain_len run_leafs] in *.
  - inversion H. rewrite zfirstn_0, zskipn_0, app_nil_r. reflexivity.
  - destruct l; try discriminate; cbn [leaf_take].
    + destruct (plain_len t) as [k'|] eqn:Et; [|discriminate]. injection H as <-.
      pose proof (plain_len_nonneg _ _ Et). pose proof (len_nonneg rest).
      rewrite takep_enough by lia.
      rewrite (IH k' _ _ eq_refl) by (rewrite zskipn_len; lia).
      replace (k' + 1) with (1 + k') by lia.
      rewrite <- app_assoc, zfirstn_split, zskipn_zskipn by lia. reflexivity.
    + destruct (0 <=? n) eqn:E; [|discriminate]. apply Z.leb_le in E. destruct (plain_len t) as [k'|] eqn:Et; [|discriminate]. injection H as <-.
      pose proof (plain_len_nonneg _ _ Et). pose proof (len_nonneg rest).
      rewrite takep_enough by lia.
      rewrite (IH k' _ _ eq_refl) by (rewrite zskipn_len; lia).
      replace (k' + n) with (n + k') by lia.
      rewrite <- app_assoc, zfirstn_split, zskipn_zskipn by lia. reflexivity.
Qed.

Lemma run_ops_els a sq o space ops : forall ls w rest, els_of ops = Some ls ->
  run_ops a sq o space ops w rest = run_leafs a sq o ls w rest.
Proof.
  induction ops as [|op t IH]; intros ls w rest H; cbn [els_of] in H.
  - inversion H. reflexivity.
  - destruct op as [l|chk pls]; [|discriminate].
    destruct (els_of t) as [ls'|] eqn:E; [|discriminate]. inversion H. subst ls.
    cbn [run_ops run_leafs]. destruct (leaf_take a sq o l rest) as [x r']. apply IH. reflexivity.
Qed.

Lemma le_enc_length k v : List.length (le_enc k v) = k.
Proof. revert v. induction k as [|k IH]; intros v; cbn [le_enc List.length]; [reflexivity|]. rewrite IH. reflexivity. Qed.
Lemma ioa_bytes_len a v : 0 <= ioa_sz a -> len (ioa_bytes a v) = ioa_sz a.
Proof. intros H. unfold len, ioa_bytes. rewrite le_enc_length. lia. Qed.

(* the octets one object contributes to the payload *)
Definition enc_bytes (a : alp) (sq : bool) (o : io) : list Z := (if sq then [] else ioa_bytes a (io_addr o)) ++ io_body o.
Definition enc_size (a : alp) (sq : bool) (n : Z) : Z := if sq then n else ioa_sz a + n.

Lemma enc_bytes_len a sq o n : 0 <= ioa_sz a -> len (io_body o) = n -> len (enc_bytes a sq o) = enc_size a sq n.
Proof.
  intros Hi Hb. unfold enc_bytes, enc_size. rewrite len_app, Hb. destruct sq; [reflexivity|]. rewrite ioa_bytes_len by lia. reflexivity.
Qed.

Lemma enc_io_spec e a sq used o n :
  enc_okb e n = true -> len (io_body o) = n -> ioa_ok a -> 0 <= used -> max_asdu a <= 256 ->
  enc_io e a sq used o =
    if max_asdu a - used <? enc_size a sq n then Ok None else Ok (Some (enc_bytes a sq o)).
Proof.
  intros Hok Hb Ha Hu Hm. assert (0 < ioa_sz a <= 3) by (unfold ioa_ok in Ha; lia).
  destruct e as [chk maxdata ops|]; [|discriminate]. cbn [enc_okb] in Hok.
  destruct chk as [[ca cb v]|]; [|discriminate]. destruct v; [discriminate|]. destruct maxdata; [discriminate|].
  destruct ops as [|hd tl]; [discriminate|].
  apply andb_prop in Hok as [Hok Hrest]. apply andb_prop in Hok as [Hok Hn]. apply andb_prop in Hok as [Hca Hcb].
  assert (ca = n) by lia. assert (cb = n) by lia. subst ca cb. assert (0 <= n) by lia.
  destruct (els_of tl) as [tls|] eqn:Etl; [|discriminate]. destruct (plain_len tls) as [kt|] eqn:Ekt; [|discriminate].
  pose proof (plain_len_nonneg _ _ Ekt) as Hkt.
  unfold enc_io. cbn [andb]. unfold chk_size at 1. cbn [fst snd].
  replace ((if sq then n else ioa_sz a + n) + 0) with (enc_size a sq n) by (unfold enc_size; lia).
  destruct (max_asdu a - used <? enc_size a sq n) eqn:Esp; [reflexivity|].
  assert (Hw : fst (run_ops a sq o (max_asdu a - used) (hd :: tl) [] (io_body o)) = enc_bytes a sq o).
  { destruct hd as [l|pchk pls].
    - destruct l; try discriminate. assert (kt = n) by lia. subst kt.
      cbn [run_ops leaf_take]. rewrite (run_ops_els _ _ _ _ _ _ _ _ Etl).
      rewrite (run_leafs_plain _ _ _ _ _ _ _ Ekt) by lia. cbn [fst app].
      rewrite <- Hb, zfirstn_all. reflexivity.
    - destruct pls as [|l pls]; [discriminate|]. destruct l; try discriminate.
      destruct (plain_len pls) as [kp|] eqn:Ekp; [|discriminate].
      pose proof (plain_len_nonneg _ _ Ekp) as Hkp.
      apply andb_prop in Hrest as [Hsum Hchk]. assert (kp + kt = n) by lia.
      cbn [run_ops].
      assert (Hpass : match pchk with Some c => negb (max_asdu a - used - len [] <? chk_size a sq c) | None => true end = true).
      { destruct pchk as [[pa pb]|]; [|reflexivity]. apply andb_prop in Hchk as [Hpa Hpb].
        rewrite len_nil. unfold chk_size, enc_size in *. cbn [fst snd]. destruct sq; apply negb_true_iff; lia. }
      rewrite Hpass. cbn [run_leafs leaf_take app].
      rewrite (run_leafs_plain _ _ _ _ _ _ _ Ekp) by lia.
      rewrite (run_ops_els _ _ _ _ _ _ _ _ Etl).
      rewrite (run_leafs_plain _ _ _ _ _ _ _ Ekt) by (rewrite zskipn_len; lia). cbn [fst].
      rewrite <- app_assoc, zfirstn_split by lia. replace (kp + kt) with (len (io_body o)) by lia. rewrite zfirstn_all. reflexivity. }
  rewrite Hw. rewrite (enc_bytes_len a sq o n) by lia.
  destruct (256 <? used + enc_size a sq n) eqn:E; [lia|]. reflexivity.
Qed.

(* ---- CS101_ASDU_addInformationObject / addPayload --------------------------------------------------- *)
Definition add_sq (s : asdu) : bool := negb (a_count s =? 0) && a_sq s.     (* the object is encoded without its address *)
Definition add_allowed (a : alp) (s : asdu) (t : Z) (o : io) : bool :=
  (a_count s =? 0) ||
  ((a_count s <? 127) && (a_type s =? t mod 256) && (negb (a_sq s) || (io_addr o =? first_ioa a s + a_count s))).
Definition add_result (a : alp) (s : asdu) (t : Z) (o : io) : asdu :=
  let s1 := append (enc_bytes a (add_sq s) o) s in
  inc_count (if a_count s =? 0 then set_type t s1 else s1).
Definition used (s : asdu) : Z := len (a_hdr s) + len (a_pay s).

Theorem add_io_spec fnl tbl a s t o r n :
  find_row tbl t = Some r -> enc_okb (r_enc r) n = true -> len (io_body o) = n ->
  add_limit fnl = Some 127 -> add_type_guarded fnl = Some true -> ioa_ok a -> max_asdu a <= 256 ->
  add_io fnl tbl a s t o =
    Ok (if add_allowed a s t o && negb (max_asdu a - used s <? enc_size a (add_sq s) n)
        then (true, add_result a s t o) else (false, s)).
Proof.
  intros Hf He Hb Hl Hg Ha Hm. unfold add_io, add_allowed, add_result, add_sq, used. rewrite Hf, Hl, Hg.
  pose proof (len_nonneg (a_hdr s)). pose proof (len_nonneg (a_pay s)).
  destruct (a_count s =? 0) eqn:Ec; cbn [orb negb andb].
  - rewrite (enc_io_spec _ a false _ o n He Hb Ha) by lia.
    destruct (max_asdu a - (len (a_hdr s) + len (a_pay s)) <? enc_size a false n); reflexivity.
  - destruct (a_count s <? 127) eqn:El; cbn [andb]; [|reflexivity].
    destruct (a_type s =? t mod 256) eqn:Et; cbn [andb]; [|reflexivity].
    destruct (a_sq s) eqn:Es; cbn [negb orb].
    + destruct (io_addr o =? first_ioa a s + a_count s) eqn:Ei; cbn [andb]; [|reflexivity].
      rewrite (enc_io_spec _ a true _ o n He Hb Ha) by lia.
      destruct (max_asdu a - (len (a_hdr s) + len (a_pay s)) <? enc_size a true n); reflexivity.
    + rewrite (enc_io_spec _ a false _ o n He Hb Ha) by lia.
      destruct (max_asdu a - (len (a_hdr s) + len (a_pay s)) <? enc_size a false n); reflexivity.
Qed.

Lemma upd0_len v l : len (upd0 v l) = len l.
Proof. destruct l; reflexivity. Qed.
Lemma upd1_len v l : len (upd1 v l) = len l.
Proof. destruct l as [|x [|y t]]; reflexivity. Qed.
Lemma upd0_nth1 v l : nthz 1 (upd0 v l) = nthz 1 l.
Proof. destruct l as [|x [|y t]]; reflexivity. Qed.
Lemma upd1_nth1 v l : 2 <= len l -> nthz 1 (upd1 v l) = v.
Proof. destruct l as [|x [|y t]]; unfold len; cbn [List.length]; intros H; try lia. reflexivity. Qed.

Lemma add_result_hdr_len a s t o : len (a_hdr (add_result a s t o)) = len (a_hdr s).
Proof.
  unfold add_result, inc_count. cbn [a_hdr]. rewrite upd1_len.
  destruct (a_count s =? 0); cbn [set_type append a_hdr]; [rewrite upd0_len|]; reflexivity.
Qed.
Lemma add_result_pay a s t o : a_pay (add_result a s t o) = a_pay s ++ enc_bytes a (add_sq s) o.
Proof.
  unfold add_result, inc_count. cbn [a_pay]. destruct (a_count s =? 0); reflexivity.
Qed.
Lemma add_result_vsq a s t o : 2 <= len (a_hdr s) -> a_vsq (add_result a s t o) = (a_vsq s + 1) mod 256.
Proof.
  intros H. unfold add_result, inc_count, a_vsq. cbn [a_hdr].
  destruct (a_count s =? 0); cbn [set_type append a_hdr].
  - rewrite upd1_nth1 by (rewrite upd0_len; exact H). rewrite upd0_nth1. reflexivity.
  - rewrite upd1_nth1 by exact H. reflexivity.
Qed.

Section AddFacts.
  Variables (fnl : asdu_level) (tbl : list row) (a : alp) (s s' : asdu) (t : Z) (o : io) (r : row) (n : Z).
  Hypothesis Hf : find_row tbl t = Some r.
  Hypothesis He : enc_okb (r_enc r) n = true.
  Hypothesis Hb : len (io_body o) = n.
  Hypothesis Hl : add_limit fnl = Some 127.
  Hypothesis Hg : add_type_guarded fnl = Some true.
  Hypothesis Ha : ioa_ok a.
  Hypothesis Hm : max_asdu a <= 256.

  (* a refused addition leaves the ASDU unchanged, octet for octet (header included) *)
  Lemma add_refused_unchanged : add_io fnl tbl a s t o = Ok (false, s') -> s' = s.
  Proof.
    rewrite (add_io_spec fnl tbl a s t o r n Hf He Hb Hl Hg Ha Hm).
    destruct (add_allowed a s t o && negb (max_asdu a - used s <? enc_size a (add_sq s) n)); intros H; inversion H. reflexivity.
  Qed.

  (* an accepted addition appends exactly the object's encoding and nothing else to the payload *)
  Lemma add_accepted_appends : add_io fnl tbl a s t o = Ok (true, s') ->
    a_pay s' = a_pay s ++ enc_bytes a (add_sq s) o /\ len (a_hdr s') = len (a_hdr s) /\
    used s' = used s + enc_size a (add_sq s) n /\ used s' <= max_asdu a.
  Proof.
    rewrite (add_io_spec fnl tbl a s t o r n Hf He Hb Hl Hg Ha Hm).
    destruct (add_allowed a s t o) eqn:Eal; cbn [andb]; [|intros H; inversion H].
    destruct (max_asdu a - used s <? enc_size a (add_sq s) n) eqn:Esz; cbn [negb]; intros H; inversion H. subst s'.
    assert (0 < ioa_sz a <= 3) by (unfold ioa_ok in Ha; lia).
    unfold used in *. rewrite add_result_pay, add_result_hdr_len, len_app, (enc_bytes_len a _ o n) by lia.
    repeat split; lia.
  Qed.

  (* the size never exceeds the configured maximum, whatever the outcome *)
  Lemma add_size_bounded b : add_io fnl tbl a s t o = Ok (b, s') -> used s <= max_asdu a -> used s' <= max_asdu a <= 256.
  Proof.
    intros H Hu. destruct b.
    - apply add_accepted_appends in H. lia.
    - apply add_refused_unchanged in H. subst s'. lia.
  Qed.

  (* never a fault: no write outside encodedData[256] *)
  Lemma add_no_fault : exists b s2, add_io fnl tbl a s t o = Ok (b, s2).
  Proof.
    rewrite (add_io_spec fnl tbl a s t o r n Hf He Hb Hl Hg Ha Hm).
    destruct (add_allowed a s t o && negb (max_asdu a - used s <? enc_size a (add_sq s) n)); eexists; eexists; reflexivity.
  Qed.

  (* the element count goes up by exactly one, stays <= 127 and never spills into the SQ bit *)
  Lemma add_count : add_io fnl tbl a s t o = Ok (true, s') -> 2 <= len (a_hdr s) -> 0 <= a_vsq s < 256 ->
    a_count s' = a_count s + 1 /\ a_count s' <= 127 /\ a_sq s' = a_sq s.
  Proof.
    rewrite (add_io_spec fnl tbl a s t o r n Hf He Hb Hl Hg Ha Hm).
    destruct (add_allowed a s t o) eqn:Eal; cbn [andb]; [|intros H; inversion H].
    destruct (max_asdu a - used s <? enc_size a (add_sq s) n) eqn:Esz; cbn [negb]; intros H H2 Hv; inversion H. subst s'.
    assert (Hc : a_count s < 127).
    { unfold add_allowed in Eal. destruct (a_count s =? 0) eqn:E0; [lia|]. cbn [orb] in Eal.
      apply andb_prop in Eal as [Eal _]. apply andb_prop in Eal as [Eal _]. lia. }
    unfold a_count, a_sq in *. rewrite add_result_vsq by exact H2.
    clear H Eal Esz Hf He Hb. set (v := a_vsq s) in *. clearbody v.
    assert (Hq : (v + 1) mod 256 = v + 1).
    { apply Z.mod_small. assert (v <> 255). { intros ->. cbn in Hc. lia. } lia. }
    rewrite Hq.
    assert (Hd : v = 128 * (v / 128) + v mod 128) by (apply Z.div_mod; lia).
    assert (Hr : 0 <= v mod 128 < 128) by (apply Z.mod_pos_bound; lia).
    assert (Hd1 : (v + 1) mod 128 = v mod 128 + 1).
    { replace (v + 1) with ((v mod 128 + 1) + (v / 128) * 128) by lia. rewrite Z.mod_add by lia. apply Z.mod_small. lia. }
    rewrite Hd1. repeat split; lia.
  Qed.
End AddFacts.

Theorem add_payload_spec fnl s bs :
  payload_bound fnl = Some 256 ->
  add_payload fnl s bs = Ok (if used s + len bs <=? 256 then (true, append bs s) else (false, s)).
Proof.
  intros Hb. unfold add_payload, used. rewrite Hb.
  replace (len (a_pay s) + len (a_hdr s) + len bs) with (len (a_hdr s) + len (a_pay s) + len bs) by lia.
  destruct (len (a_hdr s) + len (a_pay s) + len bs <=? 256) eqn:E; [|reflexivity].
  destruct (256 <? len (a_hdr s) + len (a_pay s) + len bs) eqn:E2; [lia|reflexivity].
Qed.

(* ---- round trip ------------------------------------------------------------------------------------ *)
Lemma le_dec_enc k : forall v, 0 <= v < 256 ^ Z.of_nat k -> le_dec (le_enc k v) = v.
Proof.
  induction k as [|k IH]; intros v Hv.
  - cbn in *. lia.
  - rewrite Nat2Z.inj_succ, Z.pow_succ_r in Hv by lia.
    cbn [le_enc le_dec fold_right]. change (fold_right (fun b acc : Z => b + 256 * acc) 0 (le_enc k (v / 256))) with (le_dec (le_enc k (v / 256))).
    rewrite IH.
    + pose proof (Z.div_mod v 256). lia.
    + split; [apply Z.div_pos; lia|apply Z.div_lt_upper_bound; lia].
Qed.

Definition addr_ok (a : alp) (v : Z) : Prop := 0 <= v < 256 ^ ioa_sz a.

Lemma le_dec_ioa_bytes a v : ioa_ok a -> addr_ok a v -> le_dec (ioa_bytes a v) = v.
Proof.
  intros Ha Hv. unfold ioa_bytes. apply le_dec_enc. unfold addr_ok in Hv.
  rewrite Z2Nat.id by (unfold ioa_ok in Ha; lia). exact Hv.
Qed.

(* decoding at the place where an object was encoded gives the object back: individually addressed (sq = false,
   address included) and sequence element (sq = true, no address: the caller adds base + index) *)
Theorem obj_roundtrip a sq o n pre post :
  ioa_ok a -> addr_ok a (io_addr o) -> len (io_body o) = n ->
  dec_spec a (pre ++ enc_bytes a sq o ++ post) (len pre) (negb sq) n =
    Some {| io_addr := if sq then 0 else io_addr o; io_body := io_body o |}.
Proof.
  intros Ha Hv Hb. assert (0 < ioa_sz a <= 3) by (unfold ioa_ok in Ha; lia).
  pose proof (len_nonneg pre). pose proof (len_nonneg post). pose proof (len_nonneg (io_body o)).
  unfold dec_spec, enc_bytes. destruct sq; cbn [negb app].
  - rewrite !len_app.
    destruct (len pre + (len (io_body o) + len post) <? len pre + 0 + n) eqn:E; [lia|].
    rewrite zfirstn_0. replace (len pre + 0) with (len pre) by lia. rewrite zskipn_app_exact.
    rewrite <- Hb, zfirstn_app_exact. reflexivity.
  - rewrite !len_app, ioa_bytes_len by lia.
    destruct (len pre + (ioa_sz a + len (io_body o) + len post) <? len pre + ioa_sz a + n) eqn:E; [lia|].
    rewrite zskipn_app_exact. rewrite <- app_assoc.
    rewrite <- (ioa_bytes_len a (io_addr o)) at 1 by lia. rewrite zfirstn_app_exact.
    rewrite le_dec_ioa_bytes by assumption.
    rewrite <- (zskipn_zskipn (len pre) (ioa_sz a)) by lia. rewrite zskipn_app_exact.
    rewrite <- (ioa_bytes_len a (io_addr o)) at 1 by lia. rewrite zskipn_app_exact.
    rewrite <- Hb, zfirstn_app_exact. reflexivity.
Qed.

(* ---- row predicates evaluated over the generated table on every run ------------------------------------- *)
(* the one variable-length type (F_SG_NA_1): exact expected shape; the generic theorems above are stated for the
   fixed-length rows, the segment row is tied to the code by the correspondence and the oracle *)
Definition seg_dec_okb (d : dec_t) (e : elem_t) (f k : Z) : bool :=
  match d, e with
  | Dec false (MIoa m) (Some (k', f')) IoaAlways reads, ESingle =>
    (m =? f) && (k' =? k) && (f' =? f) && (0 <=? k) && (k <? f) &&
    match rev reads with RData off :: pre => (off =? f) && reads_tile (rev pre) 0 f | _ => false end
  | _, _ => false
  end.
Definition seg_enc_okb (e : enc_t) (f : Z) : bool :=
  match e with
  | Enc (Some (ECk ca cb true)) true (EL LIoa :: tl) =>
    (ca =? f) && (cb =? f) &&
    match els_of tl with
    | Some ls => match rev ls with LVar :: pre => match plain_len (rev pre) with Some j => j =? f | None => false end | _ => false end
    | None => false
    end
  | _ => false
  end.

Definition row_c02_okb (r : row) : bool :=
  match std_len (tid r) with
  | Some (Fixed _) => row_dec_okb r
  | Some (Segment f k) => seg_dec_okb (r_dec r) (r_elem r) f k
  | None => false
  end.
Definition row_c12_okb (r : row) : bool :=
  match std_len (tid r) with
  | Some (Fixed n) => enc_okb (r_enc r) n
  | Some (Segment f _) => seg_enc_okb (r_enc r) f
  | None => false
  end.
Definition row_c01_okb (r : row) : bool := row_c02_okb r && row_c12_okb r.
Definition asdu_fn_okb (f : asdu_level) : bool :=
  match add_limit f, add_type_guarded f, payload_bound f with
  | Some 127, Some true, Some 256 => space_formula f
  | _, _, _ => false
  end.

Definition rows_okb (p : row -> bool) (known : list Z) (tbl : list row) : bool :=
  forallb (fun r => existsb (Z.eqb (tid r)) known || p r) tbl.

Lemma rows_okb_sound p known tbl : rows_okb p known tbl = true ->
  forall r, In r tbl -> ~ In (tid r) known -> p r = true.
Proof.
  unfold rows_okb. rewrite forallb_forall. intros H r Hr Hk. specialize (H r Hr).
  apply orb_prop in H as [H|H]; [|exact H]. exfalso. apply Hk.
  apply existsb_exists in H as [x [Hx Hxe]]. apply Z.eqb_eq in Hxe. subst x. exact Hx.
Qed.

Lemma asdu_fn_okb_sound f : asdu_fn_okb f = true ->
  add_limit f = Some 127 /\ add_type_guarded f = Some true /\ payload_bound f = Some 256.
Proof.
  unfold asdu_fn_okb. destruct (add_limit f) as [l|]; [|discriminate].
  destruct (add_type_guarded f) as [[|]|]; destruct (payload_bound f) as [b|]; intros H;
    repeat match type of H with match ?x with _ => _ end = true => destruct x; try discriminate end; auto.
Qed.

(* ---- statements used by Properties/C02.v --------------------------------------------------------------- *)
Theorem get_element_total tbl a msg idx :
  ioa_ok a -> 0 <= idx ->
  (forall r, find_row tbl (msg_type msg) = Some r -> row_dec_okb r = true) ->
  exists res, get_element tbl a msg idx = Ok res.
Proof.
  intros Ha Hi Hr. destruct (find_row tbl (msg_type msg)) as [r|] eqn:Ef.
  - eexists. apply (get_element_spec tbl a msg idx r Ha Hi Ef (Hr r eq_refl)).
  - eexists. apply get_element_unknown. exact Ef.
Qed.

Theorem get_element_exact tbl a msg idx r n :
  ioa_ok a -> 0 <= idx -> 0 <= hdr_len a ->
  find_row tbl (msg_type msg) = Some r -> row_dec_okb r = true -> std_len (tid r) = Some (Fixed n) ->
  ((exists o, get_element tbl a msg idx = Ok (Some o)) <->
   hdr_len a <= len msg /\
   lay_off (r_elem r) a (msg_sq msg) n idx + lay_len (r_elem r) a (msg_sq msg) n <= len msg - hdr_len a).
Proof.
  intros Ha Hi Hh Hf Hr Hs. rewrite (get_element_spec tbl a msg idx r Ha Hi Hf Hr).
  destruct (Z_lt_ge_dec (len msg) (hdr_len a)) as [Hlt|Hge].
  - unfold spec_element. destruct (len msg <? hdr_len a) eqn:E; [|lia]. split.
    + intros [o Ho]. discriminate.
    + lia.
  - pose proof (spec_element_exact tbl a msg idx r n Hf Hs) as Hx. split.
    + intros [o Ho]. split; [lia|]. apply Hx; [lia|]. exists o. congruence.
    + intros [_ Hfit]. apply Hx in Hfit; [|lia]. destruct Hfit as [o Ho]. exists o. congruence.
Qed.

Lemma parse_hdr_none a msg : parse_hdr a msg = None <-> len msg < hdr_len a.
Proof.
  unfold parse_hdr. destruct (len msg <? hdr_len a) eqn:E; split; intros H; try lia; try reflexivity; discriminate.
Qed.

(* ---- ASDU-level round trip: element idx of a payload that is the concatenation of encodings --------------- *)
Lemma split_nth (d : io) (l : list io) : forall i, (i < List.length l)%nat -> l = firstn i l ++ nth i l d :: skipn (S i) l.
Proof.
  induction l as [|x t IH]; intros i Hi; cbn [List.length] in Hi; [lia|].
  destruct i as [|i]; cbn [firstn nth skipn app]; [reflexivity|]. f_equal. apply IH. lia.
Qed.

Lemma enc_concat_len a sq n (l : list io) : 0 <= ioa_sz a -> (forall o, In o l -> len (io_body o) = n) ->
  len (List.concat (map (enc_bytes a sq) l)) = Z.of_nat (List.length l) * enc_size a sq n.
Proof.
  intros Hi. induction l as [|x t IH]; intros H; cbn [map List.concat List.length].
  - reflexivity.
  - rewrite len_app, (enc_bytes_len a sq x n) by (try lia; apply H; left; reflexivity).
    rewrite IH by (intros o Ho; apply H; right; exact Ho). lia.
Qed.

Lemma nthz_app_l i (h x : list Z) : 0 <= i < len h -> nthz i (h ++ x) = nthz i h.
Proof. unfold nthz, len. intros H. apply app_nth1. lia. Qed.

Lemma io_eta o : {| io_addr := io_addr o; io_body := io_body o |} = o.
Proof. destruct o; reflexivity. Qed.

Lemma In_firstn {A} (x : A) n l : In x (firstn n l) -> In x l.
Proof. revert l. induction n as [|n IH]; intros l H; [destruct H|]. destruct l; [destruct H|]. cbn in H. destruct H; [left|right]; auto. Qed.

(* the idx-th object of a payload built from individually addressed objects *)
Lemma dec_spec_concat a n (ios : list io) (d : io) (i : nat) :
  ioa_ok a -> (forall o, In o ios -> len (io_body o) = n /\ addr_ok a (io_addr o)) -> (i < List.length ios)%nat ->
  dec_spec a (List.concat (map (enc_bytes a false) ios)) (Z.of_nat i * (ioa_sz a + n)) true n = Some (nth i ios d).
Proof.
  intros Ha Hios Hi. assert (0 < ioa_sz a <= 3) by (unfold ioa_ok in Ha; lia).
  pose proof (split_nth d ios i Hi) as Hs.
  assert (Hin : In (nth i ios d) ios) by (apply nth_In; exact Hi).
  destruct (Hios _ Hin) as [Hb Hv].
  rewrite Hs at 1. rewrite map_app, concat_app. cbn [map List.concat].
  assert (Hl : len (List.concat (map (enc_bytes a false) (firstn i ios))) = Z.of_nat i * (ioa_sz a + n)).
  { rewrite (enc_concat_len a false n) by (try lia; intros o Ho; apply Hios; eapply In_firstn; exact Ho).
    rewrite firstn_length. unfold enc_size. replace (Nat.min i (List.length ios)) with i by lia. reflexivity. }
  rewrite <- Hl. rewrite (obj_roundtrip a false (nth i ios d) n _ _ Ha Hv Hb). cbn. rewrite io_eta. reflexivity.
Qed.

Theorem payload_roundtrip_sq0 tbl a r n h (ios : list io) (d : io) (i : nat) :
  ioa_ok a -> len h = hdr_len a -> 2 <= len h ->
  find_row tbl (nthz 0 h) = Some r -> row_dec_okb r = true -> std_len (tid r) = Some (Fixed n) ->
  0 <= nthz 1 h < 128 ->
  (forall o, In o ios -> len (io_body o) = n /\ addr_ok a (io_addr o)) ->
  (r_elem r = ESingle -> i = 0%nat) -> (i < List.length ios)%nat ->
  get_element tbl a (h ++ List.concat (map (enc_bytes a false) ios)) (Z.of_nat i) = Ok (Some (nth i ios d)).
Proof.
  intros Ha Hh H2 Hf Hr Hs Hsq Hios Hone Hi.
  set (P := List.concat (map (enc_bytes a false) ios)).
  assert (Ht : msg_type (h ++ P) = nthz 0 h) by (unfold msg_type; apply nthz_app_l; lia).
  assert (Hq : msg_sq (h ++ P) = false).
  { unfold msg_sq. rewrite nthz_app_l by lia. destruct (128 <=? nthz 1 h) eqn:E; [lia|reflexivity]. }
  rewrite (get_element_spec tbl a (h ++ P) (Z.of_nat i) r Ha) by (try lia; try rewrite Ht; assumption).
  f_equal. unfold spec_element. rewrite Ht, Hf, Hs, Hq.
  pose proof (len_nonneg P).
  destruct (len (h ++ P) <? hdr_len a) eqn:E; [rewrite len_app in E; lia|].
  rewrite <- Hh, zskipn_app_exact.
  pose proof (dec_spec_concat a n ios d i Ha Hios Hi) as Hd. fold P in Hd.
  unfold row_dec_okb in Hr. rewrite Hs in Hr. apply andb_prop in Hr as [_ He].
  destruct (r_elem r) as [nsq k gn ga|k| |why]; cbn [elem_okb] in He; try discriminate.
  - exact Hd.
  - exact Hd.
  - rewrite (Hone eq_refl) in *. cbn [Z.of_nat] in Hd. rewrite Z.mul_0_l in Hd. exact Hd.
Qed.

(* the idx-th element of a consecutive-address (SQ = 1) payload: one address, then the bodies *)
Theorem payload_roundtrip_sq1 tbl a r n h base (ios : list io) (d : io) (i : nat) nsq k gn ga :
  ioa_ok a -> len h = hdr_len a -> 2 <= len h ->
  find_row tbl (nthz 0 h) = Some r -> row_dec_okb r = true -> std_len (tid r) = Some (Fixed n) ->
  r_elem r = ESeq nsq k gn ga -> 128 <= nthz 1 h -> addr_ok a base ->
  (forall o, In o ios -> len (io_body o) = n) ->
  (i < List.length ios)%nat ->
  get_element tbl a (h ++ ioa_bytes a base ++ List.concat (map (enc_bytes a true) ios)) (Z.of_nat i) =
    Ok (Some {| io_addr := base + Z.of_nat i; io_body := io_body (nth i ios d) |}).
Proof.
  intros Ha Hh H2 Hf Hr Hs Hel Hsq Hbase Hios Hi. assert (0 < ioa_sz a <= 3) by (unfold ioa_ok in Ha; lia).
  set (P := ioa_bytes a base ++ List.concat (map (enc_bytes a true) ios)).
  assert (Ht : msg_type (h ++ P) = nthz 0 h) by (unfold msg_type; apply nthz_app_l; lia).
  assert (Hq : msg_sq (h ++ P) = true).
  { unfold msg_sq. rewrite nthz_app_l by lia. destruct (128 <=? nthz 1 h) eqn:E; [reflexivity|lia]. }
  rewrite (get_element_spec tbl a (h ++ P) (Z.of_nat i) r Ha) by (try lia; try rewrite Ht; assumption).
  f_equal. unfold spec_element. rewrite Ht, Hf, Hs, Hq, Hel.
  pose proof (len_nonneg P).
  destruct (len (h ++ P) <? hdr_len a) eqn:E; [rewrite len_app in E; lia|].
  rewrite <- Hh, zskipn_app_exact.
  pose proof (split_nth d ios i Hi) as Hsp.
  assert (Hin : In (nth i ios d) ios) by (apply nth_In; exact Hi).
  pose proof (Hios _ Hin) as Hb.
  assert (HP : P = (ioa_bytes a base ++ List.concat (map (enc_bytes a true) (firstn i ios))) ++
                   enc_bytes a true (nth i ios d) ++ List.concat (map (enc_bytes a true) (skipn (S i) ios))).
  { unfold P. rewrite Hsp at 1. rewrite map_app, concat_app. cbn [map List.concat]. rewrite <- app_assoc. reflexivity. }
  assert (Hl : len (ioa_bytes a base ++ List.concat (map (enc_bytes a true) (firstn i ios))) = ioa_sz a + Z.of_nat i * n).
  { rewrite len_app, ioa_bytes_len by lia.
    rewrite (enc_concat_len a true n) by (try lia; intros o Ho; apply Hios; eapply In_firstn; exact Ho).
    rewrite firstn_length. unfold enc_size. replace (Nat.min i (List.length ios)) with i by lia. reflexivity. }
  assert (Hv0 : addr_ok a 0) by (unfold addr_ok; split; [lia|apply Z.pow_pos_nonneg; lia]).
  pose proof (obj_roundtrip a true {| io_addr := 0; io_body := io_body (nth i ios d) |} n
                (ioa_bytes a base ++ List.concat (map (enc_bytes a true) (firstn i ios)))
                (List.concat (map (enc_bytes a true) (skipn (S i) ios))) Ha Hv0 Hb) as Hd.
  rewrite Hl in Hd. cbn [negb] in Hd.
  assert (Heq : enc_bytes a true {| io_addr := 0; io_body := io_body (nth i ios d) |} = enc_bytes a true (nth i ios d)) by reflexivity.
  rewrite Heq, <- HP in Hd. rewrite Hd. cbn [io_body].
  f_equal. f_equal.
  unfold P. rewrite <- (ioa_bytes_len a base) at 1 by lia. rewrite zfirstn_app_exact.
  rewrite le_dec_ioa_bytes by assumption. reflexivity.
Qed.
