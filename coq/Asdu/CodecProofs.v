(* Proofs about the table-driven ASDU codec (Asdu/Codec.v): functional specifications of the decoder, of
   getElementEx and of the encoder for every row satisfying decidable row predicates; consequences for
   totality, exact truncation, size safety and atomicity. *)
From Coq Require Import ZArith List String Bool Lia.
From L60870 Require Import Asdu.Layout Asdu.Codec.
Import ListNotations.
Local Open Scope Z_scope.

(* ---- lists ------------------------------------------------------------------------------------- *)
Lemma len_nonneg l : 0 <= len l.
Proof. unfold len. lia. Qed.
Lemma len_app l1 l2 : len (l1 ++ l2) = len l1 + len l2.
Proof. unfold len. rewrite app_length. lia. Qed.
Lemma len_nil : len [] = 0.
Proof. reflexivity. Qed.
Lemma len_cons x l : len (x :: l) = 1 + len l.
Proof. unfold len. cbn [List.length]. lia. Qed.

Lemma zfirstn_len n l : 0 <= n <= len l -> len (zfirstn n l) = n.
Proof. unfold len, zfirstn. intros H. rewrite firstn_length. lia. Qed.
Lemma zskipn_len n l : 0 <= n <= len l -> len (zskipn n l) = len l - n.
Proof. unfold len, zskipn. intros H. rewrite skipn_length. lia. Qed.
Lemma skipn_skipn_nat (x y : nat) (l : list Z) : skipn y (skipn x l) = skipn (x + y) l.
Proof.
  revert l. induction x as [|x IH]; intros l; [reflexivity|].
  destruct l as [|h t]; cbn [skipn plus]; [destruct y; reflexivity|apply IH].
Qed.
Lemma zskipn_zskipn a b l : 0 <= a -> 0 <= b -> zskipn b (zskipn a l) = zskipn (a + b) l.
Proof.
  unfold zskipn. intros Ha Hb. rewrite skipn_skipn_nat. f_equal. lia.
Qed.
Lemma zskipn_0 l : zskipn 0 l = l.
Proof. reflexivity. Qed.
Lemma zfirstn_split a b l : 0 <= a -> 0 <= b -> zfirstn a l ++ zfirstn b (zskipn a l) = zfirstn (a + b) l.
Proof.
  unfold zfirstn, zskipn. intros Ha Hb.
  replace (Z.to_nat (a + b)) with (Z.to_nat a + Z.to_nat b)%nat by lia.
  revert l. generalize (Z.to_nat a) as x. generalize (Z.to_nat b) as y. intros y x.
  induction x as [|x IH]; intros l; [reflexivity|].
  destruct l as [|h t]; cbn [firstn skipn plus app].
  - rewrite !firstn_nil. reflexivity.
  - f_equal. apply IH.
Qed.
Lemma zfirstn_app_exact l1 l2 : zfirstn (len l1) (l1 ++ l2) = l1.
Proof.
  unfold zfirstn, len. rewrite Nat2Z.id. rewrite firstn_app, Nat.sub_diag, firstn_all. cbn. apply app_nil_r.
Qed.
Lemma zskipn_app_exact l1 l2 : zskipn (len l1) (l1 ++ l2) = l2.
Proof.
  unfold zskipn, len. rewrite Nat2Z.id. rewrite skipn_app, Nat.sub_diag, skipn_all. reflexivity.
Qed.
Lemma zfirstn_all l : zfirstn (len l) l = l.
Proof. unfold zfirstn, len. rewrite Nat2Z.id. apply firstn_all. Qed.
Lemma zfirstn_0 l : zfirstn 0 l = [].
Proof. reflexivity. Qed.

Lemma sub_ok m off n : 0 <= off -> 0 <= n -> off + n <= len m -> sub m off n = Ok (zfirstn n (zskipn off m)).
Proof.
  intros H1 H2 H3. unfold sub.
  destruct (0 <=? off) eqn:E1; [|lia]. destruct (0 <=? n) eqn:E2; [|lia]. destruct (off + n <=? len m) eqn:E3; [|lia].
  reflexivity.
Qed.

(* ---- decoder ------------------------------------------------------------------------------------ *)
Fixpoint reads_tile (rs : list rop) (pos n : Z) : bool :=
  match rs with
  | [] => pos =? n
  | RAt off :: t => (off =? pos) && reads_tile t (pos + 1) n
  | RGuard off k :: t => (off =? pos) && (0 <? k) && reads_tile t (pos + k) n
  | RData _ :: _ => false
  end.

Lemma reads_tile_le rs : forall pos n, reads_tile rs pos n = true -> pos <= n.
Proof.
  induction rs as [|r t IH]; intros pos n H; cbn [reads_tile] in H.
  - lia.
  - destruct r as [off|off k|off].
    + apply andb_prop in H as [_ H]. apply IH in H. lia.
    + apply andb_prop in H as [H0 H]. apply andb_prop in H0 as [_ Hk]. apply IH in H. lia.
    + discriminate.
Qed.

Lemma run_reads_tile m cur los rs : forall pos n,
  reads_tile rs pos n = true -> 0 <= pos -> 0 <= cur -> cur + n <= len m ->
  run_reads m cur los rs = Ok (zfirstn (n - pos) (zskipn (cur + pos) m)).
Proof.
  induction rs as [|r t IH]; intros pos n H Hp Hc Hn; cbn [reads_tile run_reads] in *.
  - replace (n - pos) with 0 by lia. reflexivity.
  - destruct r as [off|off k|off]; [| |discriminate].
    + apply andb_prop in H as [Ho H]. assert (off = pos) by lia. subst off.
      pose proof (reads_tile_le _ _ _ H) as Hle.
      rewrite sub_ok by lia. cbn [bind].
      rewrite (IH (pos + 1) n H) by lia. cbn [bind].
      f_equal. replace (cur + (pos + 1)) with ((cur + pos) + 1) by lia.
      rewrite <- (zskipn_zskipn (cur + pos) 1) by lia.
      replace (n - pos) with (1 + (n - (pos + 1))) by lia.
      apply zfirstn_split; lia.
    + apply andb_prop in H as [Ho H]. apply andb_prop in Ho as [Ho Hk].
      assert (off = pos) by lia. subst off. assert (0 < k) by lia.
      pose proof (reads_tile_le _ _ _ H) as Hle.
      destruct (len m <? cur + pos + k) eqn:E; [lia|].
      rewrite sub_ok by lia. cbn [bind].
      rewrite (IH (pos + k) n H) by lia. cbn [bind].
      f_equal. replace (cur + (pos + k)) with ((cur + pos) + k) by lia.
      rewrite <- (zskipn_zskipn (cur + pos) k) by lia.
      replace (n - pos) with (k + (n - (pos + k))) by lia.
      apply zfirstn_split; lia.
Qed.

Definition dec_sqp (d : dec_t) : bool := match d with Dec sqp _ _ _ _ => sqp | _ => false end.

Definition dec_okb (d : dec_t) (n : Z) : bool :=
  match d with
  | Dec sqp mn None ioaf reads =>
    (0 <=? n) && reads_tile reads 0 n &&
    (if sqp then match mn, ioaf with MStd k, IoaSq => k =? n | _, _ => false end
     else match mn, ioaf with MIoa k, IoaAlways => k =? n | _, _ => false end)
  | _ => false
  end.

Definition ioa_ok (a : alp) : Prop := ioa_sz a = 1 \/ ioa_sz a = 2 \/ ioa_sz a = 3.

(* what a correct decoder returns: None when the element does not fit, else the object made of exactly its octets *)
Definition dec_spec (a : alp) (m : list Z) (start : Z) (with_ioa : bool) (n : Z) : option io :=
  let w := if with_ioa then ioa_sz a else 0 in
  if len m <? start + w + n then None
  else Some {| io_addr := le_dec (zfirstn w (zskipn start m)); io_body := zfirstn n (zskipn (start + w) m) |}.

Lemma dec_io_spec d a m start sq n :
  dec_okb d n = true -> ioa_ok a -> 0 <= start ->
  dec_io d a m start sq = Ok (dec_spec a m start (negb (dec_sqp d && sq)) n).
Proof.
  intros Hok Ha Hs. destruct d as [sqp mn var ioaf reads|]; [|discriminate].
  cbn [dec_okb] in Hok. destruct var; [discriminate|].
  apply andb_prop in Hok as [Hok Hf]. apply andb_prop in Hok as [Hn Ht].
  assert (0 <= n) by lia. assert (0 < ioa_sz a <= 3) by (unfold ioa_ok in Ha; lia).
  unfold dec_io, dec_spec. cbn [dec_sqp].
  destruct sqp.
  - destruct mn as [k|k|k]; try discriminate. destruct ioaf; try discriminate. assert (k = n) by lia. subst k.
    cbn [andb]. destruct sq; cbn [negb min_size].
    + replace (start + n + 0) with (start + 0 + n) by lia.
      destruct (len m <? start + 0 + n) eqn:E; [reflexivity|].
      cbn [bind]. rewrite (run_reads_tile m start 0 reads 0 n Ht) by lia. cbn [bind].
      rewrite zfirstn_0. replace (start + 0) with start by lia. replace (n - 0) with n by lia. reflexivity.
    + replace (start + n + ioa_sz a) with (start + ioa_sz a + n) by lia.
      destruct (len m <? start + ioa_sz a + n) eqn:E; [reflexivity|].
      cbn [bind]. rewrite sub_ok by lia. cbn [bind].
      rewrite (run_reads_tile m (start + ioa_sz a) 0 reads 0 n Ht) by lia. cbn [bind].
      replace (start + ioa_sz a + 0) with (start + ioa_sz a) by lia. replace (n - 0) with n by lia. reflexivity.
  - destruct mn as [k|k|k]; try discriminate. destruct ioaf; try discriminate. assert (k = n) by lia. subst k.
    cbn [andb negb min_size].
    destruct (len m <? start + ioa_sz a + n) eqn:E; [reflexivity|].
    cbn [bind]. rewrite sub_ok by lia. cbn [bind].
    rewrite (run_reads_tile m (start + ioa_sz a) 0 reads 0 n Ht) by lia. cbn [bind].
    replace (start + ioa_sz a + 0) with (start + ioa_sz a) by lia. replace (n - 0) with n by lia. reflexivity.
Qed.

(* ---- CS101_ASDU_getElementEx --------------------------------------------------------------------- *)
Definition elem_okb (e : elem_t) (sqp : bool) (n t : Z) : bool :=
  match e with
  | ESeq nsq k gn ga => sqp && (nsq =? n) && (k =? n) && gn && ga
  | EIdx k => negb sqp && (k =? n) && negb (std_sq_ok t)
  | ESingle => negb sqp && std_one t && negb (std_sq_ok t)
  | ElemUnrecognised _ => false
  end.

(* decoder and getElementEx case agree with the standard's length of the type *)
Definition row_dec_okb (r : row) : bool :=
  match std_len (tid r) with
  | Some (Fixed n) => dec_okb (r_dec r) n && elem_okb (r_elem r) (dec_sqp (r_dec r)) n (tid r)
  | _ => false
  end.

(* the element a receiver must see, from the standard's layout alone (n = std_len): SQ=1: one address followed by
   elements of n octets; SQ=0: objects of IOA + n octets; single-object types: the object at offset 0 *)
Definition spec_element (tbl : list row) (a : alp) (msg : list Z) (idx : Z) : option io :=
  if len msg <? hdr_len a then None else
  match find_row tbl (msg_type msg) with
  | None => None
  | Some r =>
    match std_len (tid r) with
    | Some (Fixed n) =>
      let pay := zskipn (hdr_len a) msg in
      match r_elem r with
      | ESeq _ _ _ _ =>
        if msg_sq msg then
          match dec_spec a pay (ioa_sz a + idx * n) false n with
          | None => None
          | Some x => Some {| io_addr := le_dec (zfirstn (ioa_sz a) pay) + idx; io_body := io_body x |}
          end
        else dec_spec a pay (idx * (ioa_sz a + n)) true n
      | EIdx _ => dec_spec a pay (idx * (ioa_sz a + n)) true n
      | _ => dec_spec a pay 0 true n
      end
    | _ => None
    end
  end.

Lemma dec_okb_nonneg d n : dec_okb d n = true -> 0 <= n.
Proof.
  destruct d as [sqp mn var ioaf reads|]; [|discriminate]. cbn [dec_okb]. destruct var; [discriminate|].
  intros H. apply andb_prop in H as [H _]. apply andb_prop in H as [H _]. lia.
Qed.

Theorem get_element_spec tbl a msg idx r :
  ioa_ok a -> 0 <= idx -> find_row tbl (msg_type msg) = Some r -> row_dec_okb r = true ->
  get_element tbl a msg idx = Ok (spec_element tbl a msg idx).
Proof.
  intros Ha Hi Hf Hr. unfold get_element, spec_element. rewrite Hf.
  destruct (len msg <? hdr_len a) eqn:Eh; [reflexivity|].
  unfold row_dec_okb in Hr. destruct (std_len (tid r)) as [[n|f k]|]; try discriminate.
  apply andb_prop in Hr as [Hd He]. pose proof (dec_okb_nonneg _ _ Hd) as Hn.
  assert (0 < ioa_sz a <= 3) by (unfold ioa_ok in Ha; lia).
  set (pay := zskipn (hdr_len a) msg).
  destruct (r_elem r) as [nsq k gn ga|k| |why]; cbn [elem_okb] in He; try discriminate.
  - apply andb_prop in He as [He Hga]. apply andb_prop in He as [He Hgn]. apply andb_prop in He as [He Hk].
    apply andb_prop in He as [Hsq Hnsq]. assert (nsq = n) by lia. assert (k = n) by lia. subst nsq k gn ga.
    destruct (msg_sq msg).
    + assert (0 <= idx * n) by (apply Z.mul_nonneg_nonneg; lia).
      rewrite (dec_io_spec _ a pay (ioa_sz a + idx * n) true n Hd Ha) by lia.
      rewrite Hsq. cbn [andb negb bind].
      unfold dec_spec. replace (ioa_sz a + idx * n + 0 + n) with (ioa_sz a + idx * n + n) by lia.
      destruct (len pay <? ioa_sz a + idx * n + n) eqn:E; [reflexivity|].
      rewrite sub_ok by lia. cbn [bind io_body]. rewrite zskipn_0. reflexivity.
    + assert (0 <= idx * (ioa_sz a + n)) by (apply Z.mul_nonneg_nonneg; lia).
      rewrite (dec_io_spec _ a pay (idx * (ioa_sz a + n)) false n Hd Ha) by lia.
      rewrite andb_false_r. reflexivity.
  - apply andb_prop in He as [He _]. apply andb_prop in He as [Hsq Hk]. assert (k = n) by lia. subst k.
    assert (0 <= idx * (ioa_sz a + n)) by (apply Z.mul_nonneg_nonneg; lia).
    rewrite (dec_io_spec _ a pay (idx * (ioa_sz a + n)) false n Hd Ha) by lia.
    rewrite andb_false_r. reflexivity.
  - rewrite (dec_io_spec _ a pay 0 false n Hd Ha) by lia.
    rewrite andb_false_r. reflexivity.
Qed.

Theorem get_element_unknown tbl a msg idx :
  find_row tbl (msg_type msg) = None -> get_element tbl a msg idx = Ok None.
Proof.
  intros Hf. unfold get_element. rewrite Hf. destruct (len msg <? hdr_len a); reflexivity.
Qed.

(* offset and length of element idx in the payload according to the standard's layout *)
Definition lay_off (e : elem_t) (a : alp) (sq : bool) (n idx : Z) : Z :=
  match e with
  | ESeq _ _ _ _ => if sq then ioa_sz a + idx * n else idx * (ioa_sz a + n)
  | EIdx _ => idx * (ioa_sz a + n)
  | _ => 0
  end.
Definition lay_len (e : elem_t) (a : alp) (sq : bool) (n : Z) : Z :=
  match e with ESeq _ _ _ _ => if sq then n else ioa_sz a + n | _ => ioa_sz a + n end.

Lemma dec_spec_some a m start (w : bool) n L :
  L = start + (if w then ioa_sz a else 0) + n ->
  ((exists o, dec_spec a m start w n = Some o) <-> L <= len m).
Proof.
  intros ->. unfold dec_spec. destruct (len m <? start + (if w then ioa_sz a else 0) + n) eqn:E; split.
  - intros [o Ho]. discriminate.
  - lia.
  - lia.
  - intros _. eexists. reflexivity.
Qed.

(* an object is returned exactly when the element lies completely inside the supplied octets *)
Theorem spec_element_exact tbl a msg idx r n :
  find_row tbl (msg_type msg) = Some r -> std_len (tid r) = Some (Fixed n) -> 0 <= hdr_len a <= len msg ->
  ((exists o, spec_element tbl a msg idx = Some o) <->
   lay_off (r_elem r) a (msg_sq msg) n idx + lay_len (r_elem r) a (msg_sq msg) n <= len msg - hdr_len a).
Proof.
  intros Hf Hs Hh. unfold spec_element. rewrite Hf, Hs.
  destruct (len msg <? hdr_len a) eqn:E; [lia|].
  assert (Hl : len (zskipn (hdr_len a) msg) = len msg - hdr_len a) by (apply zskipn_len; lia).
  rewrite <- Hl. set (pay := zskipn (hdr_len a) msg).
  destruct (r_elem r) as [nsq k gn ga|k| |why]; cbn [lay_off lay_len].
  - destruct (msg_sq msg).
    + etransitivity; [|apply (dec_spec_some a pay (ioa_sz a + idx * n) false n); cbn; lia].
      destruct (dec_spec a pay (ioa_sz a + idx * n) false n); split; intros [o Ho]; try discriminate; eexists; reflexivity.
    + apply dec_spec_some. cbn. lia.
  - apply dec_spec_some. cbn. lia.
  - apply dec_spec_some. cbn. lia.
  - apply dec_spec_some. cbn. lia.
Qed.
