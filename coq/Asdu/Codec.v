(* Table-driven model of the ASDU codec: <Type>_encode, <Type>_getFromBuffer, CS101_ASDU_getElementEx,
   CS101_ASDU_addInformationObject, addPayload, clone, header setters.  Everything the C code takes from a
   per-type constant is taken here from a table row (Asdu/Layout.v), so one model serves every type and
   every regenerated table.  Reads of received octets go through [sub], which yields [Fault OOBRead] outside
   the supplied octets; the C code's own length tests are transcribed with the row's constants, so a test that
   is too weak for the reads that follow shows up as a Fault.  Writes into encodedData[256] yield
   [Fault OOBWrite] beyond index 255.  No proofs here. *)
From Coq Require Import ZArith List String Bool.
From L60870 Require Import Asdu.Layout.
Import ListNotations.
Local Open Scope Z_scope.

Record alp := { cot_sz : Z; ca_sz : Z; ioa_sz : Z; max_asdu : Z }.
Definition hdr_len (a : alp) : Z := 2 + cot_sz a + ca_sz a.
Definition alp_okb (a : alp) : bool :=
  ((cot_sz a =? 1) || (cot_sz a =? 2)) && ((ca_sz a =? 1) || (ca_sz a =? 2)) &&
  ((ioa_sz a =? 1) || (ioa_sz a =? 2) || (ioa_sz a =? 3)) && (hdr_len a <=? max_asdu a) && (max_asdu a <=? 256).

Inductive fault := OOBRead | OOBWrite | NullWrite | Uninit | NoRow.
Inductive res (A : Type) := Ok (x : A) | Fault (f : fault).
Arguments Ok {A} x.
Arguments Fault {A} f.
Definition bind {A B} (r : res A) (k : A -> res B) : res B := match r with Ok x => k x | Fault f => Fault f end.

Definition len (l : list Z) : Z := Z.of_nat (List.length l).
Definition zfirstn (n : Z) (l : list Z) : list Z := firstn (Z.to_nat n) l.
Definition zskipn (n : Z) (l : list Z) : list Z := skipn (Z.to_nat n) l.
(* n octets at offset off of the received message; Fault outside it *)
Definition sub (m : list Z) (off n : Z) : res (list Z) :=
  if (0 <=? off) && (0 <=? n) && (off + n <=? len m) then Ok (zfirstn n (zskipn off m)) else Fault OOBRead.
Definition le_dec (bs : list Z) : Z := fold_right (fun b acc => b + 256 * acc) 0 bs.
Fixpoint le_enc (n : nat) (v : Z) : list Z := match n with O => [] | S k => v mod 256 :: le_enc k (v / 256) end.
Definition ioa_bytes (a : alp) (v : Z) : list Z := le_enc (Z.to_nat (ioa_sz a)) v.

Record io := { io_addr : Z; io_body : list Z }.
Definition nthz (i : Z) (l : list Z) : Z := nth (Z.to_nat i) l 0.
Definition los_of (o : io) : Z := nthz 3 (io_body o).      (* F_SG_NA_1: LOS is the 4th octet of the body *)

(* ---- decoder: <Type>_getFromBuffer ---------------------------------------------------------- *)
Definition min_size (m : min_form) (a : alp) (start : Z) (sq : bool) : Z :=
  match m with
  | MStd n => start + n + (if sq then 0 else ioa_sz a)
  | MIoa n => start + ioa_sz a + n
  | MNoIoa n => start + n
  end.

Fixpoint run_reads (m : list Z) (cur los : Z) (rs : list rop) : res (list Z) :=
  match rs with
  | [] => Ok []
  | r :: rs' =>
    bind (match r with
          | RAt off => sub m (cur + off) 1
          | RGuard off n => if len m <? cur + off + n then Fault Uninit else sub m (cur + off) n
          | RData off => sub m (cur + off) los
          end)
         (fun bs => bind (run_reads m cur los rs') (fun t => Ok (bs ++ t)))
  end.

Definition dec_io (d : dec_t) (a : alp) (m : list Z) (start : Z) (sq : bool) : res (option io) :=
  match d with
  | DecUnrecognised _ => Fault NoRow
  | Dec sqp mn var ioaf reads =>
    let sq' := sqp && sq in
    if len m <? min_size mn a start sq' then Ok None else
    bind (match var with
          | None => Ok (Some 0)
          | Some (k, f) => bind (sub m (start + k + ioa_sz a) 1)
                                (fun l => let los := nthz 0 l in if len m - start <? ioa_sz a + f + los then Ok None else Ok (Some los))
          end)
      (fun lo => match lo with
        | None => Ok None
        | Some los =>
          let rd_ioa := match ioaf with IoaSq => negb sq' | IoaAlways => true end in
          bind (if rd_ioa then sub m start (ioa_sz a) else Ok [])
            (fun ab => bind (run_reads m (if rd_ioa then start + ioa_sz a else start) los reads)
               (fun body => Ok (Some {| io_addr := le_dec ab; io_body := body |})))
        end)
  end.

(* ---- CS101_ASDU_createFromBuffer + getElementEx --------------------------------------------- *)
Fixpoint find_row (tbl : list row) (t : Z) : option row :=
  match tbl with [] => None | r :: tl => if tid r =? t then Some r else find_row tl t end.

Definition msg_type (msg : list Z) : Z := nthz 0 msg.
Definition msg_sq (msg : list Z) : bool := 128 <=? nthz 1 msg.
Definition msg_count (msg : list Z) : Z := nthz 1 msg mod 128.

Definition get_element (tbl : list row) (a : alp) (msg : list Z) (idx : Z) : res (option io) :=
  if len msg <? hdr_len a then Ok None else           (* createFromBuffer returns NULL *)
  let pay := zskipn (hdr_len a) msg in
  match find_row tbl (msg_type msg) with
  | None => Ok None                                   (* default: *)
  | Some r =>
    match r_elem r with
    | ElemUnrecognised _ => Fault NoRow
    | ESeq nsq n gnull gaddr =>
      if msg_sq msg then
        bind (dec_io (r_dec r) a pay (ioa_sz a + idx * nsq) true)
          (fun o => match o with
             | Some x => bind (sub pay 0 (ioa_sz a)) (fun ab => Ok (Some {| io_addr := le_dec ab + idx; io_body := io_body x |}))
             | None =>
               if gaddr then (if gnull then Ok None else Fault NullWrite)
               else bind (sub pay 0 (ioa_sz a)) (fun _ => if gnull then Ok None else Fault NullWrite)
             end)
      else dec_io (r_dec r) a pay (idx * (ioa_sz a + n)) false
    | EIdx n => dec_io (r_dec r) a pay (idx * (ioa_sz a + n)) false
    | ESingle => dec_io (r_dec r) a pay 0 false
    end
  end.

(* header getters; None when createFromBuffer refuses the message *)
Record hdr := { h_type : Z; h_sq : bool; h_count : Z; h_cot : Z; h_test : bool; h_neg : bool; h_oa : Z; h_ca : Z }.
Definition parse_hdr (a : alp) (msg : list Z) : option hdr :=
  if len msg <? hdr_len a then None else
  Some {| h_type := msg_type msg; h_sq := msg_sq msg; h_count := msg_count msg;
          h_cot := nthz 2 msg mod 64; h_test := 128 <=? nthz 2 msg; h_neg := 64 <=? nthz 2 msg mod 128;
          h_oa := if cot_sz a <? 2 then -1 else nthz 3 msg;
          h_ca := le_dec (zfirstn (ca_sz a) (zskipn (2 + cot_sz a) msg)) |}.

(* ---- encoder: <Type>_encode over the ASDU frame --------------------------------------------- *)
Definition takep (n : Z) (l : list Z) : list Z := zfirstn n (l ++ repeat 0 (Z.to_nat n)).

Definition leaf_take (a : alp) (sq : bool) (o : io) (l : leaf) (rest : list Z) : list Z * list Z :=
  match l with
  | LIoa => (if sq then [] else ioa_bytes a (io_addr o), rest)
  | LByte => (takep 1 rest, zskipn 1 rest)
  | LBytes n => (takep n rest, zskipn n rest)
  | LVar => (takep (los_of o) rest, zskipn (los_of o) rest)
  end.

Fixpoint run_leafs (a : alp) (sq : bool) (o : io) (ls : list leaf) (w rest : list Z) : list Z * list Z :=
  match ls with
  | [] => (w, rest)
  | l :: t => let '(x, r') := leaf_take a sq o l rest in run_leafs a sq o t (w ++ x) r'
  end.

Definition chk_size (a : alp) (sq : bool) (c : Z * Z) : Z := if sq then fst c else ioa_sz a + snd c.

Fixpoint run_ops (a : alp) (sq : bool) (o : io) (space : Z) (ops : list eop) (w rest : list Z) : list Z * list Z :=
  match ops with
  | [] => (w, rest)
  | EL l :: t => let '(x, r') := leaf_take a sq o l rest in run_ops a sq o space t (w ++ x) r'
  | ECall chk ls :: t =>
    let pass := match chk with None => true | Some c => negb (space - len w <? chk_size a sq c) end in
    if pass then let '(w', r') := run_leafs a sq o ls w rest in run_ops a sq o space t w' r'
    else run_ops a sq o space t w rest
  end.

(* used = asduHeaderLength + payloadSize before the call; result: None = refused (nothing written), Some w = octets appended *)
Definition enc_io (e : enc_t) (a : alp) (sq : bool) (used : Z) (o : io) : res (option (list Z)) :=
  match e with
  | EncUnrecognised _ => Fault NoRow
  | Enc chk maxdata ops =>
    let space := max_asdu a - used in
    if maxdata && (max_asdu a - hdr_len a - ioa_sz a - 4 <? los_of o) then Ok None else
    if match chk with
       | None => false
       | Some (ECk ca cb v) => space <? chk_size a sq (ca, cb) + (if v then los_of o else 0)
       end then Ok None else
    let w := fst (run_ops a sq o space ops [] (io_body o)) in
    if 256 <? used + len w then Fault OOBWrite else Ok (Some w)
  end.

(* ---- ASDU under construction (sCS101_StaticASDU) --------------------------------------------- *)
Record asdu := { a_hdr : list Z; a_pay : list Z }.
Definition a_bytes (s : asdu) : list Z := a_hdr s ++ a_pay s.
Definition upd0 (v : Z) (l : list Z) : list Z := match l with [] => [] | _ :: t => v :: t end.
Definition upd1 (v : Z) (l : list Z) : list Z := match l with x :: _ :: t => x :: v :: t | _ => l end.
Definition a_type (s : asdu) : Z := nthz 0 (a_hdr s).
Definition a_vsq (s : asdu) : Z := nthz 1 (a_hdr s).
Definition a_count (s : asdu) : Z := a_vsq s mod 128.
Definition a_sq (s : asdu) : bool := 128 <=? a_vsq s.
Definition set_type (t : Z) (s : asdu) : asdu := {| a_hdr := upd0 (t mod 256) (a_hdr s); a_pay := a_pay s |}.
Definition inc_count (s : asdu) : asdu := {| a_hdr := upd1 ((a_vsq s + 1) mod 256) (a_hdr s); a_pay := a_pay s |}.
Definition append (w : list Z) (s : asdu) : asdu := {| a_hdr := a_hdr s; a_pay := a_pay s ++ w |}.
Definition first_ioa (a : alp) (s : asdu) : Z := le_dec (takep (ioa_sz a) (a_pay s)).

(* CS101_ASDU_initializeStatic *)
Definition new_asdu (a : alp) (sq : bool) (cot oa ca : Z) (test neg : bool) : asdu :=
  {| a_hdr := [0; if sq then 128 else 0; cot mod 64 + (if test then 128 else 0) + (if neg then 64 else 0)] ++
              (if 1 <? cot_sz a then [oa mod 256] else []) ++
              (if 1 <? ca_sz a then [ca mod 256; (ca / 256) mod 256] else [ca mod 256]);
     a_pay := [] |}.

(* CS101_ASDU_addInformationObject; t = InformationObject_getType(io) *)
Definition add_io (fnl : asdu_level) (tbl : list row) (a : alp) (s : asdu) (t : Z) (o : io) : res (bool * asdu) :=
  match find_row tbl t, add_limit fnl, add_type_guarded fnl with
  | Some r, Some limit, Some guarded =>
    let n := a_count s in
    let used := len (a_hdr s) + len (a_pay s) in
    if n =? 0 then
      bind (enc_io (r_enc r) a false used o)
        (fun x => match x with
           | None => Ok (false, if guarded then s else set_type t s)
           | Some w => Ok (true, inc_count (set_type t (append w s)))
           end)
    else if n <? limit then
      if a_type s =? t mod 256 then
        if a_sq s then
          if io_addr o =? first_ioa a s + n then
            bind (enc_io (r_enc r) a true used o)
              (fun x => match x with None => Ok (false, s) | Some w => Ok (true, inc_count (append w s)) end)
          else Ok (false, s)
        else
          bind (enc_io (r_enc r) a false used o)
            (fun x => match x with None => Ok (false, s) | Some w => Ok (true, inc_count (append w s)) end)
      else Ok (false, s)
    else Ok (false, s)
  | _, _, _ => Fault NoRow
  end.

(* CS101_ASDU_addPayload *)
Definition add_payload (fnl : asdu_level) (s : asdu) (bs : list Z) : res (bool * asdu) :=
  match payload_bound fnl with
  | None => Fault NoRow
  | Some b =>
    if len (a_pay s) + len (a_hdr s) + len bs <=? b then
      (if 256 <? len (a_hdr s) + len (a_pay s) + len bs then Fault OOBWrite else Ok (true, append bs s))
    else Ok (false, s)
  end.

(* a whole ASDU from a list of objects of one type *)
Fixpoint add_all (fnl : asdu_level) (tbl : list row) (a : alp) (s : asdu) (t : Z) (os : list io) : res (bool * asdu) :=
  match os with
  | [] => Ok (true, s)
  | o :: tl => bind (add_io fnl tbl a s t o) (fun r => if fst r then add_all fnl tbl a (snd r) t tl else Ok (false, snd r))
  end.

(* ---- header setters, removeAllElements, clone ------------------------------------------------ *)
Definition set_vsq (v : Z) (s : asdu) : asdu := {| a_hdr := upd1 v (a_hdr s); a_pay := a_pay s |}.
Definition set_count (n : Z) (s : asdu) : asdu := set_vsq (a_vsq s / 128 * 128 + n mod 128) s.
Definition set_sq (b : bool) (s : asdu) : asdu := set_vsq ((if b then 128 else 0) + a_vsq s mod 128) s.
Fixpoint updn (i : nat) (v : Z) (l : list Z) : list Z :=
  match l, i with [], _ => [] | _ :: t, O => v :: t | h :: t, S j => h :: updn j v t end.
Definition set_hdr (i : Z) (v : Z) (s : asdu) : asdu := {| a_hdr := updn (Z.to_nat i) v (a_hdr s); a_pay := a_pay s |}.
Definition a_cotb (s : asdu) : Z := nthz 2 (a_hdr s).
Definition set_cot (v : Z) (s : asdu) : asdu := set_hdr 2 ((a_cotb s / 64 * 64 + v mod 64) mod 256) s.
Definition set_test (b : bool) (s : asdu) : asdu := set_hdr 2 ((if b then 128 else 0) + a_cotb s mod 128) s.
Definition set_neg (b : bool) (s : asdu) : asdu := set_hdr 2 (a_cotb s / 128 * 128 + (if b then 64 else 0) + a_cotb s mod 64) s.
Definition set_ca (a : alp) (ca : Z) (s : asdu) : asdu :=
  let i := 2 + cot_sz a in
  let c := if ca <? 0 then 0 else if ca_sz a =? 1 then (if 255 <? ca then 255 else ca) else if 1 <? ca_sz a then (if 65535 <? ca then 65535 else ca) else ca in
  if ca_sz a =? 1 then set_hdr i (c mod 256) s else set_hdr (i + 1) ((c / 256) mod 256) (set_hdr i (c mod 256) s).
Definition remove_all (s : asdu) : asdu := {| a_hdr := upd1 (a_vsq s / 128 * 128) (a_hdr s); a_pay := [] |}.

Definition clone (fnl : asdu_level) (a : alp) (s : asdu) : res asdu :=
  match parse_hdr a (a_bytes s) with
  | None => Fault NoRow
  | Some h =>
    let c := new_asdu a (h_sq h) (h_cot h) (h_oa h) (h_ca h) (h_test h) (h_neg h) in
    let c := set_count (h_count h) (set_type (h_type h) c) in
    bind (add_payload fnl c (a_pay s)) (fun r => Ok (snd r))
  end.

(* what an information object can carry of the octets it was decoded from (reserved SIQ/DIQ bits are dropped) *)
Definition norm_body (t : Z) (body : list Z) : list Z :=
  match body with [] => [] | b :: tl => Z.land b (std_mask0 t) :: tl end.
