(* ASDU / information-object layout: (1) the shape of one generated table row (what
   translate/asdu_table.py transcribes from <Type>_encode, <Type>_getFromBuffer and the
   CS101_ASDU_getElementEx switch) and (2) the STANDARD's side, written by hand from
   IEC 60870-5-101 clause 7.3 (ASDU definitions) -- not from the code: the length of an information
   object behind its address for every type identification, which types may use SQ = 1, which types
   carry exactly one object.  No proofs here. *)
From Coq Require Import ZArith List String Bool.
Import ListNotations.
Local Open Scope Z_scope.

(* ---- generated side ---------------------------------------------------------------------- *)
(* one octet-writing operation of an encoder, in program order *)
Inductive leaf :=
| LIoa                (* InformationObject_encodeBase: the IOA unless isSequence *)
| LByte               (* Frame_setNextByte *)
| LBytes (n : Z)      (* Frame_appendBytes(.., n) with literal n *)
| LVar.               (* Frame_appendBytes(frame, self->data, self->los)  (F_SG_NA_1) *)

Inductive eop :=
| EL (l : leaf)
| ECall (chk : option (Z * Z)) (ops : list leaf).   (* call of a parent encoder (its own check, its writes); result ignored by the caller *)

(* `int size = isSequence ? a : sizeOfIOA + b;  if (Frame_getSpaceLeft(frame) < size [+ los]) return false;` *)
Inductive echeck := ECk (a b : Z) (var : bool).

Inductive enc_t :=
| Enc (chk : option echeck) (maxdata : bool) (ops : list eop)     (* maxdata: `if (los > FileSegment_GetMaxDataSize(p)) return false` *)
| EncUnrecognised (why : string).

(* minSize = startIndex + n, then:  MStd: `if (!isSequence) minSize += sizeOfIOA`;  MIoa: sizeOfIOA always added;  MNoIoa: never *)
Inductive min_form := MStd (n : Z) | MIoa (n : Z) | MNoIoa (n : Z).
Inductive ioa_form := IoaSq | IoaAlways.           (* IOA read + skipped `if (!isSequence)` / always *)
(* reads of msg[], offsets counted from the position behind the IOA *)
Inductive rop :=
| RAt (off : Z)                (* msg[startIndex(+k)(++)] *)
| RGuard (off n : Z)           (* CPxxTime2a_getFromBuffer(.., msg, msgSize, startIndex): n octets behind its own `msgSize < startIndex + n` test *)
| RData (off : Z).             (* self->data = msg + startIndex: los octets referenced (F_SG_NA_1) *)

Inductive dec_t :=
| Dec (sqparam : bool) (min : min_form) (var : option (Z * Z)) (ioa : ioa_form) (reads : list rop)
      (* var = Some (k, f): los = msg[startIndex + k + sizeOfIOA]; `if (msgSize - startIndex < sizeOfIOA + f + los) return NULL` *)
| DecUnrecognised (why : string).

Inductive elem_t :=
| ESeq (nsq n : Z) (gnull gaddr : bool)   (* SQ=1: start = sizeOfIOA + index*nsq, then address fix-up; SQ=0: start = index*(sizeOfIOA + n).
                                             gnull: the write through the result is guarded by a test of the result;
                                             gaddr: ParseObjectAddress(payload, 0) is evaluated only behind that test *)
| EIdx (n : Z)                            (* start = index*(sizeOfIOA + n), no sequence form *)
| ESingle                                 (* start = 0 whatever the index *)
| ElemUnrecognised (why : string).

Record row := { tid : Z; rname : string; r_enc : enc_t; r_dec : dec_t; r_elem : elem_t }.

(* facts about CS101_ASDU_addInformationObject / addPayload / asduFrame_getSpaceLeft; None = not recognised *)
Record asdu_level := {
  add_limit : option Z;            (* `else if (numberOfElements < limit)` *)
  add_type_guarded : option bool;  (* first element: type octet written only after a successful encode *)
  payload_bound : option Z;        (* addPayload: payloadSize + asduHeaderLength + size <= bound *)
  space_formula : bool }.          (* getSpaceLeft = maxSizeOfASDU - payloadSize - asduHeaderLength *)

(* ---- the standard's side (IEC 60870-5-101 7.3.1 - 7.3.6, IEC 60870-5-104 clause 8) --------- *)
Inductive body_len := Fixed (n : Z) | Segment (f k : Z).   (* Segment: f fixed octets, octet k of them is the length of what follows *)

Definition std_len (t : Z) : option body_len :=
  match t with
  | 1 => Some (Fixed 1)   (* M_SP_NA_1  SIQ *)
  | 2 => Some (Fixed 4)   (* M_SP_TA_1  SIQ + CP24Time2a *)
  | 3 => Some (Fixed 1)   (* M_DP_NA_1  DIQ *)
  | 4 => Some (Fixed 4)   (* M_DP_TA_1 *)
  | 5 => Some (Fixed 2)   (* M_ST_NA_1  VTI + QDS *)
  | 6 => Some (Fixed 5)   (* M_ST_TA_1 *)
  | 7 => Some (Fixed 5)   (* M_BO_NA_1  BSI + QDS *)
  | 8 => Some (Fixed 8)   (* M_BO_TA_1 *)
  | 9 => Some (Fixed 3)   (* M_ME_NA_1  NVA + QDS *)
  | 10 => Some (Fixed 6)  (* M_ME_TA_1 *)
  | 11 => Some (Fixed 3)  (* M_ME_NB_1  SVA + QDS *)
  | 12 => Some (Fixed 6)  (* M_ME_TB_1 *)
  | 13 => Some (Fixed 5)  (* M_ME_NC_1  IEEE STD 754 + QDS *)
  | 14 => Some (Fixed 8)  (* M_ME_TC_1 *)
  | 15 => Some (Fixed 5)  (* M_IT_NA_1  BCR *)
  | 16 => Some (Fixed 8)  (* M_IT_TA_1 *)
  | 17 => Some (Fixed 6)  (* M_EP_TA_1  SEP + CP16Time2a + CP24Time2a *)
  | 18 => Some (Fixed 7)  (* M_EP_TB_1  SPE + QDP + CP16Time2a + CP24Time2a *)
  | 19 => Some (Fixed 7)  (* M_EP_TC_1  OCI + QDP + CP16Time2a + CP24Time2a *)
  | 20 => Some (Fixed 5)  (* M_PS_NA_1  SCD + QDS *)
  | 21 => Some (Fixed 2)  (* M_ME_ND_1  NVA *)
  | 30 => Some (Fixed 8)  (* M_SP_TB_1  SIQ + CP56Time2a *)
  | 31 => Some (Fixed 8)  (* M_DP_TB_1 *)
  | 32 => Some (Fixed 9)  (* M_ST_TB_1 *)
  | 33 => Some (Fixed 12) (* M_BO_TB_1 *)
  | 34 => Some (Fixed 10) (* M_ME_TD_1 *)
  | 35 => Some (Fixed 10) (* M_ME_TE_1 *)
  | 36 => Some (Fixed 12) (* M_ME_TF_1 *)
  | 37 => Some (Fixed 12) (* M_IT_TB_1 *)
  | 38 => Some (Fixed 10) (* M_EP_TD_1  SEP + CP16Time2a + CP56Time2a *)
  | 39 => Some (Fixed 11) (* M_EP_TE_1 *)
  | 40 => Some (Fixed 11) (* M_EP_TF_1 *)
  | 45 => Some (Fixed 1)  (* C_SC_NA_1  SCO *)
  | 46 => Some (Fixed 1)  (* C_DC_NA_1  DCO *)
  | 47 => Some (Fixed 1)  (* C_RC_NA_1  RCO *)
  | 48 => Some (Fixed 3)  (* C_SE_NA_1  NVA + QOS *)
  | 49 => Some (Fixed 3)  (* C_SE_NB_1  SVA + QOS *)
  | 50 => Some (Fixed 5)  (* C_SE_NC_1  IEEE STD 754 + QOS *)
  | 51 => Some (Fixed 4)  (* C_BO_NA_1  BSI *)
  | 58 => Some (Fixed 8)  (* C_SC_TA_1  SCO + CP56Time2a *)
  | 59 => Some (Fixed 8)  (* C_DC_TA_1 *)
  | 60 => Some (Fixed 8)  (* C_RC_TA_1 *)
  | 61 => Some (Fixed 10) (* C_SE_TA_1 *)
  | 62 => Some (Fixed 10) (* C_SE_TB_1 *)
  | 63 => Some (Fixed 12) (* C_SE_TC_1 *)
  | 64 => Some (Fixed 11) (* C_BO_TA_1  BSI + CP56Time2a *)
  | 70 => Some (Fixed 1)  (* M_EI_NA_1  COI *)
  | 100 => Some (Fixed 1) (* C_IC_NA_1  QOI *)
  | 101 => Some (Fixed 1) (* C_CI_NA_1  QCC *)
  | 102 => Some (Fixed 0) (* C_RD_NA_1 *)
  | 103 => Some (Fixed 7) (* C_CS_NA_1  CP56Time2a *)
  | 104 => Some (Fixed 2) (* C_TS_NA_1  FBP *)
  | 105 => Some (Fixed 1) (* C_RP_NA_1  QRP *)
  | 106 => Some (Fixed 2) (* C_CD_NA_1  CP16Time2a *)
  | 107 => Some (Fixed 9) (* C_TS_TA_1  TSC + CP56Time2a *)
  | 110 => Some (Fixed 3) (* P_ME_NA_1  NVA + QPM *)
  | 111 => Some (Fixed 3) (* P_ME_NB_1  SVA + QPM *)
  | 112 => Some (Fixed 5) (* P_ME_NC_1  IEEE STD 754 + QPM *)
  | 113 => Some (Fixed 1) (* P_AC_NA_1  QPA *)
  | 120 => Some (Fixed 6) (* F_FR_NA_1  NOF + LOF + FRQ *)
  | 121 => Some (Fixed 7) (* F_SR_NA_1  NOF + NOS + LOF + SRQ *)
  | 122 => Some (Fixed 4) (* F_SC_NA_1  NOF + NOS + SCQ *)
  | 123 => Some (Fixed 5) (* F_LS_NA_1  NOF + NOS + LSQ + CHS *)
  | 124 => Some (Fixed 4) (* F_AF_NA_1  NOF + NOS + AFQ *)
  | 125 => Some (Segment 4 3)  (* F_SG_NA_1  NOF + NOS + LOS + segment *)
  | 126 => Some (Fixed 13) (* F_DR_TA_1  NOF + LOF + SOF + CP56Time2a *)
  | 127 => Some (Fixed 16) (* F_SC_NB_1  NOF + CP56Time2a + CP56Time2a *)
  | _ => None
  end.

(* type identifications the library claims to support (cs101_information_objects.h) *)
Definition std_supported : list Z :=
  [1;2;3;4;5;6;7;8;9;10;11;12;13;14;15;16;17;18;19;20;21;30;31;32;33;34;35;36;37;38;39;40;
   45;46;47;48;49;50;51;58;59;60;61;62;63;64;70;100;101;102;103;104;105;106;107;110;111;112;113;
   120;121;122;123;124;125;126;127].

(* SQ = 1 (one address, consecutive elements) is defined by the standard for these only *)
Definition std_sq_ok (t : Z) : bool :=
  match t with 1 | 3 | 5 | 7 | 9 | 11 | 13 | 15 | 20 | 21 | 126 => true | _ => false end.

(* the standard fixes the number of information objects to one (SQ = 0, N = 1) *)
Definition std_one (t : Z) : bool :=
  match t with 70 | 100 | 101 | 102 | 103 | 104 | 105 | 106 | 107 | 120 | 121 | 122 | 123 | 124 | 125 | 127 => true | _ => false end.

(* reserved bits that an object cannot carry (7.2.6.1 SIQ: bits 2..4 reserved; 7.2.6.2 DIQ: bits 3..4 reserved):
   mask of the FIRST octet of the body; every other octet is transported unchanged *)
Definition std_mask0 (t : Z) : Z :=
  match t with 1 | 2 | 30 => 241 | 3 | 4 | 31 => 243 | _ => 255 end.
