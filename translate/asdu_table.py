#!/usr/bin/env python3
"""asdu_table: read the clang JSON AST of cs101_information_objects.c and cs101_asdu.c (working tree) and emit
coq/gen/AsduTable.v -- one Gallina row per type ID with the numbers and shapes that must agree in three places:

  encoder   <Type>_encode            space check `isSequence ? A : sizeOfIOA + B` (or absent), the ordered list of
                                     octet-writing operations (IOA, single octets, fixed blocks, the F_SG data block,
                                     a nested call to a parent encoder together with the parent's own check)
  decoder   <Type>_getFromBuffer     minimum-size formula (form + constant), whether the IOA is skipped in sequence mode,
                                     the ordered list of msg[] reads as offsets behind the IOA (reads through
                                     CPxxTime2a_getFromBuffer carry their own length check and are marked as such)
  element   case in CS101_ASDU_getElementEx: start-offset polynomial in (index, sizeOfIOA) for SQ=1 and SQ=0, whether
                                     the SQ address fix-up (write through the result + ParseObjectAddress(payload,0)) is
                                     guarded by a test of the result

Types are linked  case constant -> decoder -> <Type>_initialize -> (type constant, VFT variable -> encoder).
Nothing is guessed: a construct that is not matched becomes `...Unrecognised "<why>"`, which no `_ok` predicate accepts."""
import json, re, sys
from pathlib import Path
sys.path.insert(0, str(Path(__file__).resolve().parent))
sys.path.insert(0, str(Path(__file__).resolve().parents[1] / "pylib"))
import c2gallina as C
from vf import core


class Unrec(Exception):
    pass


def strip(e):
    while e.get("kind") in ("ParenExpr", "ImplicitCastExpr", "CStyleCastExpr", "ConstantExpr"):
        e = e["inner"][0]
    return e


def kids(n):
    return n.get("inner", [])


def ref(e):
    e = strip(e)
    if e.get("kind") == "DeclRefExpr":
        return e["referencedDecl"]["name"]
    return None


def member_path(e):
    """self->parameters->sizeOfIOA -> ['self','parameters','sizeOfIOA']"""
    e = strip(e)
    if e.get("kind") == "MemberExpr":
        b = member_path(e["inner"][0])
        return b + [e["name"]] if b else None
    if e.get("kind") == "DeclRefExpr":
        return [e["referencedDecl"]["name"]]
    return None


def callee(e):
    e = strip(e)
    if e.get("kind") == "CallExpr":
        return ref(e["inner"][0])
    return None


def contains(n, pred):
    if pred(n):
        return True
    return any(contains(c, pred) for c in kids(n))


# ---------------------------------------------------------------- polynomials over named symbols
def padd(a, b, k=1):
    r = dict(a)
    for m, c in b.items():
        r[m] = r.get(m, 0) + k * c
        if r[m] == 0:
            del r[m]
    return r


def pmul(a, b):
    r = {}
    for m1, c1 in a.items():
        for m2, c2 in b.items():
            m = tuple(sorted(m1 + m2))
            r[m] = r.get(m, 0) + c1 * c2
            if r[m] == 0:
                del r[m]
    return r


def pconst(c):
    return {(): c} if c else {}


def pvar(v):
    return {(v,): 1}


def sym(e, env):
    """expression -> polynomial; env maps identifier / member path (joined by '.') to a polynomial"""
    e = strip(e)
    k = e.get("kind")
    if k == "IntegerLiteral":
        return pconst(int(e["value"]))
    if k == "DeclRefExpr":
        n = e["referencedDecl"]["name"]
        if n in env:
            return env[n]
        raise Unrec("unknown identifier %s in size expression" % n)
    if k == "MemberExpr":
        p = ".".join(member_path(e) or ["?"])
        if p in env:
            return env[p]
        raise Unrec("unknown member %s in size expression" % p)
    if k == "BinaryOperator":
        a, b = sym(e["inner"][0], env), sym(e["inner"][1], env)
        op = e["opcode"]
        if op == "+":
            return padd(a, b)
        if op == "-":
            return padd(a, b, -1)
        if op == "*":
            return pmul(a, b)
        raise Unrec("operator %s in size expression" % op)
    raise Unrec("%s in size expression" % k)


def lin(p, allowed):
    """polynomial -> {symbol: coef, '': const}; only degree <= 1 in the allowed symbols"""
    out = {}
    for m, c in p.items():
        if len(m) == 0:
            out[""] = c
        elif len(m) == 1 and m[0] in allowed:
            out[m[0]] = c
        else:
            raise Unrec("unexpected term %s" % "*".join(m))
    return out


def is_null_return(st):
    st = st if st.get("kind") != "CompoundStmt" else None if not kids(st) else st
    if st is None:
        return False
    if st["kind"] == "CompoundStmt":
        body = [s for s in kids(st) if s.get("kind") not in ("DoStmt", "NullStmt")]
        return len(body) == 1 and is_null_return(body[0])
    if st["kind"] != "ReturnStmt" or not kids(st):
        return False
    v = strip(kids(st)[0])
    return v.get("kind") == "IntegerLiteral" and int(v["value"]) == 0


def is_false_return(st):
    return is_null_return(st)


def if_parts(st):
    ks = kids(st)
    return ks[0], ks[1], (ks[2] if len(ks) > 2 else None)


def is_not(e, name):
    e = strip(e)
    return e.get("kind") == "UnaryOperator" and e.get("opcode") == "!" and ref(e["inner"][0]) == name


def for_trip(n):
    """for (i = 0; i < N; i++) -> N (None when not of this shape)"""
    ks = n.get("inner", [])
    if len(ks) != 5:
        return None
    init, _, cond, inc, _body = ks
    init, cond, inc = strip(init) if init else {}, strip(cond) if cond else {}, strip(inc) if inc else {}
    if init.get("kind") == "BinaryOperator" and init.get("opcode") == "=":
        v = ref(init["inner"][0])
        z = strip(init["inner"][1])
    elif init.get("kind") == "DeclStmt" and len(kids(init)) == 1 and kids(kids(init)[0]):
        v = kids(init)[0]["name"]
        z = strip(kids(kids(init)[0])[0])
    else:
        return None
    if v is None or z.get("kind") != "IntegerLiteral" or int(z["value"]) != 0:
        return None
    if not (cond.get("kind") == "BinaryOperator" and cond.get("opcode") == "<" and ref(cond["inner"][0]) == v and strip(cond["inner"][1]).get("kind") == "IntegerLiteral"):
        return None
    if not (inc.get("kind") == "UnaryOperator" and inc.get("opcode") == "++" and ref(inc["inner"][0]) == v):
        return None
    return int(strip(cond["inner"][1])["value"])


def stmts_of(st):
    return kids(st) if st.get("kind") == "CompoundStmt" else [st]


# ---------------------------------------------------------------- encoders
def leaf_str(l):
    return {"ioa": "LIoa", "byte": "LByte", "var": "LVar"}.get(l[0]) or "LBytes %d" % l[1]


class Tables:
    def __init__(self, io_ast, asdu_ast):
        self.fio = C.functions_of(io_ast)
        self.fas = C.functions_of(asdu_ast)
        self.enums = {}
        self.vft = {}
        for n in kids(io_ast):
            if n.get("kind") == "EnumDecl":
                for c in kids(n):
                    if c.get("kind") == "EnumConstantDecl":
                        v = None
                        for x in kids(c):
                            if x.get("kind") == "ConstantExpr" and "value" in x:
                                v = int(x["value"])
                        if v is not None:
                            self.enums[c["name"]] = v
            if n.get("kind") == "VarDecl" and "VFT" in n.get("type", {}).get("qualType", ""):
                init = [x for x in kids(n) if x.get("kind") == "InitListExpr"]
                if init and kids(init[0]):
                    self.vft[n["name"]] = ref(kids(init[0])[0])
        self.enc_cache = {}

    def body(self, fn):
        return [c for c in kids(fn) if c.get("kind") == "CompoundStmt"][0]

    def params(self, fn):
        return [p.get("name", "_") for p in kids(fn) if p.get("kind") == "ParmVarDecl"]

    # ---- encoder
    def encoder(self, name, depth=0):
        if name in self.enc_cache:
            return self.enc_cache[name]
        try:
            r = self._encoder(name, depth)
        except Unrec as e:
            r = dict(unrec="%s: %s" % (name, e))
        self.enc_cache[name] = r
        return r

    def _encoder(self, name, depth):
        if name not in self.fio:
            raise Unrec("no such function")
        fn = self.fio[name]
        if self.params(fn) != ["self", "frame", "parameters", "isSequence"]:
            raise Unrec("unexpected parameter list")
        sts = [s for s in kids(self.body(fn)) if s.get("kind") != "NullStmt"]
        if len(sts) == 1 and sts[0]["kind"] == "ReturnStmt" and callee(kids(sts[0])[0]):
            c = strip(kids(sts[0])[0])
            cn = callee(c)
            if cn.endswith("_encode") and [ref(a) for a in c["inner"][1:]] == ["self", "frame", "parameters", "isSequence"]:
                r = dict(self.encoder(cn, depth))
                r["alias_of"] = cn
                return r
            raise Unrec("return of an unrecognised call")
        env = {"parameters.sizeOfIOA": pvar("IOA"), "self.los": pvar("LOS")}
        chk, maxdata, ops, size = None, False, [], None
        if not sts or sts[-1]["kind"] != "ReturnStmt":
            raise Unrec("does not end in return")
        last = strip(kids(sts[-1])[0])
        if not (last.get("kind") == "IntegerLiteral" and int(last["value"]) == 1):
            raise Unrec("final return is not `true`")
        for st in sts[:-1]:
            k = st["kind"]
            if k == "DeclStmt" and len(kids(st)) == 1 and kids(st)[0].get("name") == "size":
                init = strip(kids(kids(st)[0])[0])
                if init.get("kind") != "ConditionalOperator" or ref(init["inner"][0]) != "isSequence":
                    raise Unrec("`size` is not `isSequence ? A : sizeOfIOA + B`")
                a = lin(sym(init["inner"][1], env), ())
                b = lin(sym(init["inner"][2], env), ("IOA",))
                if b.get("IOA", 0) != 1:
                    raise Unrec("non-sequence size does not contain sizeOfIOA exactly once")
                size = (a.get("", 0), b.get("", 0))
                if ops:
                    raise Unrec("size computed after octets were written")
                continue
            if k == "IfStmt":
                cond, then, els = if_parts(st)
                cond = strip(cond)
                if els is None and is_false_return(then) and cond.get("kind") == "BinaryOperator":
                    l, r = cond["inner"]
                    if cond["opcode"] == "<" and callee(l) == "Frame_getSpaceLeft":
                        if size is None:
                            raise Unrec("space check without `size`")
                        p = lin(sym(r, dict(env, size=pvar("SIZE"))), ("SIZE", "LOS"))
                        if p.get("SIZE", 0) != 1 or p.get("", 0) != 0 or p.get("LOS", 0) not in (0, 1):
                            raise Unrec("space check is not `< size [+ los]`")
                        if ops or chk:
                            raise Unrec("space check after octets were written or twice")
                        chk = (size[0], size[1], p.get("LOS", 0) == 1)
                        continue
                    if cond["opcode"] == ">" and ".".join(member_path(l) or []) == "self.los" and callee(r) == "FileSegment_GetMaxDataSize":
                        if ops:
                            raise Unrec("max-data check after octets were written")
                        maxdata = True
                        continue
                if not contains(st, lambda n: n.get("kind") in ("CallExpr", "ReturnStmt")):
                    continue
                raise Unrec("unrecognised if statement")
            if k == "CallExpr":
                cn = callee(st)
                args = st["inner"][1:]
                if cn == "InformationObject_encodeBase" and [ref(a) for a in args] == ["self", "frame", "parameters", "isSequence"]:
                    ops.append(("ioa",))
                    continue
                if cn == "Frame_setNextByte" and ref(args[0]) == "frame":
                    ops.append(("byte",))
                    continue
                if cn == "Frame_appendBytes" and ref(args[0]) == "frame":
                    n = strip(args[2])
                    if n.get("kind") == "IntegerLiteral":
                        ops.append(("bytes", int(n["value"])))
                        continue
                    if ".".join(member_path(n) or []) == "self.los":
                        ops.append(("var",))
                        continue
                    raise Unrec("appendBytes with an unrecognised length")
                if cn and cn.endswith("_encode") and [ref(a) for a in args] == ["self", "frame", "parameters", "isSequence"]:
                    if depth > 0:
                        raise Unrec("nested encoder call deeper than one level")
                    sub = self.encoder(cn, depth + 1)
                    if "unrec" in sub:
                        raise Unrec("parent encoder: " + sub["unrec"])
                    if sub["maxdata"] or any(o[0] == "call" for o in sub["ops"]):
                        raise Unrec("parent encoder of unsupported shape")
                    ops.append(("call", cn, sub["chk"], sub["ops"]))
                    continue
                raise Unrec("call to %s" % cn)
            if contains(st, lambda n: n.get("kind") in ("CallExpr", "ReturnStmt")):
                raise Unrec("statement of kind %s with a call/return" % k)
        return dict(chk=chk, maxdata=maxdata, ops=ops)

    # ---- decoder
    def decoder(self, name):
        try:
            return self._decoder(name)
        except Unrec as e:
            return dict(unrec="%s: %s" % (name, e))

    def _decoder(self, name):
        if name not in self.fio:
            raise Unrec("no such function")
        fn = self.fio[name]
        ps = self.params(fn)
        if ps[:5] != ["self", "parameters", "msg", "msgSize", "startIndex"] and not (len(ps) >= 5 and ps[0] == "self" and ps[3:5] == ["msgSize", "startIndex"]):
            raise Unrec("unexpected parameter list %s" % ps)
        msgname = ps[2]
        sqparam = len(ps) == 6 and ps[5] == "isSequence"
        if len(ps) not in (5, 6) or (len(ps) == 6 and not sqparam):
            raise Unrec("unexpected parameter list %s" % ps)
        w = self._wrapper(fn, msgname)
        if w is not None:
            return w
        env = {"parameters.sizeOfIOA": pvar("IOA"), "startIndex": pvar("S"), "msgSize": pvar("M")}
        st_min = None        # (has_ioa, n)
        sqadd = False
        checked = False
        var_k = var_f = None
        init = None
        ioa = None
        reads = []
        main = None
        sts = [s for s in kids(self.body(fn)) if s.get("kind") != "NullStmt"]
        for st in sts:
            k = st["kind"]
            if main is not None:
                if k == "ReturnStmt" and ref(kids(st)[0]) == "self":
                    continue
                raise Unrec("statement after the decoding block")
            if k == "DeclStmt" and kids(st)[0].get("name") == "minSize":
                p = lin(sym(kids(kids(st)[0])[0], env), ("S", "IOA"))
                if p.get("S", 0) != 1 or p.get("IOA", 0) not in (0, 1):
                    raise Unrec("minSize is not startIndex [+ sizeOfIOA] + n")
                st_min = (p.get("IOA", 0) == 1, p.get("", 0))
                continue
            if k == "DeclStmt" and kids(st)[0].get("name") == "los":
                e = strip(kids(kids(st)[0])[0])
                if e.get("kind") != "ArraySubscriptExpr" or ref(e["inner"][0]) != msgname or not checked:
                    raise Unrec("`los` is not read from msg after the size check")
                p = lin(sym(e["inner"][1], env), ("S", "IOA"))
                if p.get("S", 0) != 1 or p.get("IOA", 0) != 1:
                    raise Unrec("`los` index is not startIndex + sizeOfIOA + k")
                var_k = p.get("", 0)
                env["los"] = pvar("LOS")
                continue
            if k == "IfStmt":
                cond, then, els = if_parts(st)
                c = strip(cond)
                if is_not(c, "isSequence") and els is None and st_min is not None and not checked:
                    b = stmts_of(then)
                    if len(b) == 1 and b[0]["kind"] == "CompoundAssignOperator" and b[0]["opcode"] == "+=" and ref(b[0]["inner"][0]) == "minSize" \
                            and lin(sym(b[0]["inner"][1], env), ("IOA",)) == {"IOA": 1}:
                        if st_min[0]:
                            raise Unrec("sizeOfIOA added to minSize twice")
                        sqadd = True
                        continue
                    raise Unrec("unrecognised `if (!isSequence)` before the size check")
                if c.get("kind") == "BinaryOperator" and c["opcode"] == ">" and ref(c["inner"][0]) == "minSize" and ref(c["inner"][1]) == "msgSize" \
                        and els is None and is_null_return(then) and st_min is not None:
                    checked = True
                    continue
                if c.get("kind") == "BinaryOperator" and c["opcode"] == "<" and els is None and is_null_return(then) and var_k is not None:
                    l = lin(sym(c["inner"][0], env), ("M", "S"))
                    r = lin(sym(c["inner"][1], env), ("IOA", "LOS"))
                    if l == {"M": 1, "S": -1} and r.get("IOA", 0) == 1 and r.get("LOS", 0) == 1:
                        var_f = r.get("", 0)
                        continue
                    raise Unrec("unrecognised second length check")
                if c.get("kind") == "BinaryOperator" and c["opcode"] == "==" and ref(c["inner"][0]) == "self":
                    if contains(then, lambda n: ref(n) in (msgname, "startIndex") if n.get("kind") == "DeclRefExpr" else False):
                        raise Unrec("allocation branch touches the message")
                    continue
                is_self_test = ref(c) == "self" or (c.get("kind") == "BinaryOperator" and c["opcode"] == "!=" and ref(c["inner"][0]) == "self")
                if is_self_test and els is None:
                    if not checked:
                        raise Unrec("decoding block without a preceding `minSize > msgSize` check")
                    main = stmts_of(then)
                    continue
                raise Unrec("unrecognised if statement")
            if k == "ReturnStmt":
                raise Unrec("early return")
            raise Unrec("statement of kind %s before the decoding block" % k)
        if main is None:
            raise Unrec("no decoding block")
        # ---- the decoding block: symbolic cursor relative to the position behind the IOA
        cur = [None]     # offset behind the IOA; None while the IOA has not been skipped
        pre = [0]        # offset from startIndex before the IOA skip

        def idx_expr(e):
            """value of an index expression built from startIndex; returns offset (relative to cursor base) and applies ++"""
            e = strip(e)
            if e.get("kind") == "UnaryOperator" and e.get("opcode") == "++" and e.get("isPostfix") and ref(e["inner"][0]) == "startIndex":
                v = cur[0]
                cur[0] += 1
                return v
            p = lin(sym(e, {"startIndex": pvar("S")}), ("S",))
            if p.get("S", 0) != 1:
                raise Unrec("index expression without startIndex")
            return cur[0] + p.get("", 0)

        def walk(n):
            k = n.get("kind")
            if k == "ArraySubscriptExpr" and ref(n["inner"][0]) == msgname:
                if cur[0] is None:
                    raise Unrec("msg[] read before the IOA was handled")
                reads.append(("at", idx_expr(n["inner"][1])))
                return
            if k == "UnaryOperator" and n.get("opcode") in ("++", "--") and ref(n["inner"][0]) == "startIndex":
                if n["opcode"] == "--" or cur[0] is None:
                    raise Unrec("unexpected startIndex update")
                cur[0] += 1
                return
            if k == "CompoundAssignOperator" and ref(n["inner"][0]) == "startIndex":
                p = lin(sym(n["inner"][1], {}), ())
                if n["opcode"] != "+=" or cur[0] is None:
                    raise Unrec("unexpected startIndex update")
                cur[0] += p.get("", 0)
                return
            if k == "CallExpr":
                cn = callee(n)
                m = re.match(r"CP(16|24|32|56)Time2a_getFromBuffer$", cn or "")
                if m:
                    a = n["inner"][1:]
                    if ref(a[1]) != msgname or ref(a[2]) != "msgSize" or ref(a[3]) != "startIndex" or cur[0] is None:
                        raise Unrec("time tag read with unexpected arguments")
                    reads.append(("guard", cur[0], {"16": 2, "24": 3, "32": 4, "56": 7}[m.group(1)]))
                    return
                if contains(n, lambda x: x.get("kind") == "DeclRefExpr" and x["referencedDecl"]["name"] in (msgname, "startIndex")):
                    raise Unrec("call to %s with the message" % cn)
            if k == "BinaryOperator" and n.get("opcode") == "=" and ".".join(member_path(n["inner"][0]) or []) == "self.data":
                r = strip(n["inner"][1])
                if r.get("kind") == "BinaryOperator" and r["opcode"] == "+" and ref(r["inner"][0]) == msgname and ref(r["inner"][1]) == "startIndex" and cur[0] is not None:
                    reads.append(("data", cur[0]))
                    return
                raise Unrec("unrecognised data pointer")
            if k == "DeclRefExpr" and n["referencedDecl"]["name"] in (msgname, "startIndex"):
                raise Unrec("unrecognised use of %s" % n["referencedDecl"]["name"])
            if k == "ForStmt":
                trip = for_trip(n)
                if trip is None:
                    if contains(n, lambda x: x.get("kind") == "DeclRefExpr" and x["referencedDecl"]["name"] in (msgname, "startIndex")):
                        raise Unrec("loop over the message without a constant trip count")
                    return
                for _ in range(trip):
                    walk(kids(n)[-1])
                return
            if k in ("WhileStmt", "DoStmt", "GotoStmt", "SwitchStmt"):
                if contains(n, lambda x: x.get("kind") == "DeclRefExpr" and x["referencedDecl"]["name"] in (msgname, "startIndex")):
                    raise Unrec("%s over the message" % k)
                return
            for c in kids(n):
                walk(c)

        def is_ioa_call(st):
            return st.get("kind") == "CallExpr" and callee(st) == "InformationObject_getFromBuffer" and \
                ref(st["inner"][2]) == "parameters" and ref(st["inner"][3]) == msgname and ref(st["inner"][4]) == "startIndex"

        def is_ioa_skip(st):
            return st.get("kind") == "CompoundAssignOperator" and st.get("opcode") == "+=" and ref(st["inner"][0]) == "startIndex" and \
                lin(sym(st["inner"][1], env), ("IOA",)) == {"IOA": 1}

        i = 0
        main = [s for s in main if s.get("kind") != "NullStmt"]
        while i < len(main):
            st = main[i]
            if st["kind"] == "CallExpr" and (callee(st) or "").endswith("_initialize") and ref(st["inner"][1]) == "self":
                init = callee(st)
                i += 1
                continue
            if st["kind"] == "IfStmt" and is_not(strip(kids(st)[0]), "isSequence") and cur[0] is None:
                b = [s for s in stmts_of(kids(st)[1]) if s.get("kind") != "NullStmt"]
                if len(kids(st)) == 2 and len(b) == 2 and is_ioa_call(b[0]) and is_ioa_skip(b[1]) and sqparam:
                    ioa = "IoaSq"
                    cur[0] = 0
                    i += 1
                    continue
                raise Unrec("unrecognised `if (!isSequence)` block")
            if is_ioa_call(st) and cur[0] is None:
                ioa = "IoaAlways"
                cur[0] = 0
                if i + 1 < len(main) and is_ioa_skip(main[i + 1]):
                    i += 2
                else:
                    # no skip: any later read would be at the IOA itself
                    rest = main[i + 1:]
                    if any(contains(s, lambda x: x.get("kind") == "DeclRefExpr" and x["referencedDecl"]["name"] in (msgname, "startIndex")) for s in rest):
                        raise Unrec("IOA not skipped before further reads")
                    i += 1
                continue
            walk(st)
            i += 1
        if ioa is None:
            raise Unrec("the object address is never read")
        if st_min is None or not checked:
            raise Unrec("no minimum-size check")
        if sqadd:
            form = ("MStd", st_min[1])
        elif st_min[0]:
            form = ("MIoa", st_min[1])
        else:
            form = ("MNoIoa", st_min[1])
        var = None
        if var_k is not None or var_f is not None:
            if var_k is None or var_f is None:
                raise Unrec("incomplete variable-length check")
            var = (var_k, var_f)
        return dict(sqparam=sqparam, min=form, var=var, ioa=ioa, reads=reads, init=init)

    def _wrapper(self, fn, msgname):
        """T x = Parent_getFromBuffer(self, parameters, msg, msgSize, startIndex, false); if (x) x->type = K; return (T) x;
        = the parent's decoder specialised to isSequence = false, producing type K (encoder: the parent's VFT)"""
        sts = [s for s in kids(self.body(fn)) if s.get("kind") != "NullStmt"]
        if len(sts) != 3 or sts[0]["kind"] != "DeclStmt" or sts[1]["kind"] != "IfStmt" or sts[2]["kind"] != "ReturnStmt":
            return None
        v = kids(sts[0])[0]
        if not kids(v) or not (callee(kids(v)[0]) or "").endswith("_getFromBuffer"):
            return None
        c = strip(kids(v)[0])
        a = c["inner"][1:]
        if [ref(x) for x in a[:5]] != ["self", "parameters", msgname, "msgSize", "startIndex"] or len(a) != 6:
            raise Unrec("wrapper passes unexpected arguments to %s" % callee(c))
        f = strip(a[5])
        if f.get("kind") != "IntegerLiteral" or int(f["value"]) != 0:
            raise Unrec("wrapper does not pass isSequence = false")
        var = v["name"]
        cond, then, els = if_parts(sts[1])
        b = stmts_of(then)
        if ref(cond) != var or els is not None or len(b) != 1 or b[0].get("kind") != "BinaryOperator" or member_path(b[0]["inner"][0]) != [var, "type"]:
            raise Unrec("wrapper does not only override the type")
        ty = ref(b[0]["inner"][1])
        if ref(kids(sts[2])[0]) != var or ty not in self.enums:
            raise Unrec("wrapper of unexpected shape")
        par = self._decoder(callee(c))
        if not par["sqparam"] or par["min"][0] != "MStd" or par["ioa"] != "IoaSq":
            raise Unrec("wrapped decoder %s is not of the standard sequence-aware shape" % callee(c))
        return dict(sqparam=False, min=("MIoa", par["min"][1]), var=par["var"], ioa="IoaAlways", reads=par["reads"], init=par["init"],
                    type_override=(self.enums[ty], ty), wraps=callee(c))

    # ---- <Type>_initialize
    def initialize(self, name):
        if name not in self.fio:
            raise Unrec("no initialize function %s" % name)
        vft = ty = None
        for st in kids(self.body(self.fio[name])):
            if st.get("kind") == "BinaryOperator" and st.get("opcode") == "=":
                p = member_path(st["inner"][0])
                r = strip(st["inner"][1])
                if p == ["self", "virtualFunctionTable"] and r.get("kind") == "UnaryOperator" and r.get("opcode") == "&":
                    vft = ref(r["inner"][0])
                elif p == ["self", "type"]:
                    ty = ref(r)
        if vft is None or ty is None or vft not in self.vft or ty not in self.enums:
            raise Unrec("%s does not set VFT and type" % name)
        return self.enums[ty], ty, self.vft[vft]

    # ---- CS101_ASDU_getElementEx
    def elements(self):
        fn = self.fas["CS101_ASDU_getElementEx"]
        sw = [s for s in kids(self.body(fn)) if s.get("kind") == "SwitchStmt"]
        if len(sw) != 1:
            raise Unrec("getElementEx: no single switch")
        comp = [c for c in kids(sw[0]) if c.get("kind") == "CompoundStmt"][0]
        groups = []
        for st in kids(comp):
            k = st.get("kind")
            if k in ("CaseStmt", "DefaultStmt"):
                labels = []
                cur = st
                while cur.get("kind") in ("CaseStmt", "DefaultStmt"):
                    if cur["kind"] == "CaseStmt":
                        lab = strip(kids(cur)[0])
                        labels.append(lab["referencedDecl"]["name"] if lab.get("kind") == "DeclRefExpr" else int(lab.get("value", -1)))
                    else:
                        labels.append("default")
                    cur = kids(cur)[-1]
                groups.append([labels, [cur]])
            elif groups:
                groups[-1][1].append(st)
        out = []
        for labels, sts in groups:
            if labels == ["default"]:
                continue
            for lab in labels:
                tid = self.enums.get(lab, lab if isinstance(lab, int) else None)
                try:
                    e = self._element(sts)
                except Unrec as ex:
                    e = dict(unrec="case %s: %s" % (lab, ex))
                e["tid"], e["label"] = tid, str(lab)
                out.append(e)
        return out

    def _getcall(self, e, env):
        """retVal = (InformationObject) X_getFromBuffer((X) io, self->parameters, self->payload, self->payloadSize, <start>[, <bool>])"""
        e = strip(e)
        if not (e.get("kind") == "BinaryOperator" and e.get("opcode") == "=" and ref(e["inner"][0]) == "retVal"):
            raise Unrec("expected `retVal = ..._getFromBuffer(...)`")
        c = strip(e["inner"][1])
        cn = callee(c)
        if not cn or not cn.endswith("_getFromBuffer"):
            raise Unrec("expected a _getFromBuffer call")
        a = c["inner"][1:]
        if ref(a[0]) != "io" or member_path(a[1]) != ["self", "parameters"] or member_path(a[2]) != ["self", "payload"] or member_path(a[3]) != ["self", "payloadSize"]:
            raise Unrec("%s called with unexpected arguments" % cn)
        start = sym(a[4], env)
        flag = None
        if len(a) > 5:
            f = strip(a[5])
            if f.get("kind") != "IntegerLiteral":
                raise Unrec("isSequence argument is not a literal")
            flag = int(f["value"]) != 0
        return cn, start, flag

    def _element(self, sts):
        env = {"self.parameters.sizeOfIOA": pvar("IOA"), "index": pvar("I")}
        sts = [s for s in sts if s.get("kind") not in ("NullStmt", "BreakStmt")]
        res = dict()
        for st in sts:
            k = st.get("kind")
            if k == "BinaryOperator" and st.get("opcode") == "=" and ref(st["inner"][0]) == "elementSize":
                env["elementSize"] = sym(st["inner"][1], env)
                continue
            if k == "BinaryOperator" and st.get("opcode") == "=" and ref(st["inner"][0]) == "retVal":
                cn, start, flag = self._getcall(st, env)
                if flag is not None:
                    raise Unrec("decoder with isSequence parameter called outside the sequence test")
                res.update(kind="plain", dec=cn, start=start)
                continue
            if k == "IfStmt" and callee(kids(st)[0]) == "CS101_ASDU_isSequence" and len(kids(st)) == 3:
                then = [s for s in stmts_of(kids(st)[1]) if s.get("kind") != "NullStmt"]
                els = [s for s in stmts_of(kids(st)[2]) if s.get("kind") != "NullStmt"]
                if len(then) != 2 or len(els) != 1:
                    raise Unrec("sequence branch of unexpected shape")
                cn1, s1, f1 = self._getcall(then[0], env)
                cn2, s2, f2 = self._getcall(els[0], env)
                if cn1 != cn2 or f1 is not True or f2 is not False:
                    raise Unrec("sequence/non-sequence calls disagree")
                fix = then[1]
                gnull = False
                if fix.get("kind") == "IfStmt" and len(kids(fix)) == 2:
                    c = strip(kids(fix)[0])
                    if ref(c) == "retVal" or (c.get("kind") == "BinaryOperator" and c.get("opcode") == "!=" and ref(c["inner"][0]) == "retVal"):
                        gnull = True
                        b = stmts_of(kids(fix)[1])
                        if len(b) != 1:
                            raise Unrec("guarded fix-up of unexpected shape")
                        fix = b[0]
                    else:
                        raise Unrec("fix-up guarded by an unrecognised condition")
                if not (fix.get("kind") == "CallExpr" and callee(fix) == "InformationObject_setObjectAddress" and ref(fix["inner"][1]) == "retVal"):
                    raise Unrec("no address fix-up after the sequence decode")
                v = strip(fix["inner"][2])
                ok = v.get("kind") == "BinaryOperator" and v["opcode"] == "+" and callee(v["inner"][0]) == "InformationObject_ParseObjectAddress" and ref(v["inner"][1]) == "index"
                if ok:
                    pa = strip(v["inner"][0])["inner"][1:]
                    z = strip(pa[2])
                    ok = member_path(pa[0]) == ["self", "parameters"] and member_path(pa[1]) == ["self", "payload"] and z.get("kind") == "IntegerLiteral" and int(z["value"]) == 0
                if not ok:
                    raise Unrec("address fix-up is not ParseObjectAddress(payload, 0) + index")
                res.update(kind="seq", dec=cn1, start_sq=s1, start=s2, gnull=gnull, gaddr=gnull)
                continue
            if contains(st, lambda n: n.get("kind") == "CallExpr"):
                raise Unrec("unrecognised statement with a call")
        if "kind" not in res:
            raise Unrec("no decoder call")

        def stride(p, want_ioa_const):
            """start polynomial -> n for IOA*[want] + I*n (+ I*IOA)"""
            return p
        if res["kind"] == "seq":
            a = res["start_sq"]
            b = res["start"]
            ka = set(a) - {("IOA",), ("I",)}
            kb = set(b) - {("I", "IOA"), ("I",)}
            if ka or kb or a.get(("IOA",), 0) != 1 or b.get(("I", "IOA"), 0) != 1:
                raise Unrec("sequence start offsets are not IOA + index*n / index*(IOA + n)")
            res["n_sq"], res["n"] = a.get(("I",), 0), b.get(("I",), 0)
        else:
            b = res["start"]
            if not b:
                res["kind"] = "single"
            else:
                kb = set(b) - {("I", "IOA"), ("I",)}
                if kb or b.get(("I", "IOA"), 0) != 1:
                    raise Unrec("start offset is not index*(IOA + n)")
                res["kind"] = "idx"
                res["n"] = b.get(("I",), 0)
        res.pop("start", None)
        res.pop("start_sq", None)
        return res

    # ---- ASDU level
    def asdu_level(self):
        out = {}
        try:
            fn = self.fas["CS101_ASDU_addInformationObject"]
            top = [s for s in kids(self.body(fn)) if s.get("kind") == "IfStmt"]
            first = None
            for s in top:
                c = strip(kids(s)[0])
                if c.get("kind") == "BinaryOperator" and c["opcode"] == "==" and ref(c["inner"][0]) == "numberOfElements":
                    first = s
            if first is None:
                raise Unrec("no `numberOfElements == 0` branch")
            then = [s for s in stmts_of(kids(first)[1]) if s.get("kind") != "NullStmt"]

            def is_type_write(s):
                if s.get("kind") != "BinaryOperator" or s.get("opcode") != "=":
                    return False
                l = strip(s["inner"][0])
                return l.get("kind") == "ArraySubscriptExpr" and member_path(l["inner"][0]) == ["self", "asdu"] and strip(l["inner"][1]).get("value") == "0"

            def is_encode(s):
                return s.get("kind") == "BinaryOperator" and s.get("opcode") == "=" and ref(s["inner"][0]) == "encoded" and callee(s["inner"][1]) == "InformationObject_encode"
            kinds = []
            for s in then:
                if is_type_write(s):
                    kinds.append("type")
                elif is_encode(s):
                    kinds.append("enc")
                elif s.get("kind") == "IfStmt" and ref(kids(s)[0]) == "encoded" and len(kids(s)) == 2 and all(is_type_write(x) for x in stmts_of(kids(s)[1])):
                    kinds.append("guarded-type")
                else:
                    raise Unrec("unrecognised statement in the first-element branch")
            if kinds == ["type", "enc"]:
                out["add_type_guarded"] = False
            elif kinds == ["enc", "guarded-type"]:
                out["add_type_guarded"] = True
            else:
                raise Unrec("first-element branch of shape %s" % kinds)
            els = kids(first)[2] if len(kids(first)) > 2 else None
            lim = None
            if els is not None and els.get("kind") == "IfStmt":
                c = strip(kids(els)[0])
                if c.get("kind") == "BinaryOperator" and c["opcode"] == "<" and ref(c["inner"][0]) == "numberOfElements":
                    lim = int(strip(c["inner"][1])["value"])
            if lim is None:
                raise Unrec("no `numberOfElements < limit` branch")
            out["add_limit"] = lim
        except (Unrec, KeyError, IndexError) as e:
            out["add_unrec"] = "CS101_ASDU_addInformationObject: %s" % e
        try:
            fn = self.fas["CS101_ASDU_addPayload"]
            bound = None
            for s in kids(self.body(fn)):
                if s.get("kind") == "IfStmt":
                    c = strip(kids(s)[0])
                    if c.get("kind") == "BinaryOperator" and c["opcode"] == "<=":
                        l = lin(sym(c["inner"][0], {"self.payloadSize": pvar("P"), "self.asduHeaderLength": pvar("H"), "size": pvar("N")}), ("P", "H", "N"))
                        if l == {"P": 1, "H": 1, "N": 1}:
                            bound = int(strip(c["inner"][1])["value"])
            if bound is None:
                raise Unrec("no `payloadSize + asduHeaderLength + size <= bound` test")
            out["payload_bound"] = bound
        except (Unrec, KeyError, IndexError) as e:
            out["payload_unrec"] = "CS101_ASDU_addPayload: %s" % e
        try:
            fn = self.fas["asduFrame_getSpaceLeft"]
            ret = [s for s in kids(self.body(fn)) if s.get("kind") == "ReturnStmt"][0]
            l = lin(sym(kids(ret)[0], {"frame.asdu.parameters.maxSizeOfASDU": pvar("MAX"), "frame.asdu.payloadSize": pvar("P"), "frame.asdu.asduHeaderLength": pvar("H")}), ("MAX", "P", "H"))
            out["space_ok"] = l == {"MAX": 1, "P": -1, "H": -1}
        except (Unrec, KeyError, IndexError) as e:
            out["space_ok"] = False
        return out


# ---------------------------------------------------------------- emission
def coq_str(s):
    return '"' + s.replace('"', "'").replace("\\", "/")[:200] + '"'


def opt_pair(c):
    return "None" if c is None else "(Some (%d, %d))" % (c[0], c[1])


def emit_enc(e):
    if "unrec" in e:
        return "EncUnrecognised %s" % coq_str(e["unrec"])
    ops = []
    for o in e["ops"]:
        if o[0] == "call":
            if o[2] is not None and o[2][2]:
                return "EncUnrecognised %s" % coq_str("parent encoder with a variable check")
            ops.append("ECall %s [%s]" % (opt_pair(o[2]), "; ".join(leaf_str(l) for l in o[3])))
        else:
            ops.append("EL %s" % ("(%s)" % leaf_str(o) if o[0] == "bytes" else leaf_str(o)))
    chk = "None" if e["chk"] is None else "(Some (ECk %d %d %s))" % (e["chk"][0], e["chk"][1], "true" if e["chk"][2] else "false")
    return "Enc %s %s [%s]" % (chk, "true" if e["maxdata"] else "false", "; ".join(ops))


def emit_dec(d):
    if "unrec" in d:
        return "DecUnrecognised %s" % coq_str(d["unrec"])
    rs = []
    for r in d["reads"]:
        if r[0] == "at":
            rs.append("RAt %d" % r[1])
        elif r[0] == "guard":
            rs.append("RGuard %d %d" % (r[1], r[2]))
        else:
            rs.append("RData %d" % r[1])
    var = "None" if d["var"] is None else "(Some (%d, %d))" % d["var"]
    return "Dec %s (%s %d) %s %s [%s]" % ("true" if d["sqparam"] else "false", d["min"][0], d["min"][1], var, d["ioa"], "; ".join(rs))


def emit_elem(e):
    if "unrec" in e:
        return "ElemUnrecognised %s" % coq_str(e["unrec"])
    if e["kind"] == "seq":
        return "ESeq %d %d %s %s" % (e["n_sq"], e["n"], "true" if e["gnull"] else "false", "true" if e["gaddr"] else "false")
    if e["kind"] == "idx":
        return "EIdx %d" % e["n"]
    return "ESingle"


def summarise(enc, dec, el):
    s = []
    if "unrec" in enc:
        s.append("enc:UNREC")
    else:
        w = 0
        for o in enc["ops"]:
            if o[0] == "byte":
                w += 1
            elif o[0] == "bytes":
                w += o[1]
            elif o[0] == "call":
                w += sum(1 if l[0] == "byte" else l[1] if l[0] == "bytes" else 0 for l in o[3])
        s.append("enc chk=%s writes=%d%s" % (enc["chk"], w, "+var" if any(o[0] == "var" for o in enc["ops"]) else ""))
    if "unrec" in dec:
        s.append("dec:UNREC")
    else:
        n = 0
        for r in dec["reads"]:
            n = max(n, r[1] + (1 if r[0] == "at" else r[2] if r[0] == "guard" else 0))
        s.append("dec min=%s%d reads=%d%s" % (dec["min"][0], dec["min"][1], n, " var=%s" % (dec["var"],) if dec["var"] else ""))
    s.append("elem " + (emit_elem(el)))
    return "; ".join(s)


def generate():
    L = core.LIBROOT
    inc = [str(L / i) for i in core.INCLUDES]
    io_ast = C.load_ast(L / "src/iec60870/cs101/cs101_information_objects.c", inc)
    as_ast = C.load_ast(L / "src/iec60870/cs101/cs101_asdu.c", inc)
    T = Tables(io_ast, as_ast)
    rows, unrec, meta_rows = [], [], []
    try:
        elems = T.elements()
    except Unrec as e:
        elems = []
        unrec.append("getElementEx: %s" % e)
    for el in elems:
        tid = el.get("tid")
        name = el.get("label")
        dec = enc = None
        if "unrec" in el:
            dec = dict(unrec="no decoder known: " + el["unrec"])
            enc = dict(unrec="no encoder known: " + el["unrec"])
        else:
            dec = T.decoder(el["dec"])
            if "unrec" in dec:
                enc = dict(unrec="decoder unrecognised, encoder not linked")
            elif not dec.get("init"):
                enc = dict(unrec="%s does not call <Type>_initialize" % el["dec"])
            else:
                try:
                    ty, tyname, encname = T.initialize(dec["init"])
                    if dec.get("type_override"):
                        ty, tyname = dec["type_override"]
                    if ty != tid:
                        dec = dict(unrec="%s produces type %s but is used for case %s" % (el["dec"], tyname, name))
                        enc = dict(unrec="type mismatch")
                    else:
                        enc = T.encoder(encname)
                        enc = dict(enc, name=encname)
                except Unrec as e:
                    enc = dict(unrec=str(e))
        for x in (el, dec, enc):
            if "unrec" in x:
                unrec.append(x["unrec"])
        rows.append("  {| tid := %s; rname := %s;\n     r_enc := %s;\n     r_dec := %s;\n     r_elem := %s |}" %
                    (tid if tid is not None else -1, coq_str(name), emit_enc(enc), emit_dec(dec), emit_elem(el)))
        meta_rows.append(dict(tid=tid, name=name, enc=enc, dec=dec, elem={k: v for k, v in el.items()}, summary=summarise(enc, dec, el)))
    al = T.asdu_level()
    for k in ("add_unrec", "payload_unrec"):
        if k in al:
            unrec.append(al[k])
    asdu = "{| add_limit := %s; add_type_guarded := %s; payload_bound := %s; space_formula := %s |}" % (
        "Some %d" % al["add_limit"] if "add_limit" in al else "None",
        ("Some true" if al["add_type_guarded"] else "Some false") if "add_type_guarded" in al else "None",
        "Some %d" % al["payload_bound"] if "payload_bound" in al else "None",
        "true" if al.get("space_ok") else "false")
    txt = ("(* GENERATED from src/iec60870/cs101/cs101_information_objects.c and cs101_asdu.c by translate/asdu_table.py -- do not edit *)\n"
           "From Coq Require Import ZArith List String.\nFrom L60870 Require Import Asdu.Layout.\nImport ListNotations.\nLocal Open Scope Z_scope.\nLocal Open Scope string_scope.\n\n"
           "Definition table : list row := [\n" + ";\n".join(rows) + "\n].\n\n"
           "Definition asdu_fn : asdu_level := " + asdu + ".\n")
    core.write_if_changed(core.COQ / "gen" / "AsduTable.v", txt)
    return dict(rows=meta_rows, unrecognised=unrec, asdu_level=al)


if __name__ == "__main__":
    m = generate()
    for r in m["rows"]:
        print(r["tid"], r["name"], r["summary"])
    print(m["asdu_level"])
    for u in m["unrecognised"]:
        print("UNREC", u)
