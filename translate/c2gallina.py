#!/usr/bin/env python3
"""c2gallina: translate small pure C functions (clang JSON AST) into Gallina definitions over Z.

Accepted subset (anything else -> the function is emitted as `Unrecognised "<why>"`, which no
theorem accepts):
  * parameters: integers / bool / enum, `uint8_t*`-like byte buffers, pointer-to-struct whose only
    accessed member is a byte array `encodedValue` (the struct is identified with that array),
    pointer to `struct tm` (its accessed fields become scalar parameters), float
  * statements: declarations, assignments, compound assignments, ++/--, if/else, return,
    constant-trip `for` loops (unrolled), calls to other translated functions, memset(buf,0,n),
    gmtime_r (replaced by the hand model L60870.Time.Civil, validated separately)
  * expressions: + - * / % & | ^ ~ << >> ! && || comparisons ?: casts array reads
  * `uint8_t* p = (uint8_t*) &v` : p[i] is byte i of the little-endian 32-bit view of v

C semantics kept: `/` and `%` truncate (Z.quot/Z.rem); every conversion to a narrower or unsigned
type is an explicit wrap; unsigned 32/64-bit arithmetic wraps.  `int`/`long` arithmetic is unbounded Z
(signed overflow is UB in C; the range lemmas in Time/ show the intermediate values stay small).
"""
import json, re, subprocess, sys
from pathlib import Path


class Unrec(Exception):
    pass


INT_TYPES = {
    "_Bool": ("b", 1), "bool": ("b", 1),
    "char": ("s", 8), "signed char": ("s", 8), "unsigned char": ("u", 8), "uint8_t": ("u", 8), "int8_t": ("s", 8),
    "short": ("s", 16), "unsigned short": ("u", 16), "uint16_t": ("u", 16), "int16_t": ("s", 16),
    "int": ("s", 32), "unsigned int": ("u", 32), "uint32_t": ("u", 32), "int32_t": ("s", 32),
    "long": ("s", 64), "unsigned long": ("u", 64), "uint64_t": ("u", 64), "int64_t": ("s", 64),
    "long long": ("s", 64), "unsigned long long": ("u", 64), "time_t": ("s", 64), "size_t": ("u", 64),
}


def strip_q(t):
    t = re.sub(r"\b(const|volatile|register)\b", "", t).strip()
    return re.sub(r"\s+", " ", t)


def ctype(node):
    ty = node.get("type", {})
    return strip_q(ty.get("desugaredQualType") or ty.get("qualType", ""))


def int_kind(t):
    t = strip_q(t)
    if t in INT_TYPES:
        return INT_TYPES[t]
    if t.startswith("enum ") or t in ("EventState", "QualityDescriptorP", "QualityDescriptor"):
        return ("u", 32) if t.startswith("enum ") else ("u", 8)
    return None


def load_ast(cfile, includes):
    cmd = ["clang", "-fsyntax-only", "-w", "-Xclang", "-ast-dump=json"] + ["-I" + i for i in includes] + [str(cfile)]
    p = subprocess.run(cmd, stdout=subprocess.PIPE, stderr=subprocess.DEVNULL)
    return json.loads(p.stdout)


def functions_of(ast, mainfile=None):
    """functions with a body; when mainfile is given only those defined in that file"""
    out = {}
    cur = None
    for n in ast.get("inner", []):
        loc = n.get("loc", {})
        if "file" in loc:
            cur = loc["file"]
        elif "spellingLoc" in loc and "file" in loc["spellingLoc"]:
            cur = loc["spellingLoc"]["file"]
        if n.get("kind") == "FunctionDecl" and any(c.get("kind") == "CompoundStmt" for c in n.get("inner", [])):
            if mainfile is None or (cur and cur.endswith(mainfile)):
                out[n["name"]] = n
    return out


def typedefs_of(ast):
    td = {}
    for n in ast.get("inner", []):
        if n.get("kind") == "TypedefDecl":
            td[n["name"]] = strip_q(n["type"].get("desugaredQualType") or n["type"]["qualType"])
    return td


class Translator:
    def __init__(self, ast, prefix="c_", mainfile=None):
        self.funcs = functions_of(ast, mainfile)
        self.tds = typedefs_of(ast)
        self.prefix = prefix
        self.done = {}      # name -> dict(sig...)
        self.order = []
        self.fresh = 0

    # ------------------------------------------------------------------ types
    def resolve(self, t):
        t = strip_q(t)
        seen = 0
        while t in self.tds and seen < 10:
            t = self.tds[t]
            seen += 1
        return t

    def kind_of_type(self, t):
        t0 = self.resolve(t)
        ik = int_kind(t0) or int_kind(strip_q(t))
        if ik:
            return ("int",) + ik
        if t0 == "float":
            return ("float",)
        if t0 == "struct tm *":
            return ("tm",)
        if t0.endswith("*"):
            base = self.resolve(t0[:-1].strip())
            if base in ("uint8_t", "unsigned char"):
                return ("arr",)
            if re.match(r"struct \w+$", base) and base != "struct tm":
                return ("arr",)
            if base == "struct tm":
                return ("tm",)
        if re.match(r"struct \w+ \*$", t0):
            return ("arr",)   # struct identified with its byte array (checked on member access)
        if t0.startswith("enum "):
            return ("int", "u", 32)
        return ("other", t0)

    # ------------------------------------------------------------------ helpers
    def new(self, base):
        self.fresh += 1
        return "%s_%d" % (re.sub(r"\W", "_", base), self.fresh)

    def wrap(self, kind, term):
        if kind[0] != "int":
            return term
        sg, bits = kind[1], kind[2]
        if sg == "b":
            return "(b2z (negb (%s =? 0)))" % term
        return "(%s%d %s)" % (sg, bits, term)

    # ------------------------------------------------------------------ function translation
    def translate(self, name):
        if name in self.done:
            return self.done[name]
        if name not in self.funcs:
            raise Unrec("call to unknown function " + name)
        fn = self.funcs[name]
        self.done[name] = None  # recursion guard
        try:
            info = self._translate(fn)
        except Unrec as e:
            info = dict(name=name, unrec=str(e))
        self.done[name] = info
        self.order.append(name)
        return info

    def _written_arrays(self, node, params_arr, aliases):
        """syntactic pre-pass: which array parameters may be written"""
        w = set()

        def base_arr(e):
            e = self.skip(e)
            k = e.get("kind")
            if k == "DeclRefExpr":
                n = e["referencedDecl"]["name"]
                return aliases.get(n, n)
            if k == "MemberExpr":
                return base_arr(e["inner"][0])
            if k == "UnaryOperator" and e.get("opcode") in ("*", "&"):
                return base_arr(e["inner"][0])
            if k == "ArraySubscriptExpr":
                return base_arr(e["inner"][0])
            return None

        def walk(n):
            k = n.get("kind")
            if k == "DeclStmt":
                for d in n.get("inner", []):
                    if d.get("kind") == "VarDecl" and d.get("inner") and self.kind_of_type(ctype(d))[0] == "arr":
                        b = base_arr(d["inner"][0])
                        if b:
                            aliases[d["name"]] = b
            if k in ("BinaryOperator", "CompoundAssignOperator") and (n.get("opcode", "").endswith("=") and n.get("opcode") not in ("==", "!=", "<=", ">=")):
                lhs = self.skip(n["inner"][0])
                if lhs.get("kind") in ("ArraySubscriptExpr",) or (lhs.get("kind") == "UnaryOperator" and lhs.get("opcode") == "*"):
                    b = base_arr(lhs)
                    if b in params_arr:
                        w.add(b)
            if k == "CallExpr":
                callee = self.skip(n["inner"][0])
                cname = callee.get("referencedDecl", {}).get("name")
                if cname == "memset":
                    b = base_arr(n["inner"][1])
                    if b in params_arr:
                        w.add(b)
                elif cname in self.funcs:
                    ci = self.translate(cname)
                    if ci and "unrec" not in ci:
                        for (pn, pk), arg in zip(ci["params"], n["inner"][1:]):
                            if pk[0] == "arr" and pn in ci["writes"]:
                                b = base_arr(arg)
                                if b in params_arr:
                                    w.add(b)
            for c in n.get("inner", []):
                walk(c)
        walk(node)
        return w

    def skip(self, e):
        while e.get("kind") in ("ParenExpr", "ImplicitCastExpr", "CStyleCastExpr") and e.get("castKind", "NoOp") in (
                "NoOp", "LValueToRValue", "ArrayToPointerDecay", "BitCast", "FunctionToPointerDecay") or e.get("kind") == "ParenExpr":
            e = e["inner"][0]
        return e

    def _tm_fields(self, node, pname):
        fs = []

        def walk(n):
            if n.get("kind") == "MemberExpr":
                b = self.skip(n["inner"][0])
                if b.get("kind") == "DeclRefExpr" and b["referencedDecl"]["name"] == pname and n["name"] not in fs:
                    fs.append(n["name"])
            for c in n.get("inner", []):
                walk(c)
        walk(node)
        return fs

    def _translate(self, fn):
        name = fn["name"]
        body = [c for c in fn["inner"] if c.get("kind") == "CompoundStmt"][0]
        params = []
        env = {}
        for p in fn["inner"]:
            if p.get("kind") != "ParmVarDecl":
                continue
            k = self.kind_of_type(ctype(p))
            pn = p.get("name", "_")
            if k[0] == "other":
                raise Unrec("parameter %s of unsupported type %s" % (pn, k[1]))
            if k[0] == "tm":
                fields = self._tm_fields(body, pn)
                env[pn] = ("struct", {f: "%s_%s" % (pn, f) for f in fields})
                params.append((pn, ("tm", fields)))
            elif k[0] == "arr":
                env[pn] = ("arr", pn)
                params.append((pn, k))
            elif k[0] == "float":
                env[pn] = ("float", pn)
                params.append((pn, k))
            else:
                env[pn] = ("int", pn, k)
                params.append((pn, k))
        rett = self.kind_of_type(fn["type"]["qualType"].split("(")[0].strip())
        if rett[0] == "other" and rett[1] != "void":
            raise Unrec("return type " + rett[1])
        arr_params = [pn for pn, k in params if k[0] == "arr"]
        writes = [a for a in arr_params if a in self._written_arrays(body, set(arr_params), {})]
        cparams = [(q.get("name", "_"), q["type"]["qualType"]) for q in fn["inner"] if q.get("kind") == "ParmVarDecl"]
        static = fn.get("storageClass") == "static"
        self.cur = dict(name=name, params=params, writes=writes, ret=rett, maxidx={}, cparams=cparams,
                        cret=fn["type"]["qualType"].split("(")[0].strip(), static=static)
        self.fresh = 0

        def finish(env, retterm):
            parts = [env[a][1] for a in writes]
            if rett[0] != "other":
                if retterm is None:
                    raise Unrec("missing return value")
                parts.append(retterm)
            if not parts:
                raise Unrec("function has no observable result")
            return parts[0] if len(parts) == 1 else "(" + ", ".join(parts) + ")"
        self.finish = finish
        term = self.block(body.get("inner", []), env, lambda e: finish(e, None) if rett[0] == "other" else self._noreturn())
        info = dict(self.cur)
        info["term"] = term
        return info

    def _noreturn(self):
        raise Unrec("control reaches end of non-void function")

    # ------------------------------------------------------------------ statements (CPS)
    def block(self, stmts, env, k):
        if not stmts:
            return k(env)
        return self.stmt(stmts[0], env, lambda e: self.block(stmts[1:], e, k))

    def has_return(self, n):
        if n.get("kind") == "ReturnStmt":
            return True
        return any(self.has_return(c) for c in n.get("inner", []))

    def assigned(self, n, env, acc):
        """names of env entries possibly modified inside n"""
        k = n.get("kind")
        if k in ("BinaryOperator", "CompoundAssignOperator") and n.get("opcode", "").endswith("=") and n.get("opcode") not in ("==", "!=", "<=", ">="):
            self._lhs_name(n["inner"][0], env, acc)
        if k == "UnaryOperator" and n.get("opcode") in ("++", "--"):
            self._lhs_name(n["inner"][0], env, acc)
        if k == "CallExpr":
            callee = self.skip(n["inner"][0]).get("referencedDecl", {}).get("name")
            if callee == "memset":
                self._lhs_name(n["inner"][1], env, acc)
            elif callee == "gmtime_r":
                self._lhs_name(n["inner"][2], env, acc)
            elif callee in self.funcs:
                ci = self.translate(callee)
                if ci and "unrec" not in ci:
                    for (pn, pk), arg in zip(ci["params"], n["inner"][1:]):
                        if pk[0] == "arr" and pn in ci["writes"]:
                            self._lhs_name(arg, env, acc)
        if k == "DeclStmt":
            for d in n.get("inner", []):
                if d.get("kind") == "VarDecl":
                    acc.append(("decl", d["name"]))
        for c in n.get("inner", []):
            self.assigned(c, env, acc)

    def _lhs_name(self, e, env, acc):
        e = self.skip(e)
        k = e.get("kind")
        if k == "DeclRefExpr":
            n = e["referencedDecl"]["name"]
            ent = env.get(n)
            if ent and ent[0] == "alias":
                n = ent[1]
            if ent and ent[0] == "bytesof":
                n = ent[1]
            acc.append(("var", n))
        elif k in ("ArraySubscriptExpr", "MemberExpr"):
            self._lhs_name(e["inner"][0], env, acc)
        elif k == "UnaryOperator" and e.get("opcode") in ("*", "&"):
            self._lhs_name(e["inner"][0], env, acc)

    def stmt(self, n, env, k):
        kind = n.get("kind")
        if kind == "CompoundStmt":
            return self.block(n.get("inner", []), env, k)
        if kind == "NullStmt":
            return k(env)
        if kind == "DeclStmt":
            def go(ds, env):
                if not ds:
                    return k(env)
                d = ds[0]
                if d.get("kind") != "VarDecl":
                    raise Unrec("declaration " + d.get("kind", "?"))
                return self.vardecl(d, env, lambda e: go(ds[1:], e))
            return go(n.get("inner", []), env)
        if kind == "ReturnStmt":
            inner = n.get("inner", [])
            if not inner:
                return self.finish(env, None)
            t, env2, pre = self.expr_se(inner[0], env)
            rk = self.cur["ret"]
            return pre + self.finish(env2, t)
        if kind == "IfStmt":
            inner = n["inner"]
            cond, env1, pre = self.expr_se(inner[0], env, want="bool")
            then = inner[1]
            els = inner[2] if len(inner) > 2 else {"kind": "NullStmt"}
            if self.has_return(then) or self.has_return(els):
                a = self.stmt(then, dict(env1), k)
                b = self.stmt(els, dict(env1), k)
                return pre + "(if %s then\n%s\nelse\n%s)" % (cond, a, b)
            acc = []
            self.assigned(then, env1, acc)
            self.assigned(els, env1, acc)
            decls = {nm for t, nm in acc if t == "decl"}
            names = []
            for t, nm in acc:
                if t == "var" and nm not in names and nm not in decls and nm in env1:
                    names.append(nm)
            if not names:
                return pre + k(env1)

            def tup(e):
                ts = [self.value_term(e[nm]) for nm in names]
                return ts[0] if len(ts) == 1 else "(" + ", ".join(ts) + ")"
            a = self.stmt(then, dict(env1), tup)
            b = self.stmt(els, dict(env1), tup)
            newnames = [self.new(nm) for nm in names]
            env2 = dict(env1)
            for nm, nn in zip(names, newnames):
                env2[nm] = self.rebind(env1[nm], nn)
            pat = newnames[0] if len(newnames) == 1 else "'(" + ", ".join(newnames) + ")"
            return pre + "let %s := (if %s then %s else %s) in\n%s" % (pat, cond, a, b, k(env2))
        if kind == "ForStmt":
            init, _, cond, inc, body = n["inner"]
            # for (i = 0; i < N; i++)
            try:
                ii = self.skip(init)
                var = ii["inner"][0]["referencedDecl"]["name"]
                start = int(self.skip(ii["inner"][1])["value"])
                cc = self.skip(cond)
                assert cc["opcode"] == "<" and self.skip(cc["inner"][0])["referencedDecl"]["name"] == var
                bound = int(self.skip(cc["inner"][1])["value"])
                ic = self.skip(inc)
                assert ic["kind"] == "UnaryOperator" and ic["opcode"] == "++"
            except Exception:
                raise Unrec("for loop not of the form for(i=c; i<N; i++)")
            if bound - start > 64:
                raise Unrec("loop trip count too large")

            def it(i, env):
                if i >= bound:
                    e2 = dict(env)
                    e2[var] = ("int", str(bound), ("int", "s", 32))
                    return k(e2)
                e2 = dict(env)
                e2[var] = ("int", str(i), ("int", "s", 32))
                return self.stmt(body, e2, lambda e: it(i + 1, e))
            return it(start, env)
        # expression statement
        t, env2, pre = self.expr_se(n, env, want="void")
        return pre + k(env2)

    def value_term(self, ent):
        if ent[0] in ("int", "arr", "float"):
            return ent[1]
        raise Unrec("cannot merge entry of kind " + ent[0])

    def rebind(self, ent, newname):
        if ent[0] == "int":
            return ("int", newname, ent[2])
        if ent[0] in ("arr", "float"):
            return (ent[0], newname)
        raise Unrec("cannot rebind " + ent[0])

    def vardecl(self, d, env, k):
        name = d["name"]
        t = ctype(d)
        kd = self.kind_of_type(t)
        init = d.get("inner", [None])[0] if d.get("inner") else None
        rt = self.resolve(t)
        if rt == "struct tm":
            e2 = dict(env)
            e2[name] = ("struct", {})
            return k(e2)
        if kd[0] == "arr":
            # alias or byte view
            if init is None:
                raise Unrec("uninitialised pointer " + name)
            e = init
            while e.get("kind") in ("ParenExpr", "ImplicitCastExpr", "CStyleCastExpr"):
                e = e["inner"][0]
            if e.get("kind") == "UnaryOperator" and e.get("opcode") == "&":
                tgt = self.skip(e["inner"][0])
                if tgt.get("kind") == "DeclRefExpr":
                    tn = tgt["referencedDecl"]["name"]
                    if env.get(tn, ("",))[0] == "int" and env[tn][2][2] == 32:
                        e2 = dict(env)
                        e2[name] = ("bytesof", tn)
                        return k(e2)
                raise Unrec("address-of not supported here")
            base = self.arr_name(init, env)
            e2 = dict(env)
            e2[name] = ("alias", base)
            return k(e2)
        if kd[0] == "float":
            if init is None:
                e2 = dict(env)
                e2[name] = ("float", "f_zero")
                return k(e2)
            term, env1, pre = self.expr_se(init, env)
            nn = self.new(name)
            e2 = dict(env1)
            e2[name] = ("float", nn)
            return pre + "let %s := %s in\n%s" % (nn, term, k(e2))
        if kd[0] != "int":
            raise Unrec("local of type " + t)
        if init is None:
            e2 = dict(env)
            e2[name] = ("int", "0", kd)
            return k(e2)
        term, env1, pre = self.expr_se(init, env)
        nn = self.new(name)
        e2 = dict(env1)
        e2[name] = ("int", nn, kd)
        return pre + "let %s := %s in\n%s" % (nn, term, k(e2))

    def arr_name(self, e, env):
        e = self.skip(e)
        k = e.get("kind")
        if k == "DeclRefExpr":
            n = e["referencedDecl"]["name"]
            ent = env.get(n)
            if ent is None:
                raise Unrec("unknown array " + n)
            if ent[0] == "alias":
                return ent[1]
            if ent[0] == "arr":
                return n
            raise Unrec("not an array: " + n)
        if k == "MemberExpr":
            if e["name"] != "encodedValue":
                raise Unrec("member %s of struct pointer" % e["name"])
            m = re.search(r"\[(\d+)\]", e["type"]["qualType"])
            base = self.arr_name(e["inner"][0], env)
            if m:
                self.cur.setdefault("sizes", {})[base] = int(m.group(1))
            return base
        raise Unrec("array expression " + k)

    # ------------------------------------------------------------------ expressions
    def expr_se(self, n, env, want="Z"):
        """expression with side effects: returns (term, env', prefix-lets)"""
        self.pre = []
        self.env = dict(env)
        t = self.expr(n, want)
        pre = "".join("let %s := %s in\n" % (a, b) for a, b in self.pre)
        return t, self.env, pre

    def to_bool(self, term):
        return "(negb (%s =? 0))" % term

    def expr(self, n, want="Z"):
        k = n.get("kind")
        env = self.env
        if k == "ParenExpr":
            return self.expr(n["inner"][0], want)
        if k in ("ImplicitCastExpr", "CStyleCastExpr"):
            ck = n.get("castKind")
            sub = n["inner"][0]
            if ck in ("LValueToRValue", "NoOp"):
                return self.expr(sub, want)
            if ck == "IntegralCast":
                dst = self.kind_of_type(ctype(n))
                src = self.kind_of_type(ctype(sub))
                t = self.expr(sub, "Z")
                if dst[0] == "int" and src[0] == "int":
                    widening = (dst[2] > src[2] and not (src[1] == "s" and dst[1] == "u")) or \
                               (dst[2] == src[2] and dst[1] == src[1]) or src[1] == "b"
                    r = t if widening else self.wrap(dst, t)
                else:
                    raise Unrec("integral cast between %s and %s" % (src, dst))
                return self.coerce(r, "Z", want)
            if ck == "IntegralToBoolean":
                t = self.expr(sub, "Z")
                return self.coerce("(b2z (negb (%s =? 0)))" % t, "Z", want)
            if ck == "IntegralToFloating":
                t = self.expr(sub, "Z")
                return "(f_of_int %s)" % t
            if ck == "FloatingToIntegral":
                t = self.expr(sub, "F")
                return self.coerce("(f_to_int %s)" % t, "Z", want)
            if ck == "FloatingCast":
                return self.expr(sub, want)
            raise Unrec("cast kind %s" % ck)
        if k == "IntegerLiteral":
            return self.coerce(str(int(n["value"])) if int(n["value"]) >= 0 else "(%s)" % n["value"], "Z", want)
        if k == "CharacterLiteral":
            return self.coerce(str(int(n["value"])), "Z", want)
        if k == "CXXBoolLiteralExpr":
            return self.coerce("1" if n["value"] else "0", "Z", want)
        if k == "FloatingLiteral":
            v = float(n["value"])
            if v == int(v) and abs(v) < 2 ** 24:
                return "(f_of_int %s)" % (str(int(v)) if v >= 0 else "(%d)" % int(v))
            if v == 0.5:
                return "f_half"
            raise Unrec("float literal %s" % n["value"])
        if k == "DeclRefExpr":
            name = n["referencedDecl"]["name"]
            if n["referencedDecl"].get("kind") == "EnumConstantDecl":
                raise Unrec("enum constant " + name)
            ent = env.get(name)
            if ent is None:
                raise Unrec("unknown variable " + name)
            if ent[0] == "int":
                return self.coerce(ent[1], "Z", want)
            if ent[0] == "float":
                return ent[1]
            raise Unrec("variable %s used as value" % name)
        if k == "ArraySubscriptExpr" or (k == "UnaryOperator" and n.get("opcode") == "*"):
            return self.coerce(self.read_lvalue(n), "Z", want)
        if k == "MemberExpr":
            return self.coerce(self.read_lvalue(n), "Z", want)
        if k == "UnaryOperator":
            op = n["opcode"]
            sub = n["inner"][0]
            if op == "!":
                t = self.expr(sub, "bool")
                return self.coerce("(negb %s)" % t, "bool", want)
            if op == "-":
                if self.kind_of_type(ctype(n))[0] == "float":
                    return "(f_neg %s)" % self.expr(sub, "F")
                return self.coerce("(- %s)" % self.expr(sub, "Z"), "Z", want)
            if op == "~":
                return self.coerce(self.wrap_res(n, "(Z.lnot %s)" % self.expr(sub, "Z")), "Z", want)
            if op in ("++", "--"):
                old = self.read_lvalue(sub)
                kd = self.kind_of_type(ctype(sub))
                new = self.wrap(kd, "(%s %s 1)" % (old, "+" if op == "++" else "-")) if kd[2] < 32 or kd[1] == "u" else "(%s %s 1)" % (old, "+" if op == "++" else "-")
                self.write_lvalue(sub, new)
                res = old if n.get("isPostfix") else self.read_lvalue(sub)
                return self.coerce(res, "Z", want) if want != "void" else ""
            raise Unrec("unary " + op)
        if k == "BinaryOperator":
            op = n["opcode"]
            a, b = n["inner"]
            if op == "=":
                kd = self.kind_of_type(ctype(a))
                t = self.expr(b, "F" if kd[0] == "float" else "Z")
                self.write_lvalue(a, t)
                if want == "void":
                    return ""
                return self.coerce(self.read_lvalue(a), "Z", want)
            if op == ",":
                self.expr(a, "void")
                return self.expr(b, want)
            if op in ("&&", "||"):
                ta = self.expr(a, "bool")
                tb = self.expr(b, "bool")
                return self.coerce("(%s %s %s)" % (ta, op, tb), "bool", want)
            fl = self.kind_of_type(ctype(a))[0] == "float" or self.kind_of_type(ctype(b))[0] == "float"
            if op in ("==", "!=", "<", "<=", ">", ">="):
                if fl:
                    ta, tb = self.expr(a, "F"), self.expr(b, "F")
                    m = {"<": "f_lt", ">": "f_gt", "<=": "f_le", ">=": "f_ge", "==": "f_eq", "!=": "f_ne"}[op]
                    return self.coerce("(%s %s %s)" % (m, ta, tb), "bool", want)
                ta, tb = self.expr(a, "Z"), self.expr(b, "Z")
                m = {"==": "(%s =? %s)", "!=": "(negb (%s =? %s))", "<": "(%s <? %s)", "<=": "(%s <=? %s)",
                     ">": "(%s >? %s)", ">=": "(%s >=? %s)"}[op]
                return self.coerce(m % (ta, tb), "bool", want)
            if fl:
                ta, tb = self.expr(a, "F"), self.expr(b, "F")
                m = {"+": "f_add", "-": "f_sub", "*": "f_mul", "/": "f_div"}.get(op)
                if not m:
                    raise Unrec("float op " + op)
                return "(%s %s %s)" % (m, ta, tb)
            ta, tb = self.expr(a, "Z"), self.expr(b, "Z")
            return self.coerce(self.wrap_res(n, self.binop(op, ta, tb)), "Z", want)
        if k == "CompoundAssignOperator":
            op = n["opcode"][:-1]
            a, b = n["inner"]
            kd = self.kind_of_type(ctype(a))
            if kd[0] != "int":
                raise Unrec("compound assignment on non-integer")
            old = self.read_lvalue(a)
            tb = self.expr(b, "Z")
            t = self.binop(op, old, tb)
            ck = self.kind_of_type(strip_q(n.get("computeResultType", {}).get("qualType", "int")))
            if ck[0] == "int" and ck[1] == "u" and ck[2] >= 32 and op in ("+", "-", "*", "<<"):
                t = self.wrap(ck, t)
            if kd[2] < 32 or kd[1] == "u" or kd[1] == "b":
                t = self.wrap(kd, t)
            self.write_lvalue(a, t)
            return "" if want == "void" else self.coerce(self.read_lvalue(a), "Z", want)
        if k == "ConditionalOperator":
            c, a, b = n["inner"]
            tc = self.expr(c, "bool")
            fl = self.kind_of_type(ctype(n))[0] == "float"
            ta, tb = self.expr(a, "F" if fl else "Z"), self.expr(b, "F" if fl else "Z")
            r = "(if %s then %s else %s)" % (tc, ta, tb)
            return r if fl else self.coerce(r, "Z", want)
        if k == "CallExpr":
            return self.call(n, want)
        raise Unrec("expression kind %s" % k)

    def binop(self, op, a, b):
        m = {"+": "(%s + %s)", "-": "(%s - %s)", "*": "(%s * %s)", "/": "(Z.quot %s %s)", "%": "(Z.rem %s %s)",
             "&": "(Z.land %s %s)", "|": "(Z.lor %s %s)", "^": "(Z.lxor %s %s)", "<<": "(Z.shiftl %s %s)",
             ">>": "(Z.shiftr %s %s)"}.get(op)
        if not m:
            raise Unrec("binary operator " + op)
        return m % (a, b)

    def wrap_res(self, n, term):
        kd = self.kind_of_type(ctype(n))
        if kd[0] == "int" and kd[1] == "u" and kd[2] >= 32 and n.get("opcode") in ("+", "-", "*", "<<", "~"):
            return self.wrap(kd, term)
        return term

    def coerce(self, term, have, want):
        if want in ("Z", "F") and have == "Z":
            return term
        if want == "void":
            return term
        if want == "bool" and have == "Z":
            return self.to_bool(term)
        if want == "Z" and have == "bool":
            return "(b2z %s)" % term
        if want == "bool" and have == "bool":
            return term
        if want == "F":
            return term
        raise Unrec("coerce %s -> %s" % (have, want))

    def const_index(self, e):
        e2 = e
        while e2.get("kind") in ("ParenExpr", "ImplicitCastExpr", "CStyleCastExpr"):
            e2 = e2["inner"][0]
        if e2.get("kind") == "IntegerLiteral":
            return int(e2["value"])
        if e2.get("kind") == "DeclRefExpr":
            ent = self.env.get(e2["referencedDecl"]["name"])
            if ent and ent[0] == "int" and re.fullmatch(r"\d+", ent[1]):
                return int(ent[1])
        return None

    def read_lvalue(self, n):
        n = self.skip(n) if n.get("kind") in ("ParenExpr",) else n
        k = n.get("kind")
        if k == "ImplicitCastExpr":
            return self.read_lvalue(n["inner"][0])
        if k == "DeclRefExpr":
            name = n["referencedDecl"]["name"]
            ent = self.env.get(name)
            if ent and ent[0] == "int":
                return ent[1]
            if ent and ent[0] == "float":
                return ent[1]
            raise Unrec("read of " + name)
        if k == "MemberExpr":
            b = self.skip(n["inner"][0])
            if b.get("kind") == "UnaryOperator" and b.get("opcode") == "&":
                b = self.skip(b["inner"][0])
            if b.get("kind") == "DeclRefExpr":
                ent = self.env.get(b["referencedDecl"]["name"])
                if ent and ent[0] == "struct":
                    if n["name"] not in ent[1]:
                        raise Unrec("read of unset struct field " + n["name"])
                    return ent[1][n["name"]]
            raise Unrec("member read " + n["name"])
        if k == "ArraySubscriptExpr":
            base, idx = n["inner"]
            bb = self.skip(base)
            if bb.get("kind") == "DeclRefExpr" and self.env.get(bb["referencedDecl"]["name"], ("",))[0] == "bytesof":
                var = self.env[bb["referencedDecl"]["name"]][1]
                ci = self.const_index(idx)
                if ci is None or not 0 <= ci < 4:
                    raise Unrec("byte view index")
                return "(byte_of %s %d)" % (self.env[var][1], ci)
            an = self.arr_name(base, self.env)
            ci = self.const_index(idx)
            it = str(ci) if ci is not None else self.expr(idx, "Z")
            if ci is not None:
                self.cur["maxidx"][an] = max(self.cur["maxidx"].get(an, -1), ci)
            else:
                self.cur.setdefault("dynidx", set()).add(an)
            return "(nthz %s %s)" % (it, self.env[an][1])
        if k == "UnaryOperator" and n.get("opcode") == "*":
            an = self.arr_name(n["inner"][0], self.env)
            self.cur["maxidx"][an] = max(self.cur["maxidx"].get(an, -1), 0)
            return "(nthz 0 %s)" % self.env[an][1]
        raise Unrec("lvalue read " + k)

    def bind(self, base, term):
        nn = self.new(base)
        self.pre.append((nn, term))
        return nn

    def write_lvalue(self, n, term):
        n = self.skip(n) if n.get("kind") == "ParenExpr" else n
        k = n.get("kind")
        if k == "DeclRefExpr":
            name = n["referencedDecl"]["name"]
            ent = self.env.get(name)
            if ent and ent[0] == "int":
                self.env[name] = ("int", self.bind(name, term), ent[2])
                return
            if ent and ent[0] == "float":
                self.env[name] = ("float", self.bind(name, term))
                return
            raise Unrec("write to " + name)
        if k == "MemberExpr":
            b = self.skip(n["inner"][0])
            if b.get("kind") == "DeclRefExpr":
                ent = self.env.get(b["referencedDecl"]["name"])
                if ent and ent[0] == "struct":
                    d = dict(ent[1])
                    d[n["name"]] = self.bind(n["name"], term)
                    self.env[b["referencedDecl"]["name"]] = ("struct", d)
                    return
            raise Unrec("member write " + n["name"])
        if k == "ArraySubscriptExpr":
            base, idx = n["inner"]
            bb = self.skip(base)
            if bb.get("kind") == "DeclRefExpr" and self.env.get(bb["referencedDecl"]["name"], ("",))[0] == "bytesof":
                var = self.env[bb["referencedDecl"]["name"]][1]
                ci = self.const_index(idx)
                if ci is None or not 0 <= ci < 4:
                    raise Unrec("byte view index")
                ent = self.env[var]
                self.env[var] = ("int", self.bind(var, "(set_byte32 %s %d %s)" % (ent[1], ci, term)), ent[2])
                return
            an = self.arr_name(base, self.env)
            ci = self.const_index(idx)
            if ci is None:
                raise Unrec("array write at non-constant index")
            self.cur["maxidx"][an] = max(self.cur["maxidx"].get(an, -1), ci)
            self.env[an] = ("arr", self.bind(an, "(upd %d %s %s)" % (ci, term, self.env[an][1])))
            return
        if k == "UnaryOperator" and n.get("opcode") == "*":
            an = self.arr_name(n["inner"][0], self.env)
            self.cur["maxidx"][an] = max(self.cur["maxidx"].get(an, -1), 0)
            self.env[an] = ("arr", self.bind(an, "(upd 0 %s %s)" % (term, self.env[an][1])))
            return
        raise Unrec("lvalue write " + k)

    def call(self, n, want):
        callee = self.skip(n["inner"][0]).get("referencedDecl", {}).get("name")
        args = n["inner"][1:]
        if callee == "memset":
            an = self.arr_name(args[0], self.env)
            v = self.const_index(args[1])
            cnt = self.const_index(args[2])
            if v != 0 or cnt is None:
                raise Unrec("memset with non-constant arguments")
            self.cur.setdefault("memset", {})[an] = cnt
            self.env[an] = ("arr", self.bind(an, "(zfill %d %s)" % (cnt, self.env[an][1])))
            return ""
        if callee == "gmtime_r":
            tv = self.skip(args[0])
            if tv.get("kind") == "UnaryOperator":
                tv = tv["inner"][0]
            t = self.expr(tv, "Z")
            tm = self.skip(args[1])
            if tm.get("kind") == "UnaryOperator":
                tm = self.skip(tm["inner"][0])
            name = tm["referencedDecl"]["name"]
            d = {}
            for f in ("tm_sec", "tm_min", "tm_hour", "tm_mday", "tm_mon", "tm_year"):
                d[f] = self.bind(f, "(gm_%s %s)" % (f[3:], t))
            self.env[name] = ("struct", d)
            self.cur["uses_gmtime"] = True
            return ""
        if callee not in self.funcs:
            raise Unrec("call to external function %s" % callee)
        ci = self.translate(callee)
        if ci is None:
            raise Unrec("recursive call " + callee)
        if "unrec" in ci:
            raise Unrec("callee %s: %s" % (callee, ci["unrec"]))
        if ci.get("uses_gmtime"):
            self.cur["uses_gmtime"] = True
        if ci.get("float"):
            self.cur["float"] = True
        terms = []
        warrs = []
        for (pn, pk), a in zip(ci["params"], args):
            if pk[0] == "arr":
                an = self.arr_name(a, self.env)
                terms.append(self.env[an][1])
                need = ci["maxidx"].get(pn, -1)
                self.cur["maxidx"][an] = max(self.cur["maxidx"].get(an, -1), need)
                if pn in ci["writes"]:
                    warrs.append(an)
            elif pk[0] == "tm":
                b = self.skip(a)
                if b.get("kind") == "UnaryOperator" and b.get("opcode") == "&":
                    b = self.skip(b["inner"][0])
                ent = self.env.get(b["referencedDecl"]["name"])
                if not ent or ent[0] != "struct":
                    raise Unrec("struct tm argument")
                for f in pk[1]:
                    if f not in ent[1]:
                        raise Unrec("struct tm field %s not set before call" % f)
                    terms.append(ent[1][f])
            elif pk[0] == "float":
                terms.append(self.expr(a, "F"))
            else:
                terms.append(self.expr(a, "Z"))
        app = "(%s%s %s)" % (self.prefix, callee, " ".join(terms)) if terms else self.prefix + callee
        hasret = ci["ret"][0] != "other"
        nres = len(ci["writes"]) + (1 if hasret else 0)
        if nres == 1:
            r = self.bind(callee, app)
            if ci["writes"]:
                self.env[warrs[0]] = ("arr", r)
                return ""
            if ci["ret"][0] == "float":
                return r
            return self.coerce(r, "Z", want)
        names = [self.new(a) for a in warrs] + ([self.new("r")] if hasret else [])
        self.pre.append(("'(" + ", ".join(names) + ")", app))
        for a, nn in zip(warrs, names):
            self.env[a] = ("arr", nn)
        if hasret:
            return names[-1] if ci["ret"][0] == "float" else self.coerce(names[-1], "Z", want)
        return ""

    # ------------------------------------------------------------------ output
    def emit(self, names):
        for nme in names:
            self.translate(nme)
        out = []
        for nme in self.order:
            info = self.done[nme]
            if "unrec" in info:
                out.append('Definition %s%s : unrecognised := Unrecognised "%s"%%string.\n' % (self.prefix, nme, info["unrec"].replace('"', "'")))
                continue
            ps = []
            for pn, pk in info["params"]:
                if pk[0] == "arr":
                    ps.append("(%s : list Z)" % pn)
                elif pk[0] == "tm":
                    for f in pk[1]:
                        ps.append("(%s_%s : Z)" % (pn, f))
                elif pk[0] == "float":
                    ps.append("(%s : f32)" % pn)
                else:
                    ps.append("(%s : Z)" % pn)
            out.append("Definition %s%s %s :=\n%s.\n" % (self.prefix, nme, " ".join(ps), info["term"]))
        good = [self.prefix + n for n in self.order if "unrec" not in self.done[n]]
        out.append("Create HintDb cgen.\n#[export] Hint Unfold %s : cgen.\n" % " ".join(good))
        return "\n".join(out)

    def meta(self):
        m = {}
        for nme in self.order:
            info = self.done[nme]
            if "unrec" in info:
                m[nme] = {"unrec": info["unrec"]}
            else:
                m[nme] = {"params": [(p, list(k) if k[0] != "tm" else ["tm", k[1]]) for p, k in info["params"]],
                          "writes": info["writes"], "maxidx": info["maxidx"], "sizes": info.get("sizes", {}),
                          "memset": info.get("memset", {}), "cparams": info["cparams"], "cret": info["cret"],
                          "static": info["static"], "ret": list(info["ret"])}
        return m
