#!/usr/bin/env python3
"""Regenerate coq/gen/GenTime.v GenBcr.v GenIO.v GenFloat.v from /repo's working tree."""
import json, sys, os
from pathlib import Path
sys.path.insert(0, str(Path(__file__).resolve().parent))
sys.path.insert(0, str(Path(__file__).resolve().parents[1] / "pylib"))
import c2gallina as C
from vf import core

HDR = "(* GENERATED from %s by translate/c2gallina.py -- do not edit *)\nFrom L60870 Require Import Base.CInt%s.\nLocal Open Scope Z_scope.\nLocal Open Scope bool_scope.\n\n"

def gen():
    L = core.LIBROOT
    inc = [str(L / i) for i in core.INCLUDES]
    meta = {}
    # --- cpXXtime2a.c
    ast = C.load_ast(L / "src/iec60870/apl/cpXXtime2a.c", inc)
    tr = C.Translator(ast, mainfile="cpXXtime2a.c")
    names = [n for n in tr.funcs if not n.endswith("_getEncodedValue") and not n.endswith("_create")
             and n not in ("CP56Time2a_createFromMsTimestamp",) and not n.endswith("_getFromBuffer")]
    txt = HDR % ("src/iec60870/apl/cpXXtime2a.c", " Time.Civil") + tr.emit(names)
    core.write_if_changed(core.COQ / "gen" / "GenTime.v", txt)
    meta["time"] = tr.meta()
    # --- cs101_bcr.c
    ast = C.load_ast(L / "src/iec60870/cs101/cs101_bcr.c", inc)
    tr = C.Translator(ast, mainfile="cs101_bcr.c")
    names = [n for n in tr.funcs if n.startswith("BinaryCounterReading_") and not n.endswith("_create") and not n.endswith("_destroy")]
    txt = HDR % ("src/iec60870/cs101/cs101_bcr.c", "") + tr.emit(names)
    core.write_if_changed(core.COQ / "gen" / "GenBcr.v", txt)
    meta["bcr"] = tr.meta()
    # --- information objects: packed status + scaled value
    ast = C.load_ast(L / "src/iec60870/cs101/cs101_information_objects.c", inc)
    tr = C.Translator(ast)
    names = [n for n in tr.funcs if n.startswith("SingleEvent_") or n.startswith("StatusAndStatusChangeDetection_")] + \
            ["getScaledValue", "setScaledValue"]
    names = [n for n in names if n in tr.funcs]
    txt = HDR % ("src/iec60870/cs101/cs101_information_objects.c", "") + tr.emit(names)
    core.write_if_changed(core.COQ / "gen" / "GenIO.v", txt)
    meta["io"] = tr.meta()
    tr2 = C.Translator(ast)
    fl = [n for n in ("normalizedToScaled", "scaledToNormalized", "NormalizedValue_fromScaled", "NormalizedValue_toScaled") if n in tr2.funcs]
    txt = HDR % ("src/iec60870/cs101/cs101_information_objects.c", " Time.FloatPrims") + tr2.emit(fl)
    core.write_if_changed(core.COQ / "gen" / "GenFloat.v", txt)
    meta["float"] = tr2.meta()
    (core.CACHE).mkdir(exist_ok=True)
    (core.CACHE / "gen_c19_meta.json").write_text(json.dumps(meta, indent=1, default=list))
    return meta

if __name__ == "__main__":
    m = gen()
    for grp, d in m.items():
        for n, i in d.items():
            if "unrec" in i:
                print("UNREC", grp, n, i["unrec"])
