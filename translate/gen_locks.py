#!/usr/bin/env python3
"""Regenerate coq/gen/LockProgram.v (+ LockKnown.v) from /repo's working tree  (C17).

translate/locks.py produces the skeletons; this file (1) infers the CERTIFICATES the Coq checker verifies
-- per function the contract (lock required on entry / held on exit, classes possibly acquired), the set of classes the
public API may acquire, and the lock ranking -- with a Python mirror of the checker, and (2) prints everything as Gallina
data.  Nothing decided here is trusted: Locks/Checker.v re-checks every function against these certificates inside Coq."""
import json, re, sys
from pathlib import Path
sys.path.insert(0, str(Path(__file__).resolve().parent))
sys.path.insert(0, str(Path(__file__).resolve().parents[1] / "pylib"))
import locks as LK
from vf import core

FILES = ["src/iec60870/cs104/cs104_slave.c", "src/iec60870/cs104/cs104_connection.c", "src/iec60870/cs101/cs101_queue.c",
         "src/iec60870/cs101/cs101_slave.c", "src/iec60870/cs101/cs101_master.c", "src/iec60870/link_layer/link_layer.c"]
HAL_LEAF = re.compile(r"^(Hal_|Handleset_|Socket_|ServerSocket_|TcpServerSocket_|TcpSocket_|Thread_|Semaphore_create$|Semaphore_destroy$|SerialPort_|TLS)")
OBSERVERS = {"rawMessageHandler"}    # debugging taps: documented "for debugging purposes"; modelled as not calling back into the API (reported separately)
LIBC = {"memcpy", "memset", "memmove", "strchr", "strcpy", "strdup", "strlen", "strncpy", "strtoul", "strcmp", "strncmp", "printf", "snprintf",
        "malloc", "calloc", "free", "realloc", "abs", "atoi", "strtol"}


# ------------------------------------------------------------------ Python mirror of Locks/Checker.v (for inference + messages)

class Mirror:
    def __init__(self, fns, externals):
        self.fns = fns
        self.ext = externals
        self.contract = {q: dict(pre=None, post=None, acq=set()) for q in fns}
        self.api_acq = set()
        self.rank = {}
        self.observed = []
        self.core = {}
        self.obs = {}

    def rk(self, c):
        return self.rank.get(c, 0)

    @staticmethod
    def subst(params, args, l):
        cls, root, path = l
        if root not in params:
            return None
        i = params.index(root)
        if i >= len(args) or args[i] is None:
            return None
        a = args[i]
        return (cls, a[0], tuple(a[1]) + tuple(path))

    def join(self, x, y, errs, where):
        if x is None:
            return y
        if y is None:
            return x
        if x != y:
            errs.append(("join", "paths join with different locks held: %s vs %s" % (fmt_state(x), fmt_state(y)), where))
        return x

    def merge(self, a, b, errs, where):
        return {k: self.join(a[k], b[k], errs, where) for k in "NRBCG"}

    def check(self, q, s, A, errs, edges, strict_order=True):
        """returns res dict; A tuple of locks (newest first)"""
        k = s[0]
        none = dict(N=None, R=None, B=None, C=None, G=None)
        if k == "Skip":
            return dict(none, N=A)
        if k == "Seq":
            ra = self.check(q, s[1], A, errs, edges)
            if ra["N"] is None:
                return ra
            rb = self.check(q, s[2], ra["N"], errs, edges)
            return self.merge(dict(ra, N=None), rb, errs, "seq")
        if k == "If":
            return self.merge(self.check(q, s[1], A, errs, edges), self.check(q, s[2], A, errs, edges), errs, "if")
        if k == "Loop":
            r = self.check(q, s[1], A, errs, edges)
            for kk in "NC":
                if r[kk] is not None and r[kk] != A:
                    errs.append(("loop", "loop body changes the set of held locks: %s -> %s" % (fmt_state(A), fmt_state(r[kk])), "loop"))
            return dict(N=r["B"], R=r["R"], B=None, C=None, G=r["G"])
        if k == "BrkScope":
            r = self.check(q, s[1], A, errs, edges)
            return dict(r, N=self.join(r["N"], r["B"], errs, "switch"), B=None)
        if k == "ContScope":
            r = self.check(q, s[1], A, errs, edges)
            return dict(r, N=self.join(r["N"], r["C"], errs, "loop body"), C=None)
        if k == "Block":
            r = self.check(q, s[1], A, errs, edges)
            ent = self.join(r["N"], r["G"], errs, "label")
            if ent is None:
                return dict(r, N=None, G=None)
            re_ = self.check(q, s[2], ent, errs, edges)
            return self.merge(dict(r, N=None, G=None), re_, errs, "epilogue")
        if k == "Wait":
            l = (s[1][0], s[1][1], tuple(s[1][2]))
            for h in A:
                edges.append((h[0], l[0], q, "wait"))
                if h[0] == l[0]:
                    errs.append(("self", "wait on %s while a lock of the same class is held (self-deadlock when the objects coincide)" % fmt_lock(l), l[0]))
            return dict(none, N=(l,) + A)
        if k == "Post":
            l = (s[1][0], s[1][1], tuple(s[1][2]))
            if l in A:
                i = A.index(l)
                return dict(none, N=A[:i] + A[i + 1:])
            errs.append(("post", "post without matching wait: %s (held: %s)" % (fmt_lock(l), fmt_state(A)), l))
            return dict(none, N=A)
        if k == "Call":
            f, args = s[1], s[2]
            if f not in self.fns:
                return dict(none, N=A)
            d = self.fns[f]
            c = self.contract[f]
            rest = A
            if c["pre"] is not None:
                l2 = self.subst(d["params"], args, c["pre"])
                if l2 is None or l2 not in rest:
                    errs.append(("callpre", "lock required by %s is not held here: %s" % (f, fmt_lock(l2) if l2 else "?"), f))
                else:
                    i = rest.index(l2)
                    rest = rest[:i] + rest[i + 1:]
            for h in rest:
                for cc in c["acq"]:
                    edges.append((h[0], cc, q, "call " + f if cc in self.core.get(f, ()) else "cbcall " + f))
            if rest:
                for kind in self.obs.get(f, ()):
                    self.observed.append((q, kind, rest))
            if c["post"] is not None:
                l2 = self.subst(d["params"], args, c["post"])
                if l2 is None:
                    errs.append(("callpost", "cannot name the lock returned by %s" % f, f))
                else:
                    rest = (l2,) + rest
            return dict(none, N=rest)
        if k == "Callback":
            for h in A:
                for cc in self.api_acq:
                    edges.append((h[0], cc, q, "cb " + s[1]))
            if A:
                errs.append(("cb", "callback %s invoked while holding %s" % (s[1], fmt_state(A)), s[1]))
            return dict(none, N=A)
        if k == "Observer":
            if A:
                self.observed.append((q, s[1], A))
            return dict(none, N=A)
        if k == "Assign":
            for h in A:
                if h[1] == s[1]:
                    errs.append(("assign", "receiver variable %s re-assigned while %s is held" % (s[1], fmt_lock(h)), s[1]))
            return dict(none, N=A)
        if k == "Return":
            return dict(none, R=A)
        if k == "Break":
            return dict(none, B=A)
        if k == "Continue":
            return dict(none, C=A)
        if k == "Goto":
            return dict(none, G=A)
        if k == "Unrecognised":
            errs.append(("unrec", "unrecognised: " + s[1], s[1]))
            return dict(none, N=A)
        raise ValueError(k)

    def run_fn(self, q, pre):
        errs, edges = [], []
        A0 = (pre,) if pre else ()
        r = self.check(q, self.fns[q]["body"], A0, errs, edges)
        exits = [x for x in (r["N"], r["R"]) if x is not None]
        return r, exits, errs, edges


def fmt_lock(l):
    return "%s[%s%s]" % (l[0], l[1], "".join("->" + x for x in l[2]))


def fmt_state(A):
    return "{" + ", ".join(fmt_lock(l) for l in A) + "}"


def callees(s):
    for n in LK.walk(s):
        if n[0] == "Call":
            yield n[1]


def infer(fns, externals):
    m = Mirror(fns, externals)
    # callee-first order
    order, seen = [], set()

    def dfs(q):
        stack = [(q, iter(sorted(set(c for c in callees(fns[q]["body"]) if c in fns))))]
        seen.add(q)
        while stack:
            node, it = stack[-1]
            adv = False
            for c in it:
                if c not in seen:
                    seen.add(c)
                    stack.append((c, iter(sorted(set(x for x in callees(fns[c]["body"]) if x in fns)))))
                    adv = True
                    break
            if not adv:
                order.append(node)
                stack.pop()
    for q in sorted(fns):
        if q not in seen:
            dfs(q)
    # contracts
    for q in order:
        d = fns[q]
        r, exits, errs, _ = m.run_fn(q, None)
        pre = None
        posts = [e for e in errs if e[0] == "post"]
        if posts and isinstance(posts[0][2], tuple) and posts[0][2][1] in d["params"]:
            r2, exits2, errs2, _ = m.run_fn(q, posts[0][2])
            if len(errs2) < len(errs):          # fewer complaints when the lock is assumed held on entry: unlock wrapper / called-with-lock-held
                pre = posts[0][2]
                r, exits, errs = r2, exits2, errs2
        post = None
        if exits and all(e == exits[0] for e in exits) and len(exits[0]) == 1 and exits[0][0][1] in d["params"] and not [e for e in errs if e[0] in ("post", "join", "loop")]:
            post = exits[0][0]
        m.contract[q]["pre"], m.contract[q]["post"] = pre, post
    # acquired classes: least fixpoint, api_acq included through callbacks
    own = {q: set(n[1][0] for n in LK.walk(fns[q]["body"]) if n[0] == "Wait") for q in fns}
    hascb = {q: any(n[0] == "Callback" for n in LK.walk(fns[q]["body"])) for q in fns}
    cal = {q: set(c for c in callees(fns[q]["body"]) if c in fns) for q in fns}
    acq = {q: set(own[q]) for q in fns}
    api = set()
    changed = True
    while changed:
        changed = False
        for q in order:
            new = set(acq[q])
            for c in cal[q]:
                new |= acq[c]
            if hascb[q]:
                new |= api
            if new != acq[q]:
                acq[q] = new
                changed = True
        napi = set()
        for q in fns:
            if fns[q]["public"] and m.contract[q]["pre"] is None and m.contract[q]["post"] is None:
                napi |= acq[q]
        if napi != api:
            api = napi
            changed = True
    core_acq = {q: set(own[q]) for q in fns}
    changed = True
    while changed:
        changed = False
        for q in order:
            new = set(core_acq[q])
            for c in cal[q]:
                new |= core_acq[c]
            if new != core_acq[q]:
                core_acq[q] = new
                changed = True
    obs = {q: set(n[1] for n in LK.walk(fns[q]["body"]) if n[0] == "Observer") for q in fns}
    changed = True
    while changed:
        changed = False
        for q in order:
            new = set(obs[q])
            for c in cal[q]:
                new |= obs[c]
            if new != obs[q]:
                obs[q] = new
                changed = True
    for q in fns:
        m.contract[q]["acq"] = acq[q]
    m.api_acq = api
    m.core = core_acq
    m.obs = obs
    # ranking from the held-while-acquiring edges
    alledges = []
    m.observed = []
    for q in fns:
        _, _, _, edges = m.run_fn(q, m.contract[q]["pre"])
        alledges += edges
    m.observed_final = list(m.observed)
    classes = sorted(set(c for q in fns for c in acq[q]) | set(e[0] for e in alledges) | set(e[1] for e in alledges))
    graph = {c: set() for c in classes}
    blame = {}
    for a, b, q, why in alledges:
        blame.setdefault((a, b), set()).add(q)
        if a != b and not why.startswith("cb"):       # the order is taken from real nestings; callbacks under locks are judged against it
            graph[a].add(b)
    # break cycles: drop the edges contributed by the fewest functions until acyclic (those functions will fail the Coq check)
    dropped = []
    while True:
        cyc = find_cycle(graph)
        if not cyc:
            break
        pairs = list(zip(cyc, cyc[1:] + cyc[:1]))
        a, b = min(pairs, key=lambda e: (len(blame.get(e, ())), e))
        graph[a].discard(b)
        dropped.append((a, b))
    rank = {}
    for c in topo(graph):
        rank[c] = 1 + max([rank[a] for a in graph if c in graph[a]] + [0])
    m.rank = rank
    m.edges = sorted(set((a, b) for a, b, _, _ in alledges))
    m.dropped = dropped
    m.blame = blame
    m.order = order
    return m


def find_cycle(g):
    color = {}
    for s0 in sorted(g):
        if s0 in color:
            continue
        stack = [(s0, iter(sorted(g[s0])))]
        color[s0] = 1
        path = [s0]
        while stack:
            n, it = stack[-1]
            adv = False
            for c in it:
                if color.get(c) == 1:
                    return path[path.index(c):]
                if c not in color:
                    color[c] = 1
                    path.append(c)
                    stack.append((c, iter(sorted(g[c]))))
                    adv = True
                    break
            if not adv:
                color[n] = 2
                stack.pop()
                path.pop()
    return None


def topo(g):
    indeg = {c: 0 for c in g}
    for a in g:
        for b in g[a]:
            indeg[b] += 1
    out, ready = [], sorted(c for c in g if indeg[c] == 0)
    while ready:
        c = ready.pop(0)
        out.append(c)
        for b in sorted(g[c]):
            indeg[b] -= 1
            if indeg[b] == 0:
                ready.append(b)
    return out



# ------------------------------------------------------------------ path witnesses (mirror of Locks/PathRun.v)

FUEL = 4000


class Walker:
    """Python twin of PathRun.run with const_env (every receiver denotes object 0, so an instance is its class)."""

    def __init__(self, fns, names, externals, rank):
        self.fns, self.names, self.ext, self.rank = fns, names, externals, rank

    def run(self, fuel, s, ch):
        """returns (trace, kind, rest-of-choices) or None; trace = [('A'|'R', cls)]"""
        if fuel == 0:
            return None
        n = fuel - 1
        k = s[0]
        if k in ("Skip", "Assign", "Observer"):
            return ([], "N", ch)
        if k == "Seq":
            a = self.run(n, s[1], ch)
            if a is None or a[1] != "N":
                return a
            b = self.run(n, s[2], a[2])
            return None if b is None else (a[0] + b[0], b[1], b[2])
        if k == "If":
            if not ch:
                return ([], "X", [])
            return self.run(n, s[1] if ch[0] == 0 else s[2], ch[1:])
        if k == "Loop":
            a = self.run(n, s[1], ch)
            if a is None:
                return None
            if a[1] in ("N", "C"):
                b = self.run(n, s, a[2])
                return None if b is None else (a[0] + b[0], b[1], b[2])
            if a[1] == "B":
                return (a[0], "N", a[2])
            return a
        if k in ("BrkScope", "ContScope"):
            a = self.run(n, s[1], ch)
            if a is not None and a[1] == ("B" if k == "BrkScope" else "C"):
                return (a[0], "N", a[2])
            return a
        if k == "Block":
            a = self.run(n, s[1], ch)
            if a is None or a[1] not in ("N", "G"):
                return a
            b = self.run(n, s[2], a[2])
            return None if b is None else (a[0] + b[0], b[1], b[2])
        if k == "Wait":
            return ([("A", s[1][0])], "N", ch)
        if k == "Post":
            return ([("R", s[1][0])], "N", ch)
        if k in ("Return", "Break", "Continue", "Goto"):
            return ([], {"Return": "R", "Break": "B", "Continue": "C", "Goto": "G"}[k], ch)
        if k == "Call":
            if s[1] not in self.fns:
                return ([], "N", ch) if s[1] in self.ext else None
            a = self.run(n, self.fns[s[1]]["body"], ch)
            if a is None:
                return None
            if a[1] in ("N", "R"):
                return (a[0], "N", a[2])
            if a[1] == "X":
                return (a[0], "X", a[2])
            return None
        if k == "Callback":
            if not ch:
                return ([], "X", [])
            if ch[0] == 0:
                return ([], "N", ch[1:])
            i = ch[0] - 1
            if i >= len(self.names):
                return None
            d = self.fns[self.names[i]]
            if not (d["public"] and d["_pre"] is None and d["_post"] is None):
                return None
            a = self.run(n, d["body"], ch[1:])
            if a is None:
                return None
            if a[1] in ("N", "R"):
                b = self.run(n, s, a[2])
                return None if b is None else (a[0] + b[0], b[1], b[2])
            if a[1] == "X":
                return (a[0], "X", a[2])
            return None
        return None

    def violates(self, res):
        if res is None:
            return False
        tr, k, _ = res
        H = []
        for op, c in tr:
            if op == "A":
                if not all(self.rank.get(h, 0) < self.rank.get(c, 0) for h in H):
                    return True
                H.insert(0, c)
            else:
                if c not in H:
                    return True
                H.remove(c)
        return k in ("N", "R") and bool(H)

    # ---- choice lists that steer to a given node
    def complete(self, s, want, depth=0):
        """choices that make s end with one of the kinds in `want`; None when impossible (bounded)"""
        k = s[0]
        if depth > 40:
            return None
        if k in ("Skip", "Assign", "Observer", "Wait", "Post"):
            return [] if "N" in want else None
        if k in ("Return", "Break", "Continue", "Goto"):
            return [] if {"Return": "R", "Break": "B", "Continue": "C", "Goto": "G"}[k] in want else None
        if k == "Call":
            if "N" not in want:
                return None
            if s[1] not in self.fns:
                return []
            return self.complete(self.fns[s[1]]["body"], {"N", "R"}, depth + 1)
        if k == "Callback":
            return [0] if "N" in want else None
        if k == "Seq":
            other = want - {"N"}
            if other:
                a = self.complete(s[1], other, depth + 1)
                if a is not None:
                    return a
            a = self.complete(s[1], {"N"}, depth + 1)
            if a is None:
                return None
            b = self.complete(s[2], want, depth + 1)
            return None if b is None else a + b
        if k == "If":
            a = self.complete(s[1], want, depth + 1)
            if a is not None:
                return [0] + a
            b = self.complete(s[2], want, depth + 1)
            return None if b is None else [1] + b
        if k == "Loop":
            w = set()
            if "N" in want:
                w.add("B")
            w |= want & {"R", "G"}
            return self.complete(s[1], w, depth + 1) if w else None
        if k in ("BrkScope", "ContScope"):
            inner = "B" if k == "BrkScope" else "C"
            w = set(want) - {inner}
            if "N" in want:
                w.add(inner)
            return self.complete(s[1], w, depth + 1) if w else None
        if k == "Block":
            direct = want - {"N", "G"}
            if direct:
                a = self.complete(s[1], direct, depth + 1)
                if a is not None:
                    return a
            a = self.complete(s[1], {"N", "G"}, depth + 1)
            if a is None:
                return None
            b = self.complete(s[2], want, depth + 1)
            return None if b is None else a + b
        return None

    def reach(self, s, pred, depth=0):
        """choices after which the walk has just executed a node satisfying pred (descending into callees); or None"""
        k = s[0]
        if depth > 12:
            return None
        if pred(s):
            return self.complete(s, {"N", "R", "B", "C", "G"}, 0) if k in ("Return",) else []
        if k == "Call" and s[1] in self.fns:
            return self.reach(self.fns[s[1]]["body"], pred, depth + 1)
        if k == "Seq":
            a = self.reach(s[1], pred, depth)
            if a is not None:
                return a
            pre = self.complete(s[1], {"N"})
            if pre is None:
                return None
            b = self.reach(s[2], pred, depth)
            return None if b is None else pre + b
        if k == "If":
            a = self.reach(s[1], pred, depth)
            if a is not None:
                return [0] + a
            b = self.reach(s[2], pred, depth)
            return None if b is None else [1] + b
        if k in ("Loop", "BrkScope", "ContScope"):
            return self.reach(s[1], pred, depth)
        if k == "Block":
            a = self.reach(s[1], pred, depth)
            if a is not None:
                return a
            pre = self.complete(s[1], {"N", "G"})
            if pre is None:
                return None
            b = self.reach(s[2], pred, depth)
            return None if b is None else pre + b
        return None


def find_witness(fns, names, externals, m, q):
    """a choice list whose walk through q violates the discipline (checked again by Coq: violates ... = true)"""
    for n in fns:
        fns[n]["_pre"], fns[n]["_post"] = m.contract[n]["pre"], m.contract[n]["post"]
    w = Walker(fns, names, externals, m.rank)
    body = fns[q]["body"]
    sites = []

    def collect(s, depth, seen):
        for n in LK.walk(s):
            if n[0] in ("Post", "Wait", "Callback", "Return"):
                sites.append(n)
            elif n[0] == "Call" and n[1] in fns and depth < 3 and n[1] not in seen:
                collect(fns[n[1]]["body"], depth + 1, seen | {n[1]})
    collect(body, 0, {q})
    own = set(id(n) for n in LK.walk(body))
    prio = {"Post": 0, "Wait": 1, "Return": 2, "Callback": 3}
    sites.sort(key=lambda n: (0 if id(n) in own else 1, prio[n[0]]))
    api = [i for i, n in enumerate(names) if fns[n]["public"] and m.contract[n]["pre"] is None and m.contract[n]["post"] is None]
    tried = 0
    for site in sites:
        ch = w.reach(body, lambda x, site=site: x is site)
        if ch is None:
            continue
        cands = [ch]
        if site[0] == "Callback":
            for i in api:
                for cls in sorted(m.contract[names[i]]["acq"]):
                    inner = w.reach(fns[names[i]]["body"], lambda x, cls=cls: x[0] == "Wait" and x[1][0] == cls)
                    if inner is not None:
                        cands.append(ch + [i + 1] + inner)
        for c in cands:
            tried += 1
            if tried > 4000:
                return None
            r = w.run(FUEL, body, list(c))
            if w.violates(r):
                return dict(choices=c, fuel=FUEL, trace=["%s %s" % ("wait" if o == "A" else "post", cl) for o, cl in r[0]], end=r[1])
    return None

# ------------------------------------------------------------------ Gallina printer

def cstr(s):
    return '"' + str(s).replace('"', '""') + '"'


def clist(xs):
    return "[" + "; ".join(xs) + "]"


def crecv(r):
    return "(mkR %s %s)" % (cstr(r[0]), clist(cstr(x) for x in r[1]))


def clock(l):
    return "(mkL %s (mkR %s %s))" % (cstr(l[0]), cstr(l[1]), clist(cstr(x) for x in l[2]))


def cstmt(s):
    k = s[0]
    if k in ("Skip", "Return", "Break", "Continue", "Goto"):
        return k
    if k in ("Seq", "If", "Block"):
        return "(%s %s %s)" % (k, cstmt(s[1]), cstmt(s[2]))
    if k in ("Loop", "BrkScope", "ContScope"):
        return "(%s %s)" % (k, cstmt(s[1]))
    if k in ("Wait", "Post"):
        return "(%s %s)" % (k, clock(s[1]))
    if k == "Call":
        return "(Call %s %s)" % (cstr(s[1]), clist("None" if a is None else "(Some %s)" % crecv(a) for a in s[2]))
    if k in ("Callback", "Observer", "Assign", "Unrecognised"):
        return "(%s %s)" % (k, cstr(s[1]))
    raise ValueError(k)


def ident(q):
    return "f_" + re.sub(r"[^A-Za-z0-9_]", "_", q)


def prune_args(fns, m):
    """keep a call argument only where the callee's contract names a lock through that parameter; then keep Assign only
    for variables that still name something (lock receivers, kept arguments)"""
    need = {}
    for q, c in m.contract.items():
        idx = set()
        for l in (c["pre"], c["post"]):
            if l is not None and l[1] in fns[q]["params"]:
                idx.add(fns[q]["params"].index(l[1]))
        need[q] = idx

    def rw(s):
        k = s[0]
        if k == "Call":
            idx = need.get(s[1], set())
            if not idx:
                return ("Call", s[1], [])
            return ("Call", s[1], [a if i in idx else None for i, a in enumerate(s[2])][:max(idx) + 1])
        if k in ("Seq", "If", "Block"):
            return (k, rw(s[1]), rw(s[2]))
        if k in ("Loop", "BrkScope", "ContScope"):
            return (k, rw(s[1]))
        return s

    def prune(s, roots):
        k = s[0]
        if k == "Assign":
            return s if s[1] in roots else LK.SKIP
        if k == "Seq":
            return LK.seq(prune(s[1], roots), prune(s[2], roots))
        if k == "If":
            a, b = prune(s[1], roots), prune(s[2], roots)
            return LK.SKIP if (a == LK.SKIP and b == LK.SKIP) else LK.simp(("If", a, b))
        if k in ("Loop", "BrkScope", "ContScope"):
            return LK.simp((k, prune(s[1], roots)))
        if k == "Block":
            return ("Block", prune(s[1], roots), prune(s[2], roots))
        if k == "Unrecognised" and s[1].startswith("address of receiver variable taken: "):
            bad = set(s[1].split(": ", 1)[1].split(",")) & roots
            return ("Unrecognised", "address of receiver variable taken: " + ",".join(sorted(bad))) if bad else LK.SKIP
        return s
    for q, d in fns.items():
        b = rw(d["body"])
        roots = set()
        for n in LK.walk(b):
            if n[0] in ("Wait", "Post"):
                roots.add(n[1][1])
            elif n[0] == "Call":
                roots |= set(a[0] for a in n[2] if a)
        d["body"] = prune(b, roots)


def translate():
    L = core.LIBROOT
    inc = [L / i for i in core.INCLUDES]
    units = [LK.Unit(L / f, inc) for f in FILES]
    api = set()
    for h in sorted((L / "src/inc/api").glob("*.h")):
        api |= set(re.findall(r"\b([A-Za-z_]\w*)\s*\(", h.read_text()))
    tr = LK.Translator(units, api, OBSERVERS)
    fns = tr.run()
    return tr, fns


def classify_externals(tr):
    """where every external comes from; lib60870 functions outside the analysed files must live in a file that neither
    mentions Semaphore_ nor calls an analysed function (so they are leaves for this analysis)"""
    L = core.LIBROOT
    analysed = set(Path(f).name for f in FILES)
    others = [L / s for s in core.LIB_SOURCES if Path(s).name not in analysed]
    defined = {}
    texts = {}
    for p in others:
        t = p.read_text(errors="replace")
        texts[p.name] = t
        for mm in re.finditer(r"^([A-Za-z_]\w*)\s*\(", t, flags=re.M):
            defined.setdefault(mm.group(1), p.name)
    analysed_names = set(d["cname"] for d in tr.out.values() if not d["static"])
    dirty = {}
    for name, t in texts.items():
        why = []
        if "Semaphore_" in t:
            why.append("uses Semaphore_")
        used = sorted(n for n in analysed_names if re.search(r"\b%s\s*\(" % re.escape(n), t))
        if used:
            why.append("calls analysed functions: " + ",".join(used[:4]))
        if why:
            dirty[name] = "; ".join(why)
    res = {}
    for e in sorted(tr.externals):
        if HAL_LEAF.match(e):
            res[e] = "hal"
        elif e in LIBC:
            res[e] = "libc"
        elif e in defined:
            res[e] = "lib:%s" % defined[e] + (" DIRTY(%s)" % dirty[defined[e]] if defined[e] in dirty else "")
        else:
            res[e] = "unknown"
    return res


def check_primitive():
    """thread_linux.c: Semaphore_* are thin wrappers over a counting POSIX semaphore (no owner, no error on over-post)"""
    t = (core.LIBROOT / "src/hal/thread/linux/thread_linux.c").read_text()

    def body(name):
        mm = re.search(r"^%s\s*\([^)]*\)\s*\{(.*?)^\}" % name, t, flags=re.M | re.S)
        return mm.group(1) if mm else ""
    return dict(create="sem_init" in body("Semaphore_create"), wait=body("Semaphore_wait").count("sem_wait") == 1,
                post=body("Semaphore_post").count("sem_post") == 1)


def known_rows():
    rows = []
    kf = core.VERIF / "known_findings.jsonl"
    if kf.exists():
        for line in kf.read_text().splitlines():
            line = line.strip()
            if not line or line.startswith("#"):
                continue
            d = json.loads(line)
            if d.get("property") == "C17" and d.get("status") == "open":
                for f in d.get("functions", []):
                    if f not in rows:
                        rows.append(f)
    return rows


def gen():
    tr, fns = translate()
    ext = classify_externals(tr)
    m = infer(fns, tr.externals)
    prune_args(fns, m)
    m2 = infer(fns, tr.externals)       # same certificates on the pruned skeletons (ranking / contracts do not depend on dropped args)
    m2.contract = m2.contract
    m = m2
    out = ["(* GENERATED from %s by translate/locks.py + gen_locks.py -- do not edit *)" % ", ".join(FILES),
           "From Coq Require Import String List.", "From L60870 Require Import Locks.Skeleton.", "Import ListNotations.",
           "Local Open Scope string_scope.", ""]
    names = []
    for q in sorted(fns):
        d, c = fns[q], m.contract[q]
        names.append(ident(q))
        out.append("(* %s  %s:%s *)" % (q, d["file"], d["line"]))
        out.append("Definition %s : fn := mkFn %s %s %s %s %s %s\n  %s." % (
            ident(q), cstr(q), clist(cstr(x) for x in d["params"]), "true" if d["public"] else "false",
            "None" if c["pre"] is None else "(Some %s)" % clock(c["pre"]), "None" if c["post"] is None else "(Some %s)" % clock(c["post"]),
            clist(cstr(x) for x in sorted(c["acq"])), cstmt(d["body"])))
    out.append("")
    out.append("Definition program : program := mkProg\n  %s\n  %s\n  %s\n  %s." % (
        clist(names), clist(cstr(e) for e in sorted(tr.externals)),
        clist("(%s, %d)" % (cstr(c), r) for c, r in sorted(m.rank.items(), key=lambda x: (x[1], x[0]))),
        clist(cstr(c) for c in sorted(m.api_acq))))
    out.append("Definition thread_roots : list string := %s." % clist(cstr(x) for x in sorted(tr.thread_roots)))
    core.write_if_changed(core.COQ / "gen" / "LockProgram.v", "\n".join(out) + "\n")
    rows = known_rows()
    core.write_if_changed(core.COQ / "gen" / "LockKnown.v",
                          "(* GENERATED from known_findings.jsonl (open C17 entries, field \"functions\") -- do not edit *)\n"
                          "From Coq Require Import String List.\nImport ListNotations.\nLocal Open Scope string_scope.\n"
                          "Definition known : list string := %s.\n" % clist(cstr(r) for r in rows))
    # witnesses for every function the mirror (or the ranking) rejects; Coq re-checks each by vm_compute
    sorted_names = sorted(fns)
    bad = []
    for q in sorted_names:
        c = m.contract[q]
        _, exits, errs, edges = m.run_fn(q, c["pre"])
        postl = (c["post"],) if c["post"] else ()
        order_bad = any(m.rank.get(a, 0) >= m.rank.get(b, 0) for a, b, _, _ in edges)
        if errs or any(x != postl for x in exits) or order_bad:
            bad.append(q)
    witness = {}
    for q in bad:
        if m.contract[q]["pre"] is None:
            wv = find_witness(fns, sorted_names, tr.externals, m, q)
            if wv:
                witness[q] = wv
    ref = ["(* GENERATED: path witnesses for the functions that violate the lock discipline on this tree -- do not edit *)",
           "From Coq Require Import String List.", "From L60870 Require Import Locks.Skeleton Locks.Checker Locks.PathRun gen.LockProgram.",
           "Import ListNotations.", ""]
    for q, wv in sorted(witness.items()):
        ref.append("(* %s: %s ... ends %s *)" % (q, "; ".join(wv["trace"][-6:]), wv["end"]))
        ref.append("Theorem C17_%s_refuted : exists r tr k r1, exec [] program r (fbody %s) tr k r1 /\\\n"
                   "  (replay (rk program) tr [] = None \\/ exists H, replay (rk program) tr [] = Some H /\\ H <> [] /\\ (k = ONormal \\/ k = ORet)).\n"
                   "Proof. apply (violates_sound program %d %s %s). vm_compute. reflexivity. Qed.\n"
                   % (ident(q)[2:], ident(q), wv["fuel"], ident(q), clist(str(x) for x in wv["choices"])))
    core.write_if_changed(core.COQ / "gen" / "LockRefuted.v", "\n".join(ref) + "\n")
    for n in fns:
        fns[n].pop("_pre", None)
        fns[n].pop("_post", None)
    meta = dict(functions={q: dict(file=d["file"], line=d["line"], public=d["public"], params=d["params"],
                                   pre=m.contract[q]["pre"], post=m.contract[q]["post"], acq=sorted(m.contract[q]["acq"]),
                                   waits=sum(1 for n in LK.walk(d["body"]) if n[0] == "Wait"),
                                   posts=sum(1 for n in LK.walk(d["body"]) if n[0] == "Post"),
                                   callbacks=sorted(set(n[1] for n in LK.walk(d["body"]) if n[0] == "Callback")),
                                   unrec=[n[1] for n in LK.walk(d["body"]) if n[0] == "Unrecognised"]) for q, d in fns.items()},
                externals=ext, thread_roots=sorted(tr.thread_roots), ranks=m.rank, api_acq=sorted(m.api_acq),
                edges=m.edges, dropped_edges=m.dropped, known=rows, primitive=check_primitive(),
                fp_targets={k: sorted(v) for k, v in tr.fp_targets.items()}, fp_unknown=sorted(tr.fp_unknown))
    core.CACHE.mkdir(exist_ok=True)
    (core.CACHE / "gen_locks_meta.json").write_text(json.dumps(meta, indent=1, default=list))
    meta["witness"] = witness
    meta["mirror_bad"] = bad
    (core.CACHE / "gen_locks_meta.json").write_text(json.dumps(meta, indent=1, default=list))
    return dict(meta=meta, fns=fns, mirror=m, witness=witness)


if __name__ == "__main__":
    g = gen()
    m, fns = g["mirror"], g["fns"]
    print("functions", len(fns), "ranks", m.rank, "api_acq", sorted(m.api_acq))
    print("edges", m.edges, "dropped", m.dropped)
    for e, w in g["meta"]["externals"].items():
        if "DIRTY" in w or w == "unknown":
            print("EXTERNAL", e, w)
    for q in sorted(fns):
        c = m.contract[q]
        _, exits, errs, _ = m.run_fn(q, c["pre"])
        postl = (c["post"],) if c["post"] else ()
        bad = [e for e in errs] + [("exit", "path ends holding %s, contract says %s" % (fmt_state(x), fmt_state(postl)), "") for x in exits if x != postl]
        if c["pre"] or c["post"]:
            print("CONTRACT", q, "pre", c["pre"], "post", c["post"])
        for b in bad:
            print("MIRROR", q, b[0], b[1])
