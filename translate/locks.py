#!/usr/bin/env python3
"""locks.py: clang JSON AST -> lock skeletons (C17).

Every function with a body in the analysed files becomes a skeleton

  stmt ::= Skip | Seq s s | If s s | Loop s | BrkScope s | ContScope s | Block s e
         | Wait l | Post l | Call f args | Callback kind | Assign v
         | Return | Break | Continue | Goto | Unrecognised why

  Loop s        = `while (1) s`; leaves through Break (-> normal), Return, Goto
  BrkScope s    = a `switch`: Break inside ends the scope normally
  ContScope s   = body of a `for`/`do` loop: Continue inside ends the scope normally (the increment / condition follows)
  Block s e     = function body `s` followed by the statements `e` after the one label at the end; Goto jumps to `e`
  l             = lock class (struct type . field) + receiver (root variable, field path)
  Call f args   = call of an analysed function; args: receiver expression per parameter where it is one (else None)
  Callback kind = call through a function pointer that the application installs
  Assign v      = the variable v (used as a receiver root somewhere in the function) is (re)assigned

What is never guessed (-> `Unrecognised "<why>"`, which the Coq checker rejects): a Semaphore_wait/post whose argument is
not <receiver>-><field>; goto to anything but the single label at the end of the function body; a label elsewhere;
the address of a receiver root being taken; an array element used as a lock receiver.
Pure transformations done here (and nowhere else): Seq/If with Skip are collapsed; a loop / switch whose body has no
effect and cannot leave the function is replaced by Skip."""
import json, re, subprocess, sys
from pathlib import Path

# ------------------------------------------------------------------ AST helpers

def load_ast(cfile, includes):
    cmd = ["clang", "-fsyntax-only", "-w", "-Xclang", "-ast-dump=json"] + ["-I" + str(i) for i in includes] + [str(cfile)]
    p = subprocess.run(cmd, stdout=subprocess.PIPE, stderr=subprocess.DEVNULL)
    return json.loads(p.stdout)


def strip(n):
    """drop casts / parentheses"""
    while n.get("kind") in ("ImplicitCastExpr", "CStyleCastExpr", "ParenExpr", "ConstantExpr") and n.get("inner"):
        n = n["inner"][-1]
    return n


def qual(n):
    t = n.get("type", {})
    return t.get("desugaredQualType") or t.get("qualType", "")


def struct_name(t):
    t = re.sub(r"\b(const|volatile|struct)\b", "", t).replace("*", "").strip()
    if t.startswith("s") and len(t) > 1 and t[1].isupper():
        t = t[1:]
    return t or "?"


SKIP = ("Skip",)
EFFECT = ("Wait", "Post", "Call", "Callback", "Observer", "Assign", "Unrecognised", "FpCall")


def seq(*xs):
    out = None
    for x in xs:
        if x is None or x == SKIP:
            continue
        out = x if out is None else ("Seq", out, x)
    return out or SKIP


def seql(xs):
    xs = [x for x in xs if x != SKIP]
    if not xs:
        return SKIP
    r = xs[-1]
    for x in reversed(xs[:-1]):
        r = ("Seq", x, r)
    return r


def has_effect(s):
    k = s[0]
    if k in EFFECT:
        return True
    return any(has_effect(c) for c in s[1:] if isinstance(c, tuple) and c and isinstance(c[0], str) and c[0][0].isupper())


def kinds(s):
    """possible outcome kinds of a skeleton (N normal, R return, B break, C continue, G goto)"""
    k = s[0]
    if k in ("Skip", "Wait", "Post", "Call", "Callback", "Observer", "Assign", "Unrecognised", "FpCall"):
        return {"N"}
    if k == "Return":
        return {"R"}
    if k == "Break":
        return {"B"}
    if k == "Continue":
        return {"C"}
    if k == "Goto":
        return {"G"}
    if k == "Seq":
        a = kinds(s[1])
        if "N" in a:
            return (a - {"N"}) | kinds(s[2])
        return a
    if k == "If":
        return kinds(s[1]) | kinds(s[2])
    if k == "Loop":
        b = kinds(s[1])
        return ({"N"} if "B" in b else set()) | (b & {"R", "G"})
    if k == "BrkScope":
        b = kinds(s[1])
        return ({"N"} if b & {"B", "N"} else set()) | (b - {"B", "N"})
    if k == "ContScope":
        b = kinds(s[1])
        return ({"N"} if b & {"C", "N"} else set()) | (b - {"C", "N"})
    if k == "Block":
        a = kinds(s[1])
        r = a - {"N", "G"}
        if a & {"N", "G"}:
            r |= kinds(s[2])
        return r
    raise ValueError(k)


def simp(s):
    """the only semantic simplification: an effect-free construct that can only end normally is Skip"""
    if s[0] in ("Loop", "BrkScope", "ContScope", "If", "Seq") and not has_effect(s) and kinds(s) <= {"N"}:
        return SKIP
    return s


class Unit:
    """one translation unit"""

    def __init__(self, path, includes):
        self.path = Path(path)
        self.stem = self.path.stem
        self.ast = load_ast(path, includes)
        self.funcs = {}       # name -> FunctionDecl (with body) defined in this very file
        self.static = set()
        self.records = {}     # struct name -> [field names]
        self.fp_targets = {}  # field name -> set of function names assigned in this unit
        self.fp_unknown = set()   # fields assigned from something that is not a function
        cur = None
        for n in self.ast.get("inner", []):
            loc = n.get("loc", {})
            f = loc.get("file") or loc.get("spellingLoc", {}).get("file") or loc.get("expansionLoc", {}).get("file")
            if f:
                cur = f
            if n.get("kind") == "RecordDecl" and n.get("name") and n.get("inner"):
                self.records[n["name"]] = [c.get("name") for c in n["inner"] if c.get("kind") == "FieldDecl"]
            if n.get("kind") == "FunctionDecl" and any(c.get("kind") == "CompoundStmt" for c in n.get("inner", [])):
                if cur and Path(cur).name == self.path.name:
                    self.funcs[n["name"]] = n
                    if n.get("storageClass") == "static":
                        self.static.add(n["name"])
            if n.get("kind") == "VarDecl" and cur and Path(cur).name == self.path.name:
                self._vtable_init(n)
        for fn in self.funcs.values():
            self._scan_fp_assign(fn)

    def _vtable_init(self, var):
        rn = re.sub(r"\b(const|static|struct)\b", "", qual(var)).strip()
        fields = self.records.get(rn)
        for c in var.get("inner", []):
            if c.get("kind") == "InitListExpr" and fields:
                for i, e in enumerate(c.get("inner", [])):
                    e = strip(e)
                    if e.get("kind") == "UnaryOperator" and e.get("opcode") == "&":
                        e = strip(e["inner"][0])
                    if e.get("kind") == "DeclRefExpr" and e.get("referencedDecl", {}).get("kind") == "FunctionDecl" and i < len(fields):
                        self.fp_targets.setdefault(fields[i], set()).add(e["referencedDecl"]["name"])

    def _scan_fp_assign(self, n):
        if n.get("kind") == "BinaryOperator" and n.get("opcode") == "=":
            lhs, rhs = strip(n["inner"][0]), strip(n["inner"][1])
            if lhs.get("kind") == "MemberExpr" and "(*)" in qual(lhs):
                if rhs.get("kind") == "UnaryOperator" and rhs.get("opcode") == "&":
                    rhs = strip(rhs["inner"][0])
                if rhs.get("kind") == "DeclRefExpr" and rhs.get("referencedDecl", {}).get("kind") == "FunctionDecl":
                    self.fp_targets.setdefault(lhs["name"], set()).add(rhs["referencedDecl"]["name"])
                elif rhs.get("kind") in ("IntegerLiteral",) or (rhs.get("kind") == "ImplicitCastExpr"):
                    pass     # NULL
                elif rhs.get("kind") == "CStyleCastExpr":
                    pass
                else:
                    if not (rhs.get("kind") == "IntegerLiteral"):
                        self.fp_unknown.add(lhs["name"])
        for c in n.get("inner", []):
            if isinstance(c, dict):
                self._scan_fp_assign(c)


class Translator:
    def __init__(self, units, api_names, observers=()):
        self.units = units
        self.observers = set(observers)
        self.api = api_names
        self.defs = {}            # qualified name -> (unit, FunctionDecl)
        self.globals = {}         # plain name -> qualified name for non-static definitions
        for u in units:
            for name, fd in u.funcs.items():
                q = name if name not in u.static else "%s@%s" % (name, u.stem)
                self.defs[q] = (u, fd)
                if name not in u.static:
                    self.globals[name] = q
        self.fp_targets = {}
        self.fp_unknown = set()
        for u in units:
            for f, ts in u.fp_targets.items():
                for t in ts:
                    q = self.resolve(u, t)
                    if q:
                        self.fp_targets.setdefault(f, set()).add(q)
                    else:
                        self.fp_unknown.add(f)
            self.fp_unknown |= u.fp_unknown
        self.externals = set()
        self.thread_roots = set()
        self.out = {}
        self.unrec = []

    def resolve(self, unit, name):
        if name in unit.funcs:
            return name if name not in unit.static else "%s@%s" % (name, unit.stem)
        return self.globals.get(name)

    # ---------------------------------------------------------------- receivers
    def recv_of(self, e):
        """(root, [path]) of a receiver expression, or None"""
        e = strip(e)
        k = e.get("kind")
        if k == "DeclRefExpr" and e.get("referencedDecl", {}).get("kind") in ("ParmVarDecl", "VarDecl"):
            return (e["referencedDecl"]["name"], [])
        if k == "MemberExpr":
            b = self.recv_of(e["inner"][0])
            if b is None:
                return None
            return (b[0], b[1] + [e.get("name", "?")])
        if k == "UnaryOperator" and e.get("opcode") in ("&", "*"):
            return self.recv_of(e["inner"][0])
        return None

    def has_subscript(self, e):
        e = strip(e)
        if e.get("kind") == "ArraySubscriptExpr":
            return True
        return any(self.has_subscript(c) for c in e.get("inner", []) if isinstance(c, dict)) if e.get("kind") in ("MemberExpr", "UnaryOperator") else False

    def lock_of(self, e):
        e = strip(e)
        if e.get("kind") != "MemberExpr":
            return None, "semaphore argument is not <receiver>-><field>"
        base = e["inner"][0]
        if self.has_subscript(base):
            return None, "array element used as lock receiver"
        r = self.recv_of(base)
        if r is None:
            return None, "lock receiver is not a variable/field path"
        cls = "%s.%s" % (struct_name(qual(strip(base))), e.get("name"))
        return (cls, r[0], r[1]), None

    # ---------------------------------------------------------------- expressions
    def expr(self, e, ctx):
        """skeleton of the side effects of evaluating e (left to right)"""
        if not isinstance(e, dict) or not e:
            return SKIP
        k = e.get("kind")
        if k in ("ImplicitCastExpr", "CStyleCastExpr", "ParenExpr", "ConstantExpr"):
            return self.expr(e["inner"][-1], ctx) if e.get("inner") else SKIP
        if k == "CallExpr":
            return self.call(e, ctx)
        if k == "BinaryOperator" and e.get("opcode") in ("&&", "||"):
            a, b = self.expr(e["inner"][0], ctx), self.expr(e["inner"][1], ctx)
            return seq(a, SKIP if b == SKIP else ("If", b, SKIP))
        if k == "ConditionalOperator":
            c, a, b = (self.expr(x, ctx) for x in e["inner"][:3])
            return seq(c, SKIP if (a == SKIP and b == SKIP) else ("If", a, b))
        if k in ("BinaryOperator", "CompoundAssignOperator") and (e.get("opcode") == "=" or k == "CompoundAssignOperator"):
            lhs = strip(e["inner"][0])
            r = seq(self.expr(e["inner"][1], ctx), self.expr(e["inner"][0], ctx))
            if lhs.get("kind") == "DeclRefExpr" and lhs.get("referencedDecl", {}).get("kind") in ("ParmVarDecl", "VarDecl"):
                r = seq(r, ("Assign", lhs["referencedDecl"]["name"]))
            return r
        if k == "UnaryOperator":
            op = e.get("opcode")
            inner = strip(e["inner"][0])
            if op in ("++", "--") and inner.get("kind") == "DeclRefExpr":
                return ("Assign", inner["referencedDecl"]["name"])
            if op == "&" and inner.get("kind") == "DeclRefExpr" and inner.get("referencedDecl", {}).get("kind") in ("ParmVarDecl", "VarDecl"):
                ctx["addr_taken"].add(inner["referencedDecl"]["name"])
            return self.expr(e["inner"][0], ctx)
        if k == "StmtExpr":
            return self.stmt(e["inner"][0], ctx)
        return seql([self.expr(c, ctx) for c in e.get("inner", []) if isinstance(c, dict)])

    def call(self, e, ctx):
        callee = strip(e["inner"][0])
        args = e["inner"][1:]
        pre = seql([self.expr(a, ctx) for a in args])
        if callee.get("kind") == "DeclRefExpr" and callee.get("referencedDecl", {}).get("kind") == "FunctionDecl":
            name = callee["referencedDecl"]["name"]
            if name in ("Semaphore_wait", "Semaphore_post"):
                l, why = self.lock_of(args[0])
                if l is None:
                    return seq(pre, ("Unrecognised", "%s: %s" % (name, why)))
                ctx["roots"].add(l[1])
                return seq(pre, ("Wait" if name == "Semaphore_wait" else "Post", l))
            # function references handed over as arguments
            frefs = []
            for a in args:
                a = strip(a)
                if a.get("kind") == "UnaryOperator" and a.get("opcode") == "&":
                    a = strip(a["inner"][0])
                if a.get("kind") == "DeclRefExpr" and a.get("referencedDecl", {}).get("kind") == "FunctionDecl":
                    q = self.resolve(ctx["unit"], a["referencedDecl"]["name"])
                    if q:
                        frefs.append(q)
            if name == "Thread_create":
                self.thread_roots |= set(frefs)
                frefs = []
            q = self.resolve(ctx["unit"], name)
            extra = SKIP
            for t in frefs:   # a callee that is given a function may call it any number of times
                extra = seq(extra, ("Loop", ("If", ("Call", t, []), ("Break",))))
            if q is None:
                self.externals.add(name)
                return seq(pre, ("Call", name, []), extra)
            rargs = []
            for a in args:
                r = None if self.has_subscript(a) else self.recv_of(a)
                if r:
                    ctx["roots"].add(r[0])
                rargs.append(r)
            return seq(pre, ("Call", q, rargs), extra)
        # call through a pointer
        kind = None
        if callee.get("kind") == "MemberExpr":
            kind = callee.get("name")
            pre = seq(self.expr(callee["inner"][0], ctx), pre)
        elif callee.get("kind") == "DeclRefExpr":
            kind = callee["referencedDecl"]["name"]
            kind = ctx["fpvars"].get(kind, kind)
        elif callee.get("kind") == "UnaryOperator" and callee.get("opcode") == "*":
            c2 = strip(callee["inner"][0])
            kind = c2.get("name") or c2.get("referencedDecl", {}).get("name")
        if kind is None:
            return seq(pre, ("Unrecognised", "call through an unclassified function pointer expression"))
        ctx["fpcalls"].append(kind)
        return seq(pre, ("FpCall", kind, [None if self.has_subscript(a) else self.recv_of(a) for a in args]))

    # ---------------------------------------------------------------- statements
    def stmt(self, s, ctx):
        if not isinstance(s, dict) or not s:
            return SKIP
        k = s.get("kind")
        inner = s.get("inner", [])
        if k == "CompoundStmt":
            return seql([self.stmt(c, ctx) for c in inner])
        if k == "NullStmt":
            return SKIP
        if k == "DeclStmt":
            out = []
            for d in inner:
                if d.get("kind") == "VarDecl":
                    init = [c for c in d.get("inner", []) if isinstance(c, dict) and c.get("kind") not in (None,) and not c.get("kind", "").endswith("Attr")]
                    if init:
                        out.append(self.expr(init[-1], ctx))
                        i0 = strip(init[-1])
                        if "(*)" in qual(d) and i0.get("kind") == "MemberExpr":
                            ctx["fpvars"][d["name"]] = i0["name"]
                    out.append(("Assign", d["name"]))
            return seql(out)
        if k == "IfStmt":
            c = self.expr(inner[0], ctx)
            a = self.stmt(inner[1], ctx)
            b = self.stmt(inner[2], ctx) if len(inner) > 2 else SKIP
            return seq(c, simp(("If", a, b)) if (a != SKIP or b != SKIP) else SKIP)
        if k == "WhileStmt":
            c = self.expr(inner[0], ctx)
            b = self.stmt(inner[-1], ctx)
            return simp(("Loop", seq(c, ("If", b, ("Break",)))))
        if k == "DoStmt":
            b = self.stmt(inner[0], ctx)
            c = self.expr(inner[1], ctx)
            return simp(("Loop", seq(("ContScope", b) if "C" in kinds(b) else b, c, ("If", SKIP, ("Break",)))))
        if k == "ForStmt":
            init, _, cond, inc, body = (inner + [{}] * 5)[:5]
            i = self.stmt(init, ctx) if init.get("kind") == "DeclStmt" else self.expr(init, ctx)
            c = self.expr(cond, ctx)
            n = self.expr(inc, ctx)
            b = self.stmt(body, ctx)
            b = ("ContScope", b) if "C" in kinds(b) else b
            it = seq(b, n)
            loop = ("Loop", seq(c, ("If", it, ("Break",)))) if cond else ("Loop", it)
            return seq(i, simp(loop))
        if k == "SwitchStmt":
            c = self.expr(inner[0], ctx)
            return seq(c, self.switch(inner[-1], ctx))
        if k == "ReturnStmt":
            return seq(self.expr(inner[0], ctx) if inner else SKIP, ("Return",))
        if k == "BreakStmt":
            return ("Break",)
        if k == "ContinueStmt":
            return ("Continue",)
        if k == "GotoStmt":
            ctx["gotos"].append(s.get("targetLabelDeclId"))
            return ("Goto",)
        if k == "LabelStmt":
            return ("Unrecognised", "label `%s` is not the single label at the end of the function body" % s.get("name"))
        if k in ("CaseStmt", "DefaultStmt"):
            return ("Unrecognised", "case label outside the top level of a switch body")
        return self.expr(s, ctx)

    def switch(self, body, ctx):
        if body.get("kind") != "CompoundStmt":
            return ("Unrecognised", "switch body is not a compound statement")
        groups = []       # [is_default, [stmts]]
        has_default = False
        for c in body.get("inner", []):
            labels = 0
            while c.get("kind") in ("CaseStmt", "DefaultStmt"):
                if c["kind"] == "DefaultStmt":
                    has_default = True
                labels += 1
                c = c["inner"][-1]
            if labels:
                groups.append([])
            if not groups:
                if c.get("kind") == "DeclStmt":
                    continue
                return ("Unrecognised", "statement before the first case label")
            groups[-1].append(self.stmt(c, ctx))
        bodies = [seql(g) for g in groups]
        # entry i runs body i and falls through while the body can end normally
        entries = []
        for i in range(len(bodies)):
            chain = []
            for j in range(i, len(bodies)):
                chain.append(bodies[j])
                if "N" not in kinds(bodies[j]):
                    break
            entries.append(seql(chain))
        # identical consecutive entries (case A: case B:) are already merged; dedupe equal skeletons
        uniq = []
        for en in entries:
            if en not in uniq:
                uniq.append(en)
        if not has_default and SKIP not in uniq:
            uniq.append(SKIP)
        r = uniq[-1]
        for en in reversed(uniq[:-1]):
            r = ("If", en, r)
        return simp(("BrkScope", r))

    # ---------------------------------------------------------------- functions
    def function(self, q):
        unit, fd = self.defs[q]
        params = []
        body = None
        for c in fd.get("inner", []):
            if c.get("kind") == "ParmVarDecl":
                params.append(c.get("name") or "_p%d" % len(params))
            elif c.get("kind") == "CompoundStmt":
                body = c
        ctx = dict(unit=unit, roots=set(), gotos=[], addr_taken=set(), fpvars={}, fpcalls=[])
        items = body.get("inner", [])
        lab = [i for i, c in enumerate(items) if c.get("kind") == "LabelStmt"]
        if len(lab) == 1:
            i = lab[0]
            main = seql([self.stmt(c, ctx) for c in items[:i]])
            ngoto = len(ctx["gotos"])
            first = items[i]["inner"][-1] if items[i].get("inner") else {}
            epi = seql([self.stmt(first, ctx)] + [self.stmt(c, ctx) for c in items[i + 1:]])
            if len(ctx["gotos"]) != ngoto:
                sk = ("Unrecognised", "goto inside the epilogue (backward jump)")
            elif any(g != items[i].get("declId") for g in ctx["gotos"]):
                sk = ("Unrecognised", "goto to a label that is not the one at the end of the body")
            else:
                sk = ("Block", main, epi)
        else:
            sk = seql([self.stmt(c, ctx) for c in items])
            if ctx["gotos"]:
                sk = seq(sk, ("Unrecognised", "goto without a single label at the top level of the function body"))
        bad = ctx["addr_taken"] & ctx["roots"]
        if bad:
            sk = seq(("Unrecognised", "address of receiver variable taken: " + ",".join(sorted(bad))), sk)
        sk = self.prune_assign(sk, ctx["roots"])
        name = fd["name"]
        self.out[q] = dict(name=q, cname=name, file=unit.path.name, line=fd.get("loc", {}).get("line") or fd.get("loc", {}).get("expansionLoc", {}).get("line"),
                           params=params, public=(name not in unit.static and name in self.api), static=name in unit.static, body=sk)

    def prune_assign(self, s, roots):
        """keep Assign only for variables that are receiver roots in this function"""
        k = s[0]
        if k == "Assign":
            return s if s[1] in roots else SKIP
        if k == "Seq":
            return seq(self.prune_assign(s[1], roots), self.prune_assign(s[2], roots))
        if k == "If":
            a, b = self.prune_assign(s[1], roots), self.prune_assign(s[2], roots)
            return SKIP if (a == SKIP and b == SKIP) else simp(("If", a, b))
        if k in ("Loop", "BrkScope", "ContScope"):
            return simp((k, self.prune_assign(s[1], roots)))
        if k == "Block":
            return ("Block", self.prune_assign(s[1], roots), self.prune_assign(s[2], roots))
        return s

    def resolve_fp(self, s):
        """FpCall kind args -> choice of the internal targets assigned to that field, plus Callback when the
        application can install one"""
        k = s[0]
        if k == "FpCall":
            kind, args = s[1], s[2]
            targets = sorted(self.fp_targets.get(kind, ()))
            alts = [("Call", t, args if len(args) == len(self.out[t]["params"]) else []) for t in targets]
            if kind in self.fp_unknown or not targets:
                alts.append(("Observer" if kind in self.observers else "Callback", kind))
            r = alts[-1]
            for a in reversed(alts[:-1]):
                r = ("If", a, r)
            return r
        if k in ("Seq", "If", "Block"):
            return (k, self.resolve_fp(s[1]), self.resolve_fp(s[2]))
        if k in ("Loop", "BrkScope", "ContScope"):
            return (k, self.resolve_fp(s[1]))
        return s

    def run(self):
        for q in self.defs:
            self.function(q)
        for q, f in self.out.items():
            f["body"] = self.resolve_fp(f["body"])
        return self.out


# ------------------------------------------------------------------ inspection helpers

def walk(s):
    yield s
    for c in s[1:]:
        if isinstance(c, tuple) and c and isinstance(c[0], str) and c[0][:1].isupper() and c[0] in (
                "Skip", "Seq", "If", "Loop", "BrkScope", "ContScope", "Block", "Wait", "Post", "Call", "Callback", "Observer", "Assign",
                "Return", "Break", "Continue", "Goto", "Unrecognised", "FpCall"):
            yield from walk(c)


def show(s, ind=0):
    k = s[0]
    p = "  " * ind
    if k in ("Seq",):
        return show(s[1], ind) + "\n" + show(s[2], ind)
    if k in ("If", "Block"):
        return "%s%s {\n%s\n%s} %s {\n%s\n%s}" % (p, k, show(s[1], ind + 1), p, "else" if k == "If" else "epilogue", show(s[2], ind + 1), p)
    if k in ("Loop", "BrkScope", "ContScope"):
        return "%s%s {\n%s\n%s}" % (p, k, show(s[1], ind + 1), p)
    if k in ("Wait", "Post"):
        return "%s%s %s [%s%s]" % (p, k, s[1][0], s[1][1], "".join("->" + x for x in s[1][2]))
    if k == "Call":
        return "%sCall %s(%s)" % (p, s[1], ", ".join("_" if a is None else a[0] + "".join("->" + x for x in a[1]) for a in s[2]))
    return p + " ".join(str(x) for x in s)
