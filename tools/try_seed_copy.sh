#!/bin/bash
# try_seed_copy.sh <patch> <check ids...> : apply a seeded change to a scratch copy of /repo's HEAD (outside /repo and /verif),
# run the checks against that copy (VERIF_REPO), remove the copy.  /repo is not touched, so several can run at once.
P=$1; shift
w=$(mktemp -d /tmp/ts-XXXX)
git -C /repo archive HEAD | tar -x -C $w
if ! (cd $w && patch -p1 -s --no-backup-if-mismatch < $P >/dev/null 2>&1); then echo "PATCH-DOES-NOT-APPLY $P"; rm -rf $w; exit 2; fi
cd /verif
for c in "$@"; do
  out=$(VERIF_REPO=$w timeout 1800 bin/check $c 2>&1); rc=$?
  echo "== $c rc=$rc"; echo "$out" | grep -A1 "^VIOLATION" | cut -c1-330 | head -6
done
rm -rf $w
