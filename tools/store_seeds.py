#!/usr/bin/env python3
"""store_seeds.py <json-file>: copy confirmed seeded changes from /tmp/mut-<ID>/<SEED> to /verif/seeded/<ID>-<n>/
json: {"C01:SEED": [[caught_by...], needs, detection_history], ...}"""
import json, os, shutil, subprocess, sys
info = json.load(open(sys.argv[1]))
for key, (caught, needs, hist) in info.items():
    wt, seed = key.split(":")
    pid = wt.rstrip("bcdefghij")
    n = 1
    while os.path.exists("/verif/seeded/%s-%d" % (pid, n)):
        n += 1
    d = "/verif/seeded/%s-%d" % (pid, n)
    src = "/tmp/mut-%s/%s" % (wt, seed)
    os.makedirs(d + "/demo")
    for f in os.listdir(src):
        p = os.path.join(src, f)
        if os.path.isdir(p) or os.path.getsize(p) > 300000 or f.endswith(".bin"):
            continue
        shutil.copy(p, d if f in ("patch.diff", "README.md", "build_and_run.sh") else d + "/demo")
    log = [l.strip() for l in open("/tmp/mut-%s/verify.log" % wt) if l.startswith(seed + " ")]
    base = subprocess.run(["git", "-C", "/tmp/mut-" + wt, "rev-parse", "--short", "HEAD"], capture_output=True, text=True).stdout.strip()
    json.dump({"breaks": pid, "property": pid, "caught_by": caught, "needs": needs, "detection_history": hist,
               "origin": "independent sub-agent given only the property text and a scratch worktree (/tmp/mut-%s)" % wt, "base_commit": base,
               "confirmed": log, "ran": "tools/verify_seed.sh %s (library built with the change, repo suite under unshare -rn, demonstration with / without the change); tools/try_seed.sh <patch> <checks> (git -C /repo apply; bin/check; git -C /repo checkout -- .)" % pid},
              open(d + "/meta.json", "w"), indent=1)
    print(d, log)
