#!/bin/bash
# verify_seed.sh <ID>  -- confirm the claims of the seeding agent in its own scratch worktree /tmp/mut-<ID>:
#   for SEED and SEED2: library builds with the change, the repo's suite passes with it, the demonstration fails with it
#   and passes without it.  Writes /tmp/mut-<ID>/verify.log
ID=$1; W=/tmp/mut-$ID; L=$W/verify.log; : > $L
cd $W || exit 1
git checkout -q -- lib60870-C/src lib60870-C/config 2>/dev/null
build() { cmake -S $W/lib60870-C -B $W/_b -G Ninja -DCMAKE_BUILD_TYPE=RelWithDebInfo >/dev/null 2>&1; cmake --build $W/_b >/dev/null 2>&1; }
demo() { # $1 = seed dir
  ( cd $W/$1 && timeout 900 bash ./build_and_run.sh >/tmp/demo-$ID.out 2>&1 ); echo $?; }
for S in SEED SEED2; do
  [ -f $W/$S/patch.diff ] || continue
  git checkout -q -- lib60870-C/src lib60870-C/config
  build; r0=$(demo $S)
  echo "$S demo_without_change exit=$r0" >> $L
  git apply $W/$S/patch.diff || { echo "$S patch does not apply" >> $L; continue; }
  build; bo=$?
  r1=$(demo $S)
  echo "$S build_with_change=$bo demo_with_change exit=$r1" >> $L
  ( cd $W/_b/tests && unshare -rn sh -c 'ip link set lo up; timeout 900 ./tests' > $W/suite-$S.log 2>&1 ); echo "$S suite: $(tail -n 3 $W/suite-$S.log | tr '\n' ' ')" >> $L
done
git checkout -q -- lib60870-C/src lib60870-C/config
echo done >> $L
