#!/bin/bash
# coqshow.sh <file.v> <line> : replace line N by `Show. admit.` in a scratch copy and print the goals there
f=$1; n=$2; d=$(mktemp -d /tmp/coqshow.XXXX)
sed "${n}s/.*/  Show. all: admit./" $f > $d/D.v
( cd /verif/coq && timeout 300 coqc -Q /verif/coq L60870 $d/D.v 2>&1 | head -${3:-60} )
rm -rf $d
