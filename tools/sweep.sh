#!/bin/bash
# sweep.sh <tier> <seed...> : run every check with the given VERIF_SEED values (sequentially) and list every VIOLATION line;
# used to hunt false alarms on the unchanged tree.  Evidence files are overwritten: run bin/runall afterwards.
cd /verif; tier=$1; shift
mkdir -p .cache/sweep
for s in "$@"; do
  for id in $(python3 -c "import json; print(' '.join(c['property_id'] for c in json.load(open('MANIFEST.json'))['checks']))"); do
    VERIF_SEED=$s timeout 7200 bin/check $id --tier $tier > .cache/sweep/$id.$tier.$s.log 2>&1; rc=$?
    v=$(grep -c "^VIOLATION" .cache/sweep/$id.$tier.$s.log)
    echo "$(date +%H:%M:%S) seed=$s $id rc=$rc violations=$v"
    grep -A1 "^VIOLATION" .cache/sweep/$id.$tier.$s.log | cut -c1-300
  done
done
