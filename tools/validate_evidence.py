#!/usr/bin/env python3
"""tools/validate_evidence.py [DIR]  --  is every evidence file a valid record of a quiet run on the clean tree?
Checks each evidence/<id>.json against /root/.vp/EVIDENCE.schema.json (when jsonschema is importable) and against the rules
the schema states in words: level == the level claimed in MANIFEST.json, discharged == obligations, no violations, no
model/implementation disagreements, distinct_nontrivial <= evaluations, at least one sample, one file per claimed check.
Run by bin/runall before evidence is committed (a snapshot once carried the evidence of seed trials: DESIGN.md 10.4)."""
import glob, json, os, sys
V = os.path.dirname(os.path.dirname(os.path.abspath(__file__)))
d = sys.argv[1] if len(sys.argv) > 1 else os.path.join(V, "evidence")
try:
    import jsonschema
except ImportError:
    import shutil
    if shutil.which("python3-vt") and not os.environ.get("VALIDATE_EVIDENCE_REEXEC"):   # the tooling venv has jsonschema
        os.environ["VALIDATE_EVIDENCE_REEXEC"] = "1"
        os.execvp("python3-vt", ["python3-vt"] + sys.argv)
try:
    import jsonschema
    S = json.load(open("/root/.vp/EVIDENCE.schema.json"))
    validator = jsonschema.Draft202012Validator(S)
except Exception:
    validator = None
M = {c["property_id"]: c for c in json.load(open(os.path.join(V, "MANIFEST.json")))["checks"]}
bad = 0
seen = set()
for f in sorted(glob.glob(os.path.join(d, "*.json"))):
    e = json.load(open(f))
    c = e.get("coverage", {})
    pid = e.get("property_id")
    seen.add(pid)
    errs = [x.message[:120] for x in validator.iter_errors(e)] if validator else []
    if pid not in M:
        errs.append("not claimed in MANIFEST.json")
    elif e.get("level") != M[pid]["level_claimed"]["category"]:
        errs.append("level %s != claimed %s" % (e.get("level"), M[pid]["level_claimed"]["category"]))
    if os.path.basename(f) != "%s.json" % pid:
        errs.append("file name does not match property_id")
    if not c.get("obligations") or c.get("obligations") != c.get("discharged"):
        errs.append("discharged %s != obligations %s" % (c.get("discharged"), c.get("obligations")))
    if len(c.get("obligation_list", [])) != c.get("obligations"):
        errs.append("obligation_list has %d entries, obligations = %s" % (len(c.get("obligation_list", [])), c.get("obligations")))
    if e.get("violations"):
        errs.append("violations = %s" % e["violations"])
    if c.get("disagreements"):
        errs.append("disagreements = %s" % c["disagreements"])
    if not (2 <= c.get("distinct_nontrivial", 0) <= c.get("evaluations", 0)):
        errs.append("distinct_nontrivial %s not in 2..evaluations %s" % (c.get("distinct_nontrivial"), c.get("evaluations")))
    if not c.get("samples") or c["samples"] == ["(no sample recorded)"]:
        errs.append("no sample")
    if not str(c.get("checker_cmd", "")).strip() or c.get("checker_cmd") == "n/a":
        errs.append("no checker_cmd")
    if not c.get("trusted_base"):
        errs.append("no trusted_base")
    if e.get("level") == "other" and not str(c.get("explanation", "")).strip():
        errs.append("level other without explanation")
    print("%s %-6s %-8s seed=%s obligations=%s/%s evaluations=%s nontrivial=%s wall=%ss  %s" % (
        pid, e.get("level"), e.get("tier"), e.get("seed"), c.get("discharged"), c.get("obligations"), c.get("evaluations"),
        c.get("distinct_nontrivial"), e.get("wall_s"), "; ".join(errs) or "ok"))
    bad += bool(errs)
for pid in sorted(set(M) - seen):
    print("%s: no evidence file" % pid)
    bad += 1
print("evidence files not valid: %d%s" % (bad, "" if validator else "  (jsonschema not importable: schema itself not checked)"))
sys.exit(1 if bad else 0)
