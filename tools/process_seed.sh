#!/bin/bash
# process_seed.sh <ID><letter> [extra checks...] : verify the seeding agent's claims (tools/verify_seed.sh) and run the property's own
# check (plus extra checks) against each of its changes on a scratch copy (tools/try_seed_copy.sh).  Results: /tmp/mut-<ID><letter>/result.txt
W=$1; shift; ID=${W%?}; D=/tmp/mut-$W
/verif/tools/verify_seed.sh $W
{ cat $D/verify.log
  for S in SEED SEED2; do
    [ -f $D/$S/patch.diff ] || continue
    echo "--- $S"
    /verif/tools/try_seed_copy.sh $D/$S/patch.diff $ID "$@"
  done; } > $D/result.txt 2>&1
echo "$W processed"
