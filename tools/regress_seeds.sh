#!/bin/bash
# regress_seeds.sh [ID-prefix...] : for every stored seeded change /verif/seeded/<P>-<n>/patch.diff make a scratch copy
# of /repo's HEAD outside /repo and /verif, apply the change there, run the property's own quick check against that copy
# (VERIF_REPO) and report whether it raises a VIOLATION (and whether with a concrete input).  /repo is never touched.
# Different properties run in parallel (4 at a time); the scratch copies are removed as soon as a run is over.
# Output: /verif/.cache/regress/<seed>.log and a summary on stdout.  Runs with VERIF_REPO set write their evidence under
# .cache/evidence-other-tree (core.evidence_dir): /verif/evidence is written by runs against /repo only.
cd /verif
mkdir -p .cache/regress
sel="$*"
props=$(ls seeded | sed 's/-.*//' | sort -u)
one_prop() {
  p=$1
  for d in seeded/$p-*; do
    s=$(basename $d)
    if [ -n "$sel" ]; then ok=0; for x in $sel; do case $s in $x*) ok=1;; esac; done; [ $ok = 1 ] || continue; fi
    w=$(mktemp -d /tmp/rs-$s-XXXX)
    git -C /repo archive HEAD | tar -x -C $w
    if ! (cd $w && patch -p1 -s --no-backup-if-mismatch < /verif/$d/patch.diff >/dev/null 2>&1); then
      echo "$s PATCH-DOES-NOT-APPLY"; rm -rf $w; continue
    fi
    checks=$(python3 -c "import json;print(' '.join(json.load(open('$d/meta.json'))['caught_by']))")
    res=""
    for c in $checks; do
      VERIF_REPO=$w timeout 1800 bin/check $c > .cache/regress/$s.$c.log 2>&1; rc=$?
      if grep -q "^VIOLATION" .cache/regress/$s.$c.log; then
        if grep "^VIOLATION" .cache/regress/$s.$c.log | grep -qv "no-failing-input-found"; then res="$res $c:input"; else res="$res $c:no-input"; fi
      else res="$res $c:MISSED(rc=$rc)"; fi
    done
    echo "$s$res"
    rm -rf $w
  done
}
export -f one_prop; export sel
printf "%s\n" $props | xargs -P 4 -I{} bash -c 'one_prop {}'
