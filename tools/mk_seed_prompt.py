#!/usr/bin/env python3
"""mk_seed_prompt.py <ID> <round letter> : print the prompt given to a fresh sub-agent for one more seeded change of property <ID>
(worktree /tmp/mut-<ID><letter>, created by the caller with `git -C /repo worktree add --detach /tmp/mut-<ID><letter> HEAD`).
The agent sees the property text and what the stored changes of that property needed -- nothing from /verif."""
import json, glob, sys
pid, rnd = sys.argv[1], sys.argv[2]
fresh = "--fresh" in sys.argv      # no hint about earlier changes: an independent sample of ordinary slips
wt = "/tmp/mut-%s%s" % (pid, rnd)
prop = [json.loads(l) for l in open("/verif/properties.jsonl") if json.loads(l)["id"] == pid][0]
needs = []
for m in sorted(glob.glob("/verif/seeded/%s-*/meta.json" % pid), key=lambda p: int(p.split("-")[-1].split("/")[0])):
    needs.append(json.load(open(m))["needs"])
T = open("/verif/tools/seed_prompt_template.txt").read()
if fresh:
    T = T[:T.index("IMPORTANT: other engineers")].rstrip() + "\n"
print(T.replace("@WT@", wt).replace("@ID@", pid).replace("@TITLE@", prop["title"]).replace("@STATEMENT@", prop["statement"])
      .replace("@QUANT@", prop["quantifier"]["text"]).replace("@NEEDS@", "\n".join(" - " + n for n in needs)))
