#!/bin/bash
# try_seed.sh <patch> <check ids...> : apply a seeded change to /repo, run the checks, undo it
P=$1; shift
cd /repo && git apply --check $P 2>/dev/null || { echo "PATCH-DOES-NOT-APPLY $P"; exit 2; }
git apply $P
cd /verif
for c in "$@"; do
  out=$(bin/check $c 2>&1); rc=$?
  echo "== $c rc=$rc"; echo "$out" | grep -A1 "^VIOLATION" | cut -c1-330 | head -6
done
git -C /repo checkout -- .
