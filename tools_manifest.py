#!/usr/bin/env python3
"""writes MANIFEST.json from the table below (kept in one place so the manifest is always valid)"""
import json
ALL = ["C%02d" % i for i in range(1, 21)]
CHECKS = {
 "C19": dict(cat="proof", tech="Coq proof over Gallina regenerated from C (c2gallina) + finite kernel sweeps; differential execution of extracted model vs compiled C; native sweeps",
   text="Theorems in coq/Properties/C19.v about definitions regenerated from cpXXtime2a.c / cs101_bcr.c / cs101_information_objects.c on every run: ms->CP56->ms identity for every instant 2000..2099 (arithmetic + 36525-day kernel sweep), frame theorems for every setter of CP56/CP32/CP24/CP16/BCR/SCD/SingleEvent over a complete field list (reserved bits included), all 65536 raw values through a Flocq binary32 model, both saturation tails. The generated definitions are executed against the compiled code on every call the run generates; gmtime_r and float hardware are validated against their hand models.",
   note="Trusted: Coq kernel + vm_compute; translator (validated by correspondence); Civil.v for gmtime_r; Flocq for float ops (stdlib axioms classic, functional_extensionality_dep, sig_forall_dec, sig_not_dec via Flocq for the two float theorems); int arithmetic as unbounded Z. PARTIAL inside: boundedness of the middle of the float range is swept natively, not proved.", ref="7.19"),
}
CHECKS["C05"] = dict(cat="proof", tech="Coq proof (induction over chunk lists) that a literal receiveMessage model equals an octet-wise reference for every segmentation; differential execution of the extracted model vs both C copies; trace oracle under every cut position",
   text="coq/Properties/C05.v: feed (the transcription of receiveMessage, up to three socket reads per call) applied to ANY chunking of a byte stream equals the octet-at-a-time reference on the concatenation (so any two segmentations agree), every frame handed on is one delimited APDU, and the receive counter equals the number of deliveries mod 2^15. The model is run call by call against receiveMessage() of cs104_slave.c and cs104_connection.c (white-box harness on a simulated socket) and the whole server is replayed under every cut position with an independent delivery oracle.",
   note="Trusted: Coq kernel; hand transcription Apci/Reasm.v (validated by correspondence every run); simulated socket mirrors socket_linux.c. Delivery after reassembly is checked by the trace oracle, not by a theorem about handleMessage (the Coq delivery rule abstracts the N(R) check). Client role at trace level is exercised in C03.", ref="7.5")
CHECKS["C04"] = dict(cat="proof", tech="Coq refinement proof: literal checkSequenceNumber loop == modular window rule (induction over the ring walk, all k / occupancies / wrap alignments / N(R)); extracted model vs both C copies; native exhaustive sweeps",
   text="coq/Properties/C04.v: for every k-buffer state satisfying the ring invariant (c frames outstanding ending at the next N(S), any rotation, any alignment to the 32767->0 wrap) and every N(R), the transcribed checkSequenceNumber returns true exactly when (N(R) - (V(S) - c)) mod 2^15 <= c, releases exactly that many frames, changes nothing on rejection and never exhausts its static loop bound; push/is_full keep the invariant and along every send/ack history at most k frames are outstanding. The extracted functions are compared with both C copies on generated ring states; the C copies are also swept natively (every rotation x occupancy x 10 alignments x all 32768 N(R) per k) against the modular rule; a trace scenario checks deferral and closing on a bad N(R) on the real server.",
   note="Trusted: Coq kernel; hand transcription Apci/KBuf.v (validated by correspondence each run). The client-side 'send API reports failure while full' clause is exercised by the client harness of C03, the server-side deferral by the trace scenario here and by C13.", ref="7.4")
CHECKS["C03"] = dict(cat="proof", tech="Coq proofs about the APDU byte formulas and the sequence counters along arbitrary event histories (induction over event lists, counters start anywhere so the wrap is inside the quantifier); real traces of server and client replayed through the extracted model as an observer; Python oracle on every octet written",
   text="coq/Properties/C03.v: the receiver's decoding inverts the sender's byte formulas for all N(S), N(R) in 0..32767; every frame produced for ASDUs of 1..249 octets is a well-formed APDU; along any history of send-I / send-S / send-U / accept events the n-th I-frame carries N(S) = vs0+n-1 mod 2^15 and every N(R) equals vr0 + accepted-so-far mod 2^15. For every connection of every generated trace of the REAL server (threadless loop) and REAL client (own thread, released one iteration at a time) the event list is extracted and the model must regenerate the exact octets; an independent Python parser checks well-formedness and both numbering clauses on everything written, with counters started at 0, 1, 32760..32767 and random values.",
   note="Trusted: Coq kernel; Apci/Frame.v transcription of sendIMessage/_sendSMessage/T104Frame_prepareToSend/sendSMessage (validated by reproducing the octets of every trace); the model observes events, the scheduling decisions themselves are the subject of C04/C07/C11/C13. Threaded server loop is not driven here (threadless only); the client runs its real thread.", ref="7.3")
NA = {}
def main():
    checks = []
    for pid in ALL:
        if pid in CHECKS:
            c = CHECKS[pid]
            checks.append(dict(property_id=pid, quick_cmd="bin/check %s --tier quick" % pid,
                               thorough_cmd="bin/check %s --tier thorough" % pid,
                               evidence_file="evidence/%s.json" % pid,
                               replay_cmd_template="bin/check %s --replay {path}" % pid,
                               engine="coq+correspondence",
                               level_claimed=dict(category=c["cat"], text=c["text"], design_ref="DESIGN.md " + c["ref"]),
                               level_note=c["note"], technique=c["tech"]))
    na = [dict(property_id=p, reason=NA.get(p, "check not built yet in this session (framework is incremental; see DESIGN.md section 8 staging)")) for p in ALL if p not in CHECKS]
    m = dict(version=1, setup_cmd="bin/setup",
             hooks=dict(guard="LIB60870_VERIF", enable="harness builds compile /repo sources with -DLIB60870_VERIF=1 (no hook is currently needed: the HAL boundary is replaced at link time and static functions are reached by #include)",
                        baseline_off_cmd="bin/baseline", source_commits=[], add_only=True),
             engines=[dict(name="coq+correspondence", path="bin/check", serves_properties=sorted(CHECKS),
                           kind_free_text="Coq 8.16 theorems over hand-written or regenerated models; models tied to /repo by translators and by differential execution (extracted OCaml vs sanitizer build of the real code on a simulated HAL)")],
             checks=checks, not_applicable=na,
             notes="bin/check <ID> rebuilds from /repo's working tree (hash-keyed cache under .cache/). known_findings.jsonl lists genuine defects (open/fixed).")
    json.dump(m, open("MANIFEST.json", "w"), indent=1)
main()
