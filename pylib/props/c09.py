"""C09 -- command dispatch and mirrored negative responses (CS104 + CS101 slave), client command builders.
proof:   coq/Properties/C09.v  (the two handleASDU transcriptions = the decision table; exactly-one / mirror /
         truncated clauses for every input; builders decode to their arguments and reach the callback)
tie:     extracted dispatch104 / dispatch101 / build_* vs the real static handleASDU() of both slaves (white-box
         harness, stub connection on the simulated HAL) and the real CS104_Connection_send* / CS101_Master_send*
         builders, line by line on every script of the run
oracle:  the decision table written in Python from the property text / IEC 60870-5-101 7.3.4, -5-104 (allowed causes,
         fixed address 0 for CS104, mirror = same octets with P/N set and cause 45 / 47 / 44), evaluated on the C output"""
import json
from pathlib import Path
from vf import core, runner, apci

LEVEL = "proof"

NAMES = {100: "C_IC_NA_1", 101: "C_CI_NA_1", 102: "C_RD_NA_1", 103: "C_CS_NA_1", 104: "C_TS_NA_1", 105: "C_RP_NA_1",
         106: "C_CD_NA_1", 107: "C_TS_TA_1"}
# ---- the standard's table (control direction): allowed causes, octets after the IOA, fixed IOA
ALLOWED = {100: {6, 8}, 101: {6, 8}, 102: {5}, 103: {6}, 104: {6}, 105: {6}, 106: {6, 3}, 107: {6}}
BODY = {100: 1, 101: 1, 102: 0, 103: 7, 104: 2, 105: 1, 106: 2, 107: 9}
FIXED = {100, 101, 103, 104, 105, 106, 107}
CB = {100: ("interrogation", 1), 101: ("counter", 2), 102: ("read", 4), 103: ("clock", 8), 105: ("reset", 16), 106: ("delay", 32)}
ROLE_TYPES = {"s104": {100, 101, 102, 103, 105, 106, 107}, "s101": {100, 101, 102, 103, 104, 105, 106}}
INTERNAL = {"s104": 107, "s101": 104}      # test commands are answered by the stack itself


def harnesses():
    hs = {}
    for role, wb in (("s104", "cs104_slave"), ("s101", "cs101_slave"), ("c104", "cs104_connection"), ("m101", "cs101_master")):
        hs[role] = core.build_harness("h_disp_" + role, ["h_disp.c"], whitebox_of=(wb,), extra_flags=["-DROLE_" + role.upper()])
    return hs


def model():
    return core.build_model("disp", core.COQ / "extract" / "ExtractDispatch.v", [], core.VERIF / "driver" / "d_disp.ml")


def prebuild():
    harnesses()
    model()


# ------------------------------------------------------------------ independent ASDU view
class Req:
    def __init__(self, b, sizes):
        cs, cas, ios = sizes
        self.b = b
        self.sizes = sizes
        self.hdr = 2 + cs + cas
        self.tid = b[0]
        self.cot = b[2] & 63
        self.pn = (b[2] >> 6) & 1
        self.t = b[2] >> 7
        self.payload = b[self.hdr:]
        self.ioa = int.from_bytes(self.payload[:ios], "little") if len(self.payload) >= ios else None
        body = BODY.get(self.tid)
        self.complete = body is not None and len(self.payload) >= ios + body
        self.body = self.payload[ios:ios + body] if self.complete else None

    def mirror(self, cause):
        return (self.b[:2] + bytes([(self.b[2] & 0x80) | 0x40 | cause]) + self.b[3:]).hex()

    def with_cot(self, cause):
        return (self.b[:2] + bytes([(self.b[2] & 0xc0) | cause]) + self.b[3:]).hex()

    def param(self):
        t = self.tid
        if t in (100, 101, 105):
            return str(self.body[0])
        if t == 102:
            return str(self.ioa)
        if t == 103:
            return self.body.hex()
        if t == 106:
            return str(self.body[0] | self.body[1] << 8)
        return None


def parse_out(lines):
    """-> list of per-asdu records dict(calls=[(name,param,asduhex)], txs=[hex], ret=str)"""
    recs, cur = [], dict(calls=[], txs=[], ret=None)
    for l in lines:
        w = l.split()
        if not w:
            continue
        if w[0] == "cb":
            asdu = w[-1].split("=", 1)[1]
            param = w[2].split("=", 1)[1] if len(w) > 3 else ""
            cur["calls"].append((w[1], param, asdu))
        elif w[0] == "tx":
            cur["txs"].append(w[1])
        elif w[0] == "ret":
            cur["ret"] = w[1]
            recs.append(cur)
            cur = dict(calls=[], txs=[], ret=None)
    return recs


def oracle(role, sizes, b, h, r, rec):
    """returns list of (clause, text) violated by the observed record; written from the property text"""
    bad = []
    q = Req(b, sizes)
    tname = NAMES.get(q.tid, "other")
    reqhex = b.hex()
    calls, txs = rec["calls"], rec["txs"]
    sys_t = q.tid in ROLE_TYPES[role]
    spec = CB.get(q.tid) if sys_t else None
    spec_calls = [c for c in calls if c[0] != "asdu"]
    gen_calls = [c for c in calls if c[0] == "asdu"]
    negs = [t for t in txs if (int(t[4:6], 16) & 0x40) and (int(t[4:6], 16) & 63) in (44, 45, 47)]
    # --- for every input
    if len(negs) > 1 or len(txs) > 1 and not (len(txs) == 2 and False):
        bad.append(("multiple-responses", "%d responses for one request" % len(txs)))
    for t in negs:
        if t != q.mirror(int(t[4:6], 16) & 63):
            bad.append(("mirror", "negative response %s is not the mirror of the request" % t))
    for c in spec_calls:
        if not spec or c[0] != spec[0]:
            bad.append(("foreign-callback", "callback %s invoked for type %d" % (c[0], q.tid)))
    if len(spec_calls) > 1:
        bad.append(("callback-twice", "specific callback invoked %d times" % len(spec_calls)))
    for c in calls:
        if c[2] != reqhex:
            bad.append(("callback-modified-asdu", "callback %s received %s instead of the request" % (c[0], c[2])))
    if bad:
        return bad, tname

    def generic_path(after_specific):
        want = 1 if h & 64 else 0
        if len(gen_calls) != want:
            bad.append(("generic-count", "generic callback invoked %d times, registered=%d" % (len(gen_calls), want)))
        elif want and (r & 64):
            if txs:
                bad.append(("accepted-but-response", "generic callback accepted, yet response %s" % txs[0]))
        elif txs != [q.mirror(44)]:
            bad.append(("type44", "no handler accepted: expected exactly the mirror with cause 44, got %s" % txs))

    if not sys_t:
        if spec_calls:
            bad.append(("foreign-callback", "specific callback for a non-command type"))
        generic_path(False)
        return bad, tname
    if q.cot not in ALLOWED[q.tid]:
        ok45 = (calls == [] and txs == [q.mirror(45)])
        ok47 = (role == "s104" and q.tid in FIXED and q.ioa not in (None, 0) and calls == [] and txs == [q.mirror(47)])
        if not (ok45 or ok47):
            bad.append(("wrong-cot", "cause %d not allowed for %s: expected exactly the mirror with cause 45 and no callback; calls=%s responses=%s" % (
                q.cot, tname, [c[0] for c in calls], txs)))
        return bad, tname
    internal = INTERNAL[role] == q.tid
    if not internal and not (h & spec[1]):
        generic_path(False)
        return bad, tname
    if not q.complete and (role == "s104" or not internal):
        if spec_calls:
            bad.append(("truncated-callback", "truncated %s reached its callback" % tname))
        if internal and any((int(t[4:6], 16) & 0x7f) == 7 for t in txs):
            bad.append(("truncated-confirmed", "truncated %s was positively confirmed" % tname))
        return bad, tname
    if role == "s104" and q.tid in FIXED and q.ioa != 0:
        if not (calls == [] and txs == [q.mirror(47)]):
            bad.append(("wrong-ioa", "%s with IOA %s: expected exactly the mirror with cause 47 and no callback; calls=%s responses=%s" % (
                tname, q.ioa, [c[0] for c in calls], txs)))
        return bad, tname
    if internal:
        if not (calls == [] and txs == [q.with_cot(7)]):
            bad.append(("test-confirm", "%s: expected exactly the activation confirmation mirror; calls=%s responses=%s" % (tname, [c[0] for c in calls], txs)))
        return bad, tname
    if len(spec_calls) != 1 or calls[0][0] != spec[0]:
        bad.append(("callback-missing", "%s: callback %s not invoked exactly once first; calls=%s" % (tname, spec[0], [c[0] for c in calls])))
        return bad, tname
    if calls[0][1] != q.param():
        bad.append(("callback-parameter", "%s: callback parameter %s, decoded %s" % (tname, calls[0][1], q.param())))
    if r & spec[1]:
        if negs or gen_calls:
            bad.append(("accepted-but-negative", "%s accepted by its callback, yet %s / generic=%d" % (tname, negs, len(gen_calls))))
        if q.tid == 103:
            c2 = int(txs[0][4:6], 16) if len(txs) == 1 else 0
            if not (len(txs) == 1 and (c2 & 63) == 7 and (not (c2 & 0x40) or q.pn) and bytes.fromhex(txs[0])[q.hdr + sizes[2]:q.hdr + sizes[2] + 7] == q.body):
                bad.append(("clock-confirm", "clock synchronisation accepted: expected one positive ACT_CON with the time; got %s" % txs))
        elif txs:
            bad.append(("accepted-but-response", "%s accepted, yet response %s" % (tname, txs)))
    else:
        if q.tid == 103 and role == "s104" and txs == [q.mirror(7)] and not gen_calls:
            pass                        # negative activation confirmation
        else:
            generic_path(True)
    return bad, tname


# ------------------------------------------------------------------ generation
HCFGS = [(0, 0), (1, 0), (1, 1), (64, 0), (64, 64), (65, 0), (65, 1), (65, 64), (65, 65)]   # bit 1 stands for "the type's own handler"


def hmask(tid, cfgbits, rng=None, noise=False):
    """translate (specific?, generic?) pattern into real masks; optionally register unrelated handlers too"""
    hb, rb = cfgbits
    bit = CB.get(tid, (None, 0))[1]
    h = (bit if hb & 1 else 0) | (hb & 64)
    r = (bit if rb & 1 else 0) | (rb & 64)
    if noise and rng is not None:
        others = 63 & ~bit
        add = rng.below(64) & others
        h |= add
        r |= rng.below(64) & add
    return h, r


def mk(sizes, tid, cotb, ioa_bytes, body, paylen=None, vsq=1, oa=0x11, ca=(0x22, 0x33)):
    cs, cas, ios = sizes
    b = bytes([tid, vsq, cotb]) + (bytes([oa]) if cs == 2 else b"") + bytes(ca[:cas])
    pl = ioa_bytes[:ios] + body
    if paylen is not None:
        pl = pl[:paylen]
    return b + pl


def gen_dispatch(rng, role, quick):
    """-> list of (group key, sizes, asdu bytes, h, r)"""
    out = []
    sizes0 = (2, 2, 3)
    bodies = {t: bytes((0x14 + 7 * i + t) & 255 for i in range(BODY[t])) for t in BODY}
    ioas = [bytes(3), bytes([1, 0, 0]), bytes([0, 0, 1])]
    sysl = sorted(ROLE_TYPES[role] | {104, 107})
    for tid in sysl:
        full = 3 + BODY[tid]
        for cot in range(64):
            for ci, cfg in enumerate(HCFGS):
                for ii, ioa in enumerate(ioas[:2]):
                    h, r = hmask(tid, cfg, rng, noise=(ci % 3 == 2))
                    out.append(((tid, full), sizes0, mk(sizes0, tid, cot, ioa, bodies[tid]), h, r))
            for fl in (0x40, 0x80, 0xc0):                   # P/N and test bits of the request
                for ioa in ioas:
                    h, r = hmask(tid, (65, 1))
                    out.append(((tid, full), sizes0, mk(sizes0, tid, cot | fl, ioa, bodies[tid]), h, r))
        cots = sorted(ALLOWED[tid]) + [7, 0, 63, 10, 44, 45, 47, rng.below(64)]
        if not quick:
            cots = list(range(64))
        for ln in list(range(full)) + [full + 2]:          # every truncation, and two surplus octets
            for cot in cots:
                for cfg in HCFGS:
                    for ioa in ioas[:2]:
                        h, r = hmask(tid, cfg)
                        out.append(((tid, ln), sizes0, mk(sizes0, tid, cot, ioa, bodies[tid] + b"\xee\xef", ln), h, r))
        # VSQ variations (number of elements 0 / 2 / SQ bit) are not part of the decision: complete commands only
        for vsq in (0, 2, 0x81):
            for cot in sorted(ALLOWED[tid]) + [7]:
                h, r = hmask(tid, (65, 1))
                out.append(((tid, full), sizes0, mk(sizes0, tid, cot, ioas[0], bodies[tid], vsq=vsq), h, r))
    # every other type id: stratified
    others = [t for t in range(256) if t not in sysl]
    for tid in others:
        cots = [6, 7, 5, 3, 45, rng.below(64)] if quick else range(64)
        for cot in cots:
            for cfg in ((0, 0), (64, 0), (64, 64), (127, 63), (127, 127)):
                for ln in (0, 4, 1 + rng.below(12)):
                    b = mk(sizes0, tid, cot | (0x40 if rng.chance(1, 5) else 0) | (0x80 if rng.chance(1, 7) else 0), bytes([rng.below(2), 0, 0]), rng.bytes(12), ln)
                    out.append((("o", tid // 32), sizes0, b, cfg[0], cfg[1]))
    # other address-size configurations: sampled from the decision's corners
    for cs in (1, 2):
        for cas in (1, 2):
            for ios in (1, 2, 3):
                sz = (cs, cas, ios)
                if sz == sizes0:
                    continue
                for tid in sysl:
                    full = ios + BODY[tid]
                    for cot in sorted(ALLOWED[tid]) + [7, rng.below(64)]:
                        for cfg in ((65, 1), (65, 64), (0, 0)):
                            for ioa in (bytes(3), bytes([0] * (ios - 1) + [1, 0, 0])):
                                for ln in (full, full - 1, ios, max(0, ios - 1)):
                                    h, r = hmask(tid, cfg)
                                    out.append((("z", cs, cas, ios), sz, mk(sz, tid, cot, ioa, bodies[tid], ln), h, r))
    # header cut short: never dispatched
    for ln in range(0, 6):
        out.append((("short",), sizes0, bytes([100, 1, 6, 0, 1, 0])[:ln], 127, 127))
    return out


def to_scripts(role, items, chunk=400):
    groups = {}
    for it in items:
        groups.setdefault((it[0], it[1]), []).append(it)
    scripts, meta = [], {}
    n = 0
    for (key, sizes), its in groups.items():
        for c in range(0, len(its), chunk):
            part = its[c:c + chunk]
            sid = "%s.%s.%d" % (role, "-".join(str(k) for k in key), n)
            n += 1
            lines = ["cfg role=%s cot=%d ca=%d ioa=%d" % ((role,) + sizes)] + ["asdu %s h=%d r=%d" % (it[2].hex() or "-", it[3], it[4]) for it in part]
            scripts.append((sid, lines))
            meta[sid] = part
    return scripts, meta


def run_dispatch(ck, role, exe, mexe, items, tag=""):
    scripts, meta = to_scripts(role, items)
    ck.count("dispatch_lines_" + role + tag, len(items))
    pending = scripts
    results = {}          # sid -> (recs, crash)
    rounds = 0
    ncrash = 0
    while pending and rounds < 12:
        rounds += 1
        res = runner.run_batch(exe, pending)
        nxt = []
        for sid, lines in pending:
            o = res.get(sid, dict(out=[], crash=None))
            recs = parse_out(o["out"])
            results[sid] = (recs, o["crash"])
            if o["crash"]:
                ncrash += 1
                part = meta[sid]
                k = len(recs)            # the k-th asdu line is the one that aborted
                it = part[k] if k < len(part) else part[-1]
                q = Req(it[2], it[1]) if len(it[2]) >= 2 + it[1][0] + it[1][1] else None
                tname = NAMES.get(it[2][0], "other") if it[2] else "other"
                ck.fail("input", "crash:%s:%s" % (o["crash"]["kind"], o["crash"]["site"]),
                        "%s handleASDU aborted (%s at %s) on %s %s h=%d r=%d" % (role, o["crash"]["kind"], o["crash"]["site"], tname, it[2].hex(), it[3], it[4]),
                        {"role": role, "script": [lines[0], "asdu %s h=%d r=%d" % (it[2].hex(), it[3], it[4])], "stderr": o["crash"]["text"][-800:]})
                rest = part[k + 1:]
                if rest and ncrash < 40:
                    nsid = sid + "+"
                    meta[nsid] = rest
                    meta[sid] = part[:k]
                    nxt.append((nsid, [lines[0]] + ["asdu %s h=%d r=%d" % (x[2].hex() or "-", x[3], x[4]) for x in rest]))
                else:
                    meta[sid] = part[:k]
        pending = nxt
    allscripts = [(sid, ["cfg role=%s cot=%d ca=%d ioa=%d" % ((role,) + meta[sid][0][1])] + ["asdu %s h=%d r=%d" % (x[2].hex() or "-", x[3], x[4]) for x in meta[sid]])
                  for sid in results if meta[sid]]
    rm = runner.run_batch(mexe, allscripts) if mexe else {}
    ndiff = 0
    for sid, lines in allscripts:
        recs, crash = results[sid]
        part = meta[sid]
        mrecs = parse_out(rm[sid]["out"]) if sid in rm else None
        for i, it in enumerate(part):
            if i >= len(recs):
                break
            ck.evaluations += 1
            rec = recs[i]
            key, sizes, b, h, r = it
            if mrecs is not None and (i >= len(mrecs) or mrecs[i] != rec):
                ndiff += 1
                if ndiff <= 8:
                    tname = NAMES.get(b[0], "other") if b else "other"
                    ck.fail("correspondence", "diff:dispatch:%s:%s" % (role, tname),
                            "model and %s handleASDU differ on %s h=%d r=%d: C=%s model=%s" % (role, b.hex(), h, r, rec, mrecs[i] if i < len(mrecs) else None),
                            {"role": role, "script": [lines[0], lines[i + 1]], "c": rec, "model": mrecs[i] if i < len(mrecs) else None})
            if rec["ret"] == "short":
                if len(b) >= 2 + sizes[0] + sizes[1]:
                    ck.fail("input", "oracle:%s:not-dispatched" % role, "complete header not dispatched: " + b.hex(), {"role": role, "script": [lines[0], lines[i + 1]]})
                continue
            if len(b) < 2 + sizes[0] + sizes[1]:
                ck.fail("input", "oracle:%s:short-dispatched" % role, "ASDU shorter than its header was dispatched: " + b.hex(), {"role": role, "script": [lines[0], lines[i + 1]]})
                continue
            bad, tname = oracle(role, sizes, b, h, r, rec)
            for clause, text in bad[:1]:
                ck.fail("input", "oracle:%s:%s:%s" % (role, clause, tname), "%s: %s (request %s h=%d r=%d)" % (role, text, b.hex(), h, r),
                        {"role": role, "script": [lines[0], lines[i + 1]], "observed": rec})
            if rec["calls"] or rec["txs"]:
                q = Req(b, sizes)
                ck.nontriv((role, q.tid if q.tid in BODY else "o", q.cot in ALLOWED.get(q.tid, ()), q.ioa == 0, q.complete, h & 64, r & 64, bool(h & 63), bool(r & 63)))
            if ck.evaluations % 9973 == 1:
                ck.sample({"role": role, "asdu": b.hex(), "h": h, "r": r, "observed": rec})
    return ndiff


# ------------------------------------------------------------------ client builders
def gen_builders(rng, quick):
    """-> list of (sizes, oa, line, expect dict)"""
    out = []
    szs = [(2, 2, 3), (1, 1, 1), (1, 2, 2), (2, 1, 3), (2, 2, 1), (1, 1, 3)]
    for sz in szs:
        cs, cas, ios = sz
        cas_vals = [0, 1, 255] + ([256, 65535, 0x1234] if cas == 2 else [])
        ioa_vals = [0, 1, 255] + ([256, 65535] if ios >= 2 else []) + ([65536, 16777215, 70000] if ios == 3 else [])
        for oa in (0, 7, 255) if cs == 2 else (0,):
            for ca in cas_vals:
                for cot in (range(64) if (sz == (2, 2, 3) and oa == 0 and ca in (1, 0x1234)) else (6, 8, 7, 3, rng.below(64))):
                    q = rng.choice([0, 1, 20, 36, 255, rng.below(256)])
                    out.append((sz, oa, "build ic cot=%d ca=%d q=%d" % (cot, ca, q), dict(tid=100, cot=cot, ca=ca, ioa=0, val=bytes([q]))))
                    out.append((sz, oa, "build ci cot=%d ca=%d q=%d" % (cot, ca, q), dict(tid=101, cot=cot, ca=ca, ioa=0, val=bytes([q]))))
                    out.append((sz, oa, "build rp cot=%d ca=%d q=%d" % (cot, ca, q), dict(tid=105, cot=cot, ca=ca, ioa=0, val=bytes([q]))))
                    d = rng.choice([0, 1, 255, 256, 59999, 65535, rng.below(65536)])
                    out.append((sz, oa, "build cd cot=%d ca=%d d=%d" % (cot, ca, d), dict(tid=106, cot=cot, ca=ca, ioa=0, val=d.to_bytes(2, "little"))))
                for ioa in ioa_vals:
                    out.append((sz, oa, "build rd ca=%d ioa=%d" % (ca, ioa), dict(tid=102, cot=5, ca=ca, ioa=ioa, val=b"")))
                for _ in range(3):
                    t = rng.bytes(7)
                    out.append((sz, oa, "build cs ca=%d t=%s" % (ca, t.hex()), dict(tid=103, cot=6, ca=ca, ioa=0, val=t)))
                    tsc = rng.choice([0, 1, 255, 256, 65535, rng.below(65536)])
                    out.append((sz, oa, "build tsta ca=%d tsc=%d t=%s" % (ca, tsc, t.hex()), dict(tid=107, cot=6, ca=ca, ioa=0, val=tsc.to_bytes(2, "little") + t, only="c104")))
                out.append((sz, oa, "build ts ca=%d" % ca, dict(tid=104, cot=6, ca=ca, ioa=0, val=None)))
    return out


def run_builders(ck, hs, mexe, items):
    bad_sig = set()
    for brole, srole in (("c104", "s104"), ("m101", "s101")):
        its = [it for it in items if it[3].get("only", brole) == brole]
        scripts, meta = [], {}
        groups = {}
        for it in its:
            groups.setdefault((it[0], it[1]), []).append(it)
        for gi, ((sz, oa), part) in enumerate(groups.items()):
            sid = "%s.b%d" % (brole, gi)
            scripts.append((sid, ["cfg role=%s cot=%d ca=%d ioa=%d oa=%d" % ((brole,) + sz + (oa,))] + [it[2] for it in part]))
            meta[sid] = part
        rc = runner.run_batch(hs[brole], scripts)
        rm = runner.run_batch(mexe, scripts) if mexe else {}
        ck.count("builder_calls_" + brole, len(its))
        e2e = []
        for sid, lines in scripts:
            o = rc.get(sid, dict(out=[], crash=None))
            if o["crash"]:
                ck.fail("input", "crash:%s:%s" % (o["crash"]["kind"], o["crash"]["site"]), "%s builder aborted" % brole, {"role": brole, "script": lines, "stderr": o["crash"]["text"][-800:]})
                continue
            built = [l for l in o["out"] if l.startswith("built ")]
            decs = [l for l in o["out"] if l.startswith("dec ")]
            mbuilt = [l for l in rm.get(sid, dict(out=[]))["out"] if l.startswith("built ")] if mexe else None
            for i, it in enumerate(meta[sid]):
                sz, oa, line, exp = it
                ck.evaluations += 1
                if i >= len(built) or i >= len(decs):
                    ck.fail("input", "oracle:%s:builder-no-output" % brole, "builder produced nothing for " + line, {"role": brole, "script": [lines[0], line]})
                    break
                hexs = built[i].split()[1]
                if mbuilt is not None and (i >= len(mbuilt) or mbuilt[i].split()[1] != hexs):
                    ck.fail("correspondence", "diff:builder:%s:%s" % (brole, NAMES[exp["tid"]]), "model and %s builder differ for %s: C=%s model=%s" % (brole, line, hexs, mbuilt[i] if i < len(mbuilt) else None),
                            {"role": brole, "script": [lines[0], line]})
                b = bytes.fromhex(hexs)
                # (a) the library's own parser
                d = dict(x.split("=", 1) for x in decs[i].split()[1:])
                want_oa = oa if sz[0] == 2 else -1
                lib_ok = (int(d.get("type", -1)) == exp["tid"] and int(d.get("cot", -1)) == exp["cot"] and d.get("pn") == "0" and d.get("t") == "0" and int(d.get("ca", -1)) == exp["ca"]
                          and int(d.get("oa", -2)) == want_oa and int(d.get("ioa", -1)) == exp["ioa"] and d.get("vsq") == "1"
                          and (exp["val"] is None or d.get("val") == (exp["val"].hex() or "-")))
                # (b) independent parser
                q = Req(b, sz)
                py_ok = (q.tid == exp["tid"] and b[1] == 1 and q.cot == exp["cot"] and q.pn == 0 and q.t == 0 and q.complete and q.ioa == exp["ioa"]
                         and len(q.payload) == sz[2] + BODY[q.tid] and int.from_bytes(b[2 + sz[0]:2 + sz[0] + sz[1]], "little") == exp["ca"]
                         and (sz[0] == 1 or b[3] == oa) and (exp["val"] is None or q.body == exp["val"]))
                if exp["tid"] == 104 and q.complete and q.body != b"\xaa\x55":
                    ck.notes.append("note: %s test command carries test pattern %s (the standard's fixed test pattern is aa55)" % (brole, q.body.hex())) if ("tp", brole) not in bad_sig else None
                    bad_sig.add(("tp", brole))
                if not lib_ok or not py_ok:
                    ck.fail("input", "oracle:%s:builder-decode:%s" % (brole, NAMES[exp["tid"]]), "%s `%s` built %s which decodes to %s (independent parser ok=%s)" % (brole, line, hexs, decs[i], py_ok),
                            {"role": brole, "script": [lines[0], line], "observed": [built[i], decs[i]]})
                ck.nontriv((brole, exp["tid"], sz, exp["cot"] in ALLOWED[exp["tid"]]))
                e2e.append((("e2e",), sz, b, 127, 127))
        # (c) end to end: the built octets go into the slave's handleASDU with every handler registered and accepting;
        #     the dispatch oracle checks the callback parameter against the octets, which (b) tied to the arguments
        run_dispatch(ck, srole, hs[srole], mexe, e2e, tag="_e2e")


# ------------------------------------------------------------------ entry points
# ------------------------------------------------------------------ responses parked behind a full k-window (real CS104 server)
def run_window(ck, rng, quick):
    """The dispatch theorems model sendASDUInternal as transmitting at once.  Here the real server (h_cs104s, simulated HAL) has its
    k-window filled by unacknowledged events first; commands with a cause that is not allowed then get their negative responses parked
    in the high-priority ring until the peer acknowledges: still exactly one response each, in order, mirroring the request."""
    from props import c07
    h = c07.harness()
    scen = []
    tids = [100, 101, 102, 103, 105, 106, 107]
    for i in range(60 if quick else 1500):
        k = rng.choice([1, 2, 3, 12])
        n = rng.range(2, 5)
        cmds = []
        for j in range(n):
            tid = rng.choice(tids)
            cot = rng.choice([c for c in (3, 10, 20, 44, 45, 7, 9) if c not in ALLOWED[tid]])
            ioa = bytes(3) if (tid in FIXED or rng.chance(1, 2)) else bytes([rng.below(256), rng.below(256), 0])
            cmds.append(apci.asdu(tid, cot, 1, ioa + rng.bytes(BODY[tid])))
        lines = ["cfg mode=0 k=%d w=8 handlers=64 lowq=50 highq=10 maxconn=0 reqret=1" % k, "start", "connect c0 10.0.0.2:2000", "tick",
                 "rx c0 " + apci.STARTDT_ACT.hex(), "tick"]
        lines += ["enq " + c07.ev_asdu(e).hex() for e in range(1, k + 1)] + ["tick %d" % (k + 2)]
        for j, c in enumerate(cmds):
            lines += ["rx c0 " + apci.i_frame(j, 0, c).hex(), "tick"]
        lines += ["rx c0 " + apci.s_frame(k).hex(), "tick %d" % (n + 3)]
        sent = k
        # the responses fill the window again when there are more of them than k: acknowledge as they come
        for a in range(n):
            lines += ["rx c0 " + apci.s_frame(k + a + 1).hex(), "tick 2"]
        scen.append(("w%d" % i, k, cmds, lines))
    res = runner.run_batch(h, [(s[0], s[3]) for s in scen], timeout=1800)
    for sid, k, cmds, lines in scen:
        ck.evaluations += 1
        ck.count("window-parked-response-scenarios")
        o = res.get(sid, dict(out=[], crash=None))
        if o["crash"]:
            ck.fail("input", "crash:%s:%s" % (o["crash"]["kind"], o["crash"]["site"]), "server aborted with responses parked behind a full window: %s at %s" % (o["crash"]["kind"], o["crash"]["site"]),
                    {"script": lines, "stderr": o["crash"]["text"][-800:]})
            continue
        got = []
        for l in o["out"]:
            p = l.split()
            if p and p[0] == "tx" and p[1] == "c0":
                for f in apci.split_stream(bytes.fromhex(p[2]))[0]:
                    a = apci.parse_apdu(f)
                    if a["kind"] == "I" and a["asdu"][0] != 30:
                        got.append(bytes(a["asdu"]))
        want = [c[:2] + bytes([0x40 | 45]) + c[3:] for c in cmds]
        ck.nontriv(("win", k, tuple(c[0] for c in cmds)))
        if got != want:
            ck.fail("input", "oracle:s104:parked-responses", "CS104 server, k=%d window full of unacknowledged events, %d commands with a cause that is not allowed: responses after the acknowledgement are %s, expected exactly one mirrored negative response (cause 45) each, in order: %s" % (
                k, len(cmds), [g.hex() for g in got], [w.hex() for w in want]), {"script": lines, "observed": o["out"][-10:]})


def run(ck):
    quick = ck.tier == "quick"
    rng = core.Rng(ck.seed)
    ck.trusted = [
        "Coq 8.16.1 kernel; vm_compute only in the Example and in one 256-case sweep (cot octet recomposition); all theorems Closed under the global context",
        "Dispatch/Dispatch104.v and Dispatch101.v are hand transcriptions of the two handleASDU() functions, Dispatch/Builders.v of the client builders; tied by running the extracted functions against the compiled code on every script of the run (this check)",
        "application callbacks are modelled as returning a fixed boolean and not modifying the ASDU; plugins: none installed (the file-service plugin is C20)",
        "information-object decoders are modelled by their size rule only (element present iff sizeOfIOA + body octets are there); their byte-level behaviour is C01/C02's subject",
        "sendASDUInternal is modelled as always transmitting (connection in state STARTED, k-buffer not full): C04/C13 cover the other cases",
        "extraction: ExtrOcamlBasic only; driver/d_disp.ml; harness/h_disp.c (white-box #include of the four sources, simulated HAL)",
    ]
    ck.rule = ("dispatch: for each of the 8 system command types x all 64 causes x 9 handler situations (own handler absent / declining / accepting x generic absent / declining / accepting) x IOA zero / non-zero; "
               "P/N and test bits; every truncation length and two surplus octets; VSQ variations; all other 248 type ids stratified over causes and handler sets; the 11 other address-size configurations on the decision corners; "
               "unrelated handlers registered at random (must stay silent); builders: every cause 0..63, boundary CA / IOA / qualifier / delay / counter values, random times, 6 address-size configurations, then end to end into the slave; "
               "non-trivial = distinct (role, type, cause allowed, IOA zero, complete, handler situation) classes that produced a callback or a response")
    ck.coq("C09")
    hs = harnesses()
    try:
        mexe = model()
    except Exception as e:
        mexe = None
        ck.fail("correspondence", "model-build", "extracted model does not build: " + str(e)[:300], {"theorem": "extraction"})
    ndiff = 0
    for role in ("s104", "s101"):
        items = gen_dispatch(rng, role, quick)
        ndiff += run_dispatch(ck, role, hs[role], mexe, items)
    run_builders(ck, hs, mexe, gen_builders(rng, quick))
    run_window(ck, rng, quick)
    if not quick:
        # native exhaustive enumeration with the decision table written again in C (harness `sweep`)
        for role in ("s104", "s101"):
            scripts = [("%s.sweep.%d" % (role, lo), ["cfg cot=2 ca=2 ioa=3", "sweep types=%d-%d" % (lo, lo + 15)]) for lo in range(0, 256, 16)]
            scripts += [("%s.sweep.sz%d%d%d" % (role, a, b2, c), ["cfg cot=%d ca=%d ioa=%d" % (a, b2, c), "sweep types=96-111"]) for a in (1, 2) for b2 in (1, 2) for c in (1, 2, 3) if (a, b2, c) != (2, 2, 3)]
            res = runner.run_batch(hs[role], scripts, timeout=3000)
            for sid, lines in scripts:
                o = res.get(sid, dict(out=[], crash=None))
                if o["crash"]:
                    ck.fail("input", "crash:%s:%s" % (o["crash"]["kind"], o["crash"]["site"]), "%s sweep aborted: %s" % (role, o["crash"]["kind"]), {"role": role, "script": lines, "stderr": o["crash"]["text"][-800:]})
                for l in o["out"]:
                    if l.startswith("swbad "):
                        w = l.split()
                        ck.fail("input", "oracle:%s:sweep:%s" % (role, w[1]), "%s native sweep: clause %s violated by %s" % (role, w[1], " ".join(w[2:])),
                                {"role": role, "script": [lines[0], "asdu " + w[2].split("=")[1] + " " + " ".join(w[3:])]})
                    elif l.startswith("swdone"):
                        n = int(l.split("cases=")[1].split()[0])
                        ck.evaluations += n
                        ck.count("native_sweep_cases_" + role, n)
    ck.extra["disagreements"] = ndiff
    ck.extra["exhaustive"] = not quick
    ck.notes.append("truncated commands: CS104 drops the connection (handleASDU returns false), CS101 falls through to the generic handler / cause 44 (C_CI_NA_1: ignored); all satisfy 'never reaches its command-specific callback'")
    ck.notes.append("when the command's own callback is not registered the ASDU is offered to the generic callback without an IOA check; judged as 'no handler accepts' in the property text")


def replay(ck, path):
    r = json.loads(Path(path).read_text())["replay"]
    hs = harnesses()
    role = r.get("role", "s104")
    lines = r.get("script", [])
    res = runner.run_batch(hs[role], [("replay", lines)])
    print("\n".join(res["replay"]["out"]))
    if res["replay"]["crash"]:
        print(res["replay"]["crash"]["text"])
    ck.evaluations = 1
