"""C06 -- server event buffer: no loss, kept until acknowledged, resent after reconnect.
proof:  coq/Properties/C06.v about Cs104/MsgQueue.v (byte-offset transcription of MessageQueue_*) and the
        abstract event log of Cs104/Server.v
tie:    extracted MsgQueue model vs the real MessageQueue_* functions operation by operation (white-box),
        extracted server model vs real server on loss/reconnect scripts (below capacity)
oracle: abstract log (Python) driven by the same operations; trace oracle for resend / no-resend-after-ack"""
import json
from pathlib import Path
from vf import core, apci, runner
from props import c07

LEVEL = "other"


def harness():
    return core.build_harness("h_unit_s", ["h_unit104.c"], whitebox_of=("cs104_slave",), extra_flags=["-DROLE_SERVER"])


def model():
    return core.build_model("queue", core.COQ / "extract" / "ExtractQueue.v", [], core.VERIF / "driver" / "d_queue.ml")


def prebuild():
    harness()
    model()
    c07.prebuild()


def gen_unit(rng, n_ops, N, sizes):
    lines = ["mq new %d" % N]
    for _ in range(n_ops):
        r = rng.below(100)
        if r < 55:
            lines.append("mq enq %d" % rng.choice(sizes))
        elif r < 75:
            lines.append("mq next")
        elif r < 88:
            lines.append("mq confirm ?")          # resolved while evaluating (needs the offsets): placeholder handled below
        elif r < 92:
            lines.append("mq resetwait")
        elif r < 95:
            lines.append("mq avail")     # (MessageQueue_hasUnconfirmedIMessages was removed from the library with fix e71fc44)
        elif r < 98:
            lines.append("mq avail")
        else:
            lines.append("mq release")
    return lines


class AbsLog:
    """abstract specification of the event buffer: list of [id, state, size, pid], oldest first"""

    def __init__(self, N):
        self.N, self.log, self.next_id, self.pid = N, [], 1, 0
        self.sent = []      # (id, offset unknown) in order of `next`

    def enq(self, size):
        self.log.append([self.next_id, 1, size, self.pid])
        self.next_id += 1
        self.pid += 1


def parse_dump(l):
    head, _, ents = l.partition(" :")
    kv = dict(x.split("=") for x in head.split()[1:])
    es = []
    for t in ents.split():
        if "@" not in t or ":" not in t:
            es.append(("BAD", t))
            continue
        a, off = t.split("@")
        i, st, sz, pid = a.split(":")
        es.append((int(i), int(st), int(sz), int(pid), int(off)))
    return dict(n=int(kv["n"]), first=int(kv["first"]), last=int(kv["last"]), lib=int(kv["lib"])), es


def run_unit(ck, h, m, rng, quick):
    """sequences are generated adaptively: `confirm` needs the offset/id reported by an earlier `next`, so scripts are
    built in two passes: first a run with placeholders skipped to learn nothing -- instead confirm targets are taken
    from the abstract bookkeeping of what `next` returned (ids) and the offset printed by the implementation."""
    # adaptive generation is avoided by a simpler trick: confirmations always target the oldest SENT entry, whose
    # offset and id the harness can compute itself -> use `mq confirm -1 -1`?  The harness API needs explicit values,
    # so we run the C side incrementally in chunks: generate, run, read offsets, continue.
    results = []
    nseq = 60 if quick else 1500
    ndiff = 0
    for si in range(nseq):
        N = rng.choice([1, 1, 2, 2, 3, 4, 8])
        mode = rng.below(4)
        if mode == 0:
            sizes = [rng.choice([8, 20, 100, 249])]            # equal sizes
        elif mode == 1:
            sizes = [8, 249]
        else:
            sizes = [8, 9, 50, 100, 200, 240, 248, 249]
        n_ops = rng.range(5, 80)
        lines = ["mq new %d" % N]
        sent = []       # (offset, id) of entries handed out by next, oldest first
        sid = "u%d" % si
        # incremental: run prefix to obtain offsets when a confirm is drawn
        for _ in range(n_ops):
            r = rng.below(100)
            if r < 55:
                lines.append("mq enq %d" % rng.choice(sizes))
            elif r < 75:
                lines.append("mq next")
            elif r < 87:
                lines.append("mq confirm-oldest")
            elif r < 90:
                lines.append("mq confirmnewest")
            elif r < 93:
                lines.append("mq resetwait")
            elif r < 96:
                lines.append("mq avail")     # (MessageQueue_hasUnconfirmedIMessages was removed from the library with fix e71fc44)
            elif r < 99:
                lines.append("mq avail")
            else:
                lines.append("mq release")
        results.append((sid, N, sizes, lines))
    final = [(sid, N, sizes, [('mq confirmoldest' if l == 'mq confirm-oldest' else l) for l in lines]) for sid, N, sizes, lines in results]
    rc = runner.run_batch(h, [(sid, l) for sid, _, _, l in final])
    rm = runner.run_batch(m, [(sid, l) for sid, _, _, l in final]) if m else {}
    for sid, N, sizes, lines in final:
        ck.evaluations += 1
        o = rc.get(sid, dict(out=[], crash=None))
        if o["crash"]:
            ck.fail("input", "crash:%s:%s" % (o["crash"]["kind"], o["crash"]["site"]), "MessageQueue aborted: %s at %s (N=%d)" % (o["crash"]["kind"], o["crash"]["site"], N),
                    {"script": lines, "stderr": o["crash"]["text"]})
            continue
        out = o["out"]
        if m and sid in rm and rm[sid]["out"] != out and ndiff < 10:
            ndiff += 1
            mo = rm[sid]["out"]
            i = next((j for j, (a, b) in enumerate(zip(out, mo)) if a != b), min(len(out), len(mo)))
            ck.fail("correspondence", "diff:msgqueue", "MsgQueue model and implementation differ at output line %d: C=%s model=%s" % (i, out[i:i + 1], mo[i:i + 1]),
                    {"script": lines, "c": out[max(0, i - 2):i + 2], "model": mo[max(0, i - 2):i + 2]})
        # ---- abstract log oracle
        log = []            # [id, state, size, pid]
        next_id, pid = 1, 0
        oi = 0
        bad = None
        equal = len(sizes) == 1
        for l in lines:
            t = l.split()
            outs = []
            while oi < len(out):
                outs.append(out[oi])
                oi += 1
                if out[oi - 1].startswith("mq n="):
                    break
            dump = outs[-1] if outs and outs[-1].startswith("mq n=") else None
            if t[1] == "new":
                log, next_id, pid = [], 1, 0
            elif t[1] == "enq":
                log.append([next_id, 1, int(t[2]), pid])
                next_id += 1
                pid += 1
            elif t[1] == "next":
                w = next((e for e in log if e[1] == 1), None)
                got = outs[0] if outs else ""
                if w is None:
                    if not got.startswith("mqnext none"):
                        bad = "next returned %s although no entry is waiting" % got
                else:
                    if "id=%d " % w[0] not in got + " " or "pid=%d" % w[3] not in got:
                        bad = "next returned `%s`, the oldest waiting entry is id=%d pid=%d" % (got, w[0], w[3])
                    w[1] = 2
            elif t[1] in ("confirmoldest", "confirmnewest"):
                got = outs[0] if outs else ""
                if got.startswith("mqconfirm none"):
                    continue
                idc = int(got.split("id=")[1])
                for e in log:
                    if e[0] == idc:
                        e[1] = 0
                if log and log[0][0] == idc:
                    log.pop(0)
            elif t[1] == "resetwait":
                for e in log:
                    if e[1] == 2:
                        e[1] = 1
            elif t[1] == "release":
                log = []
            elif t[1] == "unconf":
                exp = 1 if any(e[1] == 2 for e in log) else 0
                if outs and outs[0] != "mqunconf %d" % exp:
                    bad = "hasUnconfirmed=%s, log says %d" % (outs[0], exp)
            elif t[1] == "avail":
                exp = 1 if any(e[1] == 1 for e in log) else 0
                if outs and outs[0] != "mqavail %d" % exp:
                    bad = "isAsduAvailable=%s, log says %d" % (outs[0], exp)
            if dump and not bad:
                hd, es = parse_dump(dump)
                if any(e[0] == "BAD" for e in es):
                    bad = "queue walk left the arena or looped: %s" % dump
                else:
                    ids = [e[0] for e in es]
                    # what is retained must be a suffix of the abstract log (only the oldest may be displaced)
                    exp_ids = [e[0] for e in log]
                    if ids != exp_ids[len(exp_ids) - len(ids):] or hd["n"] != len(ids):
                        bad = "retained ids %s (count field %d) are not the most recent contiguous run of %s" % (ids, hd["n"], exp_ids)
                    else:
                        # displacement: drop from the abstract log what the implementation displaced
                        log = log[len(log) - len(ids):]
                        for e, a in zip(es, log):
                            if (e[1], e[2], e[3]) != (a[1], a[2], a[3]):
                                bad = "entry id=%d is (state,size,payload)=%s, expected %s" % (e[0], (e[1], e[2], e[3]), (a[1], a[2], a[3]))
                        if equal and t[1] == "enq":
                            live = min(N, len(exp_ids))
                            if len(ids) < live:
                                bad = "equal-size ASDUs (%d octets): only %d retained although the queue was created for %d and %d were buffered" % (sizes[0], len(ids), N, len(exp_ids))
            if bad:
                cls = "N1" if N == 1 else "N>=2"
                ck.fail("input", "oracle:msgqueue:" + cls, "MessageQueue(N=%d, sizes %s): %s" % (N, sizes, bad), {"script": lines[:lines.index(l) + 1] if l in lines else lines, "observed": outs})
                break
        ck.nontriv((N, tuple(sizes), tuple(lines)))
        if len(ck.samples) < 3:
            ck.sample({"N": N, "sizes": sizes, "script": lines[:10], "out": out[:10]})
    ck.extra["unit_disagreements"] = ndiff


def run_trace(ck, rng, quick):
    """loss / reconnect scenarios on the real server (events only, queue large enough: no displacement)"""
    h = c07.harness()
    try:
        m = c07.model()
    except Exception:
        m = None
    scripts = []
    for i in range(60 if quick else 1500):
        k = rng.choice([1, 2, 3, 12])
        lines = ["cfg k=%d w=8 handlers=64 lowq=100 highq=10" % k, "start"]
        ci = -1
        e = 0
        acked = set()
        for phase in range(rng.range(1, 5)):
            for _ in range(rng.below(6)):
                e += 1
                lines.append("enq " + c07.ev_asdu(e).hex())
            ci += 1
            lines += ["connect c%d 10.0.0.1:%d" % (ci, 1000 + ci), "tick"]
            if rng.chance(1, 3):      # start the counters right below the 32767 -> 0 wrap
                lines.append("poke c%d vs=%d vr=%d" % (ci, rng.choice([32765, 32766, 32767]), rng.choice([0, 32767])))
            lines += ["rx c%d %s" % (ci, apci.STARTDT_ACT.hex()), "tick"]
            for _ in range(rng.below(12)):
                r = rng.below(10)
                if r < 4:
                    e += 1
                    lines += ["enq " + c07.ev_asdu(e).hex(), "tick"]
                elif r < 7:
                    d = -rng.below(3)
                    lines += ["rxs c%d %d" % (ci, d), "tick"]
                    if rng.chance(1, 3):     # the peer repeats the same acknowledgement (e.g. two commands in a row)
                        lines += ["rxs c%d %d" % (ci, d), "tick"]
                else:
                    lines += ["tick %d" % rng.range(1, 3)]
            how = rng.below(3)
            if how == 0:
                lines += ["peerclose c%d" % ci, "tick 2"]
            elif how == 1:
                lines += ["wmode c%d 1" % ci, "enq " + c07.ev_asdu(e + 1).hex(), "tick 3", "peerclose c%d" % ci, "tick 2"]
                e += 1
            else:
                lines += ["rx c%d %s" % (ci, apci.STOPDT_ACT.hex()), "tick", "peerclose c%d" % ci, "tick 2"]
            if ci >= 12:
                break
        ci += 1
        lines += ["connect c%d 10.0.0.1:%d" % (ci, 1000 + ci), "tick", "rx c%d %s" % (ci, apci.STARTDT_ACT.hex()), "tick %d" % (e + 3)]
        for _ in range(e // max(1, k) + 2):
            lines += ["rxs c%d" % ci, "tick %d" % (k + 1)]
        scripts.append(("t%d" % i, lines))
    rc = runner.run_batch(h, scripts, timeout=3600)
    rm = runner.run_batch(m, scripts, timeout=3600) if m else {}
    ndiff = 0
    for sid, lines in scripts:
        ck.evaluations += 1
        o = rc.get(sid, dict(out=[], crash=None))
        if o["crash"]:
            ck.fail("input", "crash:%s:%s" % (o["crash"]["kind"], o["crash"]["site"]), "server aborted: %s at %s" % (o["crash"]["kind"], o["crash"]["site"]),
                    {"script": lines, "stderr": o["crash"]["text"]})
            continue
        cout = [l for l in o["out"] if not l.startswith(("sem ", "st ", "q "))]
        if m and sid in rm and rm[sid]["out"] != cout and ndiff < 10:
            ndiff += 1
            mo = rm[sid]["out"]
            i = next((j for j, (a, b) in enumerate(zip(cout, mo)) if a != b), min(len(cout), len(mo)))
            ck.fail("correspondence", "diff:server-queue", "server model and implementation differ at trace line %d: C=%s model=%s" % (i, cout[i:i + 1], mo[i:i + 1]),
                    {"script": lines, "c": cout[max(0, i - 3):i + 2], "model": mo[max(0, i - 3):i + 2]})
        # oracle: per connection the event ids transmitted; acknowledged ids never again; unacknowledged ones again first, in order
        enq_order = [int.from_bytes(bytes.fromhex(l.split()[1])[6:8], "little") for l in lines if l.startswith("enq ")]
        enq_bytes = {int.from_bytes(bytes.fromhex(l.split()[1])[6:8], "little"): l.split()[1] for l in lines if l.startswith("enq ")}
        acked_ids, tx_per_conn = set(), {}
        order = []
        # reconstruct acks: rxs cN d acknowledges all but -d of the I-frames seen on that connection before the command
        seen = {}
        li = 0
        blocks, cur = [], []
        for l in cout:
            cur.append(l)
            if l.startswith("open "):
                blocks.append(cur)
                cur = []
        bi = 0
        bad = None
        pending_ack = None
        alive, dying = set(), set()
        for l in lines:
            t = l.split()
            if t[0] in ("peerclose", "wmode"):
                dying.add(int(t[1][1:]))
            if t[0] == "rxs":
                ci = int(t[1][1:])
                d = int(t[2]) if len(t) > 2 else 0
                pending_ack = (ci, d, len(tx_per_conn.get(ci, [])))
            elif t[0] == "tick":
                if bi >= len(blocks):
                    break
                blk = blocks[bi]
                bi += 1
                for x in blk:
                    if x.startswith("ev ") and x.endswith("OPENED"):
                        alive.add(int(x.split()[1][1:]))
                if pending_ack:
                    ci, d, n = pending_ack
                    # an acknowledgement counts only if the connection was alive and stays open (a bad N(R) closes it)
                    if ci in alive and ci not in dying and not any(x.startswith("ev c%d CLOSED" % ci) for x in blk) and n + d >= 0:
                        for idv in tx_per_conn.get(ci, [])[:max(0, n + d)]:
                            acked_ids.add(idv)
                    pending_ack = None
                for x in blk:
                    if x.startswith("ev ") and x.endswith("CLOSED"):
                        alive.discard(int(x.split()[1][1:]))
                    if x.startswith("tx "):
                        ci = int(x.split()[1][1:])
                        for f in apci.split_stream(bytes.fromhex(x.split()[2]))[0]:
                            a = apci.parse_apdu(f)
                            if a["kind"] == "I" and a["asdu"][0] == 30:
                                idv = a["asdu"][6] | a["asdu"][7] << 8
                                if a["asdu"].hex() != enq_bytes.get(idv):
                                    bad = "event %d transmitted with octets %s, enqueued %s" % (idv, a["asdu"].hex(), enq_bytes.get(idv))
                                if idv in acked_ids:
                                    bad = "event %d transmitted again on c%d after it had been acknowledged" % (idv, ci)
                                lst = tx_per_conn.setdefault(ci, [])
                                if lst and idv <= lst[-1]:
                                    bad = "events out of order on c%d: %d after %d" % (ci, idv, lst[-1])
                                lst.append(idv)
        if not bad:
            last_conn = max(tx_per_conn) if tx_per_conn else None
            missing = [i for i in enq_order if i not in acked_ids and (last_conn is None or i not in tx_per_conn[last_conn])]
            # everything not acknowledged earlier must have been (re)transmitted on the last, long-lived connection
            if missing and not any(x.startswith("ev c%d CLOSED" % (last_conn if last_conn is not None else -1)) for x in cout):
                bad = "events %s were neither acknowledged nor transmitted on the last activated connection" % missing[:6]
        if bad:
            ck.fail("input", "oracle:resend:server", "server event buffer: " + bad, {"script": lines, "observed": cout[-10:]})
        ck.nontriv(("trace", sid))
    ck.extra["trace_disagreements"] = ndiff
    ck.count("trace_scripts", len(scripts))


def run_resume_replies(ck, rng, quick, sig="oracle:kept-until-acknowledged:replies-after-reconnect"):
    """a connection is lost with events transmitted but unacknowledged; on the next connection the client's first request follows
    STARTDT at once, so replies and retransmitted events share the window; the client acknowledges, the connection is lost again.
    Events never acknowledged must be transmitted again (on the second or third connection), in order; acknowledging a REPLY must
    not remove an event."""
    h = c07.harness()
    scripts, meta = [], {}
    for i in range(40 if quick else 500):
        k = rng.choice([2, 3, 4, 4, 6, 12])
        a = rng.range(0, 3)
        n = rng.range(k, k + 4)           # unacknowledged + waiting events at the first loss
        b = a + n
        burst = rng.range(0, k)
        term = rng.below(2)
        lines = ["cfg k=%d w=8 handlers=65 burst=%d bsize=6 term=%d lowq=100 highq=20" % (k, burst, term), "start", "connect c0 10.0.0.1:1000", "tick",
                 "rx c0 " + apci.STARTDT_ACT.hex(), "tick"]
        for e in range(1, a + 1):
            lines.append("enq " + c07.ev_asdu(e).hex())
        for _ in range(a // k + 2):
            lines += ["tick %d" % (k + 1), "rxs c0"]
        lines.append("tick 2")
        for e in range(a + 1, b + 1):
            lines.append("enq " + c07.ev_asdu(e).hex())
        lines += ["tick %d" % (n + 1), "peerclose c0", "tick 2"]
        # second connection: STARTDT and the request arrive together; then one acknowledgement of everything seen; lost again
        lines += ["connect c1 10.0.0.1:1001", "tick", "rx c1 " + apci.STARTDT_ACT.hex(), "rxi c1 " + c07.IC.hex(), "tick %d" % rng.range(1, 3),
                  "rxs c1", "tick", "mark-acked", "peerclose c1", "tick 2"]
        # third connection: drained with acknowledgements
        lines += ["connect c2 10.0.0.1:1002", "tick", "rx c2 " + apci.STARTDT_ACT.hex(), "tick %d" % (k + 1)]
        for _ in range(n // k + 3):
            lines += ["rxs c2", "tick %d" % (k + 1)]
        sid = "rr%d" % i
        scripts.append((sid, lines)); meta[sid] = (k, a, b, burst)
    rc = runner.run_batch(h, scripts, timeout=3600)
    for sid, lines in scripts:
        k, a, b, burst = meta[sid]
        ck.evaluations += 1
        o = rc.get(sid, dict(out=[], crash=None))
        if o["crash"]:
            ck.fail("input", "crash:%s:%s" % (o["crash"]["kind"], o["crash"]["site"]), "server aborted: %s at %s" % (o["crash"]["kind"], o["crash"]["site"]), {"script": lines, "stderr": o["crash"]["text"]})
            continue
        per = {"c0": [], "c1": [], "c2": []}
        acked1 = None
        for l in o["out"]:
            w = l.split()
            if w[0] == "?" and "mark-acked" in l:
                acked1 = list(per["c1"])       # everything the client had seen on c1 when it acknowledged (sent one tick earlier)
            if w[0] == "tx" and w[1] in per:
                for f in apci.split_stream(bytes.fromhex(w[2]))[0]:
                    x = apci.parse_apdu(f)
                    if x["kind"] == "I" and x["asdu"][0] == 30:
                        per[w[1]].append(x["asdu"][6] | x["asdu"][7] << 8)
        if [e for e in per["c0"] if e <= a] != list(range(1, a + 1)) or acked1 is None:
            continue
        bad = None
        never = [e for e in range(a + 1, b + 1) if e not in per["c1"] and e not in per["c2"]]
        # an event transmitted on c1 AFTER the acknowledgement was not acknowledged either: it must come again on c2
        unacked_after = [e for e in range(a + 1, b + 1) if e not in acked1 and e not in per["c2"]]
        if never:
            bad = "events %s were never acknowledged (first connection lost with them in flight) and are never transmitted again; second connection carried %s, third %s" % (never, per["c1"], per["c2"])
        elif unacked_after:
            bad = "events %s were not acknowledged on the second connection (acknowledged there: %s) and are not transmitted on the third (%s)" % (unacked_after, acked1, per["c2"])
        elif per["c1"] != sorted(per["c1"]) or per["c2"] != sorted(per["c2"]):
            bad = "events out of order after reconnection: %s / %s" % (per["c1"], per["c2"])
        if bad:
            ck.fail("input", sig, "server event buffer: " + bad + " [k=%d replies=%d]" % (k, burst),
                    {"script": lines, "observed": [l[:100] for l in o["out"] if l.startswith(("tx c1", "tx c2"))][:10]})
        ck.nontriv(("resume-replies", k, a, b, burst))
    ck.count("resume_reply_scripts", len(scripts))


def run_restart(ck, rng, quick):
    """the server is stopped (threadless) and started again while events are transmitted but not acknowledged: the connection ended,
    so they are transmitted again on the next activated connection; acknowledged ones are not"""
    h = c07.harness()
    scripts, meta = [], {}
    for i in range(18 if quick else 200):
        mode = rng.choice([0, 2])
        k = rng.choice([2, 4, 12])
        a = rng.range(0, 3)
        b = a + rng.range(1, k)
        lines = ["cfg mode=%d k=%d w=8 handlers=64 lowq=50 highq=10" % (mode, k)] + (["group -"] if mode == 2 else []) + ["start", "connect c0 10.0.0.1:1000", "tick",
                 "rx c0 " + apci.STARTDT_ACT.hex(), "tick"]
        for e in range(1, a + 1):
            lines.append("enq " + c07.ev_asdu(e).hex())
        for _ in range(a // k + 2):
            lines += ["tick %d" % (k + 1), "rxs c0"]
        lines.append("tick 2")
        for e in range(a + 1, b + 1):
            lines.append("enq " + c07.ev_asdu(e).hex())
        # how the server side ends the connection: the whole server is stopped and started again / the application closes the connection
        how = ("restart", "appclose", "appclose")[i % 3]
        lines += ["tick %d" % (b - a + 1)] + (["stop", "start"] if how == "restart" else ["appclose c0", "tick 2"])
        lines += ["connect c1 10.0.0.1:1001", "tick", "rx c1 " + apci.STARTDT_ACT.hex(), "tick %d" % (k + 1)]
        for _ in range((b - a) // k + 2):
            lines += ["rxs c1", "tick %d" % (k + 1)]
        sid = "rs%d" % i
        scripts.append((sid, lines)); meta[sid] = (mode, k, a, b, how)
    rc = runner.run_batch(h, scripts, timeout=3600)
    for sid, lines in scripts:
        mode, k, a, b, how = meta[sid]
        ck.evaluations += 1
        o = rc.get(sid, dict(out=[], crash=None))
        if o["crash"]:
            ck.fail("input", "crash:%s:%s" % (o["crash"]["kind"], o["crash"]["site"]), "server aborted: %s at %s" % (o["crash"]["kind"], o["crash"]["site"]), {"script": lines, "stderr": o["crash"]["text"]})
            continue
        per = {"c0": [], "c1": []}
        for l in o["out"]:
            w = l.split()
            if w[0] == "tx" and w[1] in per:
                for f in apci.split_stream(bytes.fromhex(w[2]))[0]:
                    x = apci.parse_apdu(f)
                    if x["kind"] == "I" and x["asdu"][0] == 30:
                        per[w[1]].append(x["asdu"][6] | x["asdu"][7] << 8)
        if [e for e in per["c0"] if e <= a] != list(range(1, a + 1)) or not any(l.startswith("ev c1 ACTIVATED") for l in o["out"]):
            continue
        want = list(range(a + 1, b + 1))
        if per["c1"] != want:
            ck.fail("input", "oracle:resent-after-" + how, "server event buffer: events %s were transmitted and not acknowledged when %s; the next activated connection received %s" % (
                want, "the server was stopped and started again" if how == "restart" else "the application closed the connection (IMasterConnection_close)", per["c1"]), {"script": lines, "observed": [l[:100] for l in o["out"] if l.startswith(("tx c1", "ev ", "q "))][-8:]})
        ck.nontriv((how, mode, k, a, b))
    ck.count("restart_scripts", len(scripts))


def run_threaded_resume(ck, rng, quick):
    """the same clause with the THREADED server (listener thread + one thread per connection): events transmitted and not
    acknowledged when their connection ends -- peer close, STOPDT act then close, application close, stop and restart of the
    server -- are transmitted again, in order, on the next activated connection"""
    from props import c18
    try:
        exe = c18.thr_harness("h_thr_resume")
    except Exception as e:
        ck.fail("correspondence", "harness-build:h_thr_resume", "threaded resume harness does not build: " + str(e)[:300], {"theorem": "harness"})
        return
    hows = {0: "the peer closed the connection", 1: "the peer sent STOPDT act and closed the connection", 2: "the application closed the connection (IMasterConnection_close)",
            3: "the server was stopped and started again"}
    n_run = 0
    for how in (0, 1, 2, 3):
        for mode in ((0, 2) if not quick else (0, 2)[how % 2:how % 2 + 1]):
            n = rng.range(1, 6)
            line = "how=%d mode=%d n=%d k=12" % (how, mode, n)
            out, err, rc = c18.run_thr(exe, line)
            ck.evaluations += 1
            n_run += 1
            if "hang" in out or rc not in (0,):
                kind = "hang" if "hang" in out else "crash"
                ck.fail("input", "thr-resume:" + kind, "threaded server, events unacknowledged when %s: the scenario %s (%s)" % (hows[how], "did not finish" if kind == "hang" else "aborted", line),
                        {"script": [line], "stderr": err[-1500:], "harness": "h_thr_resume"})
                continue
            first = [int(x) for l in out if l.startswith("first") for x in l.split()[1:]]
            second = [int(x) for l in out if l.startswith("second") for x in l.split()[1:]]
            if first != list(range(1, n + 1)):
                continue       # the preparation did not go as planned: not evaluated
            if second != list(range(1, n + 1)):
                ck.fail("input", "oracle:thr-resent:%d" % how, "threaded server: events %s were transmitted and not acknowledged when %s; the next activated connection received %s" % (
                    first, hows[how], second), {"script": [line], "observed": out[-5:], "harness": "h_thr_resume"})
            ck.nontriv(("thr-resume", how, mode, n))
    ck.count("threaded_resume_scenarios", n_run)


def run_capacity(ck, rng, quick):
    """capacity clause at server level: a server created for N event entries retains at least the N most recent equal-size
    events buffered while no client is connected -- in the single-group AND the multiple-groups mode, whatever the size of
    the high-priority queue"""
    from props import c03
    h = c07.harness()
    scripts, meta = [], {}
    for i in range(16 if quick else 200):
        mode = rng.choice([0, 2])
        N = rng.choice([2, 3, 5, 10])
        M = rng.choice([1, 2, 20, N])
        size = rng.choice([0, 40, 200, 237])
        total = N + rng.choice([0, 1, 3, N])
        lines = ["cfg k=12 w=8 mode=%d lowq=%d highq=%d handlers=64" % (mode, N, M)] + (["group -"] if mode == 2 else []) + ["start"]
        for e in range(1, total + 1):
            lines.append("enq " + c03.ev_asdu(e, size).hex())
        lines += ["connect c0 10.0.0.1:1000", "tick", "rx c0 " + apci.STARTDT_ACT.hex(), "tick %d" % 14]
        for _ in range(total // 12 + 2):
            lines += ["rxs c0", "tick 14"]
        sid = "cap%d" % i
        scripts.append((sid, lines)); meta[sid] = (mode, N, M, size, total)
    rc = runner.run_batch(h, scripts, timeout=3600)
    for sid, lines in scripts:
        mode, N, M, size, total = meta[sid]
        ck.evaluations += 1
        o = rc.get(sid, dict(out=[], crash=None))
        if o["crash"]:
            ck.fail("input", "crash:%s:%s" % (o["crash"]["kind"], o["crash"]["site"]), "server aborted: %s at %s" % (o["crash"]["kind"], o["crash"]["site"]), {"script": lines, "stderr": o["crash"]["text"]})
            continue
        data = b"".join(bytes.fromhex(l.split()[2]) for l in o["out"] if l.startswith("tx c0 "))
        frames, _, _ = apci.split_stream(data)
        ids = []
        for f in frames:
            a = apci.parse_apdu(f)
            if a["kind"] == "I" and len(a["asdu"]) >= 8 and a["asdu"][0] == 30:
                ids.append(a["asdu"][6] | a["asdu"][7] << 8)
        want = list(range(total - min(N, total) + 1, total + 1))
        if not all(x in ids for x in want) or ids != sorted(ids) or (ids and ids != list(range(ids[0], total + 1))):
            ck.fail("input", "oracle:capacity:mode%d" % mode, "server created for %d event entries (high-priority queue %d, mode %d): %d equal-size events of %d octets buffered without a client, then transmitted %s; the %d most recent %s must all be retained, in order" % (
                N, M, mode, total, size + 9, ids, min(N, total), want), {"script": lines, "observed": [l[:100] for l in o["out"] if l.startswith("tx c0")][:6]})
        ck.nontriv(("cap", mode, N, M, size, total))
    ck.count("capacity_scripts", len(scripts))


def run_groups_reuse(ck, rng, quick):
    """multiple redundancy groups: every group has its own copy of the event buffer, and a connection is served from the buffer of
    the group it belongs to -- also when its connection object served a client of ANOTHER group before (the pooled slots are reused
    across groups).  Clients of two groups take turns on one slot (open-connection limit 1 keeps it to one slot at a time)"""
    from props import c03
    h = c07.harness()
    scripts, meta = [], {}
    for i in range(10 if quick else 120):
        k = rng.choice([3, 12])
        n1, n2, n3 = rng.range(1, 4), rng.range(0, 3), rng.range(1, 3)
        order = rng.choice(["ABA", "BAB", "ABB", "AAB"])
        lines = ["cfg mode=2 k=%d w=8 handlers=64 lowq=30 highq=10" % k, "group 10.0.0.1", "group 10.0.0.2", "start"]
        e = 0
        sent = {"A": [], "B": []}
        plan = []
        ci = 0
        for ph, g in enumerate(order):
            for _ in range((n1, n2, n3)[ph]):
                e += 1
                lines.append("enq " + c03.ev_asdu(e).hex())
            ip = "10.0.0.1" if g == "A" else "10.0.0.2"
            lines += ["connect c%d %s:%d" % (ci, ip, 1000 + ci), "tick", "rx c%d %s" % (ci, apci.STARTDT_ACT.hex()), "tick %d" % (k + 2)]
            for _ in range(e // k + 2):
                lines += ["rxs c%d" % ci, "tick %d" % (k + 2)]
            lines += ["peerclose c%d" % ci, "tick 2"]
            plan.append((ci, g, e))
            ci += 1
        sid = "gr%d" % i
        scripts.append((sid, lines)); meta[sid] = (k, order, plan)
    rc = runner.run_batch(h, scripts, timeout=3600)
    for sid, lines in scripts:
        k, order, plan = meta[sid]
        ck.evaluations += 1
        o = rc.get(sid, dict(out=[], crash=None))
        if o["crash"]:
            ck.fail("input", "crash:%s:%s" % (o["crash"]["kind"], o["crash"]["site"]), "server aborted: %s at %s" % (o["crash"]["kind"], o["crash"]["site"]), {"script": lines, "stderr": o["crash"]["text"]})
            continue
        got = {}
        for l in o["out"]:
            w = l.split()
            if w[0] == "tx":
                for f in apci.split_stream(bytes.fromhex(w[2]))[0]:
                    a = apci.parse_apdu(f)
                    if a["kind"] == "I" and len(a["asdu"]) >= 8 and a["asdu"][0] == 30:
                        got.setdefault(w[1], []).append(a["asdu"][6] | a["asdu"][7] << 8)
        done = {"A": 0, "B": 0}
        for ci, g, upto in plan:
            want = list(range(done[g] + 1, upto + 1))
            have = got.get("c%d" % ci, [])
            if have != want:
                ck.fail("input", "oracle:groups-reuse", "multiple-groups server, clients of the groups %s in turn on one connection slot (k=%d): connection c%d of group %s received the events %s, its group's buffer held %s (every event acknowledged by the group's earlier connections removed)" % (
                    order, k, ci, g, have, want), {"script": lines, "observed": [l[:100] for l in o["out"] if l.startswith(("tx c%d" % ci, "ev "))][:8]})
                break
            done[g] = upto
        ck.nontriv(("groups-reuse", k, order, tuple(p[2] for p in plan)))
    ck.count("groups_reuse_scripts", len(scripts))


def run(ck):
    quick = ck.tier == "quick"
    rng = core.Rng(ck.seed)
    ck.trusted = [
        "Coq 8.16.1 kernel; theorems Closed under the global context",
        "Cs104/MsgQueue.v: hand transcription of MessageQueue_enqueueASDU / getNextWaitingASDU / markAsduAsConfirmed / removeFirstEntry / setWaitingForTransmissionWhenNotConfirmed with byte offsets; validated operation by operation against the real functions each run",
        "arena content is modelled as offset -> entry (a header read where no entry starts is the outcome Fault); struct padding is not modelled",
        "trace level: Cs104/Server.v with an abstract event log (scripts below capacity) vs the real server",
        "Cs104/SchedMq.v ev_send_r / release_r / send_waiting_rr: transcription of sendNextLowPriorityASDU / the release loop of checkSequenceNumber / sendWaitingASDUs with the literal rings; the entry address the C k-buffer keeps is kept in a side table keyed by entry id; validated against the real static functions (white-box `sch` scripts) each run",
    ]
    ck.rule = ("unit: random operation sequences (enqueue sizes 8..249 equal / two sizes / mixed; next; confirm oldest outstanding; reset-to-waiting; queries; release) for N in {1,2,3,4,8}; "
               "trace: enqueue / activate / acknowledge prefixes / connection loss (peer close, write error, STOPDT+close) / reconnect, k in {1,2,3,12}; non-trivial = distinct script")
    ck.explanation = "PARTIAL: (1) event-log theorems for every history (acknowledged never resent, loss re-arms, ids unique); (2) the byte-offset MessageQueue ring (literal transcription, run against the C functions on every run) is proved for every ring size and every history: no stale header read, entries inside the arena, enqueue displaces only a prefix of the oldest entries, getNextWaiting = oldest waiting entry, confirmation safe for every (pointer, id) pair ever handed out. (3) the ring operations are proved to BE the list operations of the server model under the abstraction that forgets offsets (C06_refine_*), displacement of the D oldest entries being the only difference. (4) the capacity clause is proved on the ring (Cs104/MqCapacity.v, C06_capacity_equal_sizes): for every ring size n, ASDU size z and history with equal-size ASDUs an enqueue displaces an entry only if at least n entries remain, and then exactly one; the oracle additionally evaluates it on the queue functions and on the real server in both group modes. (5) COMPOSITION (Cs104/SchedMq.v, C06_sched_mq_*): sendNextLowPriorityASDU, the release loop of checkSequenceNumber, enqueue and the re-arming at the end of a connection, transcribed with the literal ring and the remembered (id, offset) pairs, are the list versions of the server model for every ring state that represents the list (no fault, same frames, same connection; an enqueue first displaces the D oldest entries); sendWaitingASDUs on both rings = send_waiting of the model; the ring-backed functions are run against the real static functions on every run. (6) HISTORIES (Cs104/SchedHist.v, C06_sched_history): every sequence of scheduler operations with both rings in place never faults and is step by step a history of the model's scheduler for some displacement / refusal choices; that machine (rstep) is what the sch scripts run against the real functions. Not re-stated with rings: handleMessage and the timers."
    ck.coq("C06")
    h = harness()
    try:
        m = model()
    except Exception as e:
        m = None
        ck.fail("correspondence", "model-build", "extracted model does not build: " + str(e)[:300], {"theorem": "extraction"})
    run_unit(ck, h, m, rng, quick)
    from props import c13 as _c13
    _c13.run_sched(ck, h, m, core.Rng(ck.seed + 77), quick, sig="sched-mq")
    run_trace(ck, rng, quick)
    run_capacity(ck, rng, quick)
    run_groups_reuse(ck, rng, quick)
    run_threaded_resume(ck, rng, quick)
    run_resume_replies(ck, rng, quick)
    run_restart(ck, rng, quick)
    ck.extra["exhaustive"] = False


def replay(ck, path):
    r = json.loads(Path(path).read_text())["replay"]
    lines = r.get("script", [])
    if r.get("harness") == "h_thr_resume":
        from props import c18
        out, err, rc = c18.run_thr(c18.thr_harness("h_thr_resume"), lines[0])
        print("\n".join(out))
        print(err[-800:])
        ck.evaluations = 1
        return
    exe = c07.harness() if any(l.startswith("cfg") for l in lines) else harness()
    res = runner.run_batch(exe, [("replay", lines)])
    print("\n".join(res["replay"]["out"]))
    ck.evaluations = 1
