"""C03 -- CS104 wire format and send/receive sequence numbering (both roles).
proof:  coq/Properties/C03.v (byte formulas invert; well-formedness; N(S)/N(R) along any event history,
        counters starting anywhere so the wrap is covered)
tie:    for every trace of the real server / client the event list (send I / send S / send U / accept) is
        extracted and the extracted Coq model must regenerate the exact octets that were written
oracle: Python parser of everything written, checking the three clauses of the property directly"""
import json
from pathlib import Path
from vf import core, apci, runner
from props import c05, clientlib

LEVEL = "proof"


def harnesses():
    hsrv = core.build_harness("h_cs104s", ["h_cs104s.c"], whitebox_of=("cs104_slave",))
    hcli = core.build_harness("h_cs104c", ["h_cs104c.c"], whitebox_of=("cs104_connection",))
    return hsrv, hcli


def prebuild():
    harnesses()
    c05.model()


def ev_asdu(i, size=0):
    return apci.asdu(30, 3, 1, bytes([i & 255, (i >> 8) & 255, 0]) + bytes((i + j) & 255 for j in range(max(0, size))))


def peer_asdu(i, size=0):
    return apci.asdu(200, 3, 1, bytes([i & 255, (i >> 8) & 255]) + bytes((i * 3 + j) & 255 for j in range(max(0, size))))


def gen_server(rng, n_ops, soak=False):
    k = rng.choice([1, 2, 3, 12, 12])
    w = rng.choice([1, 1, 2, 3, 8])
    vs0 = rng.choice([0, 1, 32760, 32765, 32766, 32767, rng.below(32768)])
    vr0 = rng.choice([0, 1, 32760, 32766, 32767, rng.below(32768)])
    lines = ["cfg k=%d w=%d t1=15 t2=10 t3=20 handlers=65 burst=%d bsize=%d raw=1 lowq=%d highq=30" % (k, w, rng.below(4), rng.choice([2, 10, 240]), rng.choice([2, 5, 50])),
             "start", "connect c0 10.0.0.1:1000", "tick", "poke c0 vs=%d vr=%d" % (vs0, vr0), "rx c0 " + apci.STARTDT_ACT.hex(), "tick"]
    ci, evid, pid = 0, 0, 0
    for _ in range(n_ops):
        r = rng.below(100)
        if r < 30:
            sz = rng.choice([0, 0, 5, 100, 236, 237])
            lines.append("enq " + ev_asdu(evid, sz).hex())
            evid += 1
            if rng.chance(1, 2):
                lines.append("tick")
        elif r < 55:
            lines.append("rxi c%d %s" % (ci, peer_asdu(pid, rng.choice([0, 3, 200, 241])).hex()))
            pid += 1
            lines.append("tick")
        elif r < 70:
            lines.append("rxs c%d %d" % (ci, -rng.below(2)))
            lines.append("tick 2")
        elif r < 78:
            lines.append("tick %d" % rng.range(1, 4))
        elif r < 84:
            lines.append("adv %d" % rng.choice([1, 999, 5000, 10000, 10001]))
            lines.append("tick")
        elif r < 88:
            lines.append("rxi c%d %s" % (ci, apci.asdu(100, 6, 1, bytes([0, 0, 0, 20])).hex()))
            lines.append("tick 2")
        elif r < 91:
            lines.append("rx c%d %s" % (ci, apci.TESTFR_ACT.hex()))
            lines.append("tick")
        elif r < 94 and not soak:
            # reconnect: counters restart at 0 on the new connection
            lines.append("peerclose c%d" % ci)
            lines.append("tick 2")
            ci += 1
            if ci >= 14:
                break
            lines += ["connect c%d 10.0.0.1:%d" % (ci, 1000 + ci), "tick"]
            if rng.chance(1, 2):
                lines.append("poke c%d vs=%d vr=%d" % (ci, rng.choice([32767, 32766, 5]), rng.choice([32767, 0])))
            lines += ["rx c%d %s" % (ci, apci.STARTDT_ACT.hex()), "tick"]
        elif r < 97:
            lines.append("rx c%d %s" % (ci, apci.STOPDT_ACT.hex()))
            lines.append("tick")
            lines.append("rx c%d %s" % (ci, apci.STARTDT_ACT.hex()))
            lines.append("tick")
        elif r < 98:
            lines.append("rxi c%d %s %d" % (ci, peer_asdu(pid).hex(), rng.choice([1, -1, 5])))   # wrong N(S): closes
            lines.append("tick 2")
        elif r < 99:
            # an I-format APDU carrying an N(R) that acknowledges frames never sent: closes; N(R) sent must not count it
            lines.append("rxi c%d %s 0 %d" % (ci, peer_asdu(pid).hex(), rng.choice([5, 100, -30000])))
            lines.append("tick 2")
        else:
            # the socket takes nothing for exactly one event frame (write returns 0), then works again
            lines += ["wmode c%d 2" % ci, "enq " + ev_asdu(evid).hex(), "tick", "wmode c%d 0" % ci, "enq " + ev_asdu(evid + 1).hex(), "tick 2"]
            evid += 2
    lines.append("tick 3")
    return lines


def gen_client(rng, n_ops, soak=False):
    k = rng.choice([1, 2, 3, 12, 12])
    w = rng.choice([1, 2, 8])
    vs0 = rng.choice([0, 1, 32760, 32766, 32767, rng.below(32768)])
    vr0 = rng.choice([0, 1, 32766, 32767, rng.below(32768)])
    lines = ["cfg k=%d w=%d t1=15 t2=10 t3=20" % (k, w), "connect", "poke vs=%d vr=%d" % (vs0, vr0), "startdt", "step", "rx " + apci.STARTDT_CON.hex(), "step"]
    sid, pid = 0, 0
    for _ in range(n_ops):
        r = rng.below(100)
        if r < 30:
            lines.append("send " + apci.asdu(45, 6, 1, bytes([sid & 255, sid >> 8 & 255, 0, 1]) + bytes(rng.choice([0, 0, 50, 239]))).hex())
            sid += 1
        elif r < 55:
            if rng.chance(1, 3):    # the application answers from inside the received-ASDU callback
                lines.append("cbsend 1")
            lines.append("rxi %s" % peer_asdu(pid, rng.choice([0, 3, 200, 241])).hex())
            pid += 1
            lines.append("step")
        elif r < 70:
            lines.append("rxs %d" % -rng.below(2))
            lines.append("step")
        elif r < 78:
            lines.append("step %d" % rng.range(1, 3))
        elif r < 85:
            lines.append("adv %d" % rng.choice([1, 999, 5000, 10000, 10001]))
            lines.append("step")
        elif r < 89:
            lines.append("ic 1 20")
        elif r < 92:
            lines.append("rx " + apci.TESTFR_ACT.hex())
            lines.append("step")
        elif r < 93 and not soak:
            # the socket takes nothing for one send (write returns 0: send buffer full): the frame is not sent, the call fails, the next
            # I-format APDU that IS written carries the next number in sequence
            lines += ["wmode 2", "send " + apci.asdu(45, 6, 1, bytes([sid & 255, sid >> 8 & 255, 0, 1])).hex(), "wmode 0"]
            sid += 1
        elif r < 95 and not soak:
            lines += ["close", "connect"]
            if rng.chance(1, 2):
                lines.append("poke vs=%d vr=%d" % (rng.choice([32767, 7]), rng.choice([32767, 0])))
            lines += ["startdt", "step", "rx " + apci.STARTDT_CON.hex(), "step"]
        elif r < 97:
            lines += ["stopdt", "step", "rx " + apci.STOPDT_CON.hex(), "step", "startdt", "step", "rx " + apci.STARTDT_CON.hex(), "step"]
        elif r < 99:
            lines.append("rxi %s %d" % (peer_asdu(pid).hex(), rng.choice([1, -1])))
            lines.append("step 2")
        else:
            # right N(S), N(R) that acknowledges what was never sent: refused and the connection is given up -- whatever
            # the client still writes (closing acknowledgement) counts the accepted frames only
            lines.append("rxi %s 0 %d" % (peer_asdu(pid).hex(), rng.choice([1, 2, 7, 16384])))
            lines.append("step 2")
    lines.append("step 2")
    return lines


def analyse(ck, role, sid, lines, out, mexe_scripts):
    """oracle on one trace; also builds the event script for the model.  Connections are separated by
    `poke` (counter start) / OPENED events."""
    # per connection: vs0/vr0 known from poke lines (in script order) -- the harness echoes nothing for poke,
    # so counters are tracked from the script: a connection starts at 0/0 and a poke resets both
    conns = {}
    pokes = {}
    order = []
    # script-driven poke positions cannot be aligned with the output by line number; instead require the
    # generator to poke right after STARTDT (before any I/S traffic): then the first I/S frame of a connection
    # already uses the poked counters.  A poke later in a connection is not generated.
    cur = 0
    for l in lines:
        t = l.split()
        if t[0] == "connect":
            cur = int(t[1][1:]) if role == "server" else cur + 1
            pokes[cur] = (0, 0)
        elif t[0] == "poke":
            kv = dict(x.split("=") for x in t[1:] if "=" in x)
            c = int(t[1][1:]) if role == "server" else cur
            pokes[c] = (int(kv["vs"]), int(kv["vr"]))
    ccur = 0
    per = {}
    # The raw-message handler sees every APDU the station TRIES to write, in order with the callbacks; what reached the peer is
    # in the `tx` lines, printed at the end of each command.  An APDU whose write failed (socket full / error) is not "written
    # to the connection": per command block, raw-out frames are matched in order against the octets that were delivered.
    blocks, curb = [], []
    for l in out:
        curb.append(l)
        if (role == "server" and l.startswith("open ")) or (role == "client" and l == "."):
            blocks.append(curb)
            curb = []
    if curb:
        blocks.append(curb)
    for blk in blocks:
        delivered = {}
        for l in blk:
            t = l.split()
            if t and t[0] == "tx":
                if role == "server":
                    delivered.setdefault(int(t[1][1:]), bytearray()).extend(bytes.fromhex(t[2]))
                else:
                    delivered.setdefault("cli", bytearray()).extend(bytes.fromhex(t[1]))
        dpos = {}
        for l in blk:
            t = l.split()
            if not t:
                continue
            if role == "server":
                if t[0] == "raw" and t[2] == "out":
                    c, f = int(t[1][1:]), bytes.fromhex(t[3])
                    d, p = delivered.get(c, b""), dpos.get(c, 0)
                    if bytes(d[p:p + len(f)]) == f:
                        dpos[c] = p + len(f)
                        per.setdefault(c, []).append(("tx", f))
                elif t[0] == "cb":
                    per.setdefault(int(t[2][1:]), []).append(("acc", None))
            else:
                if t[0] == "ev" and t[1] in ("OPENED", "FAILED"):
                    ccur += 1
                elif t[0] == "raw" and t[1] == "out":
                    f = bytes.fromhex(t[2])
                    d, p = delivered.get("cli", b""), dpos.get("cli", 0)
                    if bytes(d[p:p + len(f)]) == f:
                        dpos["cli"] = p + len(f)
                        per.setdefault(ccur, []).append(("tx", f))
                elif t[0] == "cb":
                    per.setdefault(ccur, []).append(("acc", None))
    for c, evs in per.items():
        vs, vr = pokes.get(c, (0, 0))
        # frames written before the poke (STARTDT con) are U-frames and do not depend on the counters
        model_lines = ["sq %d %d" % (vs, vr)]
        expect = []
        nI = 0
        for kind, f in evs:
            if kind == "acc":
                vr = (vr + 1) % 32768
                model_lines.append("ev a")
                continue
            ck.evaluations += 1
            if not apci.wf_apdu(f):
                ck.fail("input", "oracle:wf:" + role, "%s wrote a malformed APDU %s" % (role, f.hex()), {"script": lines, "observed": [f.hex()]})
                continue
            a = apci.parse_apdu(f)
            if a["kind"] == "I":
                if a["ns"] != vs:
                    ck.fail("input", "oracle:ns:" + role, "%s: I-frame #%d carries N(S)=%d, expected %d" % (role, nI + 1, a["ns"], vs), {"script": lines, "observed": [f.hex()]})
                if a["nr"] != vr:
                    ck.fail("input", "oracle:nr:" + role, "%s: I-frame carries N(R)=%d but %d I-frames were accepted so far (mod 2^15)" % (role, a["nr"], vr), {"script": lines, "observed": [f.hex()]})
                vs = (vs + 1) % 32768
                nI += 1
                model_lines.append("ev i " + a["asdu"].hex())
                ck.nontriv((role, sid, c, nI))
            elif a["kind"] == "S":
                if a["nr"] != vr:
                    ck.fail("input", "oracle:nr:" + role, "%s: S-frame carries N(R)=%d but %d I-frames were accepted so far (mod 2^15)" % (role, a["nr"], vr), {"script": lines, "observed": [f.hex()]})
                model_lines.append("ev s")
            else:
                model_lines.append("ev u %d" % a["u"])
            expect.append(f.hex())
        mexe_scripts.append(("%s.%s.c%d" % (role, sid, c), model_lines, expect, lines))


def run(ck):
    quick = ck.tier == "quick"
    rng = core.Rng(ck.seed)
    ck.trusted = [
        "Coq 8.16.1 kernel; one 128-value kernel sweep (bit masks of the control octets); theorems Closed under the global context",
        "Apci/Frame.v transcribes the byte formulas of sendIMessage/_sendSMessage (server) and T104Frame_prepareToSend/sendSMessage (client); the model is an observer: which events happen is decided by the real code, the model must reproduce the octets from the event list and the initial counters",
        "extraction: ExtrOcamlBasic only; driver/d_apci.ml",
        "simulated HAL (sockets, virtual clock); client connection thread is the library's own, released one loop iteration at a time",
    ]
    ck.rule = ("random histories of application sends, peer I/S/U frames with harness-maintained valid sequence numbers (and deliberate off-by-one ones), acknowledgements of prefixes, "
               "timer advances, STOPDT/STARTDT, reconnects; counters started at {0,1,32760..32767,random}; ASDU sizes incl. 1..249 limits; non-trivial = distinct I-frame observed (role, script, connection, index)")
    ck.coq("C03")
    hsrv, hcli = harnesses()
    try:
        mexe = c05.model()
    except Exception as e:
        mexe = None
        ck.fail("correspondence", "model-build", "extracted model does not build: " + str(e)[:300], {"theorem": "extraction"})
    nscripts = 150 if quick else 3000
    sscripts = [("s%d" % i, gen_server(rng, rng.range(20, 120))) for i in range(nscripts)]
    cscripts = [("c%d" % i, gen_client(rng, rng.range(20, 120))) for i in range(nscripts)]
    if not quick:   # soak across two wraps
        big = ["cfg k=12 w=8 handlers=64 raw=1 lowq=50", "start", "connect c0 10.0.0.1:1000", "tick", "poke c0 vs=32000 vr=32000", "rx c0 " + apci.STARTDT_ACT.hex(), "tick"]
        for i in range(70000):
            big.append("enq " + ev_asdu(i).hex())
            if i % 3 == 0:
                big.append("rxi c0 " + peer_asdu(i).hex())
            big.append("tick")
            if i % 5 == 0:
                big += ["rxs c0", "tick"]
        sscripts.append(("soak", big))
    rs = runner.run_batch(hsrv, sscripts, timeout=3600)
    rc = runner.run_batch(hcli, cscripts, timeout=3600)
    mscripts = []
    for role, scripts, res in (("server", sscripts, rs), ("client", cscripts, rc)):
        for sid, lines in scripts:
            o = res.get(sid, dict(out=[], crash=None))
            if o["crash"]:
                ck.fail("input", "crash:%s:%s" % (o["crash"]["kind"], o["crash"]["site"]), "%s aborted: %s at %s" % (role, o["crash"]["kind"], o["crash"]["site"]),
                        {"script": lines, "role": role, "stderr": o["crash"]["text"]})
                continue
            analyse(ck, role, sid, lines, o["out"], mscripts)
            if len(ck.samples) < 4:
                ck.sample({"role": role, "script": lines[:12], "trace": o["out"][:10]})
    ck.count("server_scripts", len(sscripts))
    ck.count("client_scripts", len(cscripts))
    ndiff = 0
    if mexe:
        rm = runner.run_batch(mexe, [(sid, ml) for sid, ml, _, _ in mscripts])
        for sid, ml, expect, lines in mscripts:
            got = [l.split()[1] for l in rm.get(sid, {}).get("out", []) if l.startswith("f ")]
            if got != expect and ndiff < 10:
                ndiff += 1
                i = next((j for j, (a, b) in enumerate(zip(got, expect)) if a != b), min(len(got), len(expect)))
                ck.fail("correspondence", "diff:frame:" + sid.split(".")[0], "octets written differ from the model's encoding of the same event list at frame %d: C=%s model=%s" % (
                    i, expect[i:i + 1], got[i:i + 1]), {"script": lines, "model_script": ml[:i + 3]})
    # client: besides the octet observer above, the whole connection loop model (Cs104/Client.v) must reproduce the client's trace
    try:
        ndiff += clientlib.correspond(ck, clientlib.model(), cscripts, rc, "frames")
    except Exception as e:
        ck.fail("correspondence", "model-build", "extracted client model does not build: " + str(e)[:300], {"theorem": "extraction"})
    ck.count("connections_replayed_in_model", len(mscripts))
    ck.extra["disagreements"] = ndiff
    ck.extra["exhaustive"] = False


def replay(ck, path):
    r = json.loads(Path(path).read_text())["replay"]
    hsrv, hcli = harnesses()
    lines = r.get("script", [])
    exe = hcli if r.get("role") == "client" or (lines and lines[1:2] == ["connect"]) else hsrv
    res = runner.run_batch(exe, [("replay", lines)])
    print("\n".join(res["replay"]["out"]))
    ck.evaluations = 1
