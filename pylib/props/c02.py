"""C02 -- parsing untrusted ASDU bytes is total, memory-safe and exact about truncation.
proof:   coq/Properties/C02.v (generic theorems over every table row satisfying the decidable predicates,
         + C02_current re-proved by vm_compute over the table regenerated from /repo on this run)
tie:     translator (table) + correspondence: extracted model vs compiled C on every generated decode
oracle:  from the standard's layout only (asdu_spec.py): object returned <=> the element lies inside the supplied
         octets; the returned object carries exactly those octets; no sanitizer report (inputs live in exact-size heap blocks)."""
from vf import core
from props import asdu_common as A
from props import asdu_spec as S

LEVEL = "proof"


def valid_asdu(rng, cfg, t, sq, count):
    """a well-formed ASDU from the reference encoder with random information elements"""
    ioa_sz = cfg[2]
    bodies = []
    for _ in range(count):
        if t.var:
            los = rng.below(6)
            b = rng.bytes(3) + bytes([los]) + rng.bytes(los)
        else:
            b = rng.bytes(t.std_len)
        bodies.append(list(b))
    base = rng.below(A.max_ioa(cfg) - 200)
    pay = []
    for i, b in enumerate(bodies):
        if not sq or i == 0:
            pay += A.le(base + i if sq else rng.below(A.max_ioa(cfg)), ioa_sz)
        pay += b
    h = A.ref_header(cfg, t.tid, sq, count, rng.choice([3, 6, 7, 20, 13]), rng.below(256), rng.below(1 << (8 * cfg[1])), rng.below(2), rng.below(2))
    return h + pay


def idx_set(count):
    return sorted({0, 1, max(count - 1, 0), count, 127})


def gen_scripts(ck, rng, quick):
    scripts, meta = [], {}
    for cfg in A.CFGS:
        for tid in S.SUPPORTED:
            t = S.TYPES[tid]
            lines = ["cfg %d %d %d 249" % cfg]
            cases = []     # (kind, msg, idxs)
            for sq in ((False, True) if t.lay == "seq" else (False,)):
                count = 1 if t.lay == "one" else 2
                msg = valid_asdu(rng, cfg, t, sq, count)
                idxs = idx_set(count)
                cases.append(("trunc", msg, idxs))
                if not quick:
                    cases.append(("dec", msg, list(range(128))))       # every index on the complete message
                # mutations: type octet, VSQ, one payload octet
                for k in range(3 if quick else 12):
                    m = list(msg)
                    c = k % 3
                    if c == 0:
                        m[0] = rng.choice(S.SUPPORTED + [0, 22, 41, 69, 99, 114, 128, 255])
                    elif c == 1:
                        m[1] = rng.choice([0, 1, 2, 127, 128, 129, 255, rng.below(256)])
                    elif len(m) > A.hdr_len(cfg):
                        m[rng.range(A.hdr_len(cfg), len(m) - 1)] = rng.below(256)
                    cases.append(("dec", m, idx_set(m[1] & 0x7F)))
            if t.var:
                # variable-length element: every announced length next to the 8-bit boundaries, with fewer / exactly / more octets
                # present than announced (a size computed in 8 bits wraps at 256: announced 250..255 with 0..6 octets present)
                h = A.ref_header(cfg, t.tid, False, 1, 13, 0, 1, 0, 0)
                for los in [0, 1, 2, 5, 100, 200, 238, 239, 240, 241] + list(range(244, 256)):
                    for n in sorted({0, 1, 2, 3, 4, 5, 6, 7, (cfg[2] + 4 + los) % 256, max(los - 1, 0), los, los + 1}):
                        if n > 245 or n < 0:
                            continue
                        m = h + A.le(rng.below(A.max_ioa(cfg)), cfg[2]) + list(rng.bytes(3)) + [los] + list(rng.bytes(n))
                        cases.append(("dec", m, [0, 1]))
            for kind, m, idxs in cases:
                lines.append("%s %s %s" % (kind, bytes(m).hex() or "-", ",".join(map(str, idxs))))
            sid = "t%d-%d%d%d" % ((tid,) + cfg)
            scripts.append((sid, lines))
            meta[sid] = dict(cfg=cfg, tid=tid, cases=cases)
    # random strings of length 0..255
    for ci, cfg in enumerate(A.CFGS):
        lines = ["cfg %d %d %d 249" % cfg]
        cases = []
        for k in range(25 if quick else 250):
            n = rng.choice([0, 1, 2, 3, 4, 5, 6, 7, rng.below(40), rng.below(256), 255])
            m = list(rng.bytes(n))
            if n and rng.chance(3, 4):
                m[0] = rng.choice(S.SUPPORTED)
            cases.append(("dec", m, idx_set(m[1] & 0x7F if n > 1 else 0) + [2, 5]))
        for kind, m, idxs in cases:
            lines.append("%s %s %s" % (kind, bytes(m).hex() or "-", ",".join(map(str, idxs))))
        sid = "rnd-%d%d%d" % cfg
        scripts.append((sid, lines))
        meta[sid] = dict(cfg=cfg, tid=0, cases=cases)
    return scripts, meta


def check_script(ck, sid, lines, out, m, st):
    """oracle on the implementation's trace"""
    cfg = m["cfg"]
    pos = 0

    def nxt():
        nonlocal pos
        while pos < len(out) and out[pos].startswith("gv "):
            pos += 1
        if pos >= len(out):
            return None
        l = out[pos]
        pos += 1
        return l

    for (kind, msg, idxs), line in zip(m["cases"], lines[1:]):
        for L in (range(len(msg) + 1) if kind == "trunc" else [len(msg)]):
            if kind == "trunc":
                l = nxt()
                if l is None:
                    return None, None
                if l != "T %d" % L:
                    return "trace out of step at `%s` (wanted T %d)" % (l, L), line
            sub = msg[:L]
            l = nxt()
            if l is None:
                return None, None           # crashed before; reported by the caller
            if l.startswith("hx "):
                st["sig"] = "oracle:c02:caller-asdu-storage"
                return "CS101_ASDU_createFromBufferEx (caller-supplied ASDU storage) and CS101_ASDU_createFromBuffer disagree on %d octets: %s" % (L, l), "dec %s 0" % bytes(sub).hex()
            h = A.parse_hdr(l) if l.startswith("hdr") else "?"
            exp0 = A.expected_element(cfg, sub, 0)
            ck.evaluations += 1
            if exp0 == "nohdr":
                if h is not None:
                    return "header accepted from %d octets (needs %d)" % (L, A.hdr_len(cfg)), "dec %s 0" % bytes(sub).hex()
                ck.count("hdr-refused")
                continue
            if h is None or h == "?":
                return "header refused/garbled for %d octets: %s" % (L, l), "dec %s 0" % bytes(sub).hex()
            want = dict(t=sub[0], sq=sub[1] >> 7, n=sub[1] & 0x7F, cot=sub[2] & 0x3F, tst=sub[2] >> 7, neg=(sub[2] >> 6) & 1,
                        oa=sub[3] if cfg[0] == 2 else -1, ca=sum(b << (8 * i) for i, b in enumerate(sub[2 + cfg[0]:2 + cfg[0] + cfg[1]])))
            if h != want:
                st["sig"] = "oracle:c02:header"
                return "header getters %s, octets say %s" % (h, want), "dec %s 0" % bytes(sub).hex()
            for i in idxs:
                l = nxt()
                if l is None:
                    return None, None
                exl = None
                if pos < len(out) and out[pos].startswith("gv "):
                    pos += 1
                if pos < len(out) and out[pos].startswith("ex "):
                    exl = out[pos]
                    pos += 1
                if not l.startswith("el %d " % i):
                    return "trace out of step at `%s` (wanted el %d)" % (l, i), line
                _, got = A.parse_el(l)
                exp = A.expected_element(cfg, sub, i)
                ck.evaluations += 1
                tname = S.TYPES[sub[0]].name if sub[0] in S.TYPES else "unknown"
                one = "dec %s %d" % (bytes(sub).hex(), i)
                if exl is not None:
                    st["sig"] = "oracle:c02:caller-storage-differs:" + tname
                    return "getElementEx with caller storage returned `%s`, heap result `%s`" % (exl, l), one
                if got is None and exp is not None:
                    st["sig"] = "oracle:c02:complete-element-refused:" + tname
                    return "element %d lies completely inside the %d supplied octets but no object was returned" % (i, L), one
                if got is not None and exp is None:
                    st["sig"] = "oracle:c02:object-for-incomplete-element:" + tname
                    return "element %d is not contained in the %d supplied octets but an object was returned: %s" % (i, L, l), one
                if got is not None and got != exp:
                    st["sig"] = "oracle:c02:wrong-octets:" + tname
                    return "element %d decoded as %s, the octets say %s" % (i, got, exp), one
                if got is not None:
                    ck.nontriv((sub[0], cfg, sub[1] >> 7, i, L))
                    ck.count("returned" if i < (sub[1] & 0x7F) else "returned-beyond-declared-count")
                else:
                    ck.count("none:" + ("unknown-type" if tname == "unknown" else "truncated"))
    return None, None


def run(ck):
    quick = ck.tier == "quick"
    rng = core.Rng(ck.seed)
    ck.trusted = list(A.TRUSTED)
    ck.rule = ("every supported type x 12 address-size configurations x {SQ=0, SQ=1 where the library honours it}: one reference-encoded ASDU truncated at EVERY "
               "length, + mutations of type octet / VSQ / one payload octet, + random strings of 0..255 octets (3/4 with a known type octet); indices {0,1,count-1,count,127}; "
               "every message in an exact-size malloc block, result on the heap and in caller storage.  non-trivial = distinct (type, configuration, SQ, index, length) for which an object was returned")
    A.coq_part(ck, "C02")
    scripts, meta = gen_scripts(ck, rng, quick)
    cres, mres = A.run_both(ck, scripts)
    st = {"tid_of": {sid: (S.TYPES[m["tid"]].name if m["tid"] in S.TYPES else "random") for sid, m in meta.items()}}
    nbad = 0
    for sid, lines in scripts:
        c = cres[sid]
        if c["crash"]:
            tn = st["tid_of"][sid]
            last = [l for l in c["out"] if l.startswith(("T ", "hdr"))][-2:]
            ck.fail("input", A.crash_sig(c["crash"]), "implementation aborted (%s in %s) while decoding %s; last trace lines %s" %
                    (c["crash"]["kind"], c["crash"]["site"], tn, last), {"script": lines, "observed": c["out"][-6:], "stderr": c["crash"]["text"][-1500:]})
            ck.count("crash")
        s2 = {}
        bad, one = check_script(ck, sid, lines, c["out"], meta[sid], s2)
        if bad:
            nbad += 1
            if nbad <= 60:
                ck.fail("input", s2.get("sig", "oracle:c02:trace"), bad, {"script": [lines[0], one], "observed": []})
        if mres is not None and not c["crash"]:
            A.correspondence(ck, sid, lines, c["out"], mres[sid]["out"], st)
        if len(ck.samples) < 6 and c["out"]:
            ck.sample({"script": lines[:2], "c_output": c["out"][:4]})
    ck.extra["scripts"] = len(scripts)
    ck.extra["disagreements"] = st.get("ndiff", 0)
    ck.extra["exhaustive"] = False
    ck.notes.append("indices at or above the declared element count: the library returns an object whenever the octets are present; the property text does not forbid it; counted as returned-beyond-declared-count")
    ck.notes.append("single-object types (70, 100-107, 120-125, 127): the library maps every index to the one object; the oracle uses offset 0 for them")


def replay(ck, path):
    A.replay(ck, path)


def prebuild():
    A.prebuild()
