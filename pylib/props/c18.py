"""C18 -- connection lifecycle, open-connection accounting and event notifications (CS104 server and client).
proof:  coq/Properties/C18.v about Cs104/Lifecycle.v (slot table, accept / reap / message loop of the threadless
        server, CS104_Slave_activate, closeAllConnections, stop / destroy) for every operation sequence and table size
tie:    the extracted model executes the same scripts as the real server (h_cs104s on the simulated HAL) and must
        print the same `req` / `ev` / `closed` / `open` lines
oracle: the property text evaluated in Python on the real server's trace for much richer scripts (I-frames, events,
        timers, write failures, group switching), on the real client's event stream (h_cs104c), on the real threaded
        server (h_life_thr), and LeakSanitizer runs of create/start/stop/destroy permutations"""
import ipaddress, itertools, json, os, re, subprocess, time
from concurrent.futures import ThreadPoolExecutor
from pathlib import Path
from vf import core, apci, runner
from props import c07

LEVEL = "other"

V4 = ["10.0.0.1", "10.0.0.2", "10.0.0.3", "192.168.1.200", "172.16.255.1", "1.2.3.4"]
V6_FULL = ["fe80:0:0:0:1:2:3:4", "2001:db8:0:0:0:0:0:1"]
BAD_FRAMES = ["ff", "00", "6800", "680400000000"]
IGNORED = [apci.TESTFR_CON.hex(), apci.STARTDT_CON.hex(), "680403000000"]
KINDS = ("req ", "ev ", "closed ", "open ")
MARK = "halnull"


def harness():
    return c07.harness()


def client_harness():
    return core.build_harness("h_cs104c", ["h_cs104c.c"], whitebox_of=("cs104_connection",))


def thr_harness(name="h_life_thr"):
    """h_life_thr: the real THREADED server (CS104_Slave_start / stop) on the simulated HAL.  simhal's server socket
    allocation is too small for the library's Socket_destroy((Socket) serverSocket) in serverThread, so the harness
    supplies TcpServerSocket_create and simhal's is renamed away (same device as pylib/props/c17.py)."""
    objdir = core.build_clib()
    src = core.VERIF / "harness" / (name + ".c")
    sim = core.VERIF / "harness" / "simhal" / "simhal.c"
    hh = core.file_hash([src, sim, core.VERIF / "harness" / "simhal" / "simhal.h"])
    outdir = core.CACHE / "c18" / objdir.name
    exe = outdir / (name + "-" + hh)
    with core.Lock("hbuild-" + name):
        if exe.exists():
            return exe
        outdir.mkdir(parents=True, exist_ok=True)
        for old in outdir.glob(name + "-*"):
            old.unlink()
        simo = outdir / "simhal_thr.o"
        rc, out = core.sh(["gcc", "-c", *core.SAN_FLAGS, *core.inc_flags(), "-DTcpServerSocket_create=simhal_unused_TcpServerSocket_create",
                           str(sim), "-o", str(simo)])
        if rc:
            raise RuntimeError("simhal does not build for " + name + ":\n" + out[-2000:])
        objs = [str(o) for o in sorted(objdir.glob("*.o")) if o.stem != "cs104_slave"]
        srcdirs = ["-I" + str(core.LIBROOT / d) for d in ("src/iec60870/cs104", "src/iec60870", "src/common")]
        rc, out = core.sh(["gcc", *core.SAN_FLAGS, *core.inc_flags(), *srcdirs, str(src), str(simo), *objs, "-o", str(exe), "-lpthread", "-lm"])
        if rc:
            raise RuntimeError(name + " does not build:\n" + out[-3000:])
    return exe


def model():
    return core.build_model("life", core.COQ / "extract" / "ExtractLifecycle.v", [], core.VERIF / "driver" / "d_life.ml")


def prebuild():
    harness()
    client_harness()
    thr_harness()
    model()


def table_size():
    txt = (core.LIBROOT / "config" / "lib60870_config.h").read_text()
    m = re.search(r"#define\s+CONFIG_CS104_MAX_CLIENT_CONNECTIONS\s+(\d+)", txt)
    return int(m.group(1)) if m else 100


def peer_str(ip, port):
    return "[%s]:%d" % (ip, port) if ":" in ip else "%s:%d" % (ip, port)


def mark(lines):
    """`halnull` after every command: prints one line whatever the state, so the output splits into one block per command"""
    out = []
    for l in lines:
        out.append(l)
        if not l.startswith("#"):
            out.append(MARK)
    return out


def blocks_of(lines, out):
    """-> [(command, [output lines], halnull count)] for a marked script"""
    cmds = [l for l in lines if not l.startswith("#") and l != MARK]
    res, cur, i = [], [], 0
    for o in out:
        if o.startswith("? "):
            continue
        if o.startswith("halnull "):
            if i < len(cmds):
                res.append((cmds[i], cur, int(o.split()[1])))
            i += 1
            cur = []
        else:
            cur.append(o)
    return res, (cmds[len(res)] if len(res) < len(cmds) else None)


def cfg_line(mode, maxconn, extra=""):
    if maxconn in (0, -1):
        s = "cfg mode=%d maxconn=%d setmax=1" % (mode, maxconn)
    elif maxconn is None:
        s = "cfg mode=%d maxconn=0 setmax=0" % mode
    else:
        s = "cfg mode=%d maxconn=%d setmax=0" % (mode, maxconn)
    return s + (" " + extra if extra else "")


# ------------------------------------------------------------------ script generators (server)

class Gen:
    def __init__(self, rng, n_table):
        self.rng = rng
        self.n = n_table

    def groups(self, mode):
        rng = self.rng
        pool = V4 + V6_FULL
        groups = []
        if mode == 2:
            for _ in range(rng.range(0, 3)):
                groups.append(None if rng.chance(1, 4) else [rng.choice(pool) for _ in range(rng.range(1, 3))])
        return groups

    def script(self, fix, rich):
        """random operation sequences over {create, configure, start, connect, STARTDT, STOPDT, TESTFR, garbage, peer close,
        application close, write failure, request refused, stop, restart, destroy + new server}; `rich` adds what the model
        does not cover: I-frames, S-frames, interrogation commands, enqueued events, clock advances (t1 / t3 closes)"""
        rng = self.rng
        mode = rng.choice([0, 0, 1, 1, 2, 2, 2])
        pool = V4 + V6_FULL
        groups = self.groups(mode)
        maxconn = rng.choice([None, None, 1, 2, 3, 5, 0, -1])
        extra = "k=%d w=%d handlers=65 burst=%d lowq=40 highq=20" % (rng.choice([2, 3, 12]), rng.choice([1, 2, 8]), rng.below(3)) if rich else ""
        lines = ["#model n=%d fix=%d" % (self.n, 1 if fix else 0), cfg_line(mode, maxconn, extra)]
        glines = ["group " + ("-" if g is None else ",".join(g)) for g in groups]
        lines += glines
        if rng.chance(1, 6):
            lines.append("create")
        lines.append("start")
        nxt = 0
        known = []
        wf = set()
        ev = 0
        pa = 0
        for _ in range(rng.range(8, 60)):
            r = rng.below(100)
            if rich and rng.chance(1, 3) and known:
                c = rng.choice(known[-8:])
                q = rng.below(100)
                if q < 25:
                    pa += 1
                    lines += ["rxi c%d %s" % (c, c07.peer_asdu(pa).hex()), "tick"]
                elif q < 40:
                    lines += ["rxi c%d %s" % (c, c07.IC.hex()), "tick 2"]
                elif q < 55:
                    lines += ["rxs c%d" % c, "tick"]
                elif q < 60:
                    lines += ["rxs c%d 3" % c, "tick"]
                elif q < 65:
                    lines += ["rxi c%d %s 1" % (c, c07.peer_asdu(999).hex()), "tick"]
                elif q < 85:
                    ev += 1
                    lines += ["enq " + c07.ev_asdu(ev).hex(), "tick"]
                else:
                    lines += ["adv %d" % rng.choice([1000, 4000, 9000, 11000, 16000, 21000]), "tick"]
                continue
            if r < 22 and nxt < 40:
                lines.append("connect c%d %s" % (nxt, peer_str(rng.choice(pool), 2000 + nxt)))
                known.append(nxt)
                nxt += 1
                if rng.chance(3, 4):
                    lines.append("tick")
            elif r < 40:
                lines.append("tick" if rng.chance(3, 4) else "tick %d" % rng.range(2, 3))
            elif r < 58 and known:
                c = rng.choice(known[-8:])
                lines.append("rx c%d %s" % (c, apci.STARTDT_ACT.hex()))
                if rng.chance(2, 3):
                    lines.append("tick")
            elif r < 66 and known:
                c = rng.choice(known[-8:])
                lines.append("rx c%d %s" % (c, apci.STOPDT_ACT.hex()))
                if rng.chance(2, 3):
                    lines.append("tick")
            elif r < 70 and known:
                c = rng.choice(known[-8:])
                lines.append("rx c%d %s" % (c, rng.choice([apci.TESTFR_ACT.hex()] + IGNORED)))
            elif r < 75 and known:
                c = rng.choice(known[-8:])
                lines.append("rx c%d %s" % (c, rng.choice(BAD_FRAMES)))
            elif r < 81 and known:
                lines.append("peerclose c%d" % rng.choice(known[-8:]))
            elif r < 86 and known:
                lines.append("appclose c%d" % rng.choice(known[-8:]))
            elif r < 89 and known:
                c = rng.choice(known[-8:])
                if c in wf and rng.chance(1, 2):
                    wf.discard(c)
                    lines.append("wmode c%d 0" % c)
                else:
                    wf.add(c)
                    lines.append("wmode c%d %d" % (c, rng.choice([1, 1, 2])))
            elif r < 92:
                lines.append("cfg reqret=%d" % rng.below(2))
            elif r < 95:
                lines += ["stop", "tick"] if rng.chance(1, 2) else ["stop"]
                if rng.chance(3, 4):
                    lines.append("start")
            elif r < 98:
                lines.append("destroy")
                if rng.chance(1, 2):
                    lines.append("tick")
                if rng.chance(1, 2):
                    mode2 = mode if mode == 2 or rng.chance(1, 2) else rng.choice([0, 1])
                    maxconn = rng.choice([None, 1, 2, 4, 0])
                    lines.append(cfg_line(mode2, maxconn))
                    if mode2 == 2:
                        lines += glines
                    mode = mode2
                elif mode == 2:
                    lines += glines
                lines.append("start")
            else:
                lines.append("start")
        lines += ["cfg reqret=1", "tick 3", "slots"]
        return mark(lines)

    def exhaustion(self, mode, maxconn, fix, extra):
        """more connection attempts than table slots, slots freed and taken again, restart"""
        rng = self.rng
        lines = ["#model n=%d fix=%d" % (self.n, 1 if fix else 0), cfg_line(mode, maxconn), "start"]
        total = self.n + extra
        nxt = 0
        while nxt < total:
            b = min(rng.range(1, 40), total - nxt)
            for _ in range(b):
                lines.append("connect c%d %s" % (nxt, peer_str(rng.choice(V4), 2000 + nxt)))
                nxt += 1
            lines += ["tick"] * (b + rng.below(2))
            if rng.chance(1, 3) and nxt > 3:
                c = rng.below(nxt)
                lines += [rng.choice(["peerclose c%d" % c, "appclose c%d" % c, "rx c%d ff" % c]), "tick", "tick"]
        lines += ["tick"] * 4
        for _ in range(3):
            lines += ["peerclose c%d" % rng.below(nxt), "tick", "tick"]
        for _ in range(3):
            if nxt < 180:
                lines += ["connect c%d 10.0.0.9:%d" % (nxt, 2000 + nxt), "tick", "tick"]
                nxt += 1
        lines += ["slots", "stop", "tick", "start", "tick", "tick", "slots"]
        return mark(lines)


def lifecycle_lines(out):
    return [l for l in out if l.startswith(KINDS)]


def crash_sig(cr):
    kind = cr["kind"]
    if "null pointer" in kind:
        kind = "null-deref"
    site = cr["site"]
    if site == "unknown":       # a scratch tree (VERIF_REPO) is not under /repo
        m = re.search(r"#\d+ 0x[0-9a-f]+ in (\w+) (/\S*lib60870-C/[^\s:]+)", cr.get("text", ""))
        if m:
            site = "%s:%s" % (os.path.basename(m.group(2)), m.group(1))
    return "crash:%s:%s" % (kind, site)


# ------------------------------------------------------------------ oracle (server): the property text on the real trace

def canon(ip):
    try:
        return ipaddress.ip_address(ip)
    except ValueError:
        return None


def expected_group(mode, groups, ip):
    """the group that lists the address, else a catch-all, else none (property C08's admission rule)"""
    if mode != 2:
        return 0
    a = canon(ip)
    catchall = None
    for gi, g in enumerate(groups):
        if g is None:
            catchall = gi
        elif any(canon(x) == a for x in g):
            return gi
    return catchall


def server_oracle(lines, out, n_table, crashed):
    """returns [(code, text)].  State kept here is only what the property text talks about: which connections have been
    reported opened / closed, which ended because the server was stopped, what was sent to whom."""
    bad = []
    blocks, cut = blocks_of(lines, out)
    C = {}              # ci -> dict
    backlog = []
    exists = running = False
    mode = cfg_mode = 0
    maxconn = 0
    setmax = 0
    limit = n_table
    reqret = 1
    groups_live = []
    open_prev = 0
    starved = 0

    def conn(ci):
        return C.setdefault(ci, dict(opened=False, closed=False, ended=False, active=False, sock=False, q=0, clean=True,
                                     doom=None, nstart=0, nstop=0, nact=0, ndeact=0, ip="", want=None))

    def open_set():
        return [c for c, d in C.items() if d["opened"] and not d["closed"] and not d["ended"]]

    def make():
        nonlocal exists, limit, groups_live, mode
        if not exists:
            exists = True
            mode = cfg_mode
            if maxconn > 0:
                limit = min(maxconn, n_table) if n_table > 0 else maxconn
            elif setmax:
                limit = maxconn
            else:
                limit = n_table
            groups_live = []

    def end_all():
        for c in open_set():
            C[c]["ended"] = True
            C[c]["active"] = False
            C[c]["doom"] = None

    nstart_total = 0

    def handle_lines(blk, st):
        """events, requests, closed sockets and the reported counter of one output block, in the order printed"""
        nonlocal nstart_total, open_prev
        for l in blk:
            p = l.split()
            if not p:
                continue
            if p[0] == "req":
                st['nreq'] += 1
                if not backlog:
                    bad.append(("phantom-request", "a connection request was processed although none is pending"))
                    continue
                ci = backlog.pop(0)
                st['processed'].append((ci, int(p[2].split("=")[1]), len(open_set())))
            elif p[0] == "ev":
                ci = int(p[1][1:])
                if ci < 0 or ci not in C:
                    bad.append(("event-unknown-connection", "event %s reported for a connection that is not open (c%d)" % (p[2], ci)))
                    continue
                d = C[ci]
                e = p[2]
                if d["ended"] or d["closed"]:
                    bad.append(("event-after-end", "%s reported for c%d after it was %s" % (e, ci, "closed" if d["closed"] else "ended by stop/destroy")))
                    continue
                if e == "OPENED":
                    if d["opened"]:
                        bad.append(("grammar", "c%d reported OPENED twice" % ci))
                    d["opened"] = True
                    d["q_at_open"] = d["q"]
                elif not d["opened"]:
                    bad.append(("grammar", "%s reported for c%d before OPENED" % (e, ci)))
                elif e == "CLOSED":
                    d["closed"] = True
                    d["active"] = False
                    d["doom"] = None
                    if not d["sock"]:
                        d["want"] = "closed"
                elif e == "ACTIVATED":
                    if d["active"]:
                        bad.append(("grammar", "c%d reported ACTIVATED twice without DEACTIVATED" % ci))
                    d["active"] = True
                    d["nact"] += 1
                    if d["nact"] > d["nstart"]:
                        bad.append(("activated-without-startdt", "c%d reported ACTIVATED %d times, %d STARTDT act were sent to it" % (ci, d["nact"], d["nstart"])))
                elif e == "DEACTIVATED":
                    if not d["active"]:
                        bad.append(("grammar", "c%d reported DEACTIVATED while not activated" % ci))
                    d["active"] = False
                    d["ndeact"] += 1
                    # only the STARTDT act of a connection of the SAME redundancy group (every other connection in single-group mode, none
                    # in connection-is-group mode) can take the started role away
                    def grp_of(x):
                        return expected_group(mode, groups_live, C[x]["ip"]) if mode == 2 else (0 if mode == 0 else ("own", x))
                    others = sum(C[o]["nstart"] for o in C if o != ci and grp_of(o) == grp_of(ci))
                    if d["ndeact"] > d["nstop"] + others:
                        bad.append(("deactivated-unexplained", "c%d reported DEACTIVATED %d times; %d STOPDT act were sent to it and %d STARTDT act to other connections of its redundancy group" % (ci, d["ndeact"], d["nstop"], others)))
            elif p[0] == "closed":
                ci = int(p[1][1:])
                d = conn(ci)
                d["sock"] = True
                d["want"] = None
                if d["opened"] and not d["closed"] and not d["ended"]:
                    bad.append(("closed-missing", "the server closed the socket of c%d while it kept running and did not report CLOSED" % ci))
                    d["ended"] = True
            elif p[0] == "tx":
                pass
            elif p[0] == "open":
                n = int(p[1])
                if n != len(open_set()):
                    bad.append(("open-count", "the server reports %d open connections; %d were reported opened and neither closed nor ended by stop (%s)" % (
                        n, len(open_set()), ",".join("c%d" % c for c in sorted(open_set())))))
                open_prev = n

    for cmd, blk, hn in blocks:
        t = cmd.split()
        op = t[0]
        if hn:
            bad.append(("hal-null-listener", "`%s` made the library pass a NULL listening socket to the HAL (ServerSocket_accept) %d time(s): use after stop / before start" % (cmd, hn)))
        if op != "tick":
            # whatever a command other than a processing step reports is judged by the same rules (e.g. CLOSED reported by stop
            # would be fine); `open` lines of stop are looked at below
            handle_lines([l for l in blk if not l.startswith("open ")], dict(nreq=0, processed=[]))
        if op == "cfg":
            for x in t[1:]:
                k, _, v = x.partition("=")
                if k == "mode":
                    cfg_mode = int(v)       # takes effect when the next server object is created
                elif k == "maxconn":
                    maxconn = int(v)
                elif k == "setmax":
                    setmax = int(v)
                elif k == "reqret":
                    reqret = int(v)
        elif op == "group":
            make()
            if mode == 2:
                groups_live.append(None if t[1] == "-" else t[1].split(","))
        elif op == "create":
            make()
        elif op == "start":
            make()
            if mode == 2 and not groups_live:
                groups_live = [None]
            running = True
        elif op in ("stop", "destroy"):
            if exists:
                if op == "stop":
                    o = [l for l in blk if l.startswith("open ")]
                    if not o or int(o[-1].split()[1]) != 0:
                        bad.append(("stop-open-nonzero", "after stop the server reports %s open connections" % (o[-1].split()[1] if o else "?")))
                end_all()
                open_prev = 0
                running = False
                for c, d in C.items():
                    if d["opened"] and not d["sock"]:
                        d["want"] = "stop"
                if op == "destroy":
                    exists = False
        elif op == "connect":
            ci = int(t[1][1:])
            conn(ci)["ip"] = t[2].rsplit(":", 1)[0].strip("[]")
            backlog.append(ci)
        elif op in ("rx", "rxi", "rxs"):
            ci = int(t[1][1:])
            d = conn(ci)
            d["q"] += 1
            if d["doom"] is not None:
                d["doom"] += 1          # queued input is read before the end of the stream is seen
            if op == "rx":
                fr = t[2].lower()
                if fr == apci.STARTDT_ACT.hex():
                    d["nstart"] += 1
                    nstart_total += 1
                elif fr == apci.STOPDT_ACT.hex():
                    d["nstop"] += 1
                elif fr in BAD_FRAMES:
                    d["clean"] = False
                    if d["opened"] and not d["closed"] and not d["ended"] and d["doom"] is None:
                        d["doom"] = d["q"] + 2
            else:
                d["clean"] = False
        elif op == "peerclose":
            d = conn(int(t[1][1:]))
            d["clean"] = False
            if d["opened"] and not d["closed"] and not d["ended"] and d["doom"] is None:
                d["doom"] = d["q"] + 2
        elif op == "appclose":
            d = conn(int(t[1][1:]))
            if d["opened"] and not d["closed"] and not d["ended"]:
                d["clean"] = False
                if d["doom"] is None:
                    d["doom"] = 2
        elif op == "wmode":
            conn(int(t[1][1:]))["clean"] = False
        elif op == "adv":
            for d in C.values():
                d["clean"] = False
        elif op == "slots":
            for l in blk:
                if l.startswith("slots "):
                    kv = dict(x.split("=") for x in l.split()[1:])
                    if int(kv["used"]) != len(open_set()):
                        bad.append(("slots-mismatch", "%s connection slots are in use, %d connections are open (opened and neither closed nor ended by stop)" % (kv["used"], len(open_set()))))
        elif op == "tick":
            nt = int(t[1]) if len(t) > 1 else 1
            before_open = set(open_set())
            had_backlog = bool(backlog)
            gate = running and exists and (limit < 1 or open_prev < limit)
            st = dict(nreq=0, processed=[])
            handle_lines(blk, st)
            nreq, processed = st['nreq'], st['processed']
            # sockets of connections that were closed / ended by stop must have been destroyed by now
            for ci, d in C.items():
                if d["want"] and exists or d["want"] == "stop":
                    if d["want"] and not d["sock"]:
                        bad.append(("socket-left-open", "the socket of c%d was not closed although the connection was %s" % (ci, "reported closed" if d["want"] == "closed" else "ended by stop/destroy")))
                        d["want"] = None
            # a connection whose end was caused from outside gets CLOSED within the next ticks
            if running and exists:
                for ci, d in C.items():
                    if d["doom"] is not None and d["opened"] and not d["closed"] and not d["ended"]:
                        d["doom"] -= nt
                        if d["doom"] < 0:
                            bad.append(("closed-late", "c%d: peer close / application close / malformed input was not followed by CLOSED within the next processing steps" % ci))
                            d["doom"] = None
                for ci, d in C.items():
                    if d["opened"] and d["q"] > 0:
                        d["q"] = max(0, d["q"] - nt)
            # admission and slot reuse
            for ci, rr, nopen in processed:
                d = C[ci]
                g = expected_group(mode, groups_live, d["ip"])
                exp = rr == 1 and g is not None and nopen < n_table
                if d["opened"] != exp and not d["closed"]:
                    bad.append(("admission" if exp else "admitted-unexpected",
                                "connection c%d from %s was %s (callback %d, mode %d, %d open, table %d); expected %s" % (
                                    ci, d["ip"], "admitted" if d["opened"] else "turned away", rr, mode, nopen, n_table, "admitted" if exp else "turned away")))
                if not d["opened"]:
                    d["want"] = "refused"
            for ci, d in C.items():
                if d["want"] == "refused" and not d["sock"] and exists:
                    bad.append(("socket-left-open", "the socket of the refused connection c%d was not closed" % ci))
                    d["want"] = None
            if had_backlog and gate and nreq == 0 and not crashed:
                starved += 1
                if starved >= 1:
                    bad.append(("starved", "a pending connection was not processed by a step although %d of %s allowed connections are open" % (open_prev, limit if limit >= 1 else "unlimited")))
            else:
                starved = 0
            if nreq > nt:
                bad.append(("phantom-request", "%d connection requests processed in %d steps" % (nreq, nt)))
            # single redundancy group: at most one activated connection
            if mode == 0:
                act = [c for c in open_set() if C[c]["active"]]
                if len(act) > 1:
                    bad.append(("two-active", "connections %s are both reported activated in single-redundancy-group mode" % act))
    # STARTDT / STOPDT handling on undisturbed connections: replay the script for those
    bad += startdt_oracle(blocks, C)
    return bad


def startdt_oracle(blocks, C):
    """for connections that only ever got STARTDT/STOPDT/TESTFR frames and were never closed from outside: the k-th frame is
    processed by the k-th step after the connection was opened (one frame per step), STARTDT act must leave it activated and
    be confirmed, STOPDT act must leave it not activated"""
    bad = []
    clean = {c for c, d in C.items() if d["clean"]}
    fed = {c: [] for c in clean}
    opened = set()
    active = set()
    pos = {c: 0 for c in clean}
    for cmd, blk, hn in blocks:
        t = cmd.split()
        if t[0] == "rx" and int(t[1][1:]) in clean:
            fed[int(t[1][1:])].append(t[2].lower())
        elif t[0] in ("stop", "destroy"):
            for c in list(opened):
                opened.discard(c)
                clean.discard(c)        # ended by stop: no further expectations
        elif t[0] == "tick":
            nt = int(t[1]) if len(t) > 1 else 1
            if nt != 1:
                for c in list(clean):
                    if c in opened or any(l.split()[1] == "c%d" % c for l in blk if l.startswith("ev ")):
                        clean.discard(c)
                continue
            active_before = set(active)
            txs = {int(l.split()[1][1:]): l.split()[2] for l in blk if l.startswith("tx ")}
            acts, deacts, closed_now = set(), set(), set()
            for l in blk:
                p = l.split()
                if p[0] == "ev":
                    c = int(p[1][1:])
                    if p[2] == "OPENED":
                        opened.add(c)
                    elif p[2] == "CLOSED":
                        opened.discard(c)
                        closed_now.add(c)
                    elif p[2] == "ACTIVATED":
                        active.add(c)
                        acts.add(c)
                    elif p[2] == "DEACTIVATED":
                        active.discard(c)
                        deacts.add(c)
            # a connection accepted by this step reads its first frame in the same step (accept comes first)
            for c in sorted(clean & opened):
                if pos[c] < len(fed[c]):
                    fr = fed[c][pos[c]]
                    pos[c] += 1
                    if fr == apci.STARTDT_ACT.hex():
                        # another connection of the group may be started later in the same step, so only the report counts
                        if c not in active_before and c not in acts:
                            bad.append(("startdt-not-activated", "c%d: STARTDT act processed but the connection was not reported activated" % c))
                        if apci.STARTDT_CON.hex() not in txs.get(c, ""):
                            bad.append(("startdt-not-confirmed", "c%d: STARTDT act not answered with STARTDT con" % c))
                    elif fr == apci.STOPDT_ACT.hex():
                        if c in active_before and c not in deacts:
                            bad.append(("stopdt-still-activated", "c%d: STOPDT act processed but the connection was not reported deactivated" % c))
    return bad


# ------------------------------------------------------------------ client

def client_script(rng):
    lines = []
    connected = False     # an attempt whose thread may still be alive
    ever = False
    peer_ns = 0
    for _ in range(rng.range(4, 28)):
        r = rng.below(100)
        if r < 18:
            if connected:
                lines.append("close")
            lines.append("connect")
            connected = True
            ever = True
        elif r < 26:
            if connected:
                lines.append("close")
            lines.append("connect refuse")
            connected = False
            ever = True
        elif r < 31:
            if connected:
                lines.append("close")
            lines.append("connectfail")
            connected = False
            ever = True
        elif r < 45:
            lines.append("step" if rng.chance(2, 3) else "step %d" % rng.range(2, 4))
        elif r < 52 and connected:
            lines += ["startdt", "step", "rx " + apci.STARTDT_CON.hex(), "step"]
        elif r < 56 and connected:
            lines += ["stopdt", "step", "rx " + apci.STOPDT_CON.hex(), "step"]
        elif r < 62:
            lines.append(rng.choice(["ustartdt", "ustopdt"]))
        elif r < 70:
            lines.append(rng.choice(["send " + c07.peer_asdu(rng.below(50)).hex(), "ic 1 20", "rd 1 %d" % rng.below(100)]))
        elif r < 76 and connected:
            lines += ["rxi " + c07.ev_asdu(rng.below(100)).hex(), "step"]
        elif r < 80 and connected:
            lines += ["rx " + rng.choice(["ff", "6800", apci.TESTFR_ACT.hex(), "680401000a00"]), "step"]
        elif r < 85 and connected:
            lines += ["peerclose", "step 3"]
            connected = False
        elif r < 88 and connected:
            lines.append("wmode %d" % rng.choice([0, 1, 2]))
        elif r < 91 and connected:
            lines += ["adv %d" % rng.choice([5000, 16000, 21000]), "step"]
        elif r < 97:
            lines.append("close")
            connected = False
        else:
            lines.append("destroy")
            connected = False
        lines.append("halnull")
    lines += ["destroy", "halnull"]
    return lines


def client_oracle(lines, out):
    """one output block per command (the harness prints `.` after each)"""
    bad = []
    blocks, cur = [], []
    for o in out:
        if o == ".":
            blocks.append(cur)
            cur = []
        else:
            cur.append(o)
    attempt = None       # dict(kind, evs)
    ended = True         # no connection: after close / CLOSED / FAILED / before the first connect

    def finish():
        if attempt is None:
            return
        evs = attempt["evs"]
        ends = [e for e in evs if e in ("CLOSED", "FAILED")]
        if len(ends) == 0:
            bad.append(("no-end-event", "connect attempt (%s) finished without CLOSED or FAILED being reported (events: %s)" % (attempt["kind"], evs)))
        elif len(ends) > 1:
            bad.append(("several-end-events", "connect attempt (%s) reported %s" % (attempt["kind"], evs)))
        if attempt["kind"] != "connect" and "OPENED" in evs:
            bad.append(("opened-on-failure", "a failing connect attempt reported OPENED (%s)" % evs))
        if attempt["kind"] == "connect" and evs and evs[0] != "OPENED":
            bad.append(("opened-not-first", "first event of a successful connect is %s" % evs[0]))
        if attempt["kind"] != "connect" and ends and ends[0] != "FAILED":
            bad.append(("failure-not-reported", "a failing connect attempt reported %s" % evs))
        for i, e in enumerate(evs):
            if e in ("CLOSED", "FAILED") and i != len(evs) - 1:
                bad.append(("event-after-end", "events after %s: %s" % (e, evs[i + 1:])))
                break

    for cmd, blk in zip(lines, blocks):
        t = cmd.split()
        if t[0] in ("connect", "connectfail"):
            finish()
            kind = "connect" if cmd == "connect" else ("refused" if cmd == "connect refuse" else "no socket")
            attempt = dict(kind=kind, evs=[])
            ended = False
        for l in blk:
            p = l.split()
            if p[0] == "ev":
                if attempt is None:
                    bad.append(("event-without-attempt", "event %s without a connect attempt" % p[1]))
                else:
                    attempt["evs"].append(p[1])
                if p[1] in ("CLOSED", "FAILED"):
                    ended = True
            elif p[0] == "ret" and t[0] in ("send", "ic", "rd"):
                if ended_before(cmd, attempt, ended) and p[1] != "0":
                    bad.append(("send-after-close", "`%s` on a connection that is closed returned %s" % (cmd, p[1])))
            elif p[0] == "halnull" and int(p[1]) > 0:
                bad.append(("hal-null-socket", "the library passed a NULL socket to the HAL (Socket_write) %s time(s): send on a closed / never connected connection" % p[1]))
            elif p[0] == "tx" and ended_before(cmd, attempt, ended) and t[0] in ("send", "ic", "rd", "ustartdt", "ustopdt"):
                bad.append(("tx-after-close", "`%s` on a closed connection transmitted %s" % (cmd, p[1])))
        if t[0] in ("close", "destroy"):
            ended = True
            if t[0] == "destroy":
                finish()
                attempt = None
    finish()
    return bad


def ended_before(cmd, attempt, ended):
    return ended


# ------------------------------------------------------------------ LeakSanitizer runs

LEAK_ENV = dict(os.environ, ASAN_OPTIONS="detect_leaks=1:abort_on_error=0:allocator_may_return_null=1",
                UBSAN_OPTIONS="print_stacktrace=1:halt_on_error=1")


def run_leak(exe, lines):
    try:
        p = subprocess.run([str(exe)], input="--- leak\n" + "\n".join(lines) + "\n", stdout=subprocess.PIPE, stderr=subprocess.PIPE,
                           text=True, timeout=60, env=LEAK_ENV, errors="replace")
    except subprocess.TimeoutExpired:
        return dict(kind="hang", site="timeout", text="no progress"), None
    err = p.stderr
    if "LeakSanitizer" in err:
        site = "unknown"
        for fm in re.finditer(r"#\d+ 0x[0-9a-f]+ in (\w+) (/\S+?/lib60870-C/[^\s:]+)", err):
            if fm.group(1) in ("Memory_malloc", "Memory_calloc", "Memory_realloc"):
                continue
            site = "%s:%s" % (os.path.basename(fm.group(2)), fm.group(1))
            break
        m = re.search(r"SUMMARY: AddressSanitizer: (\d+) byte\(s\) leaked in (\d+) allocation", err)
        return None, dict(site=site, text=err[:1800], summary=m.group(0) if m else "")
    if p.returncode != 0:
        return runner.classify_crash(err), None
    return None, None


def server_leak_scripts(rng, quick):
    ops = ["create", "start", "stop", "destroy", "conn", "startdt", "enq", "tick"]
    seqs = []
    for n in range(1, 5 if quick else 6):
        seqs += list(itertools.product(ops, repeat=n))
    keep = [s for s in seqs if len(s) <= 2]
    rest = [s for s in seqs if len(s) > 2]
    want = 70 if quick else 4000
    idx = sorted({rng.below(len(rest)) for _ in range(want)})
    seqs = keep + [rest[i] for i in idx] + [("start", "stop", "start"), ("start", "conn", "stop", "start", "conn", "destroy", "start"),
                                            ("start", "start", "stop", "stop", "destroy", "destroy"), ("create", "destroy", "create", "start")]
    directed = [("start", "stop", "start"), ("start", "conn", "startdt", "enq", "stop", "start", "conn", "stop"), ("create", "enq"), ("start", "stop", "enq")]
    jobs = [(i % 3, s) for i, s in enumerate(seqs)] + [(md, s) for md in (0, 1, 2) for s in directed]
    out = []
    for i, (mode, s) in enumerate(jobs):
        lines = [cfg_line(mode, rng.choice([None, 2, 0]), "handlers=65 lowq=20 highq=10")]
        glines = ["group 10.0.0.1", "group -"] if mode == 2 and i % 2 else []
        lines += glines
        fresh = True
        nxt = 0
        for o in s:
            if o == "conn":
                lines += ["connect c%d 10.0.0.1:%d" % (nxt, 3000 + nxt), "tick"]
                nxt += 1
            elif o == "startdt":
                if nxt:
                    lines += ["rx c%d %s" % (nxt - 1, apci.STARTDT_ACT.hex()), "tick", "rxi c%d %s" % (nxt - 1, c07.IC.hex()), "tick 2"]
            elif o == "enq":
                lines += ["enq " + c07.ev_asdu(7).hex(), "tick"]
            elif o == "destroy":
                lines.append("destroy")
                fresh = False
            elif o in ("create", "start"):
                if not fresh:
                    lines += glines          # a new server object: groups are configured before it is started
                    fresh = True
                lines.append(o)
            else:
                lines.append(o)
        out.append((s, mode, lines))
    return out


def client_leak_scripts(rng, quick):
    ops = ["connect", "connect refuse", "connectfail", "step", "traffic", "peerclose", "close", "destroy"]
    seqs = []
    for n in range(1, 4 if quick else 6):
        seqs += list(itertools.product(ops, repeat=n))
    keep = [s for s in seqs if len(s) <= 2]
    rest = [s for s in seqs if len(s) > 2]
    idx = sorted({rng.below(len(rest)) for _ in range(50 if quick else 3000)})
    seqs = keep + [rest[i] for i in idx]
    out = []
    for s in seqs:
        lines = []
        connected = False
        for o in s:
            if o.startswith("connect"):
                if connected:
                    lines.append("close")
                lines.append(o)
                connected = (o == "connect")
            elif o == "traffic":
                if connected:
                    lines += ["startdt", "step", "rx " + apci.STARTDT_CON.hex(), "step", "ic 1 20", "step", "rxi " + c07.ev_asdu(3).hex(), "step"]
                else:
                    lines += ["ustartdt", "ic 1 20"]
            elif o == "peerclose":
                if connected:
                    lines += ["peerclose", "step 3"]
                    connected = False
            elif o == "step":
                lines.append("step 2")
            else:
                lines.append(o)
                connected = False
        out.append((s, lines))
    return out


# ------------------------------------------------------------------ threaded server

def thr_scenarios(rng, quick):
    out = []
    for i in range(12 if quick else 240):
        mode = i % 3
        out.append("mode=%d conns=%d startdt=%d rounds=%d maxconn=%d" % (mode, rng.range(1, 4), rng.below(2), rng.range(1, 3), rng.choice([0, 0, 2, 5])))
    # an attempt is turned away (limit reached / the connection request callback says no); later in the same run of the listener
    # thread there is room and the callback agrees: the next peer is admitted
    for mode in (0, 1, 2):
        out.append("mode=%d conns=%d startdt=%d rounds=2 maxconn=%d late=1" % (mode, 3, rng.below(2), 2))
        out.append("mode=%d conns=%d startdt=0 rounds=2 maxconn=0 late=1 deny=%d" % (mode, 3, rng.range(1, 3)))
        # the same server object run threadless first, then with its own threads (start / stop in any order, any number of times)
        out.append("mode=%d conns=%d startdt=%d rounds=%d maxconn=0 pre=1" % (mode, rng.range(1, 3), rng.below(2), rng.range(1, 2)))
    # a start that fails (listening socket cannot be created), then destroy without stop / then ordinary rounds
    for mode in (0, 1, 2):
        out.append("mode=%d conns=1 startdt=0 rounds=0 maxconn=0 failstart=1" % mode)
        out.append("mode=%d conns=2 startdt=1 rounds=1 maxconn=0 failstart=1" % mode)
    # the started connection of a redundancy group is lost and the master switches over at once (STARTDT act on another connection right
    # after CLOSED was reported, before the listening thread has released the slot): nothing is reported for the closed connection.
    # The window is a few milliseconds wide: the scenario is repeated
    for i in range(24 if quick else 300):
        out.append("mode=%d conns=%d startdt=0 rounds=1 maxconn=0 switch=1" % ((0, 2)[i % 2], 2 + i % 3))
    return out


def run_thr(exe, line):
    try:
        p = subprocess.run([str(exe)], input=line + "\n", stdout=subprocess.PIPE, stderr=subprocess.PIPE, text=True, timeout=120,
                           env=LEAK_ENV, errors="replace")
    except subprocess.TimeoutExpired:
        return ["hang"], "", 124
    return p.stdout.splitlines(), p.stderr, p.returncode


# ------------------------------------------------------------------ smaller failing inputs

class Shrinker:
    """delta-minimisation of a failing script: drop chunks of lines while the same failure class persists; the candidates of
    one round run as one batch; bounded by a wall-clock budget shared by all failures of a run"""

    def __init__(self, budget_s, each_s):
        self.deadline = time.time() + budget_s
        self.each = each_s

    def shrink(self, exe, lines, fails, prep=lambda l: l, keep=lambda l: False):
        """fails(lines, result) -> bool;  keep(line) -> lines never dropped"""
        cur = list(lines)
        n = 2
        mine = min(self.deadline, time.time() + self.each)
        while len(cur) >= 2 and time.time() < mine:
            size = max(1, len(cur) // n)
            cands = []
            for a in range(0, len(cur), size):
                c = [l for i, l in enumerate(cur) if not (a <= i < a + size) or keep(l)]
                if len(c) < len(cur):
                    cands.append(c)
            res = runner.run_batch(exe, [("k%d" % i, prep(c)) for i, c in enumerate(cands)], timeout=120)
            hit = next((c for i, c in enumerate(cands) if fails(c, res.get("k%d" % i, dict(out=[], crash=None)))), None)
            if hit is not None:
                cur = hit
                n = max(n - 1, 2)
            elif size == 1:
                break
            else:
                n = min(len(cur), n * 2)
        return cur


# ------------------------------------------------------------------ the check

def probe_fix(h, n_table):
    """is the proposed fix C18-null-free-connection in the tree?  (no limit, connection-is-group, table + 1 connections)"""
    lines = [cfg_line(1, 0), "start"]
    for i in range(n_table + 1):
        lines += ["connect c%d 10.0.0.1:%d" % (i, 2000 + i), "tick"]
    r = runner.run_batch(h, [("probe", lines)])["probe"]
    return r["crash"] is None, lines, r


def run_close_on_open(ck, h, rng, quick):
    """a local close issued from inside the OPENED notification must not be lost: CLOSED follows, the count returns to its
    value, the peer is not served"""
    scripts = []
    for i in range(6 if quick else 60):
        mode = rng.choice([0, 1, 2])
        lines = ["cfg mode=%d k=12 w=8 handlers=64 lowq=10 highq=10" % mode] + (["group -"] if mode == 2 else []) + ["start"]
        n0 = rng.below(3)
        for c in range(n0):     # ordinary connections first (control)
            lines += ["connect c%d 10.0.0.%d:%d" % (c, c + 1, 1000 + c), "tick"]
        c = n0
        lines += ["closeonopen 1", "connect c%d 10.0.0.9:%d" % (c, 1000 + c), "tick", "tick", "rx c%d %s" % (c, apci.STARTDT_ACT.hex()), "tick 2", "closeonopen 0",
                  "connect c%d 10.0.0.8:%d" % (c + 1, 1001 + c), "tick", "rx c%d %s" % (c + 1, apci.STARTDT_ACT.hex()), "tick"]
        scripts.append(("coo%d" % i, lines, n0, c))
    rc = runner.run_batch(h, [(sid, l) for sid, l, _, _ in scripts])
    for sid, lines, n0, c in scripts:
        ck.evaluations += 1
        o = rc.get(sid, dict(out=[], crash=None))
        if o["crash"]:
            ck.fail("input", crash_sig(o["crash"]), "server aborted: %s at %s" % (o["crash"]["kind"], o["crash"]["site"]), {"script": lines, "stderr": o["crash"]["text"]})
            continue
        out = o["out"]
        evs = [l.split()[2] for l in out if l.startswith("ev c%d " % c)]
        txc = "".join(l.split()[2] for l in out if l.startswith("tx c%d " % c))
        opens = [int(l.split()[1]) for l in out if l.startswith("open ")]
        bad = None
        if evs[:1] != ["OPENED"]:
            continue
        if evs != ["OPENED", "CLOSED"]:
            bad = "connection c%d was closed by the application from inside its OPENED notification; events reported for it: %s (expected OPENED, CLOSED)" % (c, evs)
        elif apci.STARTDT_CON.hex() in txc:
            bad = "connection c%d was closed by the application during OPENED but its STARTDT act was still confirmed" % c
        elif opens and opens[-1] != n0 + 1:
            bad = "open connections reported %d at the end, %d are open" % (opens[-1], n0 + 1)
        if bad:
            ck.fail("input", "oracle:life:close-in-opened", "server lifecycle: " + bad, {"script": lines, "observed": [l for l in out if l.startswith(("ev ", "open "))][-10:]})
        ck.nontriv(("coo", sid))
    ck.count("close_in_opened_scripts", len(scripts))


def run_sync_connect(ck, hc, rng, quick):
    """the blocking CS104_Connection_connect on one object over several attempts: what it returns and what the connection handler is
    told must agree for EACH attempt (true <-> OPENED and no FAILED; false <-> FAILED once and no OPENED), whatever the previous
    attempt on the same object ended with"""
    scripts = []
    for i in range(8 if quick else 80):
        lines = []
        for _ in range(rng.range(2, 5)):
            r = rng.below(10)
            if r < 4:
                lines += ["sconnect refuse"]
            elif r < 7:
                lines += ["sconnect", "close"]
            else:
                lines += ["sconnect", "peerclose", "close"]
        lines += ["sconnect", "close", "destroy"]
        scripts.append(("sc%d" % i, lines))
    rc = runner.run_batch(hc, scripts)
    for sid, lines in scripts:
        ck.evaluations += 1
        o = rc.get(sid, dict(out=[], crash=None))
        if o["crash"]:
            ck.fail("input", crash_sig(o["crash"]), "client aborted: %s at %s" % (o["crash"]["kind"], o["crash"]["site"]), {"script": lines, "stderr": o["crash"]["text"], "harness": "h_cs104c"})
            continue
        blocks, cur = [], []
        for l in o["out"]:
            if l == ".":
                blocks.append(cur); cur = []
            else:
                cur.append(l)
        # events of one attempt: from its sconnect block up to (not including) the next sconnect block
        att = []
        for cmd, blk in zip(lines, blocks):
            if cmd.startswith("sconnect"):
                att.append([cmd, None, []])
            if att:
                for l in blk:
                    if l.startswith("sconnect ret="):
                        att[-1][1] = int(l.split("=")[1])
                    elif l.startswith("ev "):
                        att[-1][2].append(l.split()[1])
        for n, (cmd, ret, evs) in enumerate(att, 1):
            bad = None
            if ret is None:
                continue
            if ret == 1 and ("OPENED" not in evs or "FAILED" in evs):
                bad = "connect() returned true, the handler was told %s" % evs
            elif ret == 0 and ("OPENED" in evs or evs.count("FAILED") != 1):
                bad = "connect() returned false, the handler was told %s (expected exactly one FAILED and no OPENED)" % evs
            elif (cmd.endswith("refuse")) != (ret == 0):
                bad = "connect() returned %d for an attempt the peer %s" % (ret, "refused" if cmd.endswith("refuse") else "accepted")
            if bad:
                ck.fail("input", "oracle:life:client-connect-result", "client lifecycle: attempt %d (`%s`) on one connection object: %s" % (n, cmd, bad),
                        {"script": lines, "observed": [l for l in o["out"] if l.startswith(("ev ", "sconnect"))][-10:], "harness": "h_cs104c"})
                break
        ck.nontriv(("sconnect", tuple(lines)))
    ck.count("sync_connect_scripts", len(scripts))


def run(ck):
    quick = ck.tier == "quick"
    rng = core.Rng(ck.seed)
    n_table = table_size()
    ck.trusted = [
        "Coq 8.16.1 kernel; theorems Closed under the global context",
        "Cs104/Lifecycle.v: hand transcription of getFreeConnection, CS104_Slave_setMaxOpenConnections, handleConnectionsThreadless, handleClientConnections, "
        "MasterConnection_handleTcpConnection, the U-frame branches of handleMessage, CS104_Slave_activate, MasterConnection_activate/_deactivate/_close/_deinit, "
        "CS104_Slave_closeAllConnections, startThreadless/stopThreadless/destroy; validated on every run by executing the extracted model against the real server (equal req/ev/closed/open lines)",
        "abstract in the model: octets on the wire (inputs are classified messages), timers, I-frames and the event/response queues (the model's scripts use none of them); "
        "the redundancy group an address selects is computed by the C08 model (Cs104/Groups.v match_group)",
        "simulated HAL (harness/simhal): its listen backlog outlives the listening socket; it tolerates NULL sockets, which the harnesses count instead",
        "not proved, searched on the real code: client lifecycle (h_cs104c), threaded server stop/restart (h_life_thr), memory release (LeakSanitizer), traffic-rich server scripts (oracle)",
    ]
    ck.rule = ("correspondence: random operation sequences (8..60 operations, up to 40 connections, 3 server modes, 0..3 redundancy groups, open-connection limit in "
               "{default,1,2,3,5,none(0),none(-1)}, request callback refusing, garbage, peer close, application close, write failure, stop/start, destroy + new server with another "
               "mode/limit) + table-exhaustion scripts (> CONFIG_CS104_MAX_CLIENT_CONNECTIONS attempts); oracle: the same plus I-/S-frames, interrogations, enqueued events, clock "
               "advances; client: random connect(ok/refused/no socket)/STARTDT/traffic/peer close/close/use-after-close/destroy sequences; LeakSanitizer: sampled permutations of "
               "create/start/stop/destroy/connect/traffic (server, 3 modes) and connect/step/traffic/close/destroy (client), one process each; threaded server: start/connect/stop/restart rounds")
    ck.explanation = ("PARTIAL: proved in Coq for every operation sequence and table size of the threadless server model: accounting, per-connection event grammar and its link to the "
                      "STARTED state, CLOSED for every connection reaped while the server runs, stop/destroy close everything, slot reuse, silence for connections that are not open, "
                      "every socket pending/open/destroyed, no NULL connection on the accept path (with the fix, or with a limit >= 1). Only tested: the client's event stream and "
                      "use-after-close safety, the threaded server, timers/traffic, and release of memory (LeakSanitizer).")
    ck.coq("C18")
    h = harness()
    try:
        m = model()
    except Exception as e:
        m = None
        ck.fail("correspondence", "model-build", "extracted model does not build: " + str(e)[:300], {"theorem": "extraction"})
    run_close_on_open(ck, h, rng, quick)
    run_sync_connect(ck, client_harness(), rng, quick)
    fixed, probe_lines, probe_res = probe_fix(h, n_table)
    ck.extra["fix_null_free_connection_present"] = fixed
    g = Gen(rng, n_table)
    scripts = []          # (id, lines, in_model)
    for i in range(400 if quick else 12000):
        scripts.append(("m%d" % i, g.script(fixed, False), True))
    ex_cfg = [(0, None), (0, 0), (2, -1), (1, None), (1, 3), (0, 150), (1, 0)]
    for i, (mode, mx) in enumerate(ex_cfg if quick else ex_cfg * 4):
        scripts.append(("x%d" % i, g.exhaustion(mode, mx, fixed, rng.range(2, 30)), True))
    for i in range(400 if quick else 12000):
        scripts.append(("o%d" % i, g.script(fixed, True), False))
    rc = runner.run_batch(h, [(sid, l) for sid, l, _ in scripts], timeout=3600)
    rm = runner.run_batch(m, [(sid, l) for sid, l, im in scripts if im], timeout=3600) if m else {}
    ndiff = 0
    if not fixed and probe_res["crash"]:
        ck.fail("input", crash_sig(probe_res["crash"]), "server aborted: %s at %s (no open-connection limit, connection-is-redundancy-group mode, one connection more than table slots)" % (
            probe_res["crash"]["kind"], probe_res["crash"]["site"]), {"script": probe_lines, "stderr": probe_res["crash"]["text"]})
    shr = Shrinker(20 if quick else 300, 2.5 if quick else 20)
    seen_sigs = {f["signature"] for f in ck.failures}
    for sid, lines, in_model in scripts:
        ck.evaluations += 1
        o = rc.get(sid, dict(out=[], crash=None))
        cout = o["out"]
        plain = [l for l in lines if l != MARK]
        if o["crash"]:
            sig = crash_sig(o["crash"])
            small = plain
            if sig not in seen_sigs:
                seen_sigs.add(sig)
                small = shr.shrink(h, plain, lambda c, r, sig=sig: bool(r["crash"]) and crash_sig(r["crash"]) == sig,
                                   keep=lambda l: l.startswith(("#", "cfg mode", "group")))
            ck.fail("input", sig, "server aborted: %s at %s" % (o["crash"]["kind"], o["crash"]["site"]),
                    {"script": small, "stderr": o["crash"]["text"]})
        if in_model and m:
            co = lifecycle_lines(cout)
            mo = rm.get(sid, {}).get("out", [])
            if o["crash"]:
                ok = mo[:len(co)] == co and "CRASH" in mo[len(co):]
            else:
                ok = co == mo
            if not ok and ndiff < 10:
                ndiff += 1
                k = next((j for j, (a, b) in enumerate(zip(co, mo)) if a != b), min(len(co), len(mo)))
                ck.fail("correspondence", "diff:lifecycle", "lifecycle model and server differ at line %d: C=%s model=%s" % (k, co[k:k + 1], mo[k:k + 1]),
                        {"script": plain, "c": co[max(0, k - 4):k + 3], "model": mo[max(0, k - 4):k + 3]})
        for code, text in server_oracle(lines, cout, n_table, bool(o["crash"])):
            sig = "oracle:life:" + code
            small, obs = plain, [l for l in cout if not l.startswith("halnull")][-12:]
            if sig not in seen_sigs:
                seen_sigs.add(sig)
                small = shr.shrink(h, plain, lambda c, r, code=code: any(cd == code for cd, _ in server_oracle(mark(c), r["out"], n_table, bool(r["crash"]))),
                                   prep=mark, keep=lambda l: l.startswith(("#", "cfg mode", "group")))
                rr = runner.run_batch(h, [("s", mark(small))])["s"]
                again = [t for cd, t in server_oracle(mark(small), rr["out"], n_table, bool(rr["crash"])) if cd == code]
                if again:
                    text, obs = again[0], [l for l in rr["out"] if not l.startswith("halnull")][-12:]
                else:
                    small = plain
            ck.fail("input", sig, "server lifecycle: " + text, {"script": small, "observed": obs})
        ck.nontriv(tuple(plain))
        ck.count("server:" + ("model+oracle" if in_model else "oracle-only"))
        for l in plain:
            ck.count("op:" + l.split()[0])
        if len(ck.samples) < 3 and sid in ("m0", "o0", "x0"):
            ck.sample({"script": plain[:16], "trace": [l for l in cout if not l.startswith("halnull")][:14]})
    ck.extra["disagreements"] = ndiff
    ck.extra["exhaustive"] = False

    # ---- client
    hc = client_harness()
    cs = [("c%d" % i, client_script(rng)) for i in range(400 if quick else 10000)]
    rcc = runner.run_batch(hc, cs, timeout=3600)
    for sid, lines in cs:
        ck.evaluations += 1
        o = rcc.get(sid, dict(out=[], crash=None))
        if o["crash"]:
            ck.fail("input", crash_sig(o["crash"]), "client aborted / hung: %s at %s" % (o["crash"]["kind"], o["crash"]["site"]), {"script": lines, "stderr": o["crash"]["text"]})
            continue
        for code, text in client_oracle(lines, o["out"]):
            sig = "oracle:client:" + code
            small, obs = lines, [l for l in o["out"] if l != "."][-12:]
            if sig not in seen_sigs:
                seen_sigs.add(sig)
                small = shr.shrink(hc, lines, lambda c, r, code=code: not r["crash"] and any(cd == code for cd, _ in client_oracle(c, r["out"])),
                                   keep=lambda l: l in ("close", "destroy"))
                rr = runner.run_batch(hc, [("s", small)])["s"]
                again = [t for cd, t in client_oracle(small, rr["out"]) if cd == code]
                if again and not rr["crash"]:
                    text, obs = again[0], [l for l in rr["out"] if l != "."][-12:]
                else:
                    small = lines
            ck.fail("input", sig, "client lifecycle: " + text, {"script": small, "observed": obs, "harness": "h_cs104c"})
        ck.nontriv(("client",) + tuple(lines))
        ck.count("client-scripts")
    if cs:
        ck.sample({"client_script": cs[0][1][:14]})

    # ---- LeakSanitizer
    jobs = [("server", h, s, lines) for s, mode, lines in server_leak_scripts(rng, quick)] + \
           [("client", hc, s, lines) for s, lines in client_leak_scripts(rng, quick)]
    with ThreadPoolExecutor(max_workers=min(core.NPROC, 16)) as ex:
        results = list(ex.map(lambda j: run_leak(j[1], j[3]), jobs))
    for (who, _, seq, lines), (crash, leak) in zip(jobs, results):
        ck.evaluations += 1
        ck.count("leak-runs:" + who)
        ck.nontriv((who, "leak") + tuple(lines))
        if crash:
            ck.fail("input", crash_sig(crash), "%s aborted / hung in a lifecycle permutation: %s at %s" % (who, crash["kind"], crash["site"]),
                    {"script": lines, "stderr": crash["text"], "harness": "h_cs104s" if who == "server" else "h_cs104c"})
        if leak:
            ck.fail("input", "leak:%s:%s" % (who, leak["site"]), "%s: memory not released after %s (%s)" % (who, " ".join(seq), leak["summary"]),
                    {"script": lines, "leak_report": leak["text"], "harness": "h_cs104s" if who == "server" else "h_cs104c",
                     "rerun": "ASAN_OPTIONS=detect_leaks=1 <harness> < script (prefix the script with a `--- x` line)"})

    # ---- threaded server
    try:
        ht = thr_harness()
    except Exception as e:
        ht = None
        ck.fail("obligation", "machinery:h_life_thr", "threaded lifecycle harness does not build: " + str(e)[-400:], {"theorem": "harness"})
    if ht:
        scen = thr_scenarios(rng, quick)
        with ThreadPoolExecutor(max_workers=4) as ex:
            res = list(ex.map(lambda l: run_thr(ht, l), scen))
        for line, (out, err, code) in zip(scen, res):
            ck.evaluations += 1
            ck.count("threaded-scenarios")
            ck.nontriv(("thr", line))
            for l in out:
                if l.startswith("bad "):
                    p = l.split(None, 2)
                    ck.fail("input", "oracle:threaded:" + p[1], "threaded server: " + p[2], {"scenario": line, "observed": out[-14:], "harness": "h_life_thr", "rerun": "echo '%s' | <h_life_thr>" % line})
            if out and out[-1] == "hang" or code == 124:
                ck.fail("input", "hang:threaded", "threaded server scenario did not finish", {"scenario": line, "observed": out[-10:]})
            elif "LeakSanitizer" in err:
                leak = re.search(r"SUMMARY: AddressSanitizer: [^\n]+", err)
                site = "unknown"
                for fm in re.finditer(r"#\d+ 0x[0-9a-f]+ in (\w+) (/\S+?/lib60870-C/[^\s:]+)", err):
                    if fm.group(1) not in ("Memory_malloc", "Memory_calloc", "Memory_realloc"):
                        site = "%s:%s" % (os.path.basename(fm.group(2)), fm.group(1))
                        break
                ck.fail("input", "leak:threaded:" + site, "threaded server: memory not released (%s)" % (leak.group(0) if leak else ""), {"scenario": line, "leak_report": err[:1500], "harness": "h_life_thr"})
            elif code != 0:
                cr = runner.classify_crash(err)
                ck.fail("input", crash_sig(cr), "threaded server aborted: %s at %s" % (cr["kind"], cr["site"]), {"scenario": line, "stderr": cr["text"], "harness": "h_life_thr"})


def replay(ck, path):
    r = json.loads(Path(path).read_text())["replay"]
    ck.evaluations = 1
    if "scenario" in r:
        out, err, code = run_thr(thr_harness(), r["scenario"])
        print("\n".join(out))
        print(err[-1500:])
        return
    exe = client_harness() if r.get("harness") == "h_cs104c" else harness()
    if "leak_report" in r:
        crash, leak = run_leak(exe, r.get("script", []))
        print(leak["text"] if leak else "no leak reported")
        return
    res = runner.run_batch(exe, [("replay", r.get("script", []))])
    print("\n".join(res["replay"]["out"]))
    if res["replay"]["crash"]:
        print(res["replay"]["crash"]["text"])
