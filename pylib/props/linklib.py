"""Shared pieces of the CS101 link-layer checks C14 / C15 / C16 (not a check itself).
Python statement of FT 1.2 (IEC 60870-5-1 6.2.4.2) and of the IEC 60870-5-2 frame-count-bit rules, written from the
standards / the property texts -- NOT from the Coq models; harness and model builders; tree-variant probes."""
from vf import core, runner

# ------------------------------------------------------------------ FT 1.2, from the standard

def cs(octets):
    return sum(octets) & 0xFF


def addr_octets(alen, a):
    return bytes([(a >> (8 * i)) & 0xFF for i in range(alen)])


def ctrl(fc, prm=0, dir=0, fcb_acd=0, fcv_dfc=0):
    return (fc & 15) | (0x40 if prm else 0) | (0x80 if dir else 0) | (0x20 if fcb_acd else 0) | (0x10 if fcv_dfc else 0)


def fixed(alen, c, a):
    body = bytes([c]) + addr_octets(alen, a)
    return bytes([0x10]) + body + bytes([cs(body), 0x16])


def variable(alen, c, a, data):
    body = bytes([c]) + addr_octets(alen, a) + bytes(data)
    assert len(body) <= 255
    return bytes([0x68, len(body), len(body), 0x68]) + body + bytes([cs(body), 0x16])


def wf_frame(f, alen):
    """None when f is a well-formed FT 1.2 frame for address width alen, else the reason"""
    if f == b"\xe5":
        return None
    if len(f) == 0:
        return "empty"
    if f[0] == 0x10:
        if len(f) != 4 + alen:
            return "fixed frame of %d octets, expected %d" % (len(f), 4 + alen)
        if f[-1] != 0x16:
            return "end octet"
        if f[-2] != cs(f[1:-2]):
            return "checksum"
        return None
    if f[0] == 0x68:
        if len(f) < 6 + 1 + alen:
            return "variable frame too short for C and A"
        if f[3] != 0x68:
            return "second start octet"
        if f[1] != f[2]:
            return "length octets differ"
        if f[1] != len(f) - 6:
            return "length octet %d but %d octets between second start and checksum" % (f[1], len(f) - 6)
        if f[-1] != 0x16:
            return "end octet"
        if f[-2] != cs(f[4:-2]):
            return "checksum"
        if len(f) > 261:
            return "longer than 261 octets"
        return None
    return "start octet %02x" % f[0]


def fields(f, alen):
    """(c, address, user data) of a well-formed fixed / variable frame"""
    if f[0] == 0x10:
        return f[1], int.from_bytes(f[2:2 + alen], "little"), b""
    return f[4], int.from_bytes(f[5:5 + alen], "little"), f[5 + alen:-2]


def must_reject(m, alen, kind, own):
    """receive clauses of property C14 on a delimited frame m: a reason when the frame MUST be ignored, None otherwise
    (None does not mean it must be answered)."""
    if len(m) == 0:
        return "empty"
    if m == b"\xe5":
        return "single character to a secondary-only station" if kind == "us" else None
    if m[0] == 0x10:
        if len(m) != 4 + alen:
            return "length disagrees with the octets received"
        if m[2 + alen] != cs(m[1:2 + alen]):
            return "checksum"
        a = int.from_bytes(m[2:2 + alen], "little")
    elif m[0] == 0x68:
        if len(m) < 4 or m[1] != m[2]:
            return "length octets differ"
        if len(m) != m[1] + 6:
            return "length disagrees with the octets received"
        if m[1] < 1 + alen:
            return "length disagrees with the octets received (no room for C and A)"
        if m[-2] != cs(m[4:-2]):
            return "checksum"
        a = int.from_bytes(m[5:5 + alen], "little")
    else:
        return "not a frame"
    if kind == "us" and alen > 0:
        bc = (1 << (8 * alen)) - 1
        if a != own and a != bc:
            return "addressed to another station"
    return None


# ------------------------------------------------------------------ builders

def _stable(build):
    """core's object cache keeps only the two most recent trees; when several people run checks on different scratch copies at
    the same time a harness can be pruned between build and use.  Keep a private copy (under .cache) of what this run uses."""
    import shutil, time
    d = core.CACHE / "linkbin"
    d.mkdir(parents=True, exist_ok=True)
    last = None
    for attempt in range(6):
        try:
            exe = build()
            dst = d / ("%s-%s" % (exe.parent.name, exe.name))
            if not dst.exists():
                tmp = d / (dst.name + ".tmp%d" % __import__("os").getpid())
                shutil.copy2(exe, tmp)
                tmp.replace(dst)
            __import__("os").utime(dst)
            old = sorted(d.iterdir(), key=lambda p: p.stat().st_mtime)
            for p in old[:-12]:
                try:
                    if time.time() - p.stat().st_mtime > 3600:     # never what a concurrent run may be using
                        p.unlink()
                except OSError:
                    pass
            return dst
        except (FileNotFoundError, RuntimeError) as e:
            last = e
            time.sleep(0.5)
    raise last


def h_ll():
    return _stable(lambda: core.build_harness("h_ll", ["h_ll.c"], whitebox_of=("link_layer",)))


def h_cs101():
    return _stable(lambda: core.build_harness("h_cs101", ["h_cs101.c"]))


def model():
    return core.build_model("link", core.COQ / "extract" / "ExtractLink.v", [], core.VERIF / "driver" / "d_link.ml")


def prebuild():
    h_ll()
    h_cs101()
    model()


def asdu(ident, n=3, typ=30, cot=3, ca=1):
    """an encoded ASDU (default application layer parameters: 1+1+2+2 header octets) whose payload carries `ident`"""
    pl = bytes([ident & 255, (ident >> 8) & 255]) + bytes(((ident * 7 + i) & 255) for i in range(max(0, n - 2)))
    return bytes([typ, 1, cot, 0, ca & 255, ca >> 8]) + pl


def asdu_id(b):
    return b[6] | (b[7] << 8) if len(b) >= 8 else -1


# ------------------------------------------------------------------ probes: which variant of the code is this tree?
# Each probe is a concrete scenario of one pre-study candidate; its outcome selects the model variant (`fix=` letters)
# so that the correspondence keeps covering everything else, and a failing probe is an oracle failure of its property.

PROBES = {
    # a: two stations kinds; first FCV frame after an acknowledged reset must carry FCB = 1
    "a_bal": ["cfg kind=bal al=1 sc=0 addr=1 other=2 dir=1", "run", "rx 100b020d16", "rx 1000020216", "send aa", "run",
              "tick 250", "tick 250", "tick 250", "tick 250", "tick 250", "run", "rx 100b020d16", "rx 1000020216", "send bb", "run"],
    "a_unb": ["cfg kind=up al=1 sc=0 slaves=1", "run", "rx 100b010c16", "rx 1000010116", "poll2 a=1", "run",
              "tick 250", "tick 250", "tick 250", "tick 250", "tick 250", "run", "rx 100b010c16", "rx 1000010116", "poll2 a=1", "run"],
    # b: balanced secondary, retransmitted SEND/CONFIRM frame must be confirmed again
    "b": ["cfg kind=bal al=1 sc=0 addr=1 other=2 dir=1", "rx 1040014116", "rx 68030368730155c916", "rx 68030368730155c916"],
    # c: repeated class 1 request must be the same request
    "c": ["cfg kind=up al=1 sc=0 slaves=1", "run", "rx 100b010c16", "rx 1000010116", "poll1 a=1", "run", "tick 250"],
    # e: a request with an unexpected FCB before any response exists must not be answered with user data
    "e": ["cfg kind=us al=1 sc=0 addr=3", "rx 105b035e16"],
    # f: variable frame whose L leaves no room for the address field
    "f": ["cfg kind=us al=1 sc=0 addr=67", "rx 68010168434316"],
    # g: a link test requested by the application while user data waits for its confirmation
    #    unbalanced: the confirmation must take the message (not: the same message again as a new frame)
    "g_unb": ["cfg kind=up al=1 sc=0 slaves=1", "run", "rx 100b010c16", "rx 1000010116", "send a=1 aabbcc", "run", "test a=1", "rx 1000010116", "run"],
    #    unbalanced: a test request is served by ONE test frame, then the waiting message goes out
    "g_unb2": ["cfg kind=up al=1 sc=0 slaves=1", "run", "rx 100b010c16", "rx 1000010116", "test a=1", "run", "rx 1000010116", "send a=1 aabbcc", "run", "run"],
    #    balanced: the retransmission after the acknowledgement timeout must be the user data frame, not a test frame with its bit
    "g_bal": ["cfg kind=bal al=1 sc=0 addr=1 other=2 dir=1", "run", "rx 100b020d16", "rx 1000020216", "send aabbcc", "run", "test", "tick 250"],
    # h: "service not implemented" answers a class 2 request: the service is over (no repetition, no link error)
    "h": ["cfg kind=up al=1 sc=0 slaves=1", "run", "rx 100b010c16", "rx 1000010116", "poll2 a=1", "run", "rx 100f011016", "tick 250", "tick 250", "tick 250", "tick 250", "tick 250"],
    # i: unbalanced secondary, a frame with FCV = 1 whose service is not implemented (link test with the expected FCB),
    #    then a NEW class 2 request (next FCB) while data is waiting: must be answered with the waiting data
    "i": ["cfg kind=us al=1 sc=0 addr=1", "rx 1040014116", "enq2 0102030405060708", "rx 107b017c16", "enq2 1112131415161718", "rx 1052015316", "rx 107b017c16"],
}
PROBE_D = ["cfg mode=unb al=1 sc=1 slaves=1", "step m", "step s1", "step m", "step s1", "step m", "poll s1", "lose 5", "step m",
           "inject m 68030368080b0a1d16", "step m"]


def txs(out):
    return [bytes.fromhex(l.split()[1]) for l in out if l.startswith("tx ") and l.split()[1] != "-"]


def probe(ck=None):
    """returns (fix letters, {probe: observed failure text})"""
    r = runner.run_batch(h_ll(), [(k, v) for k, v in PROBES.items()])
    rd = runner.run_batch(h_cs101(), [("d", PROBE_D)])
    bad = {}
    t = txs(r["a_bal"]["out"])
    if not t or t[-1][4] & 0x30 != 0x30:
        bad["a_bal"] = "balanced primary: first frame with FCV after the acknowledged reset is %s (FCB=0)" % (t[-1].hex() if t else "-")
    t = txs(r["a_unb"]["out"])
    if not t or t[-1][1] & 0x30 != 0x30:
        bad["a_unb"] = "unbalanced primary: first frame with FCV after the acknowledged reset is %s (FCB=0)" % (t[-1].hex() if t else "-")
    blocks = "\n".join(r["b"]["out"]).split("rxmsg ")
    if len(blocks) < 4 or "tx 1080018116" not in blocks[3]:
        bad["b"] = "balanced secondary: retransmitted frame 68030368730155c916 is not confirmed again"
    t = txs(r["c"]["out"])
    if len(t) < 2 or t[-1] != t[-2]:
        bad["c"] = "unbalanced primary: class 1 request %s repeated as %s" % (t[-2].hex() if len(t) > 1 else "-", t[-1].hex() if t else "-")
    t = txs(r["e"]["out"])
    if any(f[0] == 0x68 for f in t):
        bad["e"] = "unbalanced secondary answers the first request (unexpected FCB) with %d octets of uninitialised user data" % (len(t[0]) - 8)
    if txs(r["f"]["out"]):
        bad["f"] = "frame 68010168434316 (L=1, no room for the address) is acknowledged with " + txs(r["f"]["out"])[0].hex()
    t = txs(r["g_unb"]["out"])
    nud = [f for f in t if f[0] == 0x68]
    if len(nud) != 1:
        bad["g_unb"] = "unbalanced primary: link test requested while user data waits for its confirmation: after the confirmation the message is sent again as a new frame (%s)" % " ".join(f.hex() for f in nud)
    t = txs(r["g_unb2"]["out"])
    if len([f for f in t if f[0] == 0x10 and f[1] & 0x0F == 2]) != 1 or not any(f[0] == 0x68 for f in t):
        bad["g_unb2"] = "unbalanced primary: one link test request produces %d test frames and the waiting message is %s" % (
            len([f for f in t if f[0] == 0x10 and f[1] & 0x0F == 2]), "sent" if any(f[0] == 0x68 for f in t) else "never sent")
    t = txs(r["g_bal"]["out"])
    if len(t) < 2 or t[-1][0] != 0x68 or t[-1] != [f for f in t if f[0] == 0x68][0]:
        bad["g_bal"] = "balanced primary: link test requested while user data waits for its confirmation: the retransmission is %s instead of the user data frame" % (t[-1].hex() if t else "-")
    ho = r["h"]["out"]
    k = max(i for i, l in enumerate(ho) if l.startswith("rxmsg"))
    if any(l.startswith(("tx 105b", "tx 107b", "ls a=1 1")) for l in ho[k:]):
        bad["h"] = "unbalanced primary: a class 2 request answered with `service not implemented` is repeated and the link is reported in error"
    t = [f for f in txs(r["i"]["out"]) if f[0] == 0x68]
    if len(t) != 2 or t[0] == t[1]:
        bad["i"] = ("unbalanced secondary: after a link test frame (FCV = 1, answered `service not implemented`) the next new class 2 request is taken "
                    "for a repetition: answered with %s" % (t[-1].hex() if t else "no data"))
    if any("NULL" in l for l in rd["d"]["out"]):
        bad["d"] = "master ASDU handler called with asdu == NULL for 3 octets of user data"
    for k in list(r) + ["d"]:
        o = (r.get(k) or rd.get(k))
        if o and o["crash"]:
            bad[k + ":crash"] = "%s at %s" % (o["crash"]["kind"], o["crash"]["site"])
    fix = ""
    if "a_bal" not in bad and "a_unb" not in bad:
        fix += "a"
    for l in "bcdef":
        if l not in bad:
            fix += l
    if not any(k in bad for k in ("g_unb", "g_unb2", "g_bal")):
        fix += "g"
    if "h" not in bad:
        fix += "h"
    if "i" not in bad:
        fix += "i"
    return fix, bad, dict(r, d=rd["d"])


def diff_first(a, b):
    for i, (x, y) in enumerate(zip(a, b)):
        if x != y:
            return i
    return min(len(a), len(b)) if len(a) != len(b) else -1


def correspond(ck, exe, mexe, scripts, fix, what, limit=8, skip=None):
    """run the same scripts (with fix= appended to cfg lines for the model) through harness and model; diff line by line"""
    rc = runner.run_batch(exe, scripts)
    ms = [(sid, [(l + " fix=" + fix) if l.startswith("cfg ") else l for l in lines]) for sid, lines in scripts]
    rm = runner.run_batch(mexe, ms) if mexe else {}
    nd = 0
    for sid, lines in scripts:
        o = rc.get(sid, dict(out=[], crash=None))
        if o["crash"]:
            ck.fail("input", "crash:%s:%s" % (o["crash"]["kind"], o["crash"]["site"]), "%s aborted: %s at %s" % (what, o["crash"]["kind"], o["crash"]["site"]),
                    {"script": lines, "stderr": o["crash"]["text"]})
            continue
        if not mexe or sid not in rm or (skip and skip(sid)):
            continue
        i = diff_first(o["out"], rm[sid]["out"])
        if i >= 0:
            nd += 1
            if nd <= limit:
                ck.fail("correspondence", "diff:" + what, "model (variant fix=%s) and implementation differ at trace line %d of script %s" % (fix or "-", i, sid),
                        {"script": lines, "c": o["out"][max(0, i - 2):i + 3], "model": rm[sid]["out"][max(0, i - 2):i + 3]})
    return rc, nd


# ------------------------------------------------------------------ line-level oracle for h_cs101 traces

def parse_line_trace(out):
    """h_cs101 trace -> list of events:
    ('tx', station, n, frame, lost, dup) ('mdeliver', addr, asdu|None) ('sdeliver', i, asdu) ('mls', addr, state) ('sls', i, state)
    ('enq', i, cls, full) ('msend', i, ok)"""
    ev = []
    for l in out:
        w = l.split()
        if not w:
            continue
        if w[0] == "tx":
            ev.append(("tx", w[1], int(w[2]), bytes.fromhex(w[3]) if w[3] != "-" else b"", "lost" in w[4:], "dup" in w[4:]))
        elif w[0] == "mdeliver":
            ev.append(("mdeliver", int(w[1][2:]), None if w[2] == "NULL" else bytes.fromhex(w[2])))
        elif w[0] == "sdeliver":
            ev.append(("sdeliver", int(w[1][1:]), bytes.fromhex(w[2])))
        elif w[0] == "mls":
            ev.append(("mls", int(w[1][2:]), int(w[2])))
        elif w[0] == "sls":
            ev.append(("sls", int(w[1][1:]), int(w[2])))
        elif w[0] == "enq":
            ev.append(("enq", int(w[1][1:]), int(w[2][2:]), int(w[3][5:])))
        elif w[0] == "msend":
            ev.append(("msend", int(w[1][1:]), int(w[2][3:])))
        elif w[0] == "?" and w[1:2] == ["mark"]:
            ev.append(("mark",))
    return ev


class FcbOracle:
    """IEC 60870-5-2 frame count bit rules for ONE primary -> ONE secondary direction, fed with the frames as they
    appear on the line (with the knowledge which ones were lost).  Written from 60870-5-2 clause 5.1.2 / 6.1.2:
    - after RESET REMOTE LINK has been confirmed the first frame with FCV=1 carries FCB=1
    - the primary alternates FCB for each NEW frame with FCV=1, and a frame is new only if the previous one was answered
    - a repetition (no answer reached the primary) is the identical frame
    - the secondary answers a repeated frame by repeating its previous answer."""

    def __init__(self, alen, tag):
        self.alen, self.tag = alen, tag
        self.reset_pending = False      # reset sent, waiting for its confirmation
        self.after_reset = False        # reset confirmed, no FCV frame since
        self.last_fcv = None            # last FCV frame sent by the primary
        self.answered = True            # an answer to last_fcv reached the primary
        self.sec_last_fcv = None        # last FCV frame that REACHED the secondary
        self.sec_last_answer = None     # what the secondary sent after it
        self.sec_waiting = False
        self.errors = []
        self.reps = 0
        self.nfcv = 0
        self.now = None                 # virtual time (ms) when the script carries marks
        self.first_tx = None            # time of the first transmission of last_fcv
        self.cur_reps = 0               # retransmissions of last_fcv so far

    def primary_sends(self, f, reached):
        c = f[1] if f[0] == 0x10 else f[4]
        fc = c & 15
        if fc == 0 and not c & 0x10:
            self.reset_pending = True
            self.last_fcv = None
            self.answered = True
            if reached:
                self.sec_last_fcv, self.sec_last_answer = None, None
        elif c & 0x10:
            self.nfcv += 1
            fcb = 1 if c & 0x20 else 0
            if self.after_reset:
                if fcb != 1:
                    self.errors.append(("first-after-reset", "%s: first frame with FCV=1 after a confirmed reset is %s (FCB=0)" % (self.tag, f.hex())))
                self.after_reset = False
            elif self.last_fcv is not None:
                lc = self.last_fcv[1] if self.last_fcv[0] == 0x10 else self.last_fcv[4]
                if self.answered:
                    if (lc & 0x20) == (c & 0x20):
                        self.errors.append(("no-toggle", "%s: new frame %s does not alternate FCB after the answered %s" % (self.tag, f.hex(), self.last_fcv.hex())))
                else:
                    self.reps += 1
                    if f != self.last_fcv:
                        self.errors.append(("repeat-not-identical", "%s: unanswered frame %s repeated as %s" % (self.tag, self.last_fcv.hex(), f.hex())))
            if self.last_fcv is not None and not self.answered and f == self.last_fcv:
                self.cur_reps += 1
                t_rep = getattr(self, "t_rep", None)
                if t_rep is not None and self.now is not None and self.first_tx is not None and self.now - self.first_tx > t_rep:
                    self.errors.append(("repeat-beyond-timeout", "%s: frame %s repeated %d ms after its first transmission (repeat timeout %d ms): the repetitions do not stop, the link is not reported in error" % (
                        self.tag, f.hex()[:40], self.now - self.first_tx, t_rep)))
                    self.first_tx = None       # reported once per frame
            else:
                self.first_tx, self.cur_reps = self.now, 0
            self.last_fcv = f
            self.answered = False
            if reached:
                if self.sec_last_fcv is not None and f == self.sec_last_fcv:
                    self.sec_dup = True
                else:
                    self.sec_dup = False
                    self.sec_last_answer = None
                self.sec_last_fcv = f
                self.sec_waiting = True
        else:
            self.sec_waiting = False

    def norm(self, f):
        """an answer up to the access-demand bit (which reflects the queue NOW) and the single-character short form"""
        if f == b"\xe5" or f[0] == 0x10:
            return ("short",)
        c, a, d = fields(f, self.alen)
        return ("data", c & 0x0F, d)

    def secondary_answers(self, f, reached):
        """f: a frame of the secondary function (PRM=0) or E5"""
        if self.sec_waiting:
            if getattr(self, "sec_dup", False) and self.sec_last_answer is not None and self.norm(f) != self.norm(self.sec_last_answer):
                self.errors.append(("answer-not-repeated", "%s: repeated frame %s answered with %s, the previous answer was %s" % (
                    self.tag, self.sec_last_fcv.hex(), f.hex(), self.sec_last_answer.hex())))
            self.sec_last_answer = f
            self.sec_waiting = False
        if reached:
            if self.reset_pending:
                self.reset_pending = False
                self.after_reset = True
            self.answered = True

    def secondary_silent(self):
        """called when the secondary was stepped with a complete FCV frame and transmitted nothing"""
        if self.sec_waiting and getattr(self, "sec_dup", False) and self.sec_last_answer is not None:
            self.errors.append(("duplicate-not-answered", "%s: repeated frame %s is not answered (previous answer %s)" % (
                self.tag, self.sec_last_fcv.hex(), self.sec_last_answer.hex())))
        self.sec_waiting = False

    def link_failed(self, t_ack=None, t_rep=None):
        """the primary of this direction reports the link in error.  With timing information: while a frame with FCV=1 is
        unanswered this may happen only after the repeat timeout counted from the frame's FIRST transmission, and the frame
        must have been repeated in between when the acknowledgement timeout is shorter than half the repeat timeout"""
        if t_rep is not None and self.now is not None and self.last_fcv is not None and not self.answered and self.first_tx is not None:
            el = self.now - self.first_tx
            if el < t_rep:
                self.errors.append(("error-before-repeat-timeout", "%s: link reported in error %d ms after the first transmission of the unanswered frame %s (%d repetitions); the repeat timeout is %d ms" % (
                    self.tag, el, self.last_fcv.hex(), self.cur_reps, t_rep)))
            elif self.cur_reps == 0 and t_ack is not None and 2 * t_ack < t_rep:
                self.errors.append(("no-repetition", "%s: unanswered frame %s was never repeated before the link was reported in error after %d ms (acknowledgement timeout %d ms)" % (
                    self.tag, self.last_fcv.hex(), el, t_ack)))
        self.last_fcv = None
        self.answered = True
        self.after_reset = False


# ------------------------------------------------------------------ scripted exchanges on the simulated line (h_cs101)

def saddr(al, i):
    return 0x100 * (i + 1) + 11 + i if al == 2 else 11 + i


def exchange(mode, al, sc, nslaves, actions, rounds, tick, q1=10, q2=10, mq=10, lose=(), dup=(), extra_cfg="", tls=1500, marks=False, quiet=()):
    """one script: every round = tick; application actions due in this round; poll (unbalanced); step m; step every slave.
    actions: {round: [script lines]}.  marks: after every tick a line `mark`, which harness and model both echo as
    `? mark` (unknown command) -- the oracle uses the echoes to know the virtual time of every trace line"""
    s = ["cfg mode=%s al=%d sc=%d slaves=%d q1=%d q2=%d mq=%d tack=200 trep=1000 tls=%d%s" % (mode, al, sc, nslaves, q1, q2, mq, tls, extra_cfg)]
    if lose:
        s.append("lose " + " ".join(str(k) for k in sorted(lose)))
    if dup:
        s.append("dupf " + " ".join(str(k) for k in sorted(dup)))
    for r in range(rounds):
        s.append("tick %d" % tick)
        if marks:
            s.append("mark")
        s += actions.get(r, [])
        if mode == "unb" and r not in quiet:      # quiet rounds: the master application asks for nothing, the line is silent
            for i in range(nslaves):
                s.append("poll s%d" % (i + 1))
        s.append("step m")
        for i in range(nslaves):
            s.append("step s%d" % (i + 1))
    return s


def frames_in(out):
    return sum(1 for l in out if l.startswith("tx "))


def fcb_check(out, mode, al, nslaves, script=None, t_ack=200, t_rep=1000):
    """run the frame-count-bit oracle over a h_cs101 trace; returns (errors, stats).  With `script` (a script built with
    marks=True) the timing clauses are evaluated as well."""
    ev = parse_line_trace(out)
    ticks = [int(l.split()[1]) for l in script if l.startswith("tick ")] if script else None
    nmark, now = 0, 0
    orc = {}
    for i in range(nslaves):
        orc[("m", i)] = FcbOracle(al, "master->slave%d" % (i + 1))
        if mode == "bal":
            orc[("s", i)] = FcbOracle(al, "slave%d->master" % (i + 1))
    errs = []
    delivered = {}
    failed_since = {}
    for o in orc.values():
        o.t_rep = t_rep
    for e in ev:
        if e[0] == "mark":
            if ticks is not None and nmark < len(ticks):
                now += ticks[nmark]
                nmark += 1
                for o in orc.values():
                    o.now = now
            continue
        if e[0] == "tx":
            _, st, n, f, lost, dup = e
            if wf_frame(f, al):
                continue
            if f == b"\xe5":
                c, a = None, None
            else:
                c, a, _ = fields(f, al)
            if st == "m":
                if c is not None and c & 0x40:            # primary function of the master
                    for i in range(nslaves):
                        if mode == "bal" or a == saddr(al, i):
                            o = orc[("m", i)]
                            if o.sec_waiting and getattr(o, "sec_dup", False):
                                o.errors.append(("duplicate-not-answered", "%s: repeated frame %s got no answer" % (o.tag, o.sec_last_fcv.hex())))
                            o.sec_waiting = False
                            o.primary_sends(f, not lost)
                elif mode == "bal":                       # master answering as secondary
                    orc[("s", 0)].secondary_answers(f, not lost)
            else:
                i = int(st[1:]) - 1
                if c is not None and c & 0x40:
                    if mode == "bal":
                        o = orc[("s", i)]
                        if o.sec_waiting and getattr(o, "sec_dup", False):
                            o.errors.append(("duplicate-not-answered", "%s: repeated frame %s got no answer" % (o.tag, o.sec_last_fcv.hex())))
                        o.sec_waiting = False
                        o.primary_sends(f, not lost)
                else:
                    orc[("m", i)].secondary_answers(f, not lost)
        elif e[0] == "mls":
            if e[2] == 1:
                for i in range(nslaves):
                    if mode == "bal" or e[1] == saddr(al, i):
                        orc[("m", i)].link_failed(t_ack, t_rep) if ticks is not None else orc[("m", i)].link_failed()
                        failed_since[("s", i)] = True      # deliveries at slave i may now repeat the frame in flight
                        if mode != "bal":
                            failed_since[("m", e[1])] = True  # unbalanced: the responses travel on the same failed link
        elif e[0] == "sls" and mode == "bal":
            if e[2] == 1:
                orc[("s", e[1] - 1)].link_failed(t_ack, t_rep) if ticks is not None else orc[("s", e[1] - 1)].link_failed()
                failed_since[("m", 0)] = True
        elif e[0] in ("sdeliver", "mdeliver"):
            if e[2] is None:
                continue
            key = ("s", e[1] - 1) if e[0] == "sdeliver" else ("m", e[1])
            ident = (key, e[2])
            if ident in delivered and not failed_since.get(key):
                errs.append(("delivered-twice", "%s delivered ASDU %s twice without a reported link failure in between" % (
                    "slave %d" % e[1] if e[0] == "sdeliver" else "master", e[2].hex())))
            delivered[ident] = True
            failed_since[key] = False
    stats = dict(fcv=0, reps=0)
    for o in orc.values():
        errs += o.errors
        stats["fcv"] += o.nfcv
        stats["reps"] += o.reps
    return errs, stats
