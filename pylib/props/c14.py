"""C14 -- FT 1.2 framing: everything written is a well-formed frame; only intact frames for this station get through.
proof:   coq/Properties/C14.v  (encoders well-formed for ALL inputs, checksum = sum mod 256, transceiver delimits exactly one
         frame, parser acceptance => every receive clause, rejected => silent, indicated data = frame octets, round trip)
tie:     extracted model (coq/Link/*.v via driver/d_link.ml) vs the real link_layer.c + serial_transceiver_ft_1_2.c on the
         simulated serial port (harness/h_ll.c), trace and state dump line by line, on every script of this run
oracle:  FT 1.2 well-formedness of every octet string written and the receive clauses of the property, in Python from
         IEC 60870-5-1 (pylib/props/linklib.py), evaluated on the implementation's trace"""
import json
from pathlib import Path
from vf import core, runner
from props import linklib as L

LEVEL = "proof"
prebuild = L.prebuild

OWN = {0: 0, 1: 3, 2: 0x1234}
OTHER = {0: 0, 1: 2, 2: 0x0456}


def hx(b):
    return bytes(b).hex() if len(b) else "-"


def prelude(kind, al, sc):
    own, oth = OWN[al], OTHER[al]
    if kind == "us":
        return ["cfg kind=us al=%d sc=%d addr=%d idle=100000" % (al, sc, own),
                "rx " + hx(L.fixed(al, L.ctrl(9, prm=1), own)), "rx " + hx(L.fixed(al, L.ctrl(0, prm=1), own)),
                "enq2 0102030405", "enq1 a1a2a3", "enq2 0607"]
    if kind == "bal":
        return ["cfg kind=bal al=%d sc=%d addr=%d other=%d dir=1 idle=100000" % (al, sc, own, oth), "run",
                "rx " + hx(L.fixed(al, L.ctrl(11), own)), "rx " + hx(L.fixed(al, L.ctrl(0), own)), "send aabbcc", "run"]
    return ["cfg kind=up al=%d sc=%d slaves=%d" % (al, sc, own), "run",
            "rx " + hx(L.fixed(al, L.ctrl(11), own)), "rx " + hx(L.fixed(al, L.ctrl(0), own)), "poll2 a=%d" % own, "run"]


def base_frames(kind, al):
    own = OWN[al]
    bc = (1 << (8 * al)) - 1
    fr = []
    if kind == "us":
        fr += [("reqstatus", L.fixed(al, L.ctrl(9, prm=1), own)), ("reset", L.fixed(al, L.ctrl(0, prm=1), own)),
               ("req2", L.fixed(al, L.ctrl(11, prm=1, fcb_acd=1, fcv_dfc=1), own)), ("req1", L.fixed(al, L.ctrl(10, prm=1, fcb_acd=1, fcv_dfc=1), own)),
               ("ud3", L.variable(al, L.ctrl(3, prm=1, fcb_acd=1, fcv_dfc=1), own, bytes([0x11, 0x22, 0x33, 0x44, 0x55]))),
               ("ud3-1", L.variable(al, L.ctrl(3, prm=1, fcb_acd=1, fcv_dfc=1), own, b"\x68")),
               ("ud4", L.variable(al, L.ctrl(4, prm=1), own, bytes(range(20))))]
        if al:
            fr.append(("ud4-bc", L.variable(al, L.ctrl(4, prm=1), bc, b"\x01\x02\x03")))
    elif kind == "bal":
        fr += [("e5", b"\xe5"), ("ack", L.fixed(al, L.ctrl(0), own)), ("status", L.fixed(al, L.ctrl(11), own)),
               ("reset", L.fixed(al, L.ctrl(0, prm=1), own)), ("reqstatus", L.fixed(al, L.ctrl(9, prm=1), own)),
               ("ud3", L.variable(al, L.ctrl(3, prm=1, fcb_acd=1, fcv_dfc=1), own, bytes([0x11, 0x22, 0x33, 0x44, 0x55]))),
               ("ud3-1", L.variable(al, L.ctrl(3, prm=1, fcb_acd=1, fcv_dfc=1), own, b"\x10")),
               ("test", L.fixed(al, L.ctrl(2, prm=1, fcb_acd=1, fcv_dfc=1), own))]
    else:
        fr += [("e5", b"\xe5"), ("ack", L.fixed(al, L.ctrl(0), own)), ("nodata", L.fixed(al, L.ctrl(9), own)),
               ("ud8", L.variable(al, L.ctrl(8, fcb_acd=1), own, bytes([0x11, 0x22, 0x33, 0x44, 0x55, 0x66, 0x77]))),
               ("ud8-1", L.variable(al, L.ctrl(8), own, b"\xe5"))]
    return fr


def mutations(rng, f, masks, quick):
    """(tag, octets): every single-octet corruption (given masks), every truncation, one-octet insertions/deletions, extension"""
    out = [("intact", f)]
    for i in range(len(f)):
        for m in masks:
            g = bytearray(f)
            g[i] ^= m
            out.append(("x%d^%02x" % (i, m), bytes(g)))
        for v in (0x68, 0x10, 0xE5, 0x16):
            if f[i] != v and (not quick or i < 6 or i >= len(f) - 2):
                g = bytearray(f)
                g[i] = v
                out.append(("s%d=%02x" % (i, v), bytes(g)))
    for n in range(0, len(f)):
        out.append(("t%d" % n, f[:n]))
    for i in (range(len(f)) if not quick else sorted({0, 1, 2, 4, len(f) - 2, len(f) - 1} & set(range(len(f))))):
        out.append(("d%d" % i, f[:i] + f[i + 1:]))
        out.append(("i%d" % i, f[:i] + bytes([rng.below(256)]) + f[i:]))
    out.append(("ext", f + bytes([rng.below(256)])))
    if f[0] == 0x68:
        for d in (1, -1, 2):
            g = bytearray(f)
            g[1] = g[2] = (f[1] + d) & 255
            out.append(("L%+d" % d, bytes(g)))
    return out


def readdressed(f, al, a2):
    """the same frame, correctly built, for another station address"""
    if f[0] == 0x10:
        return L.fixed(al, f[1], a2)
    c, _, d = L.fields(f, al)
    return L.variable(al, c, a2, d)


def blocks_of(out):
    """split a h_ll trace into per-command blocks, each ending with its `st` line"""
    bl, cur = [], []
    for l in out:
        cur.append(l)
        if l.startswith("st "):
            bl.append(cur)
            cur = []
    if cur:
        bl.append(cur)
    return bl


def st_core(kind, st):
    if kind == "us":
        return " ".join(w for w in st.split() if not w.startswith("ls="))
    return st


def rx_oracle(ck, kind, al, sid, lines, out, npre, info):
    bl = blocks_of(out)
    if len(bl) < len(lines):
        ck.fail("input", "oracle:trace-short:" + kind, "trace of %s has %d blocks for %d commands" % (sid, len(bl), len(lines)), {"script": lines, "observed": out[-6:]})
        return
    own = OWN[al]
    prev = bl[npre - 1][-1]
    fed = delim = 0
    for bi in range(len(lines)):
        w = lines[bi].split()
        if w[0] in ("rx", "feed") and len(w) > 1 and w[-1] != "-":
            fed += len(w[-1]) // 2
        delim += sum(len(l.split()[1]) // 2 for l in bl[bi] if l.startswith("rxmsg "))
        if delim > fed:
            ck.fail("input", "oracle:rx-delimited-beyond-received:" + kind,
                    "%s station (address width %d): %d octets have been received but frames of %d octets in total were delimited and handed on [%s: %s] -- a frame is complete only when all its octets have arrived" % (
                        kind, al, fed, delim, info[0], info[1]), {"script": lines, "observed": bl[bi]})
            return
    for bi in range(npre, len(lines)):
        b = bl[bi]
        msgs = [bytes.fromhex(l.split()[1]) for l in b if l.startswith("rxmsg ")]
        eff = [l for l in b if l.split()[0] in ("tx", "ind", "ud", "acd", "rcu", "ret")]
        st = b[-1]
        why = None
        if not msgs:
            why = "nothing was delimited"
        else:
            why = L.must_reject(msgs[0], al, kind, own)
            ck.count("rx:" + ("rejected:" + why.split("(")[0].strip() if why else "passed"))
        if info[0].startswith("embedded-"):
            # nothing in or after a damaged carrier frame may be acted upon, however the remaining octets are delimited
            if eff or st_core(kind, st) != st_core(kind, prev):
                ck.fail("input", "oracle:rx-embedded-accepted:" + kind,
                        "%s station (address width %d) acted on octets inside the damaged frame [%s: %s]: delimited %s, reaction %s" % (
                            kind, al, info[0], info[1], msgs[0].hex() if msgs else "-", eff or st),
                        {"script": lines[:npre + 1] + ["run x%d" % (len(lines) - npre - 1)], "observed": b})
                return
            ck.count("rx:embedded-block-silent")
        elif why is not None:
            if eff or st_core(kind, st) != st_core(kind, prev):
                cls = "answered" if any(l.startswith("tx") for l in eff) else ("passed-on" if eff else "state-changed")
                ck.fail("input", "oracle:rx-%s:%s:%s" % (cls, kind, (why.split("(")[0].strip().replace(" ", "-"))),
                        "%s station (address width %d) received %s [%s: %s] which must be ignored (%s) but reacted: %s" % (
                            kind, al, msgs[0].hex() if msgs else "-", info[0], info[1], why, eff or st),
                        {"script": lines, "observed": b})
        else:
            data = L.fields(msgs[0], al)[2] if msgs[0] != b"\xe5" else b""
            for l in b:
                if l.startswith("ind ") or l.startswith("ud "):
                    got = l.split()[-1]
                    if got != hx(data):
                        ck.fail("input", "oracle:rx-data-modified:" + kind, "user data %s of accepted frame %s handed on as %s" % (hx(data), msgs[0].hex(), got),
                                {"script": lines, "observed": b})
            if eff:
                ck.nontriv((kind, al, info[0], info[1], "accepted"))
        if why is not None and msgs:
            ck.nontriv((kind, al, info[0], why))
        prev = st


def tx_scripts(rng, kind, al, sc, lens):
    own, oth = OWN[al], OTHER[al]
    s = prelude(kind, al, sc)[:4 if kind != "us" else 3]
    meta = []
    fcb = 1
    if kind == "us":
        for n in lens:
            d = rng.bytes(n)
            cls = rng.below(2)
            s.append(("enq1 " if cls else "enq2 ") + hx(d))
            if rng.chance(1, 3):
                s.append("enq1 " + hx(rng.bytes(3)))
            s.append("rx " + hx(L.fixed(al, L.ctrl(10 if cls else 11, prm=1, fcb_acd=fcb, fcv_dfc=1), own)))
            meta.append(d)
            fcb ^= 1
            if rng.chance(1, 4):        # repeated request: old message again
                s.append("rx " + hx(L.fixed(al, L.ctrl(11, prm=1, fcb_acd=fcb ^ 1, fcv_dfc=1), own)))
        for fc in range(16):
            s.append("rx " + hx(L.fixed(al, L.ctrl(fc, prm=1), own)))
    elif kind == "bal":
        for n in lens:
            d = rng.bytes(n)
            if rng.chance(1, 3):
                # the acknowledgement does not come; meanwhile the peer's own primary traffic is received and answered (the station's
                # frame buffer is used for it); after the acknowledgement timeout the frame is repeated: still a well-formed frame
                pf = rng.choice([L.variable(al, L.ctrl(3, prm=1, fcb_acd=rng.below(2), fcv_dfc=1), own, rng.bytes(rng.range(1, 40))),
                                 L.fixed(al, L.ctrl(2, prm=1, fcb_acd=rng.below(2), fcv_dfc=1), own), L.fixed(al, L.ctrl(9, prm=1), own)])
                s += ["send " + hx(d), "run", "rx " + hx(pf), "run", "tick 250", "run", "run", "rx " + hx(L.fixed(al, L.ctrl(0), own)), "run"]
            else:
                s += ["send " + hx(d), "run", "rx " + (hx(b"\xe5") if sc and rng.chance(1, 2) else hx(L.fixed(al, L.ctrl(0), own)))]
            meta.append(d)
        for fc in range(16):
            s.append("rx " + hx(L.fixed(al, L.ctrl(fc, prm=1), own)))
        s += ["test", "run", "tick 250", "rx " + hx(L.fixed(al, L.ctrl(0), own))]
    else:
        for n in lens:
            d = rng.bytes(n)
            s += ["send a=%d %s" % (own, hx(d)), "run", "rx " + hx(L.fixed(al, L.ctrl(0), own))]
            meta.append(d)
        s += ["bcast 010203", "run", "poll1 a=%d" % own, "run", "tick 250", "rx " + hx(L.variable(al, L.ctrl(8, fcb_acd=1), own, b"\x01\x02\x03\x04\x05\x06")),
              "run", "rx " + hx(L.fixed(al, L.ctrl(9), own)), "test a=%d" % own, "run"]
    return s, meta


def run(ck):
    quick = ck.tier == "quick"
    rng = core.Rng(ck.seed)
    ck.trusted = [
        "Coq 8.16.1 kernel; every theorem of Properties/C14.v Closed under the global context (vm_compute only in the two concrete Examples/witnesses)",
        "coq/Link/Ft12.v, LinkSec.v, LinkPrim.v are hand transcriptions of link_layer.c / serial_transceiver_ft_1_2.c; tied by running the extracted step functions "
        "against the real code (harness/h_ll.c, white-box #include of link_layer.c only for the state dump) on every script of this run, trace + state line by line",
        "serial port model: octets readable NOW (SerialPort_readByte returns -1 when the queue is empty = character timeout expired); the HAL itself (src/hal/serial) is replaced",
        "extraction: ExtrOcamlBasic only; driver/d_link.ml (script parsing, printing)",
        "the variant of the tree (which of the proposed repairs a..f are present) is measured by probe scenarios on the real code and passed to the model as fix=<letters>",
    ]
    ck.rule = ("station kinds us/bal/up x address width 0/1/2 x single-char ACK off/on; TX: user data lengths incl. 0,1,252..255 (thorough: all 0..255) through every sending path, "
               "all 16 function codes received; RX: 5-8 valid base frames per station kind, every single-octet corruption (xor masks, and set-to 68/10/e5/16), every truncation, "
               "one-octet deletions/insertions, extension, random octet strings; non-trivial = distinct (kind, width, base frame, mutation/rejection reason) that produced a delimited frame")
    ck.coq("C14")
    fix, bad, praw = L.probe()
    ck.extra["tree_variant"] = fix
    for k, what in bad.items():
        if k == "f":
            ck.fail("input", "oracle:rx-answered:us:short-length-field", what, {"script": L.PROBES["f"], "observed": praw["f"]["out"]})
        elif k == "d":
            ck.fail("input", "oracle:null-asdu-to-handler:master", what + " (frame 68 03 03 68 08 0b 0a 1d 16 answering a class 2 request)",
                    {"script": L.PROBE_D, "observed": praw["d"]["out"], "harness": "h_cs101"})
        elif k.endswith(":crash"):
            ck.fail("input", "crash:probe:" + k, what, {"script": L.PROBES.get(k.split(":")[0], L.PROBE_D)})
    exe = L.h_ll()
    try:
        mexe = L.model()
    except Exception as e:
        mexe = None
        ck.fail("correspondence", "model-build", "extracted model does not build: " + str(e)[:300], {"theorem": "extraction"})
    masks = [0x01, 0x10, 0x80, 0xFF] if quick else list(range(1, 256))
    scripts, meta = [], {}
    cfgs = [(k, al, sc) for k in ("us", "bal", "up") for al in (0, 1, 2) for sc in (0, 1)]
    for kind, al, sc in cfgs:
        pre = prelude(kind, al, sc)
        for name, f in base_frames(kind, al):
            muts = mutations(rng, f, masks if sc == 0 else [0x01, 0x80], quick)
            for tag, g in muts:
                sid = "rx.%s.%d.%d.%s.%s" % (kind, al, sc, name, tag)
                lines = pre + ["rx " + hx(g), "run", "run", "run"]
                scripts.append((sid, lines))
                meta[sid] = ("rx", kind, al, len(pre), (name, tag), g)
        # a damaged carrier frame whose user data contain a complete valid frame for this station: after the loss of
        # synchronisation the rest of the damaged frame must not be searched for start octets (IEC 60870-5-1: a line idle
        # interval is required before the next frame) -- nothing may be answered or indicated
        own_ = OWN[al]
        if kind in ("us", "bal"):
            inner = [("reqstatus", L.fixed(al, L.ctrl(9, prm=1), own_)),
                     ("ud", L.variable(al, L.ctrl(3 if kind == "bal" else 4, prm=1, fcb_acd=(1 if kind == "bal" else 0), fcv_dfc=(1 if kind == "bal" else 0)), own_, b"\x2d\x01\x06\x00\x01\x00\x07\x00\x00\x01"))]
            for iname, fin in inner:
                for pad in (0, 3, 12, 40, 80, 100):
                    carrier = bytearray(L.variable(al, L.ctrl(4, prm=1), own_, bytes([0x55] * pad) + fin + bytes([0x55] * 4)))
                    # a damaged first start octet with the embedded frame anywhere (also beyond the octets a pseudo-frame starting
                    # at the second 68 would swallow); damaged length octets only for carriers shorter than 128 octets
                    cases = [("start", 0, 0x28), ("start2", 0, 0x69)] + ([("len1", 1, carrier[1] ^ 0x80), ("len2", 2, carrier[2] ^ 0x01)] if pad <= 40 else [])
                    for cname, pos, val in cases:
                        g = bytearray(carrier)
                        g[pos] = val
                        sid = "emb.%s.%d.%d.%s.%d.%s" % (kind, al, sc, iname, pad, cname)
                        scripts.append((sid, pre + ["rx " + hx(bytes(g))] + ["run"] * (len(g) + 4)))
                        meta[sid] = ("rx", kind, al, len(pre), ("embedded-" + iname, "%s pad=%d" % (cname, pad)), bytes(g))
        if al > 0:
            own = OWN[al]
            others = sorted({own ^ 1, (own + 1) % (1 << (8 * al)), 0, (own >> 8) | ((own & 255) << 8) if al == 2 else own ^ 0x80,
                             own & 0xFF if al == 2 else own ^ 0x40, (1 << (8 * al)) - 1} - {own})
            if al == 2:   # addresses sharing one octet with the broadcast address
                others = sorted(set(others) | {0x00FF, 0xFF00, (own & 0xFF00) | 0xFF, 0xFF00 | (own & 0xFF)})
            for name, f in base_frames(kind, al):
                if f == b"\xe5":
                    continue
                for a2 in others:
                    sid = "adr.%s.%d.%d.%s.%x" % (kind, al, sc, name, a2)
                    g = readdressed(f, al, a2)
                    scripts.append((sid, pre + ["rx " + hx(g), "run", "run"]))
                    meta[sid] = ("rx", kind, al, len(pre), (name, "addr=%x" % a2), g)
        for i in range(12 if quick else 200):
            g = rng.bytes(rng.range(1, 24))
            if rng.chance(1, 2):
                g = bytes([rng.choice([0x68, 0x10, 0xE5])]) + g
            sid = "rnd.%s.%d.%d.%d" % (kind, al, sc, i)
            scripts.append((sid, pre + ["rx " + hx(g), "run", "run", "run", "run"]))
            meta[sid] = ("rx", kind, al, len(pre), ("random", str(i)), g)
        lens = [0, 1, 2, 3, 100, 250, 251, 252, 253, 254, 255] if quick else list(range(256))
        for part in range(0, len(lens), 32):
            s, m = tx_scripts(rng, kind, al, sc, lens[part:part + 32])
            sid = "tx.%s.%d.%d.%d" % (kind, al, sc, part)
            scripts.append((sid, s))
            meta[sid] = ("tx", kind, al, 0, m, None)
    ck.count("scripts", len(scripts))

    def skip(sid):
        m = meta[sid]
        g = m[5]
        # original tree without the short-L check: the parser reads one octet beyond the frame (stale buffer content) -- not modelled
        return "f" not in fix and g is not None and any(g[i] == 0x68 and i + 1 < len(g) and g[i + 1] < 1 + m[2] for i in range(len(g)))
    rc, nd = L.correspond(ck, exe, mexe, scripts, fix, "ft12", skip=skip)
    ck.extra["disagreements"] = nd
    for sid, lines in scripts:
        o = rc.get(sid)
        if not o or o["crash"]:
            continue
        m = meta[sid]
        ck.evaluations += 1
        kind, al = m[1], m[2]
        # TX: everything written is a well-formed FT 1.2 frame of the configured address width
        for l in o["out"]:
            if l.startswith("tx "):
                f = bytes.fromhex(l.split()[1]) if l.split()[1] != "-" else b""
                why = L.wf_frame(f, al)
                ck.count("tx:" + ("e5" if f == b"\xe5" else "fixed" if f[:1] == b"\x10" else "variable"))
                if why:
                    ck.fail("input", "oracle:tx-malformed:%s:%s" % (kind, why.split(",")[0].split(" but")[0].replace(" ", "-")[:40]),
                            "%s station (address width %d) wrote %s: %s" % (kind, al, f.hex(), why), {"script": lines, "observed": [l]})
            elif l.startswith("txlog-mismatch"):
                ck.fail("input", "oracle:tx-log:" + kind, "octets written to the port differ from the frames reported: " + l, {"script": lines})
        if m[0] == "tx":
            sent = [L.fields(bytes.fromhex(l.split()[1]), al)[2] for l in o["out"] if l.startswith("tx 68")]
            want = [d for d in m[4] if 1 + al + len(d) <= 255]
            missing = [d for d in want if d not in sent]
            if missing and kind != "us":
                ck.fail("input", "oracle:tx-data:" + kind, "user data of %d octets given to the %s station was not transmitted unmodified" % (len(missing[0]), kind),
                        {"script": lines, "observed": o["out"][-4:]})
            for d in want:
                ck.nontriv((kind, al, "txlen", len(d)))
        else:
            rx_oracle(ck, kind, al, sid, lines, o["out"], m[3], m[4])
        if ck.evaluations % 1499 == 1:
            ck.sample({"script": lines[-5:], "trace": o["out"][-6:]})
    ck.extra["exhaustive"] = not quick
    ck.notes.append("second start octet and end octet are not examined by the receiver (a frame 68 L L xx .. CS yy is accepted); the property does not list them, so the oracle does not either")


def replay(ck, path):
    r = json.loads(Path(path).read_text())["replay"]
    exe = L.h_cs101() if r.get("harness") == "h_cs101" else L.h_ll()
    res = runner.run_batch(exe, [("replay", r.get("script", []))])
    print("\n".join(res["replay"]["out"]))
    if res["replay"]["crash"]:
        print(res["replay"]["crash"]["text"])
    ck.evaluations = 1
