"""C16 -- CS101 end-to-end delivery between master and slave(s) while the link is up.      LEVEL: partial
proof:   coq/Properties/C16.v: (1) SEND/CONFIRM with frame count bit and unnumbered ACK over a lossy channel is exactly-once
         and FIFO for ALL event sequences (abstract model Link/Abp.v); (2) the cs101_queue.c ring refines a bounded FIFO that
         displaces the oldest entry (Link/Cs101Queue.v, literal); (3) a request takes the head of its class queue exactly once.
         NOT proved: that the composition of the literal station models refines (1).
tie:     the composition master x channel x slaves of the extracted station models (driver/d_link.ml) is run against the real
         CS101_Master / CS101_Slave objects (harness/h_cs101.c, public API only) on the same scripts, line by line
oracle:  exactly-once / FIFO per class / capacity and oldest-first displacement / failure reporting, written from the property
         text, evaluated on the implementation trace"""
import json
from pathlib import Path
from vf import core, runner
from props import linklib as L

LEVEL = "other"
prebuild = L.prebuild


def hx(b):
    return bytes(b).hex() if len(b) else "-"


def gen_actions(rng, mode, ns, rounds, q1, q2, mq, heavy, tests=False, only=None):
    """application schedule; returns (actions, info) with info[asdu bytes] = (direction, slave index, class, sequence number)"""
    acts, info, ident = {}, {}, 1
    last = int(rounds * 0.55)
    r = 10
    while r < last:
        for i in range(ns):
            k = rng.below(10)
            if only == "class1":       # nothing but spontaneous class 1 data: the master learns of it through the ACD bit alone
                k = 0
            n = 1
            if heavy and rng.chance(1, 6):
                n = rng.range(2, max(q1, q2) + 3)          # burst beyond the capacity: displacement
            for _ in range(n):
                if k < 4:
                    a = L.asdu(ident, rng.range(2, 12), typ=30, cot=3)
                    acts.setdefault(r, []).append("enq1 s%d %s" % (i + 1, hx(a)))
                    info[a] = ("s2m", i, 1, ident)
                elif k < 8:
                    a = L.asdu(ident, rng.range(2, 40), typ=13, cot=1)
                    acts.setdefault(r, []).append("enq2 s%d %s" % (i + 1, hx(a)))
                    info[a] = ("s2m", i, 2, ident)
                else:
                    a = L.asdu(ident, rng.range(2, 9), typ=45, cot=6)
                    acts.setdefault(r, []).append("msend s%d %s" % (i + 1, hx(a)))
                    info[a] = ("m2s", i, 0, ident)
                    if tests and rng.chance(1, 2):
                        # the application asks for a link test while (or just before / after) the command is outstanding
                        acts.setdefault(r + rng.choice([0, 1, 1, 2]), []).append("mtest s%d" % (i + 1))
                ident += 1
            if tests and rng.chance(1, 25):
                acts.setdefault(r, []).append("mtest s%d" % (i + 1))
            if tests and rng.chance(1, 30):
                acts.setdefault(r, []).append("flush s%d" % (i + 1))      # CS101_Slave_flushQueues: everything waiting is dropped
        r += rng.range(1, 4)
    return acts, info


class Link:
    """bookkeeping for one direction of one master-slave pair"""
    def __init__(self, cap):
        self.cap = cap
        self.q = []            # model of the sender's queue (bounded, displaces the oldest)
        self.sent = []         # ASDUs in the order of their first transmission
        self.count = {}        # deliveries per ASDU
        self.exempt = set()    # in flight when a failure of this link was reported
        self.order = []        # delivery order
        self.displaced = set()


def oracle(ck, sid, lines, out, m, info):
    mode, al, ns = m["mode"], m["al"], m["ns"]
    ev = L.parse_line_trace(out)
    # one Link per (direction, slave, class)
    links = {}
    for i in range(ns):
        links[("s2m", i, 1)] = Link(m["q1"])
        links[("s2m", i, 2)] = Link(m["q2"])
        links[("m2s", i, 0)] = Link(m["mq"] if mode == "bal" else 1)
    fails = []

    def fail(code, text):
        fails.append((code, text))
    rep_run = {}           # station -> (frame, number of consecutive identical transmissions)
    lost_since_up = {}     # link key -> frames lost anywhere on the line since that link was reported AVAILABLE
    up_seen = set()
    it = iter([l for l in lines if l.split()[0] in ("enq1", "enq2", "msend")])
    # flushQueues leaves no trace line of its own: replay the script order of enq / flush per slave to know what a flush dropped
    flush_after = {}      # (slave index, number of enq lines of that slave seen so far) -> True
    nenq = {}
    for l in lines:
        w = l.split()
        if w[0] in ("enq1", "enq2"):
            nenq[int(w[1][1:]) - 1] = nenq.get(int(w[1][1:]) - 1, 0) + 1
        elif w[0] == "flush":
            flush_after[(int(w[1][1:]) - 1, nenq.get(int(w[1][1:]) - 1, 0))] = True
    seen_enq = {}

    def apply_flush(i):
        if flush_after.pop((i, seen_enq.get(i, 0)), None):
            for cls in (1, 2):
                lk = links[("s2m", i, cls)]
                lk.displaced.update(lk.q)
                lk.q = []
    addr_to_i = {L.saddr(al, i): i for i in range(ns)}
    for e in ev:
        if e[0] == "enq":
            l = next(it)
            while not l.startswith("enq"):
                l = next(it)
            a = bytes.fromhex(l.split()[2])
            apply_flush(e[1] - 1)
            seen_enq[e[1] - 1] = seen_enq.get(e[1] - 1, 0) + 1
            lk = links[("s2m", e[1] - 1, e[2])]
            isfull = len(lk.q) >= lk.cap
            if bool(e[3]) != isfull:
                fail("capacity", "slave %d class %d queue of capacity %d reports full=%d with %d ASDUs waiting" % (e[1], e[2], lk.cap, e[3], len(lk.q)))
            if isfull and lk.q:
                lk.displaced.add(lk.q.pop(0))
            lk.q.append(a)
        elif e[0] == "msend":
            l = next(it)
            while not l.startswith("msend"):
                l = next(it)
            if e[2]:
                a = bytes.fromhex(l.split()[2])
                lk = links[("m2s", e[1] - 1, 0)]
                if mode == "bal" and len(lk.q) >= lk.cap and lk.q:
                    lk.displaced.add(lk.q.pop(0))
                lk.q.append(a)
        elif e[0] == "tx":
            _, st, n, f, lost, dup = e
            if lost:
                for k in lost_since_up:
                    lost_since_up[k] += 1
            # "when the link does fail this is reported": a primary frame with FCV=1 goes out at most once plus one repetition per
            # acknowledgement timeout (200 ms) inside the repeat timeout (1000 ms); after that the station gives up and reports the link
            if len(f) > 1 and not dup:
                cb = f[1] if f[0] == 0x10 else (f[4] if len(f) > 4 else 0)
                if cb & 0x40 and cb & 0x10:
                    prev = rep_run.get(st)
                    rep_run[st] = (f, prev[1] + 1) if prev and prev[0] == f else (f, 1)
                    if rep_run[st][1] == 9:
                        fail("never-gives-up", "station %s transmitted %s nine times in a row without reporting the link in error (acknowledgement timeout 200 ms, repeat timeout 1000 ms)" % (st, f.hex()[:40]))
                elif cb & 0x40:
                    rep_run.pop(st, None)
            if L.wf_frame(f, al) or f == b"\xe5" or f[0] != 0x68:
                continue
            c, a, d = L.fields(f, al)
            if d not in info:
                continue
            dr, i, cls, _ = info[d]
            lk = links[(dr, i, cls)]
            if d not in lk.sent:
                # first transmission = the sender took it from its queue: must be the oldest waiting entry of its class
                if d in lk.displaced:
                    fail("displaced-sent", "ASDU %s was displaced from the full queue but is transmitted" % d.hex())
                elif not lk.q or lk.q[0] != d:
                    fail("fifo-dequeue", "%s transmits %s but the oldest waiting ASDU of that class is %s" % (st, d.hex(), lk.q[0].hex() if lk.q else "none"))
                    if d in lk.q:
                        lk.q.remove(d)
                else:
                    lk.q.pop(0)
                lk.sent.append(d)
                if mode == "bal" and dr == "s2m" and cls == 2 and links[("s2m", i, 1)].q:
                    fail("class-order", "slave %d sends class 2 data while class 1 data is waiting" % (i + 1))
        elif e[0] in ("mdeliver", "sdeliver"):
            d = e[2]
            if d is None:
                fail("null-asdu", "master handler called with asdu == NULL")
                continue
            if d not in info:
                fail("unknown-asdu", "%s of an ASDU nobody sent: %s" % (e[0], d.hex()))
                continue
            dr, i, cls, _ = info[d]
            if (e[0] == "mdeliver") != (dr == "s2m"):
                fail("wrong-way", "ASDU %s delivered at the wrong station" % d.hex())
                continue
            if e[0] == "mdeliver" and mode == "unb" and addr_to_i.get(e[1]) != i:
                fail("wrong-slave", "ASDU %s of slave %d delivered as coming from address %d" % (d.hex(), i + 1, e[1]))
            if e[0] == "sdeliver" and e[1] - 1 != i:
                fail("wrong-slave", "ASDU %s for slave %d delivered at slave %d" % (d.hex(), i + 1, e[1]))
            lk = links[(dr, i, cls)]
            lk.count[d] = lk.count.get(d, 0) + 1
            lk.order.append(d)
        elif e[0] in ("mls", "sls") and e[2] == 3:
            lost_since_up[(e[0], e[1])] = 0
            up_seen.add((e[0], e[1]))
        elif e[0] in ("mls", "sls") and e[2] == 1:
            rep_run.clear()
            if (e[0], e[1]) in up_seen and lost_since_up.get((e[0], e[1]), 1) == 0:
                fail("resume", "link %s reported in error although no frame was lost since it was reported available: communication does not resume after re-establishment" % (
                    "of the master to address %d" % e[1] if e[0] == "mls" else "of slave %d" % e[1]))
            # link reported in error: the frame in flight on that link may be lost or repeated
            for (dr, i, cls), lk in links.items():
                hit = False
                if mode == "bal":
                    hit = (e[0] == "mls" and dr == "m2s") or (e[0] == "sls" and dr == "s2m")
                else:
                    hit = e[0] == "mls" and addr_to_i.get(e[1]) == i
                if hit and lk.sent:
                    lk.exempt.add(lk.sent[-1])
            m["failures"] = m.get("failures", 0) + 1
    for (i, _n) in list(flush_after):          # a flush after the last enqueue of that slave
        seen_enq[i] = _n
        apply_flush(i)
    settled = m["settled"]
    for (dr, i, cls), lk in links.items():
        who = "slave %d class %d -> master" % (i + 1, cls) if dr == "s2m" else "master -> slave %d" % (i + 1)
        for d in lk.sent:
            n = lk.count.get(d, 0)
            if n > 1 and d not in lk.exempt:
                fail("duplicate", "%s: ASDU %s delivered %d times, no link failure was reported while it was in flight" % (who, d.hex(), n))
            if n == 0 and d not in lk.exempt and (settled or d != lk.sent[-1]):
                fail("lost", "%s: ASDU %s was transmitted, never delivered, and no link failure was reported while it was in flight" % (who, d.hex()))
        for d in lk.displaced:
            if lk.count.get(d, 0) and d not in lk.sent:
                fail("displaced-delivered", "%s: displaced ASDU %s delivered" % (who, d.hex()))
        # FIFO: deliveries (first occurrences) follow the order of enqueueing
        seq = []
        for d in lk.order:
            if d not in seq:
                seq.append(d)
        ids = [info[d][3] for d in seq]
        if ids != sorted(ids):
            fail("order", "%s: delivery order %s is not the order of queueing" % (who, ids[:12]))
        if settled and lk.q:
            fail("stuck", "%s: %d ASDUs still waiting %d rounds after the last disturbance" % (who, len(lk.q), m["quiet_rounds"]))
        ck.count("delivered", sum(1 for d in lk.sent if lk.count.get(d, 0) == 1))
        ck.count("displaced", len(lk.displaced))
        ck.count("in-flight-at-failure", len(lk.exempt))
    for code, text in fails[:3]:
        ck.fail("input", "oracle:e2e:%s:%s" % (code, "balanced" if mode == "bal" else "unbalanced"),
                text + " [%s slaves=%d q=%d/%d/%d loss %s %s]" % (mode, ns, m["q1"], m["q2"], m["mq"], m["kind"], m["lose"][:6]),
                {"script": lines, "observed": [l for l in out if l.split()[0] in ("tx", "mls", "sls", "mdeliver", "sdeliver", "enq", "msend")][-16:], "harness": "h_cs101"})
    return not fails


def run(ck):
    quick = ck.tier == "quick"
    rng = core.Rng(ck.seed)
    ck.trusted = [
        "Coq 8.16.1 kernel; theorems of Properties/C16.v Closed under the global context",
        "PARTIAL: the exactly-once theorem is about the abstract stop-and-wait model (Link/Abp.v); that the composed literal models refine it is NOT proved -- it is "
        "checked by running the composed extracted models against the real CS101_Master/CS101_Slave on every script, and by the oracle on the real trace",
        "Link/Cs101Queue.v is a literal transcription of cs101_queue.c (proved to refine the bounded drop-oldest FIFO); the composed model runs this literal ring for every "
        "class 1 / class 2 / master queue; the real queues are exercised through the public enqueue/poll API and compared via the full flag and the frames on the line",
        "channel model: whole frames lost / duplicated / delayed (by scheduling) on an otherwise error-free line; no reordering, no duplication of answers (unnumbered ACK)",
        "extraction: ExtrOcamlBasic only; the composition of the station step functions is OCaml code in driver/d_link.ml",
    ]
    ck.rule = ("scripted exchanges: random application schedules (class 1 / class 2 ASDUs at every slave, commands from the master, link test requests of the master application around its commands, bursts beyond the queue capacity), queue sizes 1..20, "
               "1..3 slaves (unbalanced) or point-to-point (balanced), address width 1/2, single-char ACK off/on; loss: none, EVERY single frame position, double positions, bursts "
               "forcing link failure, random loss up to 30 %; non-trivial = distinct script with at least one delivery")
    ck.coq("C16")
    fix, bad, praw = L.probe()
    ck.extra["tree_variant"] = fix
    sig = {"g_unb": "oracle:e2e:duplicate:unbalanced-test-request", "g_unb2": "oracle:e2e:stuck:unbalanced-test-request",
           "g_bal": "oracle:e2e:lost:balanced-test-request", "h": "oracle:e2e:resume:negative-answer", "i": "oracle:e2e:duplicate:out-of-step-after-unserved-frame"}
    for k, what in bad.items():
        if k in sig:
            ck.fail("input", sig[k], what, {"script": L.PROBES[k], "observed": praw[k]["out"], "harness": "h_ll"})
    hcs = L.h_cs101()
    try:
        mexe = L.model()
    except Exception as e:
        mexe = None
        ck.fail("correspondence", "model-build", "extracted model does not build: " + str(e)[:300], {"theorem": "extraction"})
    scripts, meta, infos = [], {}, {}
    ncfg = 10 if quick else 40
    for ci in range(ncfg + 4):
        mode = "bal" if ci % 2 == 0 else "unb"
        al = 1 + (ci // 2) % 2
        sc = (ci // 4) % 2
        ns = 1 if mode == "bal" else 1 + (ci // 2) % 3
        q1, q2, mq = rng.range(1, 20), rng.range(1, 20), rng.range(1, 20)
        if ci < 4:
            q1, q2, mq = (1, 2, 1) if ci < 2 else (3, 1, 2)
        only = None
        xcfg = ""
        if ci >= ncfg:                  # unbalanced line on which only class 1 data is produced, with / without single-character ACK
            mode, sc, ns, al, only = "unb", (ci - ncfg) % 2, 1 + (ci - ncfg) // 2, 1, "class1"
        if mode == "bal" and ci % 4 == 0:
            xcfg = " idle=300"          # balanced stations supervise the idle line with test function frames (every 300 ms of silence)
        rounds, tick = 110, 70
        acts, info = gen_actions(rng, mode, ns, rounds, q1, q2, mq, heavy=(only is None), tests=(ci % 4 >= 2 and only is None), only=only)
        if xcfg:
            # silence in the middle (the idle supervision runs, a burst there makes a TEST frame fail), traffic again afterwards
            acts = {r: a for r, a in acts.items() if r < 25}
            ident = 5000
            for r in range(72, 100, 3):
                a_ = L.asdu(ident, 4, typ=30, cot=3)
                acts.setdefault(r, []).append("enq1 s1 %s" % hx(a_)); info[a_] = ("s2m", 0, 1, ident); ident += 1
                a_ = L.asdu(ident, 4, typ=45, cot=6)
                acts.setdefault(r + 1, []).append("msend s1 %s" % hx(a_)); info[a_] = ("m2s", 0, 0, ident); ident += 1
        tag = "c%d.%s.%d.%d.%d" % (ci, mode, al, sc, ns)
        drain = 3 * ns * (q1 + q2 + mq + 2) + 20      # rounds needed to empty full queues after the last disturbance
        base = L.exchange(mode, al, sc, ns, acts, rounds + drain, tick, q1=q1, q2=q2, mq=mq, tls=400, extra_cfg=xcfg)
        bout = runner.run_batch(hcs, [("b", base)])["b"]["out"]
        n = L.frames_in(bout)
        # frame index reached at 55 % of the rounds: losses are placed before it so that the rest of the script is undisturbed
        nlast = max(8, int(n * 0.6))

        def add(kind, lose=(), acts=acts):
            lose = sorted(set(lose))
            sid = "%s.%s.%s" % (tag, kind, "_".join(map(str, lose[:5])))
            if sid in meta:
                return
            # every lost frame can cost one acknowledgement / repeat / link-state timeout: give the line time to settle
            scripts.append((sid, L.exchange(mode, al, sc, ns, acts, rounds + min(25 * len(lose), 300) + drain, tick, q1=q1, q2=q2, mq=mq, lose=lose, tls=400, extra_cfg=xcfg)))
            meta[sid] = dict(mode=mode, al=al, ns=ns, q1=q1, q2=q2, mq=mq, kind=kind, lose=lose, settled=len(lose) <= 12, quiet_rounds=int(rounds * 0.3))
            infos[sid] = info
        add("none")
        if xcfg:
            # a burst (link failure, possibly detected on a test frame) followed, after the re-establishment, by one more lost frame
            acts_l = dict(acts)
            acts_l[71] = acts_l.get(71, []) + ["losenext m", "losenext s1"]      # the first user data frame of either station after the silence is lost once
            for a in range(1, n - 8, 3 if quick else 1):
                add("burst+first-data", list(range(a, a + 9)), acts=acts_l)
            add("first-data", [], acts=acts_l)
        step = max(1, nlast // (40 if quick else 250))
        for k in range(1, nlast, step):
            add("single", [k])
        for _ in range(20 if quick else 400):
            a = rng.range(1, nlast - 1)
            add("double", [a, rng.range(a + 1, min(nlast, a + 10))])
        for _ in range(6 if quick else 60):
            a = rng.range(1, nlast - 9)
            add("burst", range(a, a + 9))
        for _ in range(10 if quick else 150):
            p = rng.range(2, 30)
            add("random%d" % p, [k for k in range(1, nlast) if rng.below(100) < p])
    ck.count("scripts", len(scripts))
    rl, nd = L.correspond(ck, hcs, mexe, scripts, fix, "link-line")
    ck.extra["disagreements"] = nd
    for sid, lines in scripts:
        o = rl.get(sid)
        if not o or o["crash"]:
            continue
        ck.evaluations += 1
        m = meta[sid]
        oracle(ck, sid, lines, o["out"], m, infos[sid])
        ck.count("loss:" + m["kind"].rstrip("0123456789"))
        ck.count("link_failures_reported", m.get("failures", 0))
        if any(l.startswith(("mdeliver", "sdeliver")) for l in o["out"]):
            ck.nontriv((sid,))
        if ck.evaluations % 97 == 1:
            ck.sample({"config": sid, "lost": m["lose"][:8], "deliveries": sum(1 for l in o["out"] if "deliver" in l), "failures": m.get("failures", 0)})
    # the pre-study scenario, kept as a fixed corpus entry: failure after an odd number of confirmed frames
    ck.extra["exhaustive"] = False
    ck.notes.append("LEVEL partial: composition theorem not proved (see Properties/C16.v header); duplication of answer frames and delays beyond the acknowledgement timeout "
                    "are outside the channel model (the unnumbered ACK of IEC 60870-5-2 cannot tolerate them)")


def replay(ck, path):
    r = json.loads(Path(path).read_text())["replay"]
    res = runner.run_batch(L.h_cs101(), [("replay", r.get("script", []))])
    print("\n".join(res["replay"]["out"]))
    if res["replay"]["crash"]:
        print(res["replay"]["crash"]["text"])
    ck.evaluations = 1
