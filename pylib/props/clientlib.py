"""shared: the extracted CS104 client model (coq/Cs104/Client.v via driver/d_client.ml) run against the trace of the
real client (harness/h_cs104c.c) on the same script, line by line"""
import re
from vf import core, runner


def model():
    return core.build_model("client", core.COQ / "extract" / "ExtractClient.v", [], core.VERIF / "driver" / "d_client.ml")


def norm(lines):
    """comparable form of a h_cs104c trace: white-box ring indices and the thread flag are not part of the model; what the
    harness prints at teardown (after the last end-of-command marker) is dropped"""
    out = []
    for l in lines:
        if l.startswith("st "):
            l = re.sub(r" old=-?\d+ new=-?\d+", "", l)
            l = re.sub(r" done=\d+", "", l)
        if l.startswith("sem "):
            continue
        out.append(l)
    while out and out[-1] != ".":
        out.pop()
    return out


def correspond(ck, mexe, scripts, cres, what, limit=6, timeout=3600):
    """scripts: [(sid, lines)], cres: run_batch result of the C harness.  Returns the number of disagreements."""
    if not mexe:
        return 0
    rm = runner.run_batch(mexe, scripts, timeout=timeout)
    nd = 0
    for sid, lines in scripts:
        o = cres.get(sid)
        if not o or o["crash"]:
            continue
        a, b = norm(o["out"]), norm(rm.get(sid, {}).get("out", []))
        if a != b:
            nd += 1
            if nd <= limit:
                i = next((j for j, (x, y) in enumerate(zip(a, b)) if x != y), min(len(a), len(b)))
                k = a[:i].count(".")
                ck.fail("correspondence", "diff:client:" + what, "client model and implementation differ at trace line %d (script command %d `%s`): C=%s model=%s" % (
                    i, k, lines[k] if k < len(lines) else "?", a[i:i + 1], b[i:i + 1]), {"script": lines[:k + 1], "role": "client", "c": a[max(0, i - 4):i + 2], "model": b[max(0, i - 4):i + 2]})
    return nd
