"""Per-type description of the IEC 60870-5-101/104 information objects, written by hand from
IEC 60870-5-101 clause 7.2.6 (information elements) / 7.3 (ASDU definitions) and from the documented public
API of cs101_information_objects.h -- NOT derived from the encoder/decoder source.  Used as
  * the independent reference encoder / layout oracle of C01, C02, C12 (body length, SQ permission,
    normalisation of constructor arguments, expected getter values), and
  * the source from which the C constructor/getter dispatch of harness/h_asdu.c is generated
    (translate/gen_asdu.py writes .cache/gen/asdu_dispatch.inc) -- mechanical, no semantics in it.

An information object is (ioa, body); body = octets after the information object address."""
import struct


def f32(x):
    return struct.unpack("<f", struct.pack("<f", x))[0]


def fbits(x):
    return struct.unpack("<I", struct.pack("<f", x))[0]


def bits2f(b):
    return struct.unpack("<f", struct.pack("<I", b & 0xFFFFFFFF))[0]


def norm_to_raw(bits):
    """NormalizedValue_toScaled as documented: saturate to [-1, 32767/32768], scale by 2^15, round half away"""
    v = bits2f(bits)
    hi = f32(32767.0 / 32768.0)
    if v > hi:
        v = hi
    elif v < -1.0:
        v = -1.0
    s = f32(v * 32768.0)
    s = f32(s - 0.5) if s < 0 else f32(s + 0.5)
    return int(s)


def raw_to_norm_bits(raw):
    return fbits(raw / 32768.0)


def le(v, n):
    return [(v >> (8 * i)) & 0xFF for i in range(n)]


def s16(b):
    v = b[0] | (b[1] << 8)
    return v - 65536 if v > 32767 else v


class Part:
    """one group of octets of a body: constructor arguments -> octets, getters on the octets"""
    def __init__(self, n, args, enc, getters, mask=None):
        self.n = n              # octets (None = variable, F_SG data)
        self.args = args        # [(name, kind)]
        self.enc = enc          # dict(args) -> [octets]
        self.getters = getters  # [(suffix, retkind, fn(octets)->value)]
        self.mask = mask or ([0xFF] * (n or 0))


def P_siq():
    return Part(1, [("value", "bool"), ("quality", "u8")],
                lambda a: [(a["quality"] & 0xF0) | (1 if a["value"] else 0)],
                [("getValue", "int", lambda b: b[0] & 1), ("getQuality", "int", lambda b: b[0] & 0xF0)], [0xF1])


def P_diq():
    return Part(1, [("value", "dpv"), ("quality", "u8")],
                lambda a: [(a["quality"] & 0xF0) | (a["value"] & 3)],
                [("getValue", "int", lambda b: b[0] & 3), ("getQuality", "int", lambda b: b[0] & 0xF0)], [0xF3])


def _vti(a):
    v = max(-64, min(63, a["value"]))
    return [(v & 0x7F) | (0x80 if a["isTransient"] else 0), a["quality"] & 0xFF]


def P_vti():
    def gv(b):
        v = b[0] & 0x7F
        return v - 128 if v > 63 else v
    return Part(2, [("value", "int7"), ("isTransient", "bool"), ("quality", "u8")], _vti,
                [("getValue", "int", gv), ("isTransient", "int", lambda b: b[0] >> 7), ("getQuality", "int", lambda b: b[1])])


def P_bsi_q():
    return Part(5, [("value", "u32"), ("quality", "u8")], lambda a: le(a["value"], 4) + [a["quality"]],
                [("getValue", "int", lambda b: b[0] | b[1] << 8 | b[2] << 16 | b[3] << 24), ("getQuality", "int", lambda b: b[4])])


def P_bsi():
    return Part(4, [("value", "u32")], lambda a: le(a["value"], 4),
                [("getValue", "int", lambda b: b[0] | b[1] << 8 | b[2] << 16 | b[3] << 24)])


def P_nva(qname="quality", qget="getQuality"):
    return Part(3, [("value", "f32n"), (qname, "u8")], lambda a: le(norm_to_raw(a["value"]) & 0xFFFF, 2) + [a[qname]],
                [("getValue", "float", lambda b: raw_to_norm_bits(s16(b))), (qget, "int", lambda b: b[2])])


def P_nva_noq():
    return Part(2, [("value", "f32n")], lambda a: le(norm_to_raw(a["value"]) & 0xFFFF, 2),
                [("getValue", "float", lambda b: raw_to_norm_bits(s16(b)))])


def P_sva(qname="quality", qget="getQuality"):
    return Part(3, [("value", "i16"), (qname, "u8")], lambda a: le(a["value"] & 0xFFFF, 2) + [a[qname]],
                [("getValue", "int", lambda b: s16(b)), (qget, "int", lambda b: b[2])])


def P_r32(qname="quality", qget="getQuality"):
    return Part(5, [("value", "f32"), (qname, "u8")], lambda a: le(a["value"], 4) + [a[qname]],
                [("getValue", "float", lambda b: b[0] | b[1] << 8 | b[2] << 16 | b[3] << 24), (qget, "int", lambda b: b[4])])


def P_hex(n, name, kind, getter):
    return Part(n, [(name, kind)], lambda a: list(a[name]), [(getter, "hex%d" % n, lambda b: bytes(b).hex())] if getter else [])


def P_u8(name, getter, kind="u8"):
    return Part(1, [(name, kind)], lambda a: [a[name] & 0xFF], [(getter, "int", lambda b: b[0])] if getter else [])


def _qos(a):
    return (a["ql"] & 0x7F) | (0x80 if a["selectCommand"] else 0)


def P_cmd(kind):   # SCO / DCO / RCO
    if kind == "sco":
        args = [("command", "bool"), ("selectCommand", "bool"), ("qu", "u5")]
        enc = lambda a: [((a["qu"] & 0x1F) << 2) | (1 if a["command"] else 0) | (0x80 if a["selectCommand"] else 0)]
        st = lambda b: b[0] & 1
    else:
        args = [("command", "dpv"), ("selectCommand", "bool"), ("qu", "u5")]
        enc = lambda a: [((a["qu"] & 0x1F) << 2) | (a["command"] & 3) | (0x80 if a["selectCommand"] else 0)]
        st = lambda b: b[0] & 3
    return Part(1, args, enc, [("getQU", "int", lambda b: (b[0] >> 2) & 0x1F), ("getState", "int", st), ("isSelect", "int", lambda b: b[0] >> 7)])


def P_set_nva():
    return Part(3, [("value", "f32n"), ("selectCommand", "bool"), ("ql", "u7")], lambda a: le(norm_to_raw(a["value"]) & 0xFFFF, 2) + [_qos(a)],
                [("getValue", "float", lambda b: raw_to_norm_bits(s16(b))), ("getQL", "int", lambda b: b[2] & 0x7F), ("isSelect", "int", lambda b: b[2] >> 7)])


def P_set_sva():
    return Part(3, [("value", "i16"), ("selectCommand", "bool"), ("ql", "u7")], lambda a: le(a["value"] & 0xFFFF, 2) + [_qos(a)],
                [("getValue", "int", lambda b: s16(b)), ("getQL", "int", lambda b: b[2] & 0x7F), ("isSelect", "int", lambda b: b[2] >> 7)])


def P_set_r32():
    return Part(5, [("value", "f32"), ("selectCommand", "bool"), ("ql", "u7")], lambda a: le(a["value"], 4) + [_qos(a)],
                [("getValue", "float", lambda b: b[0] | b[1] << 8 | b[2] << 16 | b[3] << 24), ("getQL", "int", lambda b: b[4] & 0x7F), ("isSelect", "int", lambda b: b[4] >> 7)])


def P_nof():
    return Part(2, [("nof", "u16")], lambda a: le(a["nof"], 2), [("getNOF", "int", lambda b: b[0] | b[1] << 8)])


def P_lof(name, getter, kind="u24"):
    return Part(3, [(name, kind)], lambda a: le(a[name], 3), [(getter, "int", lambda b: b[0] | b[1] << 8 | b[2] << 16)])


class Ty:
    def __init__(self, tid, name, ctype, parts, sq_std=False, single=False, ctor=None, noioa=False, gprefix=None, extra_getters=(), fixed=None):
        self.tid, self.name, self.ctype = tid, name, ctype
        self.parts = parts          # [(Part, getter C-type prefix)]
        self.sq_std = sq_std        # the standard permits SQ=1 for this type id
        self.single = single        # the standard fixes the number of objects to 1
        self.ctor = ctor or (ctype + "_create")
        self.noioa = noioa          # constructor takes no address (address is 0 by definition)
        self.extra_getters = list(extra_getters)
        self.fixed = fixed          # constructor without arguments producing a fixed body
        # element addressing: 'seq' = SQ bit honoured (SQ=0: idx*(IOA+len), SQ=1: IOA + idx*len; the standard defines SQ=1 for
        # sq_std types, the library documents it for every monitoring type), 'idx' = individually addressed objects only,
        # 'one' = the standard fixes the number of objects to one and the library returns that object for every index
        self.lay = "seq"
        self.var = any(p.n is None for p, _ in parts)
        self.std_len = None if self.var else sum(p.n for p, _ in parts)   # octets after the IOA (IEC 60870-5-101 7.3)
        self.fix_len = sum(p.n for p, _ in parts if p.n is not None)

    def args(self):
        if self.fixed is not None:
            return []
        return [a for p, _ in self.parts for a in p.args]

    def body(self, a):
        if self.fixed is not None:
            return list(self.fixed)
        out = []
        for p, _ in self.parts:
            out += p.enc(a)
        return out

    def mask(self, body):
        m = []
        for p, _ in self.parts:
            m += p.mask if p.n is not None else [0xFF] * (len(body) - self.fix_len)
        return m

    def normalise(self, body):
        return [b & m for b, m in zip(body, self.mask(body))]

    def body_len(self, octets):
        """length of the body that starts at octets[0] (None when the length octet is not available)"""
        if not self.var:
            return self.std_len
        if len(octets) < 4:
            return None
        return 4 + octets[3]

    def getters(self, body):
        """[(C function, cast type, retkind, expected)]"""
        out = []
        pos = 0
        for p, pref in self.parts:
            n = p.n if p.n is not None else len(body) - self.fix_len
            chunk = body[pos:pos + n]
            pos += n
            for suf, kind, fn in p.getters:
                cfun = suf if "_" in suf else "%s_%s" % (pref, suf)
                out.append((cfun, cfun.split("_")[0], kind, fn(chunk)))
        for cfun, kind, fn in self.extra_getters:
            out.append((cfun, cfun.split("_")[0], kind, fn(body)))
        return out


TYPES = {}


def reg(t):
    TYPES[t.tid] = t
    return t


def ts(n, owner, getter="getTimestamp"):
    kind = {2: "cp16", 3: "cp24", 7: "cp56"}[n]
    return (P_hex(n, "timestamp", kind, getter), owner)


def fam(tids, names, base_ctype, ctypes, mk, sq0=True, time_owner=True):
    """a monitoring family: plain / +CP24Time2a / +CP56Time2a"""
    for i, (tid, name, ct) in enumerate(zip(tids, names, ctypes)):
        if tid is None:
            continue
        parts = [(mk(), base_ctype)]
        if i == 1:
            parts.append(ts(3, ct))
        if i == 2:
            parts.append(ts(7, ct))
        reg(Ty(tid, name, ct, parts, sq_std=(i == 0 and sq0)))


fam([1, 2, 30], ["M_SP_NA_1", "M_SP_TA_1", "M_SP_TB_1"], "SinglePointInformation",
    ["SinglePointInformation", "SinglePointWithCP24Time2a", "SinglePointWithCP56Time2a"], P_siq)
fam([3, 4, 31], ["M_DP_NA_1", "M_DP_TA_1", "M_DP_TB_1"], "DoublePointInformation",
    ["DoublePointInformation", "DoublePointWithCP24Time2a", "DoublePointWithCP56Time2a"], P_diq)
fam([5, 6, 32], ["M_ST_NA_1", "M_ST_TA_1", "M_ST_TB_1"], "StepPositionInformation",
    ["StepPositionInformation", "StepPositionWithCP24Time2a", "StepPositionWithCP56Time2a"], P_vti)
fam([7, 8, 33], ["M_BO_NA_1", "M_BO_TA_1", "M_BO_TB_1"], "BitString32",
    ["BitString32", "Bitstring32WithCP24Time2a", "Bitstring32WithCP56Time2a"], P_bsi_q)
for _t in (7, 8, 33):
    TYPES[_t].ctor = TYPES[_t].ctype + "_createEx"
fam([9, 10, 34], ["M_ME_NA_1", "M_ME_TA_1", "M_ME_TD_1"], "MeasuredValueNormalized",
    ["MeasuredValueNormalized", "MeasuredValueNormalizedWithCP24Time2a", "MeasuredValueNormalizedWithCP56Time2a"], P_nva)
fam([11, 12, 35], ["M_ME_NB_1", "M_ME_TB_1", "M_ME_TE_1"], "MeasuredValueScaled",
    ["MeasuredValueScaled", "MeasuredValueScaledWithCP24Time2a", "MeasuredValueScaledWithCP56Time2a"], P_sva)
fam([13, 14, 36], ["M_ME_NC_1", "M_ME_TC_1", "M_ME_TF_1"], "MeasuredValueShort",
    ["MeasuredValueShort", "MeasuredValueShortWithCP24Time2a", "MeasuredValueShortWithCP56Time2a"], P_r32)
fam([15, 16, 37], ["M_IT_NA_1", "M_IT_TA_1", "M_IT_TB_1"], "IntegratedTotals",
    ["IntegratedTotals", "IntegratedTotalsWithCP24Time2a", "IntegratedTotalsWithCP56Time2a"],
    lambda: P_hex(5, "value", "bcr", "getBCR"))

# protection equipment events
reg(Ty(17, "M_EP_TA_1", "EventOfProtectionEquipment",
       [(P_hex(1, "event", "se", "getEvent"), "EventOfProtectionEquipment"), (P_hex(2, "elapsedTime", "cp16", "getElapsedTime"), "EventOfProtectionEquipment"),
        ts(3, "EventOfProtectionEquipment")]))
reg(Ty(38, "M_EP_TD_1", "EventOfProtectionEquipmentWithCP56Time2a",
       [(P_hex(1, "event", "se", "getEvent"), "EventOfProtectionEquipmentWithCP56Time2a"), (P_hex(2, "elapsedTime", "cp16", "getElapsedTime"), "EventOfProtectionEquipmentWithCP56Time2a"),
        ts(7, "EventOfProtectionEquipmentWithCP56Time2a")]))
for _tid, _nm, _ct, _n in ((18, "M_EP_TB_1", "PackedStartEventsOfProtectionEquipment", 3), (39, "M_EP_TE_1", "PackedStartEventsOfProtectionEquipmentWithCP56Time2a", 7)):
    reg(Ty(_tid, _nm, _ct, [(P_u8("event", "getEvent"), _ct), (P_u8("qdp", "getQuality"), _ct), (P_hex(2, "elapsedTime", "cp16", "getElapsedTime"), _ct), ts(_n, _ct)]))
for _tid, _nm, _ct, _n in ((19, "M_EP_TC_1", "PackedOutputCircuitInfo", 3), (40, "M_EP_TF_1", "PackedOutputCircuitInfoWithCP56Time2a", 7)):
    reg(Ty(_tid, _nm, _ct, [(P_u8("oci", "getOCI"), _ct), (P_u8("qdp", "getQuality"), _ct), (P_hex(2, "operatingTime", "cp16", "getOperatingTime"), _ct), ts(_n, _ct)]))
reg(Ty(20, "M_PS_NA_1", "PackedSinglePointWithSCD", [(P_hex(4, "scd", "scd", "getSCD"), "PackedSinglePointWithSCD"), (P_u8("qds", "getQuality"), "PackedSinglePointWithSCD")], sq_std=True))
reg(Ty(21, "M_ME_ND_1", "MeasuredValueNormalizedWithoutQuality", [(P_nva_noq(), "MeasuredValueNormalizedWithoutQuality")], sq_std=True))

# commands in control direction (exactly one object, SQ = 0)
reg(Ty(45, "C_SC_NA_1", "SingleCommand", [(P_cmd("sco"), "SingleCommand")], single=True))
reg(Ty(46, "C_DC_NA_1", "DoubleCommand", [(P_cmd("dco"), "DoubleCommand")], single=True))
reg(Ty(47, "C_RC_NA_1", "StepCommand", [(P_cmd("rco"), "StepCommand")], single=True))
reg(Ty(48, "C_SE_NA_1", "SetpointCommandNormalized", [(P_set_nva(), "SetpointCommandNormalized")], single=True))
reg(Ty(49, "C_SE_NB_1", "SetpointCommandScaled", [(P_set_sva(), "SetpointCommandScaled")], single=True))
reg(Ty(50, "C_SE_NC_1", "SetpointCommandShort", [(P_set_r32(), "SetpointCommandShort")], single=True))
reg(Ty(51, "C_BO_NA_1", "Bitstring32Command", [(P_bsi(), "Bitstring32Command")], single=True))
reg(Ty(58, "C_SC_TA_1", "SingleCommandWithCP56Time2a", [(P_cmd("sco"), "SingleCommand"), ts(7, "SingleCommandWithCP56Time2a")], single=True))
reg(Ty(59, "C_DC_TA_1", "DoubleCommandWithCP56Time2a", [(P_cmd("dco"), "DoubleCommandWithCP56Time2a"), ts(7, "DoubleCommandWithCP56Time2a")], single=True))
reg(Ty(60, "C_RC_TA_1", "StepCommandWithCP56Time2a", [(P_cmd("rco"), "StepCommandWithCP56Time2a"), ts(7, "StepCommandWithCP56Time2a")], single=True))
reg(Ty(61, "C_SE_TA_1", "SetpointCommandNormalizedWithCP56Time2a", [(P_set_nva(), "SetpointCommandNormalizedWithCP56Time2a"), ts(7, "SetpointCommandNormalizedWithCP56Time2a")], single=True))
reg(Ty(62, "C_SE_TB_1", "SetpointCommandScaledWithCP56Time2a", [(P_set_sva(), "SetpointCommandScaledWithCP56Time2a"), ts(7, "SetpointCommandScaledWithCP56Time2a")], single=True))
reg(Ty(63, "C_SE_TC_1", "SetpointCommandShortWithCP56Time2a", [(P_set_r32(), "SetpointCommandShortWithCP56Time2a"), ts(7, "SetpointCommandShortWithCP56Time2a")], single=True))
reg(Ty(64, "C_BO_TA_1", "Bitstring32CommandWithCP56Time2a", [(P_bsi(), "Bitstring32CommandWithCP56Time2a"), ts(7, "Bitstring32CommandWithCP56Time2a")], single=True))

# system information
reg(Ty(70, "M_EI_NA_1", "EndOfInitialization", [(P_u8("coi", "getCOI"), "EndOfInitialization")], single=True, noioa=True))
reg(Ty(100, "C_IC_NA_1", "InterrogationCommand", [(P_u8("qoi", "getQOI"), "InterrogationCommand")], single=True))
reg(Ty(101, "C_CI_NA_1", "CounterInterrogationCommand", [(P_u8("qcc", "getQCC"), "CounterInterrogationCommand")], single=True))
reg(Ty(102, "C_RD_NA_1", "ReadCommand", [], single=True))
reg(Ty(103, "C_CS_NA_1", "ClockSynchronizationCommand", [(P_hex(7, "timestamp", "cp56", "getTime"), "ClockSynchronizationCommand")], single=True))
reg(Ty(104, "C_TS_NA_1", "TestCommand", [(Part(2, [], None, [("isValid", "int", lambda b: 1 if b == [0xAA, 0x55] else 0)]), "TestCommand")],
       single=True, noioa=True, fixed=[0xAA, 0x55]))        # FBP = 0x55AA, least significant octet first
reg(Ty(105, "C_RP_NA_1", "ResetProcessCommand", [(P_u8("qrp", "getQRP"), "ResetProcessCommand")], single=True))
reg(Ty(106, "C_CD_NA_1", "DelayAcquisitionCommand", [(P_hex(2, "delay", "cp16", "getDelay"), "DelayAcquisitionCommand")], single=True))
reg(Ty(107, "C_TS_TA_1", "TestCommandWithCP56Time2a",
       [(Part(2, [("tsc", "u16")], lambda a: le(a["tsc"], 2), [("getCounter", "int", lambda b: b[0] | b[1] << 8)]), "TestCommandWithCP56Time2a"),
        ts(7, "TestCommandWithCP56Time2a")], single=True, noioa=True))

# parameters
reg(Ty(110, "P_ME_NA_1", "ParameterNormalizedValue", [(P_nva("qpm", "getQPM"), "ParameterNormalizedValue")], single=True))
reg(Ty(111, "P_ME_NB_1", "ParameterScaledValue", [(P_sva("qpm", "getQPM"), "ParameterScaledValue")], single=True))
reg(Ty(112, "P_ME_NC_1", "ParameterFloatValue", [(P_r32("qpm", "getQPM"), "ParameterFloatValue")], single=True))
reg(Ty(113, "P_AC_NA_1", "ParameterActivation", [(P_u8("qpa", "getQuality"), "ParameterActivation")], single=True))

# file transfer
reg(Ty(120, "F_FR_NA_1", "FileReady",
       [(P_nof(), "FileReady"), (P_lof("lengthOfFile", "getLengthOfFile"), "FileReady"),
        (Part(1, [("positive", "bool")], lambda a: [0x00 if a["positive"] else 0x80],      # FRQ bit 8: 0 = positive confirm
              [("getFRQ", "int", lambda b: b[0]), ("isPositive", "int", lambda b: 0 if b[0] & 0x80 else 1)]), "FileReady")], single=True))
reg(Ty(121, "F_SR_NA_1", "SectionReady",
       [(P_nof(), "SectionReady"), (P_u8("nos", "getNameOfSection"), "SectionReady"), (P_lof("lengthOfSection", "getLengthOfSection"), "SectionReady"),
        (Part(1, [("notReady", "bool")], lambda a: [0x80 if a["notReady"] else 0x00],      # SRQ bit 8: 1 = section not ready
              [("getSRQ", "int", lambda b: b[0]), ("isNotReady", "int", lambda b: b[0] >> 7)]), "SectionReady")], single=True))
reg(Ty(122, "F_SC_NA_1", "FileCallOrSelect", [(P_nof(), "FileCallOrSelect"), (P_u8("nos", "getNameOfSection"), "FileCallOrSelect"), (P_u8("scq", "getSCQ"), "FileCallOrSelect")], single=True))
reg(Ty(123, "F_LS_NA_1", "FileLastSegmentOrSection",
       [(P_nof(), "FileLastSegmentOrSection"), (P_u8("nos", "getNameOfSection"), "FileLastSegmentOrSection"), (P_u8("lsq", "getLSQ"), "FileLastSegmentOrSection"),
        (P_u8("chs", "getCHS"), "FileLastSegmentOrSection")], single=True))
reg(Ty(124, "F_AF_NA_1", "FileACK", [(P_nof(), "FileACK"), (P_u8("nos", "getNameOfSection"), "FileACK"), (P_u8("afq", "getAFQ"), "FileACK")], single=True))
reg(Ty(125, "F_SG_NA_1", "FileSegment",
       [(P_nof(), "FileSegment"), (P_u8("nos", "getNameOfSection"), "FileSegment"),
        (Part(1, [], lambda a: [len(a["data"])], [("getLengthOfSegment", "int", lambda b: b[0])]), "FileSegment"),
        (Part(None, [("data", "data")], lambda a: list(a["data"]), [("getSegmentData", "data", lambda b: bytes(b).hex() or "-")]), "FileSegment")], single=True))
reg(Ty(126, "F_DR_TA_1", "FileDirectory",
       [(P_nof(), "FileDirectory"), (P_lof("lengthOfFile", "getLengthOfFile", "i24"), "FileDirectory"),
        (Part(1, [("sof", "u8")], lambda a: [a["sof"]],
              [("getSOF", "int", lambda b: b[0]), ("getSTATUS", "int", lambda b: b[0] & 0x1F), ("getLFD", "int", lambda b: (b[0] >> 5) & 1),
               ("getFOR", "int", lambda b: (b[0] >> 6) & 1), ("getFA", "int", lambda b: (b[0] >> 7) & 1)]), "FileDirectory"),
        (P_hex(7, "creationTime", "cp56", "getCreationTime"), "FileDirectory")], sq_std=True))
reg(Ty(127, "F_SC_NB_1", "QueryLog",
       [(P_nof(), "QueryLog"), (P_hex(7, "rangeStartTime", "cp56", "getRangeStartTime"), "QueryLog"), (P_hex(7, "rangeStopTime", "cp56", "getRangeStopTime"), "QueryLog")], single=True))

SUPPORTED = sorted(TYPES)
for _t in SUPPORTED:
    if _t in (70, 127) or 100 <= _t <= 107 or 120 <= _t <= 125:
        TYPES[_t].lay = "one"
    elif 45 <= _t <= 64 or 110 <= _t <= 113:
        TYPES[_t].lay = "idx"

# base-class getters reachable through the documented "inheritance" (timestamped variants of the commands re-use the base getters)
KIND_C = {
    "bool": ("int", "bool"), "int": ("int", "int"), "int7": ("int", "int"), "i16": ("int", "int"), "i24": ("int", "int"), "u5": ("int", "int"), "u7": ("int", "int"),
    "u8": ("int", "uint8_t"), "u16": ("int", "uint16_t"), "u24": ("int", "uint32_t"), "u32": ("int", "uint32_t"), "dpv": ("int", "int"),
    "f32": ("float", "float"), "f32n": ("float", "float"),
    "cp16": ("st", "struct sCP16Time2a", 2), "cp24": ("st", "struct sCP24Time2a", 3), "cp56": ("st", "struct sCP56Time2a", 7),
    "bcr": ("st", "struct sBinaryCounterReading", 5), "scd": ("st", "tStatusAndStatusChangeDetection", 4),
    "se": ("se",), "data": ("data",),
}


def gen_value(rng, kind, edge=False):
    """argument generator for one constructor argument kind; returns the script token and the python value"""
    k = kind
    if k == "bool":
        return rng.below(2)
    if k == "dpv":
        return rng.below(4)
    if k == "int7":
        return rng.choice([-100, -65, -64, -63, -1, 0, 1, 62, 63, 64, 100, rng.range(-64, 63)])
    if k == "i16":
        return rng.choice([-32768, -1, 0, 1, 32767, rng.range(-32768, 32767)])
    if k == "u5":
        return rng.below(32)
    if k == "u7":
        return rng.below(128)
    if k == "u8":
        return rng.choice([0, 1, 0x0F, 0x10, 0x80, 0xF0, 0xFF, rng.below(256), rng.below(256)])
    if k == "u16":
        return rng.choice([0, 1, 255, 256, 65535, rng.below(65536)])
    if k in ("u24", "i24"):
        return rng.choice([0, 1, 255, 256, 65535, 65536, 0xFFFFFF, rng.below(1 << 24)])
    if k == "u32":
        return rng.choice([0, 1, 0xFF, 0x100, 0xFFFF, 0x10000, 0xFFFFFF, 0x1000000, 0x7FFFFFFF, 0x80000000, 0xFFFFFFFF, rng.below(1 << 32)])
    if k == "f32":
        while True:
            b = rng.choice([0, 0x80000000, 0x3F800000, 0xBF800000, 0x7F800000, 0xFF800000, 0x00000001, 0x7F7FFFFF, rng.below(1 << 32), rng.below(1 << 32)])
            if (b & 0x7F800000) != 0x7F800000 or (b & 0x7FFFFF) == 0:
                return b
    if k == "f32n":
        c = rng.below(8)
        if c == 0:
            return fbits(rng.choice([-1.0, 0.0, 32767.0 / 32768.0, 1.0, -2.0, 2.0, 0.5, -0.5]))
        if c < 6:
            return fbits(rng.range(-32768, 32767) / 32768.0)
        return fbits((rng.below(1 << 24) / (1 << 23) - 1.0) * 1.01)
    if k in ("cp16", "cp24", "cp56", "bcr", "scd", "se"):
        n = {"cp16": 2, "cp24": 3, "cp56": 7, "bcr": 5, "scd": 4, "se": 1}[k]
        return rng.bytes(n)
    raise KeyError(kind)


def tok(kind, v):
    if isinstance(v, (bytes, bytearray)):
        return bytes(v).hex() if len(v) else "-"
    return str(int(v))
