"""C12 -- building ASDUs never exceeds configured size or storage, and fails cleanly.
proof:   coq/Properties/C12.v (size / count / atomicity / exact-append theorems of add_io, add_payload for every row whose
         encoder check equals what it writes; C12_current over the table regenerated from /repo on this run)
tie:     translator (table incl. the facts about addInformationObject/addPayload/getSpaceLeft) + correspondence on every script
oracle:  RefAsdu (asdu_common.py, from the property text): size <= maximum <= 256, count <= 127, accept <=> fits/type/continuity,
         refusal leaves every octet unchanged, acceptance appends exactly the reference encoding; heap ASDUs under ASan."""
from vf import core
from props import asdu_common as A
from props import asdu_spec as S

LEVEL = "proof"


def fill_script(rng, cfg, maxsz, t, sq, cap=135):
    """add objects of one type until two consecutive additions must be refused, then the other refusal reasons and the raw operations"""
    R = A.RefAsdu(cfg, maxsz)
    new = (1 if sq else 0, rng.choice([3, 6, 20]), rng.below(256), rng.below(1 << (8 * cfg[1])), rng.below(2), rng.below(2))
    R.new(*new)
    lines = ["cfg %d %d %d %d" % (cfg + (maxsz,)), "new %d %d %d %d %d %d" % new]
    base = rng.below(A.max_ioa(cfg) - 300)
    if sq and cfg[2] == 3 and rng.chance(1, 2):      # consecutive addresses above / across the 16-bit boundary
        base = rng.choice([0x10000 - rng.range(0, 3), 0x10000 + rng.below(0x20), rng.range(0x10000, A.max_ioa(cfg) - 300)])
    elif sq and cfg[2] == 2 and rng.chance(1, 3):
        base = rng.choice([0x100 - rng.range(0, 3), 0x100 + rng.below(0x20)])
    refused = 0
    j = 0
    while refused < 2 and j < cap:
        a = A.gen_args(rng, t)
        ioa = 0 if t.noioa else (base + R.count() if sq else rng.below(A.max_ioa(cfg)))
        ln, body = A.add_line(t, ioa, a)
        ok, _ = R.add(t.tid, ioa, body)
        refused = 0 if ok else refused + 1
        lines.append(ln)
        j += 1
    # a different type, a break of address continuity
    other = S.TYPES[rng.choice([x for x in S.SUPPORTED if x != t.tid and S.TYPES[x].std_len is not None and S.TYPES[x].std_len <= 2])]
    lines.append(A.add_line(other, 0 if other.noioa else rng.below(A.max_ioa(cfg)), A.gen_args(rng, other))[0])
    if sq and not t.noioa and not other.noioa:
        # the different type at exactly the address that would continue the sequence
        lines.append(A.add_line(other, base + R.count(), A.gen_args(rng, other))[0])
    if sq and not t.noioa:
        lines.append(A.add_line(t, base + R.count() + 1 + rng.below(5), A.gen_args(rng, t))[0])
    lines.append("clone")
    for what, v in (("cot", rng.below(300)), ("ca", rng.choice([-5, 0, 255, 256, 65535, 65536, rng.below(70000)])), ("test", rng.below(2)), ("neg", rng.below(2)),
                    ("n", rng.below(300)), ("sq", rng.below(2)), ("type", rng.below(256))):
        lines.append("set %s %d" % (what, v))
    lines.append("clone")
    for n in (rng.below(8), rng.below(60), 256 - A.hdr_len(cfg) - len(R.pay) - rng.below(3) + 1):
        lines.append("addraw %s" % (rng.bytes(max(0, min(n, 300))).hex() or "-"))
    lines += ["clone", "rm", "clone"]
    return lines


def gen_scripts(ck, rng, quick):
    scripts, meta = [], {}
    k = 0
    per = 2 if quick else 8
    for maxsz in range(4, 255):
        for r in range(per):
            cfg = rng.choice(A.CFGS)            # (a fixed rotation here once tied the address size to the type layout)
            if maxsz < A.hdr_len(cfg):
                continue
            t = S.TYPES[S.SUPPORTED[k % len(S.SUPPORTED)]]
            k += 1
            sq = t.lay == "seq" and rng.chance(1, 3)
            sid = "m%d-%d-%d%d%d-%d" % ((maxsz, t.tid) + cfg + (1 if sq else 0,))
            scripts.append((sid, fill_script(rng, cfg, maxsz, t, sq)))
            meta[sid] = dict(cfg=cfg, max=maxsz, tid=t.tid, check_parse=False)
            ck.count("type:" + t.name[:1])
    # F_SG segments of 0..255 octets onto empty and partly filled ASDUs
    t = S.TYPES[125]
    for los in range(256):
        cfg = A.CFGS[los % 12]
        maxsz = rng.choice([254, 249, 253, 100, rng.range(A.hdr_len(cfg), 254)])
        lines = ["cfg %d %d %d %d" % (cfg + (maxsz,)), "new 0 13 0 %d 0 0" % rng.below(256)]
        for _ in range(rng.below(3)):
            lines.append(A.add_line(t, rng.below(200), dict(nof=rng.below(65536), nos=rng.below(256), data=rng.bytes(rng.below(20))))[0])
        lines.append(A.add_line(t, rng.below(200), dict(nof=rng.below(65536), nos=rng.below(256), data=rng.bytes(los)))[0])
        lines.append(A.add_line(t, rng.below(200), dict(nof=1, nos=1, data=rng.bytes(rng.below(4))))[0])
        lines += ["clone"]
        sid = "sg%d" % los
        scripts.append((sid, lines))
        meta[sid] = dict(cfg=cfg, max=maxsz, tid=125, check_parse=False)
    ck.count("segment-lengths", 256)
    return scripts, meta


def run(ck):
    quick = ck.tier == "quick"
    rng = core.Rng(ck.seed)
    ck.trusted = list(A.TRUSTED)
    ck.rule = ("every maximum ASDU size from the header length to 254 (exhaustive) x rotating types (all 67 several times) and address-size configurations: additions of "
               "one type until two consecutive ones must be refused (size or the 127 limit), then a different type, a broken SQ address, clone, every header setter with "
               "out-of-range values, addPayload around the 256-octet storage bound, removeAllElements; F_SG segments of every length 0..255 onto empty and partly filled ASDUs.  "
               "non-trivial = distinct (type, configuration, maximum, resulting size) of accepted additions")
    A.coq_part(ck, "C12")
    scripts, meta = gen_scripts(ck, rng, quick)
    A.run_construction(ck, scripts, meta)


def replay(ck, path):
    A.replay(ck, path)


def prebuild():
    A.prebuild()
