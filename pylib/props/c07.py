"""C07 -- CS104 server data-transfer state machine (STARTDT / STOPDT / TESTFR).
proof:  coq/Properties/C07.v about Cs104/Server.v (handleMessage & the threadless loop transcribed)
tie:    the extracted server model executes the same scripts as the real server (h_cs104s on the simulated
        HAL) and must print the same trace, line by line
oracle: reference state machine written from IEC 60870-5-104 5.3 in Python, evaluated on the C trace"""
import itertools, json
from pathlib import Path
from vf import core, apci, runner

LEVEL = "proof"


def harness():
    return core.build_harness("h_cs104s", ["h_cs104s.c"], whitebox_of=("cs104_slave",))


def model():
    return core.build_model("server", core.COQ / "extract" / "ExtractServer.v", [], core.VERIF / "driver" / "d_server.ml")


def prebuild():
    harness()
    model()


def ev_asdu(i, size=0):
    return apci.asdu(30, 3, 1, bytes([i & 255, (i >> 8) & 255, 0]) + bytes((i + j) & 255 for j in range(size)))


def peer_asdu(i, size=0):
    return apci.asdu(200, 3, 1, bytes([i & 255, (i >> 8) & 255]) + bytes((i * 3 + j) & 255 for j in range(size)))


IC = apci.asdu(100, 6, 1, bytes([0, 0, 0, 20]))

# the 11 stimuli of the property's quantifier
STIMS = ["startdt", "stopdt", "testfr_act", "testfr_con", "i_good", "i_stale", "i_badns", "s_good", "s_partial", "s_bad", "enq", "cmd", "adv", "disc"]


def stim_lines(name, ci, counters):
    c = "c%d" % ci
    if name == "startdt":
        return ["rx %s %s" % (c, apci.STARTDT_ACT.hex()), "tick"]
    if name == "stopdt":
        return ["rx %s %s" % (c, apci.STOPDT_ACT.hex()), "tick"]
    if name == "testfr_act":
        return ["rx %s %s" % (c, apci.TESTFR_ACT.hex()), "tick"]
    if name == "testfr_con":
        return ["rx %s %s" % (c, apci.TESTFR_CON.hex()), "tick"]
    if name == "i_good":
        counters["p"] += 1
        return ["rxi %s %s" % (c, peer_asdu(counters["p"]).hex()), "tick"]
    if name == "i_stale":
        # an I-frame of the peer that does not acknowledge the server's most recent I-frame (N(R) one behind): the server then has both a
        # received I-frame to acknowledge and a transmitted one still unacknowledged
        counters["p"] += 1
        return ["rxi %s %s 0 -1" % (c, peer_asdu(counters["p"]).hex()), "tick"]
    if name == "i_badns":
        return ["rxi %s %s 1" % (c, peer_asdu(999).hex()), "tick"]
    if name == "s_good":
        return ["rxs %s" % c, "tick"]
    if name == "s_partial":
        return ["rxs %s -1" % c, "tick"]
    if name == "s_bad":
        return ["rxs %s 3" % c, "tick"]
    if name == "enq":
        counters["e"] += 1
        return ["enq " + ev_asdu(counters["e"]).hex(), "tick"]
    if name == "cmd":
        return ["rxi %s %s" % (c, IC.hex()), "tick 2"]
    if name == "adv":
        return ["adv 4000", "tick"]
    if name == "disc":
        return ["peerclose %s" % c, "tick 2"]
    raise ValueError(name)


def header(k, w, burst, raw=0, lowq=200, highq=60, bsize=6, handlers=65):
    return ["cfg k=%d w=%d t1=15 t2=10 t3=20 handlers=%d burst=%d bsize=%d raw=%d lowq=%d highq=%d" % (k, w, handlers, burst, bsize, raw, lowq, highq),
            "start", "connect c0 10.0.0.1:1000", "tick"]


def gen_exhaustive(depth, rng, limit):
    """all sequences over the stimuli up to `depth` (sampled down to `limit`)"""
    seqs = []
    for d in range(1, depth + 1):
        for s in itertools.product(STIMS, repeat=d):
            seqs.append(s)
    if len(seqs) > limit:
        keep = [s for s in seqs if len(s) <= 2]
        rest = [s for s in seqs if len(s) > 2]
        idx = sorted({rng.below(len(rest)) for _ in range(limit - len(keep))})
        seqs = keep + [rest[i] for i in idx]
    out = []
    for i, s in enumerate(seqs):
        cnt = dict(p=0, e=0)
        lines = header(3, 2, 2)
        for name in s:
            lines += stim_lines(name, 0, cnt)
        lines.append("tick 2")
        out.append(("x%d" % i, lines, s))
    return out


DIRECTED = [
    ("startdt", "enq", "enq", "stopdt", "s_partial", "s_good", "startdt", "enq"),
    ("startdt", "enq", "enq", "enq", "stopdt", "s_partial", "s_partial", "s_good"),
    ("startdt", "i_good", "stopdt", "startdt", "i_good", "i_good", "stopdt"),
    ("startdt", "enq", "stopdt", "i_good"),
    ("startdt", "stopdt", "s_good"),
    ("startdt", "cmd", "stopdt", "s_good", "startdt", "cmd", "enq", "stopdt", "s_partial", "s_good"),
    ("startdt", "enq", "i_good", "stopdt", "testfr_act", "s_good", "testfr_act"),
    ("enq", "enq", "startdt", "s_partial", "stopdt", "s_good"),
    ("startdt", "startdt", "enq", "stopdt", "stopdt", "s_good", "stopdt"),
    # the k-buffer ring index wraps (a partial acknowledgement, then more events: newest slot below oldest slot) before STOPDT act
    ("startdt", "enq", "enq", "enq", "s_partial", "enq", "enq", "stopdt", "s_partial", "s_good"),
    ("startdt", "enq", "enq", "s_good", "enq", "enq", "enq", "s_partial", "enq", "stopdt", "testfr_act", "s_good", "startdt", "enq"),
    ("startdt", "cmd", "enq", "enq", "s_partial", "cmd", "enq", "stopdt", "s_partial", "s_partial", "s_good"),
    # a received I-frame is still to be acknowledged AND a transmitted event is unacknowledged when STOPDT act arrives: the S-frame goes
    # out at once, STOPDT con only after the peer's acknowledgement
    ("startdt", "enq", "i_stale", "stopdt", "s_good", "testfr_act"),
    ("startdt", "enq", "enq", "i_stale", "stopdt", "testfr_act", "s_partial", "s_good"),
    ("startdt", "enq", "i_stale", "i_stale", "stopdt", "s_good", "startdt", "enq", "i_stale", "stopdt", "s_good"),
    ("startdt", "cmd", "enq", "i_stale", "stopdt", "s_partial", "s_good"),
    ("i_good",), ("s_good",), ("startdt", "i_badns"), ("startdt", "s_bad"), ("startdt", "enq", "disc"),
]


def gen_directed():
    out = []
    for i, seq in enumerate(DIRECTED):
        for k, w in ((3, 2), (1, 1), (12, 8)):
            cnt = dict(p=0, e=0)
            lines = header(k, w, 2)
            for name in seq:
                lines += stim_lines(name, 0, cnt)
            lines.append("tick 2")
            out.append(("d%d.%d" % (i, k), lines, seq + (k,)))
    return out


def gen_multi(rng, n):
    """several connections open at once (single redundancy group): a connection that was started and was then deactivated by another
    connection's STARTDT must not transmit I-frames any more, and an I-frame sent to it closes it -- whichever slots the connections
    occupy and whichever of them have gone meanwhile"""
    out = []
    for i in range(n):
        k = rng.choice([1, 3, 12])
        lines = header(k, 8, 0)
        nc = rng.range(2, 4)
        for c in range(1, nc):
            lines += ["connect c%d 10.0.0.%d:%d" % (c, c + 1, 1000 + c), "tick"]
        alive = list(range(nc))
        cnt = dict(p=0, e=0)
        seq = []
        for _ in range(rng.range(4, 14)):
            r = rng.below(10)
            c = rng.choice(alive)
            if r < 3:
                lines += stim_lines("startdt", c, cnt); seq.append("startdt%d" % c)
            elif r < 5:
                lines += stim_lines("enq", c, cnt) + ["tick"]; seq.append("enq")
            elif r < 6 and len(alive) > 2:
                alive.remove(c)
                lines += ["peerclose c%d" % c, "tick 2"]; seq.append("disc%d" % c)
            elif r < 8:
                lines += stim_lines("i_good", c, cnt); seq.append("i%d" % c)
            elif r < 9:
                lines += stim_lines("s_good", c, cnt); seq.append("s%d" % c)
            else:
                lines += stim_lines("stopdt", c, cnt); seq.append("stopdt%d" % c)
        lines.append("tick 3")
        out.append(("m%d" % i, lines, ("multi",) + tuple(seq)))
    return out


def gen_onact(rng, n):
    """the application sends spontaneous data from inside the ACTIVATED notification (what a server with fresh process data does):
    nothing of it may be on the line before STARTDT con"""
    out = []
    for i in range(n):
        k = rng.choice([1, 3, 12])
        lines = header(k, 8, 0)[:2] + ["sendonact 1"] + header(k, 8, 0)[2:]
        cnt = dict(p=0, e=0)
        seq = []
        for _ in range(rng.range(2, 10)):
            name = rng.choice(["startdt", "startdt", "stopdt", "s_good", "enq", "i_good", "testfr_act"])
            seq.append(name)
            lines += stim_lines(name, 0, cnt)
        lines.append("tick 2")
        out.append(("a%d" % i, lines, ("onact",) + tuple(seq)))
    return out


def gen_deferred(rng, n):
    """(a) the application sends a deferred response on the connection handle it kept, at any moment -- also after STOPDT act was received
    and STOPDT con is still pending (transmitted events unacknowledged): no I-format APDU then; (b) the server's own TESTFR act (t3) is
    outstanding when the peer's TESTFR act arrives: it is confirmed all the same"""
    out = []
    for i in range(n):
        k = rng.choice([1, 3, 12])
        lines = header(k, 8, 0)
        cnt = dict(p=0, e=0)
        seq = []
        if i % 2 == 0:
            for name in ["startdt"] + [rng.choice(["enq", "enq", "s_partial", "i_good", "i_stale"]) for _ in range(rng.range(1, 4))] + ["stopdt"]:
                seq.append(name); lines += stim_lines(name, 0, cnt)
            lines += ["appsend c0", "tick", "appsend c0", "tick"]
            seq.append("appsend")
            for name in [rng.choice(["s_good", "startdt", "enq"]) for _ in range(rng.range(0, 3))]:
                seq.append(name); lines += stim_lines(name, 0, cnt)
            lines += ["appsend c0", "tick"]
        else:
            for name in ["startdt"] if rng.chance(1, 2) else []:
                seq.append(name); lines += stim_lines(name, 0, cnt)
            lines += ["adv 20001", "tick"]            # t3 = 20 s: the server sends TESTFR act
            seq.append("t3")
            for name in ["testfr_act"] + [rng.choice(["testfr_con", "testfr_act", "enq"]) for _ in range(rng.range(0, 3))]:
                seq.append(name); lines += stim_lines(name, 0, cnt)
        lines.append("tick 2")
        out.append(("f%d" % i, lines, ("deferred",) + tuple(seq)))
    return out


def gen_random(rng, n, length):
    out = []
    for i in range(n):
        k = rng.choice([1, 2, 3, 12])
        w = rng.choice([1, 2, 8])
        lines = header(k, w, rng.below(5), bsize=rng.choice([2, 6, 100]))
        cnt = dict(p=0, e=0)
        ci = 0
        seq = []
        weights = ["startdt"] * 3 + ["stopdt"] * 3 + ["testfr_act", "testfr_con"] + ["i_good"] * 6 + ["i_stale"] * 2 + ["i_badns"] + ["s_good"] * 4 + ["s_partial"] * 3 + ["s_bad"] + ["enq"] * 8 + ["cmd"] * 3 + ["adv"] * 2 + ["disc"]
        for _ in range(rng.range(5, length)):
            name = rng.choice(weights)
            seq.append(name)
            lines += stim_lines(name, ci, cnt)
            if name in ("disc", "i_badns", "s_bad") and rng.chance(2, 3) and ci < 13:
                ci += 1
                lines += ["tick 2", "connect c%d 10.0.0.1:%d" % (ci, 1000 + ci), "tick"]
        lines.append("tick 3")
        out.append(("r%d" % i, lines, tuple(seq)))
    return out


def oracle(ck, sid, lines, out):
    """reference FSM per connection; commands and output are aligned through the command structure:
    the harness prints, for each command, the callbacks/events, then one tx line per connection, then (tick) open/closed."""
    # split output per command: we re-run nothing; instead rely on the fixed shape: every `tick` ends with an `open N` line
    chunks, cur = [], []
    for l in out:
        cur.append(l)
        if l.startswith("open "):
            chunks.append(cur)
            cur = []
    ticks = [l for l in lines if l.startswith("tick")]
    # walk the script, keeping the reference state
    st = {}     # ci -> dict
    ti = 0
    pending_rx = {}
    problems = []

    def conn(ci):
        return st.setdefault(ci, dict(started=False, alive=False, opened=False, unacked_ev=0, sent_ev=[], sent_total=0, acked=0, rx_unacked=0, vs0=0))

    last_rx = None
    for l in lines:
        t = l.split()
        if t[0] == "connect":
            conn(int(t[1][1:]))
        elif t[0] in ("rx", "rxi", "rxs", "peerclose"):
            last_rx = (t, int(t[1][1:]))
        elif t[0] == "tick":
            if ti >= len(chunks):
                break
            ch = chunks[ti]
            ti += 1
            for ci_, c_ in st.items():
                c_["ev_unacked_before"] = c_.get("ev_unacked", 0)
                if c_.get("expect_close") and c_["alive"] and ti > c_.get("close_deadline", 1 << 30) and not c_.get("reported"):
                    c_["reported"] = True
                    problems.append(("illegal_not_closed", "connection c%d still open two ticks after an I-frame while not started / a wrong sequence number / an S-frame in stopped state" % ci_))
            # receive-side bookkeeping of the frame this tick processes happens BEFORE anything is transmitted in the tick
            if last_rx:
                t2, ci = last_rx
                c = conn(ci)
                if t2[0] == "rxi" and c["alive"]:
                    dns = int(t2[3]) if len(t2) > 3 else 0
                    if not c["started"] or dns != 0:
                        c["expect_close"] = True
                        c.setdefault("close_deadline", ti + 2)
                    else:
                        c["rx_unacked"] = c.get("rx_unacked", 0) + 1
                if t2[0] == "rxs" and c["alive"]:
                    d = int(t2[2]) if len(t2) > 2 else 0
                    # a connection that was deactivated by another connection's STARTDT (not by its own STOPDT act) still owes and is owed
                    # acknowledgements; the server ends that phase with a STOPDT con of its own accord -- until then an S-frame
                    # is not "an S-format APDU in the stopped state"
                    if d > 0 or (not c["started"] and not c.get("stop_pending") and not c.get("deact")):
                        c["expect_close"] = True
                        c.setdefault("close_deadline", ti + 2)
                if t2[0] in ("rxi", "rxs") and c["alive"] and not c.get("expect_close"):
                    d = 0
                    if t2[0] == "rxs" and len(t2) > 2:
                        d = int(t2[2])
                    if t2[0] == "rxi" and len(t2) > 4:
                        d = int(t2[4])
                    if d <= 0:
                        c["acked"] = max(c.get("acked", 0), c.get("seen_before", 0) + d)
                    kinds = c.get("kinds", [])
                    c["ev_unacked"] = sum(1 for i, kd in enumerate(kinds) if kd == "ev" and i >= c.get("acked", 0))
            # events / tx of this command
            for ol in ch:
                p = ol.split()
                if p[0] == "cb" and conn(int(p[2][1:])).get("expect_close"):
                    problems.append(("delivered_after_illegal", "an ASDU was delivered on c%s after a frame that must close the connection" % p[2][1:]))
                if p[0] == "ev":
                    c = conn(int(p[1][1:]))
                    if p[2] == "OPENED":
                        c["alive"] = True
                    if p[2] == "CLOSED":
                        c["alive"] = False
                        c["started"] = False
                        c["deact"] = False
                if p[0] == "tx":
                    ci = int(p[1][1:])
                    c = conn(ci)
                    frames, err, rest = apci.split_stream(bytes.fromhex(p[2]))
                    for f in frames:
                        a = apci.parse_apdu(f)
                        if a["kind"] == "U" and a["u"] == 0x0b:
                            # single redundancy group (the mode of these scripts): the connection whose STARTDT is confirmed becomes
                            # the started one, every other connection of the server is deactivated by that
                            for oc, od in st.items():
                                if oc != ci:
                                    if od["started"]:
                                        od["deact"] = True
                                    od["started"] = False
                            c["started"] = True
                            c["stop_pending"] = False
                            c["deact"] = False
                        elif a["kind"] == "U" and a["u"] == 0x23:
                            if c.get("ev_unacked", 0) > 0:
                                problems.append(("stop_con_early", "STOPDT con sent while %d transmitted event ASDUs are unacknowledged" % c["ev_unacked"]))
                            solicited = c.get("stop_pending") or (last_rx is not None and last_rx[1] == ci and last_rx[0][0] == "rx" and bytes.fromhex(last_rx[0][2]) == apci.STOPDT_ACT)
                            if c.get("rx_unacked", 0) > 0 and solicited:      # the clause is about the ANSWER to STOPDT act
                                problems.append(("stop_con_before_ack", "STOPDT con sent before acknowledging %d received I-frames" % c["rx_unacked"]))
                            c["stop_pending"] = False
                            c["deact"] = False
                        elif a["kind"] == "I":
                            if not c["started"]:
                                problems.append(("i_not_started", "I-frame transmitted while data transfer is not started (N(S)=%d)" % a["ns"]))
                            c["sent_total"] = c.get("sent_total", 0) + 1
                            c.setdefault("kinds", []).append("ev" if a["asdu"][0] == 30 else "resp")
                            c["rx_unacked"] = 0
                        elif a["kind"] == "S":
                            c["rx_unacked"] = 0
            # answers required in the tick that processes the frame
            if last_rx:
                t2, ci = last_rx
                c = conn(ci)
                txl = [bytes.fromhex(x.split()[2]) for x in ch if x.startswith("tx c%d " % ci)]
                txf = apci.split_stream(b"".join(txl))[0]
                us = [a["u"] for a in (apci.parse_apdu(f) for f in txf) if a["kind"] == "U"]
                if t2[0] == "rx" and c["alive"]:
                    fr = bytes.fromhex(t2[2])
                    if fr == apci.STARTDT_ACT and 0x0b not in us:
                        problems.append(("startdt_no_con", "STARTDT act not answered with STARTDT con"))
                    if fr == apci.TESTFR_ACT and 0x83 not in us:
                        problems.append(("testfr_no_con", "TESTFR act not answered with TESTFR con"))
                    if fr == apci.STOPDT_ACT:
                        c["started"] = False
                        c["stop_pending"] = 0x23 not in us
                        if c.get("ev_unacked_before", 0) == 0 and 0x23 not in us:
                            problems.append(("stop_no_con", "STOPDT act with nothing unacknowledged not answered with STOPDT con"))
                last_rx = None
            for ci, c in st.items():
                kinds = c.get("kinds", [])
                c["seen_before"] = len(kinds)
                c["ev_unacked"] = sum(1 for i, kd in enumerate(kinds) if kd == "ev" and i >= c.get("acked", 0))
                if c.get("stop_pending") and c["ev_unacked"] == 0 and c["alive"]:
                    # STOPDT con must have been sent by now (in the tick that processed the last acknowledgement)
                    pass
    for ci, c in st.items():
        if c.get("expect_close") and c["alive"]:
            problems.append(("illegal_not_closed", "connection c%d stayed open after an I-frame while not started / a wrong sequence number / an S-frame in stopped state" % ci))
    return problems


def run(ck):
    quick = ck.tier == "quick"
    rng = core.Rng(ck.seed)
    ck.trusted = [
        "Coq 8.16.1 kernel; theorems Closed under the global context",
        "Cs104/Server.v: hand transcription of handleMessage, handleTcpConnection, sendWaitingASDUs, handleTimeouts, sendIMessage and the threadless loop for one connection slot; validated by running the extracted model against the real server on every script of this run (trace equality)",
        "event queue / high-priority queue abstract FIFOs in this model (scripts stay below capacity); k-buffer abstract (C04 proves the ring equal to the window rule used here)",
        "the application behind the callbacks is the harness' scripted one",
        "threaded server loop (connectionHandlingThread) is not modelled; it shares handleMessage/handleTimeouts/sendWaitingASDUs with the threadless loop",
    ]
    ck.rule = ("all sequences over the 12 stimuli {STARTDT act, STOPDT act, TESTFR act/con, I good/bad N(S), S good/bad N(R), enqueue, interrogation command, time advance, disconnect} "
               "up to the tier's depth (sampled above the stated limit) + long random sequences with reconnects; non-trivial = distinct stimulus sequence")
    ck.coq("C07")
    h = harness()
    try:
        m = model()
    except Exception as e:
        m = None
        ck.fail("correspondence", "model-build", "extracted model does not build: " + str(e)[:300], {"theorem": "extraction"})
    depth, limit = (3, 1500) if quick else (4, 20000)
    scripts = gen_directed() + gen_exhaustive(depth, rng, limit) + gen_random(rng, 150 if quick else 3000, 60)
    multi = gen_multi(rng, 60 if quick else 1500)       # the extracted model follows one connection slot: oracle only for these
    onact = gen_onact(rng, 30 if quick else 600)
    deferred = gen_deferred(rng, 30 if quick else 600)
    nomodel = {sid for sid, _, _ in multi} | {sid for sid, _, _ in onact} | {sid for sid, _, _ in deferred}
    scripts += multi + onact + deferred
    ck.count("scripts", len(scripts))
    rc = runner.run_batch(h, [(sid, l) for sid, l, _ in scripts], timeout=3600)
    rm = runner.run_batch(m, [(sid, l) for sid, l, _ in scripts], timeout=3600) if m else {}
    ndiff = 0
    for sid, lines, seq in scripts:
        ck.evaluations += 1
        o = rc.get(sid, dict(out=[], crash=None))
        if o["crash"]:
            ck.fail("input", "crash:%s:%s" % (o["crash"]["kind"], o["crash"]["site"]), "server aborted: %s at %s" % (o["crash"]["kind"], o["crash"]["site"]),
                    {"script": lines, "stderr": o["crash"]["text"]})
            continue
        cout = [l for l in o["out"] if not l.startswith(("sem ", "st ", "q "))]
        if m and sid in rm and sid not in nomodel:
            mout = rm[sid]["out"]
            if cout != mout and ndiff < 10:
                ndiff += 1
                i = next((j for j, (a, b) in enumerate(zip(cout, mout)) if a != b), min(len(cout), len(mout)))
                ck.fail("correspondence", "diff:server", "server model and implementation differ at trace line %d: C=%s model=%s" % (i, cout[i:i + 1], mout[i:i + 1]),
                        {"script": lines, "c": cout[max(0, i - 3):i + 2], "model": mout[max(0, i - 3):i + 2]})
        for sig, text in oracle(ck, sid, lines, cout):
            ck.fail("input", "oracle:fsm:" + sig, "server: " + text, {"script": lines, "observed": cout[-10:]})
        ck.nontriv(seq)
        if len(ck.samples) < 4 and ck.evaluations % 301 == 1:
            ck.sample({"stimuli": list(seq), "trace": cout[:14]})
    ck.extra["disagreements"] = ndiff
    ck.extra["exhaustive"] = False


def replay(ck, path):
    r = json.loads(Path(path).read_text())["replay"]
    res = runner.run_batch(harness(), [("replay", r.get("script", []))])
    print("\n".join(res["replay"]["out"]))
    ck.evaluations = 1
