"""C05 -- received I-frames delivered exactly once, in order, for any TCP segmentation.
proof:   coq/Properties/C05.v (literal receiveMessage model = octet-wise reference for every chunking)
tie:     extracted model vs the real receiveMessage() of BOTH roles (white-box unit harness) call by call;
         full server traces (threadless loop on the simulated HAL) under every cut position
oracle:  standard framing + delivery rule written in Python from IEC 60870-5-104 5.1/5.3"""
import json
from pathlib import Path
from vf import core, apci, runner

LEVEL = "proof"


def harnesses():
    hs = core.build_harness("h_unit_s", ["h_unit104.c"], whitebox_of=("cs104_slave",), extra_flags=["-DROLE_SERVER"])
    hc = core.build_harness("h_unit_c", ["h_unit104.c"], whitebox_of=("cs104_connection",), extra_flags=["-DROLE_CLIENT"])
    hsrv = core.build_harness("h_cs104s", ["h_cs104s.c"], whitebox_of=("cs104_slave",))
    return hs, hc, hsrv


def model():
    return core.build_model("apci", core.COQ / "extract" / "ExtractApci.v", [], core.VERIF / "driver" / "d_apci.ml")


def prebuild():
    harnesses()
    model()


def gen_streams(rng, n):
    """list of (tag, bytes): mostly valid frame sequences plus a malformed stream"""
    out = []
    pl = lambda k: apci.asdu(200, 3, 1, bytes((i * 7 + k) & 255 for i in range(k)))
    base = [apci.STARTDT_ACT, apci.i_frame(0, 0, pl(3)), apci.i_frame(1, 0, pl(1)), apci.TESTFR_ACT, apci.i_frame(2, 0, pl(20))]
    out.append(("valid5", b"".join(base)))
    out.append(("len0", apci.STARTDT_ACT + bytes([0x68, 0x00, 0x68, 0x04, 0x07, 0, 0, 0])))
    out.append(("badstart", apci.STARTDT_ACT + bytes([0x67, 0x04, 0x07, 0, 0, 0])))
    out.append(("short-i", apci.STARTDT_ACT + bytes([0x68, 0x04, 0x00, 0, 0, 0])))
    out.append(("dup-ns", apci.STARTDT_ACT + apci.i_frame(0, 0, pl(2)) + apci.i_frame(0, 0, pl(2)) + apci.i_frame(1, 0, pl(2))))
    out.append(("skip-ns", apci.STARTDT_ACT + apci.i_frame(0, 0, pl(2)) + apci.i_frame(2, 0, pl(2))))
    out.append(("not-started", apci.i_frame(0, 0, pl(2))))
    # a wrong N(S) that differs from the expected one in a single bit of the 15-bit number (every bit, expected 0 and 1)
    for j in range(15):
        out.append(("ns-bit%d-at0" % j, apci.STARTDT_ACT + apci.i_frame(1 << j, 0, pl(2)) + apci.i_frame(0, 0, pl(3))))
        out.append(("ns-bit%d-at1" % j, apci.STARTDT_ACT + apci.i_frame(0, 0, pl(2)) + apci.i_frame(1 ^ (1 << j), 0, pl(3)) + apci.i_frame(1, 0, pl(1))))
    # the receive counter belongs to the TCP connection, not to a period of started data transfer
    out.append(("cycle-continue", apci.STARTDT_ACT + apci.i_frame(0, 0, pl(2)) + apci.i_frame(1, 0, pl(3)) + apci.STOPDT_ACT + apci.STARTDT_ACT + apci.i_frame(2, 0, pl(4)) + apci.i_frame(3, 0, pl(1))))
    out.append(("cycle-restart", apci.STARTDT_ACT + apci.i_frame(0, 0, pl(2)) + apci.i_frame(1, 0, pl(3)) + apci.STOPDT_ACT + apci.STARTDT_ACT + apci.i_frame(0, 0, pl(4))))
    out.append(("cycle-twice", apci.STARTDT_ACT + apci.i_frame(0, 0, pl(2)) + apci.STOPDT_ACT + apci.STARTDT_ACT + apci.i_frame(1, 0, pl(3)) + apci.STOPDT_ACT + apci.STARTDT_ACT + apci.i_frame(2, 0, pl(3))))
    out.append(("len1", bytes([0x68, 0x01, 0x07]) + apci.STARTDT_ACT))
    out.append(("maxlen", apci.STARTDT_ACT + apci.i_frame(0, 0, apci.asdu(200, 3, 1, bytes(243)))))
    out.append(("len255", apci.STARTDT_ACT + bytes([0x68, 0xff, 0x00, 0x00, 0x00, 0x00]) + apci.asdu(200, 3, 1, bytes(245))))
    for i in range(n):
        fr = [apci.STARTDT_ACT] if rng.chance(9, 10) else []
        ns = 0
        for _ in range(rng.range(1, 6)):
            r = rng.below(20)
            if r < 12:
                fr.append(apci.i_frame(ns, 0, pl(rng.range(1, 30))))
                ns += 1
            elif r < 14:
                fr.append(apci.TESTFR_ACT)
            elif r < 15:
                fr.append(apci.s_frame(0))
            elif r < 16:
                fr.append(apci.i_frame((ns + rng.choice([1, 2, 32767, 128, 256, 8192, 16384])) % 32768, 0, pl(2)))
            elif r < 17:
                fr.append(bytes([0x68, rng.choice([0, 1, 2, 3])]) + rng.bytes(rng.below(4)))
            elif r < 18:
                fr.append(rng.bytes(rng.range(1, 8)))
            elif r < 19:
                fr.append(apci.STOPDT_ACT)
                fr.append(apci.STARTDT_ACT)
            else:
                fr.append(apci.TESTFR_CON)
        out.append(("rand%d" % i, b"".join(fr)))
    return out


def chunkings(rng, data, exhaustive_limit, extra):
    n = len(data)
    cs = [[data]]
    cs.append([data[i:i + 1] for i in range(n)])           # one-octet dribble
    if n <= exhaustive_limit:
        for c in range(1, n):
            cs.append([data[:c], data[c:]])
    else:
        for c in sorted({rng.range(1, n - 1) for _ in range(exhaustive_limit)}):
            cs.append([data[:c], data[c:]])
    for _ in range(extra):
        cuts = sorted({rng.range(1, n - 1) for _ in range(rng.range(2, 6))}) if n > 2 else []
        prev, ch = 0, []
        for c in cuts + [n]:
            ch.append(data[prev:c])
            prev = c
        cs.append([x for x in ch if x])
    return cs


def ref_delivery(data):
    """reference semantics of the server for a peer byte stream when the server itself has nothing to
    send (so every N(R) must be 0): (delivered, closed).  Written from IEC 60870-5-104 5.3 / 5.4."""
    frames, err, rest = apci.split_stream(data)
    delivered, started, vr = [], False, 0
    for f in frames:
        a = apci.parse_apdu(f)
        if a["kind"] == "I":
            if len(f) < 7 or not started or a["ns"] != vr or a["nr"] != 0 or len(a["asdu"]) < 6:
                return delivered, True
            vr = (vr + 1) % 32768
            delivered.append(a["asdu"])
        elif a["kind"] == "S":
            if a["nr"] != 0 or not started:
                return delivered, True
        elif a["kind"] == "U":
            if a["u"] == 0x07:
                started = True
            elif a["u"] == 0x13:
                started = False
    return delivered, err


def standard_frames_only(data):
    fr, err, rest = apci.split_stream(data)
    return all(len(f) >= 6 and (f[2] & 1 == 0 or apci.wf_apdu(f)) for f in fr)


def run(ck):
    quick = ck.tier == "quick"
    rng = core.Rng(ck.seed)
    ck.trusted = [
        "Coq 8.16.1 kernel (no vm_compute needed except the Example); theorems Closed under the global context",
        "Apci/Reasm.v is a hand transcription of receiveMessage(); tied by running the extracted recv_call against both C copies call by call on every script of this run",
        "socket model = hal/socket/linux/socket_linux.c semantics of recv(MSG_DONTWAIT) (min(size,available), 0 on EAGAIN, -1 on close and on size 0)",
        "extraction: ExtrOcamlBasic only; driver/d_apci.ml",
        "message handling after reassembly (handleMessage) is covered at trace level by the oracle, the Coq delivery rule (Apci/Deliver.v) abstracts the N(R) check as a parameter",
    ]
    ck.rule = ("streams: fixed boundary streams + random frame sequences (mostly valid, ~25% with one malformed element); every stream is replayed under: one chunk, "
               "one-octet dribble, every 2-chunk cut (exhaustive up to the tier's length limit), random multi-cuts; non-trivial = distinct (stream, chunking, receive function: server / client) with at least one complete frame; "
               "evaluations = executions (every unit script runs on both receive functions and counts twice, every trace script once)")
    ck.coq("C05")
    hs, hc, hsrv = harnesses()
    try:
        mexe = model()
    except Exception as e:
        mexe = None
        ck.fail("correspondence", "model-build", "extracted model does not build: " + str(e)[:300], {"theorem": "extraction"})
    streams = gen_streams(rng, 40 if quick else 600)
    lim = 64 if quick else 300
    unit_scripts, meta = [], {}
    for tag, data in streams:
        for ci, ch in enumerate(chunkings(rng, data, lim, 3 if quick else 20)):
            sid = "%s.%d" % (tag, ci)
            lines = ["new k=12"] + ["chunk " + c.hex() for c in ch]
            if rng.chance(1, 8):
                lines.append("close")
            unit_scripts.append((sid, lines))
            meta[sid] = (tag, data, ch)
    ck.count("streams", len(streams))
    ck.count("unit_scripts", len(unit_scripts))
    rs = runner.run_batch(hs, unit_scripts)
    rc = runner.run_batch(hc, unit_scripts)
    rm = runner.run_batch(mexe, unit_scripts) if mexe else {}
    ndiff = 0
    nunit = 0
    for sid, lines in unit_scripts:
        tag, data, ch = meta[sid]
        nunit += 1
        for role, r in (("server", rs), ("client", rc)):
            o = r.get(sid, dict(out=[], crash=None))
            ck.evaluations += 1         # one evaluation = one (stream, chunking) executed by one of the two receive functions
            if o["crash"]:
                ck.fail("input", "crash:%s:%s" % (o["crash"]["kind"], o["crash"]["site"]),
                        "receiveMessage (%s) aborted: %s at %s" % (role, o["crash"]["kind"], o["crash"]["site"]), {"script": lines, "role": role, "stderr": o["crash"]["text"]})
                continue
            if mexe and sid in rm and rm[sid]["out"] != o["out"] and ndiff < 10:
                ndiff += 1
                first = next((i for i, (a, b) in enumerate(zip(o["out"], rm[sid]["out"])) if a != b), min(len(o["out"]), len(rm[sid]["out"])))
                ck.fail("correspondence", "diff:reasm:" + role, "model and %s receiveMessage differ at call %d of script %s" % (role, first, sid),
                        {"script": lines, "c": o["out"][first:first + 2], "model": rm[sid]["out"][first:first + 2]})
            # oracle: frames and failure vs the standard's framing of the whole stream
            calls = []
            for l in o["out"]:
                calls.append(l)
                if l.startswith("rm -1"):
                    break               # the connection is closed at the first error; later calls do not happen
            frames = [bytes.fromhex(l.split()[3]) for l in calls if l.startswith("rm ") and int(l.split()[1]) > 0]
            failed = any(l.startswith("rm -1") for l in calls)
            rf, rerr, rest = apci.split_stream(data)
            closing = lines[-1] == "close"
            exp_failed = rerr or closing
            if frames != rf or (failed != exp_failed):
                cls = "split_after_start" if any(len(c) and c[-1:] == b"\x68" for c in ch) else "other"
                ck.fail("input", "oracle:reasm:%s:%s" % (role, cls),
                        "%s receiveMessage: stream %s split as %s gave frames=%d failed=%s, the stream contains %d frames, failure expected=%s" % (
                            role, data.hex(), [len(c) for c in ch], len(frames), failed, len(rf), exp_failed),
                        {"script": lines, "role": role, "observed": o["out"][-3:]})
            if frames:
                ck.nontriv((tag, tuple(len(c) for c in ch), role))
        if nunit % 997 == 1:
            ck.sample({"stream": data.hex(), "chunks": [len(c) for c in ch], "server_calls": rs.get(sid, {}).get("out", [])[:4]})
    # ---- trace level: full server under segmentation
    tr_scripts, tmeta = [], {}
    for tag, data in [x for x in streams if standard_frames_only(x[1])][: (50 if quick else 240)]:
        nfr = len(apci.split_stream(data)[0]) + 3
        for ci, ch in enumerate(chunkings(rng, data, 24 if quick else 120, 2)):
            sid = "%s.t%d" % (tag, ci)
            lines = ["cfg handlers=64 w=20000 k=12", "start", "connect c0 10.1.1.1:1111", "tick"]
            if ci % 2 == 1:
                # other connections are open and silent (each its own redundancy group): what is delivered on c0 depends on c0's octets only
                lines = ["cfg mode=1 handlers=64 w=20000 k=12", "start", "connect c0 10.1.1.1:1111", "tick"]
                for j in range(1, rng.range(2, 3)):
                    lines += ["connect c%d 10.1.1.%d:%d" % (j, j + 1, 1111 + j), "tick"]
            evn = 0
            for c in ch:
                lines += ["rx c0 " + c.hex(), "tick %d" % (nfr if len(c) > 1 else 2)]
                if ci % 3 == 2 and evn < 6:
                    # the server has something of its own to send between two reads of the peer's stream (an event is enqueued and
                    # transmitted while an APDU of the peer may be half received): what is delivered does not depend on that either
                    evn += 1
                    lines += ["enq " + apci.asdu(30, 3, 1, bytes([evn, 0, 0, 0, 0])).hex(), "tick 2"]
            lines.append("tick %d" % nfr)
            tr_scripts.append((sid, lines))
            tmeta[sid] = (tag, data, ch)
    rt = runner.run_batch(hsrv, tr_scripts)
    ck.count("trace_scripts", len(tr_scripts))
    by_stream = {}
    for sid, lines in tr_scripts:
        tag, data, ch = tmeta[sid]
        ck.evaluations += 1
        o = rt.get(sid, dict(out=[], crash=None))
        if o["crash"]:
            ck.fail("input", "crash:%s:%s" % (o["crash"]["kind"], o["crash"]["site"]), "server aborted: %s at %s" % (o["crash"]["kind"], o["crash"]["site"]),
                    {"script": lines, "stderr": o["crash"]["text"]})
            continue
        deliv = [l.split("asdu=")[1] for l in o["out"] if l.startswith("cb asdu c0")]
        closed = any(l.startswith("ev c0 CLOSED") for l in o["out"])
        key = (tuple(deliv), closed)
        by_stream.setdefault(tag, {}).setdefault(key, []).append((sid, ch))
        exp_d, exp_c = ref_delivery(data)
        if deliv != [d.hex() for d in exp_d] or closed != exp_c:
            ck.fail("input", "oracle:delivery:server", "server delivered %d ASDUs closed=%s for stream %s split %s; reference: %d delivered closed=%s" % (
                len(deliv), closed, data.hex(), [len(c) for c in ch], len(exp_d), exp_c), {"script": lines, "observed": [l for l in o["out"] if l[:2] in ("cb", "ev")]})
        if deliv:
            ck.nontriv((tag, tuple(len(c) for c in ch), "trace"))
    # ---- slot reuse: a connection that the SERVER ends (t3 / t1) while a partial APDU is pending must not leak
    #      its reassembly state into the next connection accepted on the same slot
    ru_scripts, rmeta = [], {}
    for i, (tag, data) in enumerate([x for x in streams if standard_frames_only(x[1])][: (12 if quick else 100)]):
        for cut in sorted({1, 2, 3, 5, 6, 7, rng.range(1, 12)}):
            partial = (apci.STARTDT_ACT + apci.i_frame(0, 0, apci.asdu(200, 3, 1, bytes(9))))[: 6 + cut]
            sid = "%s.u%d" % (tag, cut)
            lines = ["cfg handlers=64 w=20000 k=12 t1=2 t2=1 t3=3", "start", "connect c0 10.1.1.1:1111", "tick",
                     "rx c0 " + partial.hex(), "tick 3", "adv 3001", "tick", "adv 2001", "tick 3",
                     "connect c1 10.1.1.1:1112", "tick", "rx c1 " + data.hex(), "tick %d" % (len(apci.split_stream(data)[0]) + 3)]
            ru_scripts.append((sid, lines))
            rmeta[sid] = data
    rr = runner.run_batch(hsrv, ru_scripts)
    ck.count("slot_reuse_scripts", len(ru_scripts))
    for sid, lines in ru_scripts:
        ck.evaluations += 1
        o = rr.get(sid, dict(out=[], crash=None))
        if o["crash"]:
            ck.fail("input", "crash:%s:%s" % (o["crash"]["kind"], o["crash"]["site"]), "server aborted: %s at %s" % (o["crash"]["kind"], o["crash"]["site"]),
                    {"script": lines, "stderr": o["crash"]["text"]})
            continue
        closed0 = any(l.startswith("ev c0 CLOSED") for l in o["out"])
        deliv = [l.split("asdu=")[1] for l in o["out"] if l.startswith("cb asdu c1")]
        closed1 = any(l.startswith("ev c1 CLOSED") for l in o["out"])
        exp_d, exp_c = ref_delivery(rmeta[sid])
        if closed0 and (deliv != [d.hex() for d in exp_d] or closed1 != exp_c):
            ck.fail("input", "oracle:delivery:slot-reuse", "after the server ended a connection with a partial APDU pending, the next connection on the slot delivered %d ASDUs closed=%s; its own stream contains %d deliverable ASDUs, closed=%s" % (
                len(deliv), closed1, len(exp_d), exp_c), {"script": lines, "observed": [l for l in o["out"] if l[:2] in ("cb", "ev")]})
        ck.nontriv((sid, "reuse"))
    # ---- client role at trace level: in-sequence I-frames whose N(S) runs across the 32767 -> 0 wrap (the receive counter is poked
    #      to just below it), arbitrary segmentation: every ASDU is delivered exactly once, in order, the connection stays open;
    #      a frame that repeats or skips a number ends it
    from props import c03
    hcli = c03.harnesses()[1]
    cl_scripts, cmeta = [], {}
    plc = lambda k: apci.asdu(200, 3, 1, bytes((i * 5 + k) & 255 for i in range(k)))
    for vr0 in (0, 32763, 32766, 32767, 16383):
        for bad in (None, "dup", "skip"):
            frames, exp = [], []
            n = 6
            for j in range(n):
                ns = (vr0 + j) % 32768
                if bad == "dup" and j == 4:
                    ns = (vr0 + j - 1) % 32768
                if bad == "skip" and j == 4:
                    ns = (vr0 + j + 1) % 32768
                frames.append(apci.i_frame(ns, 0, plc(j + 1)))
                if bad is None or j < 4:
                    exp.append(plc(j + 1).hex())
            data = b"".join(frames)
            for ci, ch in enumerate(chunkings(rng, data, 4 if quick else 20, 2)):
                sid = "cl.%d.%s.%d" % (vr0, bad, ci)
                lines = ["cfg k=12 w=8 t1=15 t2=10 t3=20", "connect", "poke vs=0 vr=%d" % vr0, "startdt", "step", "rx " + apci.STARTDT_CON.hex(), "step"]
                for c in ch:
                    lines += ["rx " + c.hex(), "step %d" % (n + 2 if len(c) > 1 else 2)]
                lines.append("step %d" % (n + 2))
                cl_scripts.append((sid, lines)); cmeta[sid] = (vr0, bad, exp, [len(c) for c in ch])
    rcl = runner.run_batch(hcli, cl_scripts)
    ck.count("client_trace_scripts", len(cl_scripts))
    for sid, lines in cl_scripts:
        vr0, bad, exp, chl = cmeta[sid]
        ck.evaluations += 1
        o = rcl.get(sid, dict(out=[], crash=None))
        if o["crash"]:
            ck.fail("input", "crash:%s:%s" % (o["crash"]["kind"], o["crash"]["site"]), "client aborted: %s at %s" % (o["crash"]["kind"], o["crash"]["site"]),
                    {"script": lines, "stderr": o["crash"]["text"], "harness": "h_cs104c"})
            continue
        body = o["out"][:max((i for i, l in enumerate(o["out"]) if l == "."), default=-1) + 1]      # what follows the last command marker is the tear-down
        deliv = [l.split()[2] for l in body if l.startswith("cb asdu")]
        closed = any(l.startswith(("ev CLOSED", "ev FAILED")) for l in body)
        if deliv != exp or closed != (bad is not None):
            ck.fail("input", "oracle:delivery:client", "client (receive counter %d at STARTDT, stream of 6 I-frames%s, split %s) delivered %d ASDUs closed=%s; reference: %d delivered closed=%s" % (
                vr0, "" if bad is None else " with a %s number at the fifth" % ("repeated" if bad == "dup" else "skipped"), chl[:12], len(deliv), closed, len(exp), bad is not None),
                {"script": lines, "observed": [l[:80] for l in o["out"] if l[:2] in ("cb", "ev")][-10:], "harness": "h_cs104c"})
        if deliv:
            ck.nontriv((sid, "client-trace"))
    # ---- client role: the application closes a connection while an APDU of the peer is only partly received and connects the same
    #      object again: the new connection starts with an empty reassembly buffer (nothing of the old fragment is delivered, the
    #      connection stays open, its own frames are delivered)
    rc_scripts, rcmeta = [], {}
    for cut in (1, 2, 3, 7, 12, 15):
        a1, a2 = plc(9), plc(10)
        f1 = apci.i_frame(0, 0, a1)
        pre = ["cfg k=12 w=8 t1=15 t2=10 t3=20", "connect", "startdt", "step", "rx " + apci.STARTDT_CON.hex(), "step", "rx " + f1[:min(cut, len(f1) - 1)].hex(), "step 2", "close", "step"]
        post = ["connect", "startdt", "step", "rx " + apci.STARTDT_CON.hex(), "step", "rx " + apci.i_frame(0, 0, a2).hex(), "step 3", "rx " + apci.i_frame(1, 0, a1).hex(), "step 3"]
        sid = "rc.%d" % cut
        rc_scripts.append((sid, pre + post)); rcmeta[sid] = (cut, len(pre), [a2.hex(), a1.hex()])
    rrc = runner.run_batch(hcli, rc_scripts)
    ck.count("client_reconnect_scripts", len(rc_scripts))
    for sid, lines in rc_scripts:
        cut, npre, exp = rcmeta[sid]
        ck.evaluations += 1
        o = rrc.get(sid, dict(out=[], crash=None))
        if o["crash"]:
            ck.fail("input", "crash:%s:%s" % (o["crash"]["kind"], o["crash"]["site"]), "client aborted: %s at %s" % (o["crash"]["kind"], o["crash"]["site"]), {"script": lines, "stderr": o["crash"]["text"], "harness": "h_cs104c"})
            continue
        marks = [i for i, l in enumerate(o["out"]) if l == "."]
        if len(marks) < len(lines):
            continue
        second = o["out"][marks[npre - 1] + 1: marks[len(lines) - 1] + 1]
        deliv = [l.split()[2] for l in second if l.startswith("cb asdu")]
        closed = any(l.startswith(("ev CLOSED", "ev FAILED")) for l in second)
        if deliv != exp or closed:
            ck.fail("input", "oracle:delivery:client-reconnect", "client: connection closed by the application with %d octets of an APDU received, the same object connected again: the new connection delivered %s closed=%s; its own stream holds 2 in-sequence I-frames" % (
                cut, deliv, closed), {"script": lines, "observed": [l[:80] for l in second if l[:2] in ("cb", "ev", "tx")][-10:], "harness": "h_cs104c"})
        ck.nontriv((sid, "client-reconnect"))
    # ---- server role at trace level with counters started anywhere: in-sequence I-frames of a peer that acknowledges what the server
    #      sent (N(R) = the server's send counter: 127, 128, 255, 16384, 32767, ...) are delivered, the connection stays open
    sv_scripts, smeta = [], {}
    for vs0 in (0, 126, 127, 128, 255, 256, 4096, 16383, 16384, 32766, 32767):
        for vr0 in (0, 32766):
            sid = "sv.%d.%d" % (vs0, vr0)
            lines = ["cfg handlers=64 k=12 w=8 t1=15 t2=10 t3=20 lowq=20 highq=10", "start", "connect c0 10.1.1.1:1111", "tick",
                     "poke c0 vs=%d vr=%d" % (vs0, vr0), "rx c0 " + apci.STARTDT_ACT.hex(), "tick"]
            exp = []
            for j in range(5):
                if j in (1, 3):
                    lines += ["enq " + apci.asdu(30, 3, 1, bytes([j, 0, 0, 0, 0])).hex(), "tick 2"]
                lines += ["rxi c0 " + plc(j + 1).hex(), "tick 2"]
                exp.append(plc(j + 1).hex())
            sv_scripts.append((sid, lines)); smeta[sid] = (vs0, vr0, exp)
    rsv = runner.run_batch(hsrv, sv_scripts)
    ck.count("server_counter_scripts", len(sv_scripts))
    for sid, lines in sv_scripts:
        vs0, vr0, exp = smeta[sid]
        ck.evaluations += 1
        o = rsv.get(sid, dict(out=[], crash=None))
        if o["crash"]:
            ck.fail("input", "crash:%s:%s" % (o["crash"]["kind"], o["crash"]["site"]), "server aborted: %s at %s" % (o["crash"]["kind"], o["crash"]["site"]), {"script": lines, "stderr": o["crash"]["text"]})
            continue
        deliv = [l.split("asdu=")[1] for l in o["out"] if l.startswith("cb asdu c0")]
        closed = any(l.startswith("ev c0 CLOSED") for l in o["out"])
        if deliv != exp or closed:
            ck.fail("input", "oracle:delivery:server-counters", "server (send counter %d, receive counter %d at STARTDT; 5 in-sequence I-frames of a peer acknowledging everything it received) delivered %d ASDUs closed=%s; reference: 5 delivered, open" % (
                vs0, vr0, len(deliv), closed), {"script": lines, "observed": [l[:80] for l in o["out"] if l[:2] in ("cb", "ev")][-10:]})
        if deliv:
            ck.nontriv((sid, "server-counters"))
    for tag, d in by_stream.items():
        if len(d) > 1:
            ks = list(d.items())
            ck.fail("input", "oracle:segmentation-dependent:server", "outcome of stream %s depends on segmentation: %s vs %s" % (
                tag, [len(c) for c in ks[0][1][0][1]], [len(c) for c in ks[1][1][0][1]]), {"script_ids": [ks[0][1][0][0], ks[1][1][0][0]]})
    ck.extra["disagreements"] = ndiff
    ck.extra["exhaustive"] = False
    ck.notes.append("client role: receiveMessage level on every cut position, plus trace-level streams across the receive-counter wrap on the real client (gated thread)")


def replay(ck, path):
    r = json.loads(Path(path).read_text())["replay"]
    hs, hc, hsrv = harnesses()
    lines = r.get("script", [])
    exe = hsrv if any(l.startswith("cfg") for l in lines) else (hc if r.get("role") == "client" else hs)
    res = runner.run_batch(exe, [("replay", lines)])
    print("\n".join(res["replay"]["out"]))
    if res["replay"]["crash"]:
        print(res["replay"]["crash"]["text"])
    ck.evaluations = 1
