"""C13 -- event ordering and response priority on a CS104 server connection.
proof:  coq/Properties/C13.v (scheduler of Cs104/Server.v: responses before events, FIFO in both classes)
tie:    extracted HighPriorityASDUQueue ring model vs the real functions operation by operation;
        extracted server model vs real server under window-full congestion
oracle: two FIFOs in Python; trace oracle: replies in issue order, ahead of waiting events, none lost unless
        the send call reported failure / STARTDT / connection end"""
import json
from pathlib import Path
from vf import core, apci, runner
from props import c06, c07

LEVEL = "other"


def prebuild():
    c06.prebuild()


def run_unit(ck, h, m, rng, quick):
    scripts = []
    for i in range(80 if quick else 2000):
        N = rng.choice([1, 1, 2, 2, 3, 5, 10, 50])
        mode = rng.below(3)
        sizes = [rng.choice([8, 100, 249])] if mode == 0 else ([8, 249] if mode == 1 else [8, 9, 20, 100, 200, 248, 249])
        lines = ["hp new %d" % N]
        for _ in range(rng.range(5, 120)):
            r = rng.below(100)
            if r < 55:
                lines.append("hp enq %d" % rng.choice(sizes))
            elif r < 90:
                lines.append("hp next")
            elif r < 97:
                lines.append("hp full")
            else:
                lines.append("hp reset")
        scripts.append(("h%d" % i, N, sizes, lines))
    rc = runner.run_batch(h, [(s, l) for s, _, _, l in scripts])
    rm = runner.run_batch(m, [(s, l) for s, _, _, l in scripts]) if m else {}
    ndiff = 0
    for sid, N, sizes, lines in scripts:
        ck.evaluations += 1
        o = rc.get(sid, dict(out=[], crash=None))
        if o["crash"]:
            ck.fail("input", "crash:%s:%s" % (o["crash"]["kind"], o["crash"]["site"]), "HighPriorityASDUQueue aborted: %s at %s (N=%d)" % (o["crash"]["kind"], o["crash"]["site"], N),
                    {"script": lines, "stderr": o["crash"]["text"]})
            continue
        out = o["out"]
        if m and sid in rm and rm[sid]["out"] != out and ndiff < 10:
            ndiff += 1
            mo = rm[sid]["out"]
            i = next((j for j, (a, b) in enumerate(zip(out, mo)) if a != b), min(len(out), len(mo)))
            ck.fail("correspondence", "diff:hpqueue", "HpQueue model and implementation differ at output line %d: C=%s model=%s" % (i, out[i:i + 1], mo[i:i + 1]),
                    {"script": lines, "c": out[max(0, i - 2):i + 2], "model": mo[max(0, i - 2):i + 2]})
        # FIFO oracle
        fifo, pid, oi, bad = [], 0, 0, None
        for li, l in enumerate(lines):
            t = l.split()
            outs = []
            while oi < len(out):
                outs.append(out[oi])
                oi += 1
                if out[oi - 1].startswith("hp n="):
                    break
            if t[1] == "new" or t[1] == "reset":
                fifo = []
                if t[1] == "new":
                    pid = 0
            elif t[1] == "enq":
                ok = outs and outs[0] == "hpenq 1"
                used = sum(2 + s for s, _ in fifo)
                if ok:
                    fifo.append((int(t[2]), pid))
                elif used + 2 + int(t[2]) <= N * 258 - 2 * 252 and len(fifo) == 0:
                    bad = "enqueue of %d octets refused although the queue is empty" % int(t[2])
                pid += 1
            elif t[1] == "next":
                got = outs[0] if outs else ""
                if fifo:
                    s, p = fifo.pop(0)
                    if got != "hpnext size=%d pid=%d" % (s, p):
                        bad = "getNext returned `%s`, FIFO head is size=%d pid=%d" % (got, s, p)
                elif got != "hpnext none":
                    bad = "getNext returned `%s` from an empty queue" % got
            if not bad and outs and outs[-1].startswith("hp n="):
                n = int(outs[-1].split()[1].split("=")[1])
                if n != len(fifo):
                    bad = "entry counter %d, FIFO holds %d" % (n, len(fifo))
            if bad:
                ck.fail("input", "oracle:hpqueue", "HighPriorityASDUQueue(N=%d, sizes %s): %s" % (N, sizes, bad), {"script": lines[:li + 1], "observed": outs})
                break
        ck.nontriv((N, tuple(sizes), tuple(lines)))
        if len(ck.samples) < 3:
            ck.sample({"N": N, "script": lines[:8], "out": out[:8]})
    ck.extra["unit_disagreements"] = ndiff


def run_sched(ck, h, m, rng, quick, sig="sched-ring"):
    """the scheduler functions on a real connection with the real rings (sendASDUInternal / sendWaitingASDUs / the release loop of
    checkSequenceNumber / enqueue / re-arming at the end of a connection called directly, white box) against their transcription with the
    literal rings (Cs104/SchedRing.v, Cs104/SchedMq.v), beyond the capacity of both rings; oracle: a refused response changes nothing,
    accepted responses go out in issue order, none is lost; events go out in enqueue order, an acknowledged event is never sent again"""
    scripts = []
    for i in range(160 if quick else 4000):
        k = rng.choice([1, 2, 3, 5, 12])
        n = rng.choice([1, 1, 2, 2, 3, 5])
        z = rng.choice([1, 1, 2, 3, 10])
        sizes = [rng.choice([8, 100, 249])] if i % 3 == 0 else [8, 60, 100, 200, 249]
        lines = ["sch new %d %d %d" % (k, n, z)]
        fail_at = rng.range(10, 80) if i % 10 == 9 else -1
        dead = False
        wev = rng.choice([0, 20, 45])           # share of events
        for j in range(rng.range(8, 90)):
            r = rng.below(100)
            if j == fail_at:
                lines.append("sch wmode 1")      # every write fails from here on: the connection is lost at the next transmission
                dead = True
            elif dead:
                # no acknowledgements on a dead connection (the k-buffer entry of the failed write has no sequence number of its own)
                lines.append("sch resp %d" % rng.choice(sizes) if r < 60 else "sch drain")
            elif r < wev:
                lines.append("sch ev %d" % rng.choice(sizes))
            elif r < 55:
                lines.append("sch resp %d" % rng.choice(sizes))
            elif r < 75:
                lines.append("sch ack %d" % rng.range(0, k))
            elif r < 95:
                lines.append("sch drain")
            elif r < 97 and wev:
                lines.append("sch rearm")        # the connection ends, the next one starts with an empty k-buffer
            elif r < 99:
                lines += ["sch ack %d" % k, "sch drain"]
            else:
                lines.append("sch stop")
        if not dead:
            for _ in range((n * 26) // k + z * 23 + 3):      # one event per scheduling round
                lines += ["sch ack %d" % k, "sch drain"]
        scripts.append(("s%d" % i, k, n, z, lines))
    rc = runner.run_batch(h, [(s, l) for s, _, _, _, l in scripts])
    rm = runner.run_batch(m, [(s, l) for s, _, _, _, l in scripts]) if m else {}
    ndiff = 0
    refused = 0
    nev = 0
    for sid, k, n, z, lines in scripts:
        ck.evaluations += 1
        o = rc.get(sid, dict(out=[], crash=None))
        if o["crash"]:
            ck.fail("input", "crash:%s:%s" % (o["crash"]["kind"], o["crash"]["site"]), "scheduler unit run aborted: %s at %s (k=%d N=%d)" % (o["crash"]["kind"], o["crash"]["site"], k, n),
                    {"script": lines, "stderr": o["crash"]["text"]})
            continue
        out = o["out"]
        if m and sid in rm and rm[sid]["out"] != out and ndiff < 10:
            ndiff += 1
            mo = rm[sid]["out"]
            i = next((j for j, (a, b) in enumerate(zip(out, mo)) if a != b), min(len(out), len(mo)))
            ck.fail("correspondence", "diff:" + sig, "scheduler-with-rings model (Cs104/SchedRing.v, SchedMq.v) and implementation differ at output line %d: C=%s model=%s" % (i, out[i:i + 1], mo[i:i + 1]),
                    {"script": lines, "c": out[max(0, i - 3):i + 2], "model": mo[max(0, i - 3):i + 2], "theorem": "C13_sched_ring_* / C06_sched_mq_*"})
        # oracle on the C output
        oi, pid, accepted, written, bad, alive, prev = 0, 0, [], [], None, True, None
        events, kb, acked, phase = set(), [], set(), []
        for li, l in enumerate(lines):
            outs = []
            while oi < len(out):
                outs.append(out[oi]); oi += 1
                if out[oi - 1].startswith("mq n="):
                    break
            sl = [x for x in outs if x.startswith("sch tx=")]
            if not sl or not outs[-1].startswith("mq n="):
                bad = "no state lines for `%s`" % l
            else:
                w = sl[-1].split()
                tx = [int(x) for x in w[1][3:].split(",") if x not in ("", "u")]
                st = dict(x.split("=") for x in w[2:4] + w[5:])
                st["mqn"] = outs[-1].split()[1][2:]
                t = l.split()
                if t[1] == "new":
                    pid, accepted, written, alive = 0, [], [], True
                    events, kb, acked, phase = set(), [], set(), []
                elif t[1] == "resp":
                    ok = outs[0] == "schresp 1"
                    if ok:
                        accepted.append(pid)
                    else:
                        refused += 1
                        if tx or (prev and (prev["n"], prev["k"], prev["mqn"]) != (st["n"], st["k"], st["mqn"])):
                            bad = "a response the send call refused changed the connection (written %s, ring %s -> %s entries)" % (tx, prev and prev["n"], st["n"])
                    pid += 1
                elif t[1] == "ev":
                    events.add(pid); nev += 1
                    pid += 1
                elif t[1] == "ack":
                    x = min(int(t[2]), len(kb))
                    acked |= {p for p in kb[:x] if p in events}
                    kb = kb[x:]
                elif t[1] == "rearm":
                    kb, phase = [], []
                elif t[1] in ("wmode", "stop"):
                    alive = False
                kb += tx
                for p in tx:
                    if p in events:
                        if p in acked and not bad:
                            bad = "event %d was acknowledged and is transmitted again" % p
                        if phase and p <= phase[-1] and not bad:
                            bad = "events transmitted out of enqueue order on one connection: %d after %d" % (p, phase[-1])
                        phase.append(p)
                    else:
                        written.append(p)
                if not bad and int(st["k"]) > k:
                    bad = "%s I-format APDUs sent and not acknowledged, k = %d" % (st["k"], k)
                if not bad and written != accepted[:len(written)]:
                    bad = "responses written %s, accepted in the order %s" % (written[-4:], accepted[max(0, len(written) - 4):len(written) + 1])
                if not bad and alive and int(st["n"]) + len(written) != len(accepted):
                    bad = "%d responses accepted, %d written and %d parked: one was dropped or duplicated" % (len(accepted), len(written), int(st["n"]))
                prev = st
            if bad:
                ck.fail("input", "oracle:" + sig, "scheduler on the real rings (k=%d, N=%d, event ring %d): %s" % (k, n, z, bad), {"script": lines[:li + 1], "observed": outs})
                break
        if not bad and alive and len(written) != len(accepted):
            ck.fail("input", "oracle:" + sig, "scheduler on the real rings (k=%d, N=%d): %d accepted responses never written although the window was acknowledged repeatedly" % (
                k, n, len(accepted) - len(written)), {"script": lines, "observed": out[-4:]})
        elif not bad and alive and prev and prev["mqn"] != "0":
            ck.fail("input", "oracle:" + sig, "scheduler on the real rings (k=%d, event ring %d): %s event entries still buffered although everything transmitted was acknowledged repeatedly" % (
                k, z, prev["mqn"]), {"script": lines, "observed": out[-4:]})
        ck.nontriv(("sched", k, n, z, tuple(lines)))
    ck.extra[sig.replace("-", "_") + "_disagreements"] = ndiff
    ck.count(sig.replace("-", "_") + "_scripts", len(scripts))
    ck.count(sig.replace("-", "_") + "_refusals", refused)
    ck.count(sig.replace("-", "_") + "_events", nev)


def run_trace(ck, rng, quick):
    h = c07.harness()
    try:
        m = c07.model()
    except Exception:
        m = None
    scripts = []
    for i in range(80 if quick else 2000):
        k = rng.choice([1, 2, 3, 5, 12])
        burst = rng.choice([1, 2, k, k + 1, k + 5, 20, 40, 60])
        highq = rng.choice([1, 2, 5, 50])
        bsize = rng.choice([4, 20, 120, 243])
        exact = (burst + 2) * (2 + bsize + 6) < (highq - 1) * 258      # comfortably below capacity: the abstract FIFO of the model is exact
        lines = ["cfg k=%d w=8 handlers=65 burst=%d bsize=%d term=%d lowq=200 highq=%d" % (k, burst, bsize, rng.below(2), highq),
                 "start", "connect c0 10.0.0.1:1000", "tick", "rx c0 " + apci.STARTDT_ACT.hex(), "tick"]
        e = 0
        for _ in range(rng.range(2, 10)):
            r = rng.below(10)
            if r < 3:
                for _ in range(rng.range(1, 4)):
                    e += 1
                    lines.append("enq " + c07.ev_asdu(e).hex())
                lines.append("tick")
            elif r < 6:
                lines += ["rxi c0 " + c07.IC.hex(), "tick"]
            elif r < 9:
                lines += ["rxs c0 %d" % -rng.below(3), "tick %d" % rng.range(1, 3)]
            elif i % 4 == 3 and rng.chance(1, 2):
                # the socket takes nothing for one round (write returns 0): whatever was to be written then is either written later or
                # the connection ends -- never dropped in silence
                lines += ["wmode c0 2", rng.choice(["rxs c0", "rxi c0 " + c07.IC.hex(), "tick"]), "tick", "wmode c0 0", "tick"]
            else:
                lines += ["tick 2"]
        if i % 5 == 4:
            # events only; the master repeats STARTDT act on the started connection while events it received are unacknowledged: nothing
            # is transmitted a second time on the same connection
            lines = lines[:6]
            e = 0
            for _ in range(rng.range(2, 2 + k)):
                e += 1
                lines.append("enq " + c07.ev_asdu(e).hex())
            lines += ["tick %d" % (k + 1), "rx c0 " + apci.STARTDT_ACT.hex(), "tick %d" % (k + 1)]
            e += 1
            lines += ["enq " + c07.ev_asdu(e).hex(), "tick 2"]
        ncmd = sum(1 for x in lines if x.startswith("rxi c0 "))
        for _ in range((ncmd * (burst + 2) + e) // max(1, k) + 4):
            lines += ["rxs c0", "tick %d" % (k + 1)]
        exact = ncmd * (burst + 2) * (2 + 6 + max(2, bsize)) < (highq - 1) * 258   # never near the high-priority capacity: abstract FIFO of the model is exact
        scripts.append(("p%d" % i, lines, exact))
    rc = runner.run_batch(h, [(s, l) for s, l, _ in scripts], timeout=3600)
    rm = runner.run_batch(m, [(s, l) for s, l, _ in scripts], timeout=3600) if m else {}
    ndiff = 0
    for sid, lines, exact in scripts:
        ck.evaluations += 1
        o = rc.get(sid, dict(out=[], crash=None))
        if o["crash"]:
            ck.fail("input", "crash:%s:%s" % (o["crash"]["kind"], o["crash"]["site"]), "server aborted: %s at %s" % (o["crash"]["kind"], o["crash"]["site"]),
                    {"script": lines, "stderr": o["crash"]["text"]})
            continue
        cout = [l for l in o["out"] if not l.startswith(("sem ", "st ", "q "))]
        if exact and m and sid in rm and rm[sid]["out"] != cout and ndiff < 10:
            ndiff += 1
            mo = rm[sid]["out"]
            i = next((j for j, (a, b) in enumerate(zip(cout, mo)) if a != b), min(len(cout), len(mo)))
            ck.fail("correspondence", "diff:server-sched", "server model and implementation differ at trace line %d: C=%s model=%s" % (i, cout[i:i + 1], mo[i:i + 1]),
                    {"script": lines, "c": cout[max(0, i - 3):i + 2], "model": mo[max(0, i - 3):i + 2]})
        # oracle on the C trace
        issued = []      # ("reply", id) / ("con",) / ("term",) accepted by the send call, in issue order
        for l in cout:
            if l.startswith("send c0 ") and l.endswith("ret=1"):
                t = l.split()
                issued.append(t[2])
        sent = []
        ev_ids = []
        bad = None
        waiting_events = 0
        order = []       # transmission order: ("resp", tag) / ("ev", id)
        closed = any(l.startswith("ev c0 CLOSED") for l in cout)
        for l in cout:
            if l.startswith("tx c0 "):
                for f in apci.split_stream(bytes.fromhex(l.split()[2]))[0]:
                    a = apci.parse_apdu(f)
                    if a["kind"] != "I":
                        continue
                    typ, cot = a["asdu"][0], a["asdu"][2] & 63
                    if typ == 30:
                        order.append(("ev", a["asdu"][6] | a["asdu"][7] << 8))
                    elif typ == 200:
                        order.append(("resp", "reply=%d" % (a["asdu"][6] | a["asdu"][7] << 8)))
                    elif typ == 100 and cot == 7:
                        order.append(("resp", "actcon"))
                    elif typ == 100 and cot == 10:
                        order.append(("resp", "actterm"))
        resp_tx = [t for kd, t in order if kd == "resp"]
        evs = [t for kd, t in order if kd == "ev"]
        if evs != sorted(evs):
            bad = "events transmitted out of order: %s" % evs
        elif resp_tx != issued[:len(resp_tx)]:
            j = next((x for x, (a, b) in enumerate(zip(resp_tx, issued)) if a != b), min(len(resp_tx), len(issued)))
            bad = "responses transmitted %s..., issued (accepted) %s...: reordered, duplicated or dropped" % (resp_tx[max(0, j - 1):j + 3], issued[max(0, j - 1):j + 3])
        elif not closed and len(resp_tx) < len(issued):
            bad = "%d of %d accepted responses were never transmitted although the window was acknowledged repeatedly (first missing: %s)" % (
                len(issued) - len(resp_tx), len(issued), issued[len(resp_tx)])
        if not bad:
            # replies go ahead of all events still waiting: a reply issued before the previous transmission report (i.e. certainly in an
            # earlier command; the harness reports what was written at the end of each command, in write order) and not yet written must
            # not be preceded by an event in the next report
            pend_prev, pend_new = [], []        # issued before / after the last tx line, not yet transmitted
            for l in cout:
                if l.startswith("send c0 ") and l.endswith("ret=1"):
                    pend_new.append(l.split()[2])
                elif l.startswith("ev c0 "):
                    pend_prev, pend_new = [], []
                elif l.startswith("tx c0 "):
                    for f in apci.split_stream(bytes.fromhex(l.split()[2]))[0]:
                        a = apci.parse_apdu(f)
                        if a["kind"] != "I":
                            continue
                        typ, cot = a["asdu"][0], a["asdu"][2] & 63
                        if typ == 30:
                            if pend_prev and not bad:
                                bad = "event %d transmitted while %d replies issued earlier are still waiting (next: %s)" % (a["asdu"][6] | a["asdu"][7] << 8, len(pend_prev), pend_prev[0])
                        else:
                            tag = "reply=%d" % (a["asdu"][6] | a["asdu"][7] << 8) if typ == 200 else ("actcon" if cot == 7 else "actterm")
                            if pend_prev and pend_prev[0] == tag:
                                pend_prev.pop(0)
                            elif pend_new and pend_new[0] == tag and not pend_prev:
                                pend_new.pop(0)
                    pend_prev, pend_new = pend_prev + pend_new, []
        if bad:
            ck.fail("input", "oracle:order:server", "server scheduling: " + bad, {"script": lines, "observed": cout[-8:]})
        ck.nontriv(("trace", sid))
    ck.extra["trace_disagreements"] = ndiff
    ck.count("trace_scripts", len(scripts))


def run_resume(ck, rng, quick):
    """after a reconnection transmission resumes with the oldest unacknowledged event -- whatever way the previous connection
    ended (peer close, STOPDT act first, application close, write failure)"""
    h = c07.harness()
    scripts, meta = [], {}
    for i in range(40 if quick else 600):
        k = rng.choice([1, 2, 3, 12])
        a = rng.range(0, 4)
        b = a + rng.range(1, 6)
        how = rng.choice(["peerclose", "stopdt+peerclose", "appclose", "stopdt+appclose", "writefail"])
        lowq, esz = 100, 0
        if i % 3 == 2:
            # a small event ring that has wrapped by the time the connection is lost (acknowledged events moved its head up), with the
            # unacknowledged events lying around the wrap; never so many that anything is displaced
            lowq, esz = rng.choice([2, 3]), rng.choice([0, 20, 40])
            a = rng.range(8, 40)
            b = a + rng.range(2, 4)
            k = max(k, 3)
        lines = ["cfg k=%d w=8 handlers=64 lowq=%d highq=10" % (k, lowq), "start", "connect c0 10.0.0.1:1000", "tick", "rx c0 " + apci.STARTDT_ACT.hex(), "tick"]
        wrapped = (i % 5 == 1 and lowq == 100 and b - a >= 2)
        if wrapped:
            # the unacknowledged events straddle the 32767 -> 0 wrap of N(S) and the client repeats its last acknowledgement before
            # the connection is lost
            k = 12
            lines[0] = "cfg k=12 w=8 handlers=64 lowq=100 highq=10"
            lines.insert(5, "poke c0 vs=%d vr=0" % (32768 - a - rng.range(1, b - a - 1 if b - a > 2 else 1)))
        if lowq < 100:
            # one event at a time, each acknowledgement leaves the newest one unacknowledged: the ring never runs empty (it would start
            # at offset 0 again), its head moves up and the entries wrap; event `a` stays unacknowledged
            for e in range(1, a + 1):
                lines += ["enq " + c07.ev_asdu(e, esz).hex(), "tick 2", "rxs c0 -1", "tick"]
            a -= 1
        else:
            for e in range(1, a + 1):
                lines.append("enq " + c07.ev_asdu(e).hex())
            for _ in range(a // k + 2):
                lines += ["tick %d" % (k + 1), "rxs c0"]
        lines.append("tick 2")
        for e in range(a + (2 if lowq < 100 else 1), b + 1):
            lines.append("enq " + c07.ev_asdu(e, esz).hex())
        lines.append("tick %d" % (b - a + 1))
        if wrapped:
            lines += ["rxs c0 %d" % -(b - a), "tick"]
        if how.startswith("stopdt"):
            lines += ["rx c0 " + apci.STOPDT_ACT.hex(), "tick"]
        if how.endswith("peerclose"):
            lines += ["peerclose c0", "tick 2"]
        elif how.endswith("appclose"):
            lines += ["appclose c0", "tick 2"]
        else:
            lines += ["wmode c0 1", "enq " + c07.ev_asdu(b + 1, esz).hex(), "tick 3", "peerclose c0", "tick 2"]
            b += 1
        lines += ["connect c1 10.0.0.1:1001", "tick", "rx c1 " + apci.STARTDT_ACT.hex(), "tick %d" % (k + 1)]
        for _ in range((b - a) // k + 2):
            lines += ["rxs c1", "tick %d" % (k + 1)]
        sid = "r%d" % i
        scripts.append((sid, lines)); meta[sid] = (k, a, b, how)
    rc = runner.run_batch(h, scripts, timeout=3600)
    for sid, lines in scripts:
        k, a, b, how = meta[sid]
        ck.evaluations += 1
        o = rc.get(sid, dict(out=[], crash=None))
        if o["crash"]:
            ck.fail("input", "crash:%s:%s" % (o["crash"]["kind"], o["crash"]["site"]), "server aborted: %s at %s" % (o["crash"]["kind"], o["crash"]["site"]), {"script": lines, "stderr": o["crash"]["text"]})
            continue
        per = {"c0": [], "c1": []}
        for l in o["out"]:
            w = l.split()
            if w[0] == "tx" and w[1] in per:
                for f in apci.split_stream(bytes.fromhex(w[2]))[0]:
                    x = apci.parse_apdu(f)
                    if x["kind"] == "I" and x["asdu"][0] == 30:
                        per[w[1]].append(x["asdu"][6] | x["asdu"][7] << 8)
        acked0 = [e for e in per["c0"] if e <= a]
        bad = None
        if acked0 != list(range(1, a + 1)):
            continue     # the preparation did not go as planned (e.g. k window): not evaluated
        want = list(range(a + 1, b + 1))
        if per["c1"][:1] != want[:1]:
            bad = "after the reconnection (previous connection ended by %s) the first event transmitted is %s, the oldest unacknowledged one is %d" % (how, per["c1"][:1], a + 1)
        elif per["c1"] != want:
            bad = "after the reconnection (previous connection ended by %s) events %s were transmitted, unacknowledged were %s" % (how, per["c1"], want)
        if bad:
            ck.fail("input", "oracle:resume:server", "server scheduling: " + bad, {"script": lines, "observed": [l[:90] for l in o["out"] if l.startswith(("tx c1", "ev "))][:8]})
        ck.nontriv(("resume", k, a, b, how))
    ck.count("resume_scripts", len(scripts))


def run(ck):
    quick = ck.tier == "quick"
    rng = core.Rng(ck.seed)
    ck.trusted = [
        "Coq 8.16.1 kernel; theorems Closed under the global context",
        "Cs104/MsgQueue.v (hp_*): hand transcription of HighPriorityASDUQueue_enqueue / getNextASDU / isFull with byte offsets, validated operation by operation each run",
        "Cs104/Server.v send_waiting/send_hp: transcription of sendWaitingASDUs; validated by trace equality on scripts that stay below the high-priority capacity",
        "scripted application issuing bursts from inside the interrogation handler",
        "Cs104/SchedRing.v send_asdu_internal_r / send_hp_r / send_waiting_r: second transcription of sendASDUInternal / sendWaitingASDUs with the literal ring; validated against the real static functions (white-box `sch` scripts) each run; `sch ack` = release of the oldest k-buffer entries is harness glue",
    ]
    ck.rule = ("unit: random enqueue (equal / two / mixed sizes 8..249) / getNext / isFull / reset sequences for ring sizes N in {1,2,3,5,10,50}; "
               "sched: sendASDUInternal / sendWaitingASDUs called directly with k in {1,2,3,5,12}, ring sizes {1,2,3,5}, responses of 8..249 octets beyond the ring capacity, partial acknowledgements, write failure; "
               "trace: interrogation commands answered by ACT_CON + bursts of 1..60 replies (+ACT_TERM) with k in {1,2,3,5,12}, high-priority queue sizes {1,2,5,50}, events interleaved, partial acknowledgements; non-trivial = distinct script")
    ck.explanation = "PARTIAL: scheduler order theorems and the refinement of the byte-offset HighPriorityASDUQueue ring to a FIFO (every ring size, every history, no stale read, entries inside the arena) are proved in Coq; the byte-offset ring of the EVENT queue (MessageQueue) behind the clause about event order / resumption is validated by differential execution and a FIFO oracle on every run (C06), its ring is proved separately (C06: no stale read, only the oldest entries displaced, oldest waiting entry handed out); the scheduler composed with the high-priority ring is proved (Cs104/SchedRing.v: the ring-backed scheduler functions are the list versions whenever the ring accepts, a refusal changes nothing) and run against the real static functions; what remains unproved is the composition of the scheduler with the EVENT ring into one trace theorem."
    ck.coq("C13")
    h = c06.harness()
    try:
        m = c06.model()
    except Exception as e:
        m = None
        ck.fail("correspondence", "model-build", "extracted model does not build: " + str(e)[:300], {"theorem": "extraction"})
    run_unit(ck, h, m, rng, quick)
    run_sched(ck, h, m, rng, quick)
    run_trace(ck, rng, quick)
    run_resume(ck, rng, quick)
    c06.run_resume_replies(ck, rng, quick, sig="oracle:resume-replies:server")
    ck.extra["exhaustive"] = False


def replay(ck, path):
    r = json.loads(Path(path).read_text())["replay"]
    lines = r.get("script", [])
    exe = c07.harness() if any(l.startswith("cfg") for l in lines) else c06.harness()
    res = runner.run_batch(exe, [("replay", lines)])
    print("\n".join(res["replay"]["out"]))
    ck.evaluations = 1
