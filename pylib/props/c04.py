"""C04 -- k-window and acknowledgement validation.
proof:  coq/Properties/C04.v: checkSequenceNumber (literal transcription) == modular window rule, for all k,
        occupancies, alignments and N(R); push/is_full; bound along every send/ack history
tie:    extracted check_seq vs both C copies on generated ring states (white-box), native exhaustive sweeps
oracle: modular window rule written from the property text (in the harness for the native sweep, in Python
        for the trace level)"""
import json
from pathlib import Path
from vf import core, apci, runner
from props import c05

LEVEL = "proof"


def prebuild():
    c05.prebuild()


def ring_case(rng, k):
    c = rng.choice([0, 1, k, max(0, k - 1), rng.range(0, k)])
    c = min(c, k)
    rot = rng.below(k)
    vs = rng.choice([c, 0, 1, 32767, 32766, (c // 2) % 32768, rng.below(32768), (32768 + c // 2 - 1) % 32768])
    slots = [rng.below(32768) for _ in range(k)]
    for j in range(c):
        slots[(rot + j) % k] = (vs - c + 1 + j) % 32768
    old, new = (rot, (rot + c - 1) % k) if c else (-1, -1)
    base = (vs - c) % 32768
    n = rng.choice([base, (base + 1) % 32768, (base + c) % 32768, (base + c + 1) % 32768, (base - 1) % 32768, rng.below(32768), vs, 0, 32767])
    return c, rot, vs, slots, old, new, n


def run(ck):
    quick = ck.tier == "quick"
    rng = core.Rng(ck.seed)
    ck.trusted = [
        "Coq 8.16.1 kernel; theorems Closed under the global context (Print Assumptions per theorem in this file)",
        "Apci/KBuf.v is a hand transcription of checkSequenceNumber()/isSentBufferFull()/the k-buffer update of both cs104_slave.c and cs104_connection.c; validated by running the extracted functions against both C copies on generated ring states every run",
        "the server copy additionally confirms queue entries while walking (exercised at trace level by C06), it does not change the ring logic",
        "extraction: ExtrOcamlBasic only; driver/d_apci.ml",
    ]
    ck.rule = ("unit: ring states built as the library builds them (c outstanding frames ending at vs, any rotation) with N(R) drawn at the window edges "
               "(base-1, base, base+1, base+c, base+c+1), plus random; native sweep: for each k every rotation x occupancy 0..k x 10 alignments (incl. the wrap) x all 32768 N(R) "
               "(stride > 1 only where stated); trace: bursts larger than k with partial acknowledgements; non-trivial = distinct (k, rot, c, vs, n)")
    ck.coq("C04")
    hs, hc, hsrv = c05.harnesses()
    try:
        mexe = c05.model()
    except Exception as e:
        mexe = None
        ck.fail("correspondence", "model-build", "extracted model does not build: " + str(e)[:300], {"theorem": "extraction"})
    # ---- unit correspondence + oracle
    scripts, meta = [], {}
    ks = [1, 2, 3, 4, 8, 12, 32] if quick else list(range(1, 33)) + [100, 1000]
    per = 120 if quick else 400
    for k in ks:
        lines = ["new k=%d" % k]
        cases = []
        for _ in range(per):
            c, rot, vs, slots, old, new, n = ring_case(rng, k)
            lines.append("kset vs=%d old=%d new=%d slots=%s" % (vs, old, new, ",".join(map(str, slots))))
            lines.append("kfull")
            lines.append("kchk %d" % n)
            cases.append((c, rot, vs, n, old, new))
        sid = "k%d" % k
        scripts.append((sid, lines))
        meta[sid] = (k, cases, lines)
    rs = runner.run_batch(hs, scripts)
    rc = runner.run_batch(hc, scripts)
    rm = runner.run_batch(mexe, scripts) if mexe else {}
    ndiff = 0
    for sid, lines in scripts:
        k, cases, _ = meta[sid]
        for role, r in (("server", rs), ("client", rc)):
            o = r.get(sid, dict(out=[], crash=None))
            if o["crash"]:
                ck.fail("input", "crash:%s:%s" % (o["crash"]["kind"], o["crash"]["site"]), "checkSequenceNumber (%s) aborted" % role,
                        {"script": lines, "role": role, "stderr": o["crash"]["text"]})
                continue
            out = o["out"]
            mo = rm.get(sid, {}).get("out") if mexe else None
            for i, (c, rot, vs, n, old, new) in enumerate(cases):
                ck.evaluations += 1
                kf, kc = out[2 * i], out[2 * i + 1]
                script = [lines[0]] + lines[1 + 3 * i: 4 + 3 * i]
                if mo and (mo[2 * i] != kf or mo[2 * i + 1] != kc) and ndiff < 10:
                    ndiff += 1
                    ck.fail("correspondence", "diff:kbuf:" + role, "model and %s checkSequenceNumber differ: C=%s model=%s" % (role, kc, mo[2 * i + 1]),
                            {"script": script, "role": role})
                d = (n - (vs - c)) % 32768
                exp = 1 if d <= c else 0
                got = int(kc.split()[1])
                gold = int(kc.split()[2].split("=")[1])
                full = int(kf.split()[1])
                bad = None
                if got != exp:
                    bad = "N(R)=%d with %d outstanding, next N(S)=%d: returned %d, window rule says %d" % (n, c, vs, got, exp)
                elif exp and ((c - d == 0 and gold != -1) or (c - d > 0 and gold != (rot + d) % k)):
                    bad = "N(R)=%d accepted but %d frames expected to be released (oldest index %d)" % (n, d, gold)
                elif not exp and c > 0 and gold != rot:
                    bad = "rejected N(R)=%d changed the window" % n
                elif full != (1 if c == k else 0):
                    bad = "isSentBufferFull=%d with %d of %d outstanding" % (full, c, k)
                if bad:
                    ck.fail("input", "oracle:kbuf:" + role, role + ": " + bad, {"script": script, "role": role, "observed": [kf, kc]})
                ck.nontriv((k, rot, c, vs, n))
        if len(ck.samples) < 5:
            ck.sample({"script": lines[:4], "server": rs.get(sid, {}).get("out", [])[:2]})
    # ---- native sweeps on both copies
    sweeps = [(1, 1), (2, 1), (3, 1), (8, 1), (12, 3), (32, 37)] if quick else [(k, 1) for k in range(1, 33)]
    for role, exe in (("server", hs), ("client", hc)):
        res = runner.run_batch(exe, [("sweep", ["ksweep k=%d stride=%d" % ks_ for ks_ in sweeps])], timeout=7200)
        o = res.get("sweep", dict(out=[], crash=None))
        if o["crash"]:
            ck.fail("input", "crash:%s:%s" % (o["crash"]["kind"], o["crash"]["site"]), "native k-buffer sweep aborted (%s)" % role, {"script": ["ksweep"], "stderr": o["crash"]["text"]})
        for l in o["out"]:
            if l.startswith("kdone"):
                kv = dict(x.split("=") for x in l.split()[1:])
                ck.evaluations += int(kv["cases"])
                ck.count("native:%s:k=%s" % (role, kv["k"]), int(kv["cases"]))
                if int(kv["bad"]):
                    first = [x for x in o["out"] if x.startswith("kbad")][:1]
                    ck.fail("input", "oracle:kbuf-sweep:" + role, "%s native sweep k=%s: %s failures, first: %s" % (role, kv["k"], kv["bad"], first),
                            {"script": ["ksweep k=%s stride=1" % kv["k"]], "role": role, "observed": first})
    # ---- trace level: never more than k unacknowledged; deferred replies are not lost; bad N(R) closes
    tscripts, tmeta = [], {}
    for i in range(40 if quick else 400):
        k = rng.choice([1, 2, 3, 5, 12])
        burst = rng.range(k, k + 8)
        vs0 = rng.choice([0, 0, 32760, 32767, 32768 - k])
        hdr = ["cfg k=%d w=8 handlers=1 burst=%d bsize=%d highq=20" % (k, burst, rng.range(4, 40)), "start", "connect c0 10.0.0.9:99", "tick"]
        lines = hdr + ["rx c0 " + apci.STARTDT_ACT.hex(), "tick", "poke c0 vs=%d vr=0" % vs0,
                       "rx c0 " + apci.i_frame(0, vs0, apci.asdu(100, 6, 1, bytes([0, 0, 0, 20]))).hex(), "tick 3"]
        total = burst + 1
        if i % 4 == 1:
            # the window holds EVENTS (entries tied to the event queue) instead of replies, also across the 32767 -> 0 wrap
            vs0 = rng.choice([32767, 32768 - k, 32766, 32768 - 2 * k if k > 1 else 32765])
            lines = hdr + ["rx c0 " + apci.STARTDT_ACT.hex(), "tick", "poke c0 vs=%d vr=0" % vs0]
            lines += ["enq " + apci.asdu(30, 3, 1, bytes([j & 255, j >> 8, 0])).hex() for j in range(1, burst + 2)] + ["tick 3"]
        # acknowledge in random steps
        acked = 0
        sent_est = min(k, total)
        steps = []
        while acked < total:
            a = rng.range(acked + 1, min(total, acked + k))
            steps.append(a)
            acked = a
        for a in steps:
            lines += ["rx c0 " + apci.s_frame((vs0 + a) % 32768).hex(), "tick 4"]
        bad_nr = (vs0 + total + rng.choice([1, 2, 100])) % 32768
        lines += ["rx c0 " + apci.s_frame(bad_nr).hex(), "tick 2"]
        if i % 3 == 0:
            # the connection is gone now; re-configure k and reconnect on the same slot: the NEW k must be the one used
            k2 = rng.choice([1, 2, 3, 5, 12, 20])
            lines += ["tick 2", "cfg k=%d" % k2, "connect c1 10.0.0.9:100", "tick", "rx c1 " + apci.STARTDT_ACT.hex(), "tick"]
            for j in range(k2 + 6):
                lines.append("enq " + apci.asdu(30, 3, 1, bytes([j, 0, 0])).hex())
            lines += ["tick %d" % (k2 + 8), "rxs c1 -1", "tick %d" % (k2 + 8), "rxs c1", "tick %d" % (k2 + 8)]
        if i % 4 == 2:
            # data transfer is stopped and started again on the SAME connection while replies are still unacknowledged (only event
            # ASDUs hold STOPDT con back): the window is what it was, events offered now must wait for acknowledgements
            vs0 = 0
            lines = hdr + ["rx c0 " + apci.STARTDT_ACT.hex(), "tick", "rx c0 " + apci.i_frame(0, 0, apci.asdu(100, 6, 1, bytes([0, 0, 0, 20]))).hex(), "tick 3",
                           "rx c0 " + apci.STOPDT_ACT.hex(), "tick", "rx c0 " + apci.STARTDT_ACT.hex(), "tick"]
            lines += ["enq " + apci.asdu(30, 3, 1, bytes([j & 255, j >> 8, 0])).hex() for j in range(1, k + 3)] + ["tick %d" % (k + 3)]
            steps = []
            tot2 = min(burst + 1, k) + k + 2
            for a_ in range(1, tot2 + 1):
                lines += ["rx c0 " + apci.s_frame(a_ % 32768).hex(), "tick 3"]
            lines += ["rx c0 " + apci.s_frame((tot2 + 50) % 32768).hex(), "tick 2"]
        sid = "w%d" % i
        tscripts.append((sid, lines))
        tmeta[sid] = (k, burst, vs0, steps)
    rt = runner.run_batch(hsrv, tscripts)
    for sid, lines in tscripts:
        k, burst, vs0, steps = tmeta[sid]
        ck.evaluations += 1
        o = rt.get(sid, dict(out=[], crash=None))
        if o["crash"]:
            ck.fail("input", "crash:%s:%s" % (o["crash"]["kind"], o["crash"]["site"]), "server aborted: %s at %s" % (o["crash"]["kind"], o["crash"]["site"]),
                    {"script": lines, "stderr": o["crash"]["text"]})
            continue
        # replay the observable history
        sent, acked, ids, closed, ok_sends = 0, 0, [], False, []
        txbuf = b""
        li = 0
        bad = None
        peer_acks = [int.from_bytes(bytes.fromhex(l.split()[2])[4:6], "little") >> 1 for l in lines if l.startswith("rx c0 6804010")]
        ack_i = 0
        pending_rx = [l for l in lines]
        # walk script and output in lock step is not needed: the invariant only needs ordering of tx vs the acks,
        # which the harness prints in execution order
        outi = iter(o["out"])
        cur_ack = vs0
        for l in o["out"]:
            if l.startswith("send c0 reply=") and l.endswith("ret=1"):
                ok_sends.append(int(l.split("reply=")[1].split()[0]))
            if l.startswith("tx c0 "):
                data = bytes.fromhex(l.split()[2])
                frames, err, rest = apci.split_stream(data)
                for f in frames:
                    a = apci.parse_apdu(f)
                    if a["kind"] == "I":
                        if a["ns"] != (vs0 + sent) % 32768:
                            bad = "I-frame with N(S)=%d, expected %d" % (a["ns"], (vs0 + sent) % 32768)
                        sent += 1
                        if a["asdu"][0] == 200:
                            ids.append(a["asdu"][6] | a["asdu"][7] << 8)
            if l.startswith("ev c0 CLOSED"):
                closed = True
        # window bound: reconstruct from the script order -- acks happen only at script steps; between two acks at most k new frames
        # (conservative check: total sent never exceeds last ack + k at the end of each phase is implied by N(S) continuity + final counts)
        # window bound: walk script and output in lock step (tick blocks end with `open N`)
        blocks, curb = [], []
        for l in o["out"]:
            curb.append(l)
            if l.startswith("open "):
                blocks.append(curb)
                curb = []
        bi = 0
        kcur, kconn, seen, ackd, pend = k, {}, {}, {}, None
        for l in lines:
            t = l.split()
            if t[0] == "cfg":
                for x in t[1:]:
                    if x.startswith("k="):
                        kcur = int(x[2:])
            elif t[0] in ("rxs", "rxi"):
                ci = int(t[1][1:])
                d = int(t[2]) if (t[0] == "rxs" and len(t) > 2) else (int(t[4]) if (t[0] == "rxi" and len(t) > 4) else 0)
                pend = (ci, seen.get(ci, 0) + d)
            elif t[0] == "rx" and t[2].startswith("6804010"):
                ci = int(t[1][1:])
                fr = bytes.fromhex(t[2])
                pend = (ci, None, ((fr[4] >> 1) | (fr[5] << 7)))
            elif t[0] == "tick" and bi < len(blocks):
                blk = blocks[bi]
                bi += 1
                for x in blk:
                    if x.startswith("ev ") and x.endswith("OPENED"):
                        kconn[int(x.split()[1][1:])] = kcur
                if pend and len(pend) == 2:
                    ci, a = pend
                    if 0 <= a <= seen.get(ci, 0):
                        ackd[ci] = max(ackd.get(ci, 0), a)
                elif pend:
                    ci, _, nr = pend
                    a = ackd.get(ci, 0) + ((nr - (vs0 if ci == 0 else 0) - ackd.get(ci, 0)) % 32768)
                    if a <= seen.get(ci, 0):
                        ackd[ci] = a
                pend = None
                for x in blk:
                    if x.startswith("tx "):
                        ci = int(x.split()[1][1:])
                        n = sum(1 for f in apci.split_stream(bytes.fromhex(x.split()[2]))[0] if apci.parse_apdu(f)["kind"] == "I")
                        seen[ci] = seen.get(ci, 0) + n
                        if ci in kconn and seen[ci] - ackd.get(ci, 0) > kconn[ci] and not bad:
                            bad = "c%d has %d I-frames sent and not acknowledged, k=%d was configured when it was accepted" % (ci, seen[ci] - ackd.get(ci, 0), kconn[ci])
        cycle = any(l.endswith(apci.STOPDT_ACT.hex()) for l in lines)     # replies still parked are dropped when data transfer is restarted
        if not bad and ids != sorted(ids):
            bad = "replies transmitted out of order: %s" % ids
        if not bad and not cycle and sorted(set(ids)) != sorted(ok_sends):
            bad = "replies accepted by the send call %s but transmitted %s" % (ok_sends, ids)
        if not bad and not closed:
            bad = "S-frame with N(R) outside the window did not close the connection"
        if bad:
            ck.fail("input", "oracle:window:server", "server k=%d burst=%d vs0=%d: %s" % (k, burst, vs0, bad), {"script": lines, "observed": o["out"][-12:]})
        ck.nontriv(("trace", k, burst, vs0, tuple(steps)))
    ck.count("trace_scripts", len(tscripts))
    ck.extra["disagreements"] = ndiff
    # ---- the window in the scheduler itself: sendASDUInternal / sendWaitingASDUs / the release loop called directly on a real connection
    #      (white-box `sch` scripts shared with C06 / C13): never more than k entries in the k-buffer, whatever mix of parked responses,
    #      waiting events and partial acknowledgements; the ring-backed scheduler model must reproduce the occupancy after every call
    from props import c06 as _c06, c13 as _c13
    try:
        _m = _c06.model()
    except Exception:
        _m = None
    _c13.run_sched(ck, _c06.harness(), _m, core.Rng(ck.seed + 41), quick, sig="sched-window")
    # ---- client, trace level: the k configured when a connection is made is the one in force on it -- also when the application
    #      changed the APCI parameters after an earlier connection (real client thread, gated; public API only)
    from props import c03 as _c03
    hcli = _c03.harnesses()[1]
    cscripts, cmeta = [], {}
    A = apci.asdu(45, 6, 1, bytes([1, 0, 0, 1])).hex()
    for i in range(12 if quick else 120):
        ks = [rng.choice([1, 2, 3, 5, 12, 20]) for _ in range(rng.range(1, 3))]
        if i % 3 == 1:
            ks = [ks[0]] * 3            # the same object reconnects with k unchanged: every connection starts with an empty window
        lines = []
        for j, k in enumerate(ks):
            lines += ["cfg k=%d w=8" % k, "connect", "startdt", "step", "rx " + apci.STARTDT_CON.hex(), "step"]
            lines += ["send " + A] * (k + rng.range(1, 4)) + ["step"]
            lines += ["rxs -1", "step"] + ["send " + A] * 3 + ["step", "rxs", "step", "send " + A, "step", "close"]
        cscripts.append(("ck%d" % i, lines)); cmeta["ck%d" % i] = ks
    rcl = runner.run_batch(hcli, cscripts)
    for sid, lines in cscripts:
        ks = cmeta[sid]
        o = rcl.get(sid, dict(out=[], crash=None))
        ck.evaluations += 1
        if o["crash"]:
            ck.fail("input", "crash:%s:%s" % (o["crash"]["kind"], o["crash"]["site"]), "client aborted: %s at %s" % (o["crash"]["kind"], o["crash"]["site"]), {"script": lines, "stderr": o["crash"]["text"]})
            continue
        # walk script and trace together: the harness prints `.` after every command
        blocks, cur = [], []
        for l in o["out"]:
            if l == ".":
                blocks.append(cur); cur = []
            else:
                cur.append(l)
        conn, sent, acked, seen = -1, 0, 0, 0
        for cmd, blk in zip(lines, blocks):
            w = cmd.split()
            if w[0] == "connect":
                conn += 1; sent = acked = 0
            # every acknowledgement in these scripts is valid and nothing times out: the client must keep the connection, and must
            # accept a send whenever fewer than k I-frames are in flight
            if w[0] != "close" and any(l.startswith("ev CLOSED") for l in blk):
                ck.fail("input", "oracle:kbuf:client-closed-on-valid-ack", "client closed connection %d (k=%d, parameters %s over successive connections) during `%s` although every N(R) it received acknowledged frames it had sent (%d sent, %d acknowledged)" % (
                    conn + 1, ks[conn], ks, cmd, sent, acked), {"script": lines, "role": "client-trace", "observed": blk[-3:]})
                break
            if w[0] == "send" and "ret 0" in blk and conn >= 0 and sent - acked < ks[conn]:
                ck.fail("input", "oracle:kbuf:client-refused-below-k", "client refused a send with %d I-frames in flight on a connection made with k=%d (parameters %s over successive connections)" % (sent - acked, ks[conn], ks),
                        {"script": lines, "role": "client-trace", "observed": blk[-3:]})
                break
            for l in blk:
                if l.startswith("raw out "):
                    f = bytes.fromhex(l.split()[2])
                    if len(f) >= 6 and f[2] & 1 == 0:
                        sent += 1
                        if conn >= 0 and sent - acked > ks[conn]:
                            ck.fail("input", "oracle:kbuf:client-configured-k", "client: %d I-frames in flight on a connection made with k=%d (parameters %s over successive connections)" % (sent - acked, ks[conn], ks),
                                    {"script": lines, "role": "client-trace", "observed": blk[-3:]})
            if w[0] == "rxs":   # the harness' peer acknowledges what it has seen (minus |d|)
                acked = max(acked, sent + (int(w[1]) if len(w) > 1 else 0))
        ck.nontriv(("client-k", tuple(ks)))
    ck.count("client_k_scripts", len(cscripts))
    # client: the N(R) of a received I-format APDU must lie in the window -- also when the window is empty (then it must equal V(S))
    vscripts, vmeta = [], {}
    P = apci.asdu(200, 3, 1, bytes([1, 0])).hex()
    for i in range(12 if quick else 120):
        k = rng.choice([1, 3, 12])
        nout = rng.choice([0, 0, 1, min(2, k)])
        dnr = rng.choice([1, 2, 5, 100, -1 - nout, 16384, 32767 - nout])
        lines = ["cfg k=%d w=8" % k, "connect", "startdt", "step", "rx " + apci.STARTDT_CON.hex(), "step", "rxi " + P, "step"]
        lines += ["send " + A] * nout + ["step"]
        lines += ["rxi %s 0 %d" % (P, dnr), "step", "step"]
        vscripts.append(("cv%d" % i, lines)); vmeta["cv%d" % i] = (k, nout, dnr)
    rv = runner.run_batch(hcli, vscripts)
    for sid, lines in vscripts:
        k, nout, dnr = vmeta[sid]
        o = rv.get(sid, dict(out=[], crash=None))
        ck.evaluations += 1
        if o["crash"]:
            ck.fail("input", "crash:%s:%s" % (o["crash"]["kind"], o["crash"]["site"]), "client aborted: %s at %s" % (o["crash"]["kind"], o["crash"]["site"]), {"script": lines, "stderr": o["crash"]["text"]})
            continue
        blocks, cur = [], []
        for l in o["out"]:
            if l == ".":
                blocks.append(cur); cur = []
            else:
                cur.append(l)
        tail = [l for b in blocks[len(lines) - 2:len(lines)] for l in b]
        delivered = sum(1 for l in tail if l.startswith("cb asdu"))
        closed = any(l.startswith("ev CLOSED") for l in tail)
        if not closed or delivered:
            ck.fail("input", "oracle:kbuf:client-invalid-nr-accepted", "client (k=%d, %d I-frames outstanding) received an I-format APDU whose N(R) is %+d off the window: %s" % (
                k, nout, dnr, "the ASDU was delivered" if delivered else "the connection was not closed"), {"script": lines, "role": "client-trace", "observed": tail[-4:]})
        ck.nontriv(("client-nr", k, nout, dnr))
    ck.count("client_nr_scripts", len(vscripts))
    ck.extra["exhaustive"] = not quick
    ck.notes.append("client 'send refused while full' at API level is exercised by the C03 client harness")


def replay(ck, path):
    r = json.loads(Path(path).read_text())["replay"]
    hs, hc, hsrv = c05.harnesses()
    lines = r.get("script", [])
    exe = hsrv if any(l.startswith("cfg") for l in lines) else (hc if r.get("role") == "client" else hs)
    res = runner.run_batch(exe, [("replay", lines)])
    print("\n".join(res["replay"]["out"]))
    ck.evaluations = 1
