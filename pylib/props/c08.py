"""C08 -- redundancy groups: one active connection per group, correct admission.
proof:  coq/Properties/C08.v about Cs104/Groups.v (IP string parsing, group matching, admission decision,
        CS104_Slave_activate) transcribed from cs104_slave.c
tie:    the extracted admit / activate functions are compared with what the real server does for every
        connection attempt and every STARTDT of the generated scenarios (1..4 simultaneous peers)
oracle: reference written from the property text with Python's ipaddress module for address equality"""
import ipaddress, json
from pathlib import Path
from vf import core, apci, runner
from props import c07

LEVEL = "proof"


def model():
    return core.build_model("groups", core.COQ / "extract" / "ExtractGroups.v", [], core.VERIF / "driver" / "d_groups.ml")


def prebuild():
    c07.harness()
    model()


V4 = ["10.0.0.1", "10.0.0.2", "10.0.0.3", "192.168.1.200", "172.16.255.1", "1.2.3.4"]
V6_FULL = ["fe80:0:0:0:1:2:3:4", "2001:db8:0:0:0:0:0:1", "0:0:0:0:0:0:0:1",
           # same /64 (and same first 15 octets) as entries above: equality has to look at all 16 octets
           "fe80:0:0:0:1:2:3:5", "fe80:0:0:0:9:2:3:4", "2001:db8:0:0:0:0:1:1", "0:0:0:0:0:0:0:2", "2001:db8:0:0:0:0:0:101"]
V6_COMP = ["::1", "fe80::1", "2001:db8::7"]


def peer_str(ip, port):
    return "[%s]:%d" % (ip, port) if ":" in ip else "%s:%d" % (ip, port)


def gen(rng, quick, with_compressed):
    mode = rng.choice([0, 1, 2, 2, 2])
    pool = V4 + V6_FULL + (V6_COMP if with_compressed else [])
    groups = []
    if mode == 2:
        ng = rng.range(1, 3)
        for g in range(ng):
            if rng.chance(1, 4):
                groups.append(None)
            else:
                groups.append([rng.choice(pool) for _ in range(rng.range(1, 3))])
        if rng.chance(1, 2) and None not in groups:
            groups.append(None)
    maxconn = rng.choice([0, 0, 1, 2, 3, 5])
    lines = ["cfg mode=%d k=12 w=8 handlers=64 lowq=50 highq=10 maxconn=%d reqret=1" % (mode, maxconn)]
    for g in groups:
        lines.append("group " + ("-" if g is None else ",".join(g)))
    lines.append("start")
    conns = {}
    nxt = 0
    e = 0
    for _ in range(rng.range(6, 40)):
        r = rng.below(100)
        live = [c for c in conns if conns[c] == "open"]
        if r < 30 and nxt < 14 and len(live) < 4:
            ip = rng.choice(pool)
            if rng.chance(1, 12):
                lines.append("cfg reqret=0")
                lines += ["connect c%d %s" % (nxt, peer_str(ip, 2000 + nxt)), "tick", "dump", "cfg reqret=1"]
            else:
                lines += ["connect c%d %s" % (nxt, peer_str(ip, 2000 + nxt)), "tick", "dump"]
            conns[nxt] = "open"
            nxt += 1
        elif r < 55 and live:
            c = rng.choice(live)
            lines += ["dump", "rx c%d %s" % (c, apci.STARTDT_ACT.hex()), "tick", "dump"]
        elif r < 65 and live:
            c = rng.choice(live)
            lines += ["rx c%d %s" % (c, apci.STOPDT_ACT.hex()), "tick"]
        elif r < 75 and live:
            c = rng.choice(live)
            lines += ["peerclose c%d" % c, "tick 2"]
            conns[c] = "closed"
        elif r < 92:
            e += 1
            lines += ["enq " + c07.ev_asdu(e).hex(), "tick"]
        else:
            lines += ["tick"]
    lines += ["tick 14", "dump"]      # one queued event leaves per round: enough rounds to drain the queue or fill the k-window (12)
    return mode, groups, maxconn, lines


def canon(ip):
    try:
        return ipaddress.ip_address(ip)
    except ValueError:
        return None


def expected_group(mode, groups, ip):
    if mode != 2:
        return 0
    a = canon(ip)
    catchall = None
    for gi, g in enumerate(groups):
        if g is None:
            catchall = gi
        elif any(canon(x) == a for x in g):
            return gi
    return catchall


def run(ck):
    quick = ck.tier == "quick"
    rng = core.Rng(ck.seed)
    ck.trusted = [
        "Coq 8.16.1 kernel; theorems Closed under the global context",
        "Cs104/Groups.v: hand transcription of CS104_IPAddress_setFromString (strtoul/strchr on character lists), CS104_RedundancyGroup_matches, getMatchingRedundancyGroup, the admission tests of handleConnectionsThreadless and CS104_Slave_activate; validated per connection attempt / per STARTDT against the real server",
        "octets the C parser leaves unwritten are modelled as uninitialised (never equal); the IPv4 / full-form IPv6 strings of the correspondence scripts write every octet",
        "threaded admission path (serverThread) not driven; it repeats the same tests",
    ]
    ck.rule = ("scenarios: server mode in {single group, connection-is-group, multiple groups}, 0..3 groups with IPv4 / full-form IPv6 allow lists (overlapping, with/without/several catch-alls), "
               "open-connection limit in {none,1,2,3,5}, request callback refusing sometimes; 1..4 simultaneous peers connecting / STARTDT / STOPDT / disconnecting with events enqueued in between; "
               "compressed IPv6 forms are exercised separately (open finding); non-trivial = distinct scenario")
    ck.coq("C08")
    h = c07.harness()
    try:
        m = model()
    except Exception as e:
        m = None
        ck.fail("correspondence", "model-build", "extracted model does not build: " + str(e)[:300], {"theorem": "extraction"})
    scen = []
    for i in range(150 if quick else 3000):
        comp = (i % 10 == 9)
        mode, groups, maxconn, lines = gen(rng, quick, comp)
        scen.append(("g%d" % i, mode, groups, maxconn, lines, comp))
    rc = runner.run_batch(h, [(s[0], s[4]) for s in scen], timeout=3600)
    mscripts, mexpect = [], {}
    for sid, mode, groups, maxconn, lines, comp in scen:
        ck.evaluations += 1
        o = rc.get(sid, dict(out=[], crash=None))
        if o["crash"]:
            ck.fail("input", "crash:%s:%s" % (o["crash"]["kind"], o["crash"]["site"]), "server aborted: %s at %s" % (o["crash"]["kind"], o["crash"]["site"]),
                    {"script": lines, "stderr": o["crash"]["text"]})
            continue
        out = [l for l in o["out"] if not l.startswith("sem ")]
        # align: walk script and output (tick blocks end with `open N`; dump blocks are runs of st/q lines)
        oi = 0
        open_cnt = 0
        reqret = 1
        grp_of, state_of, alive, active = {}, {}, set(), {}
        ips = {}
        ml = ["mode %d" % mode] + ["group " + ("-" if g is None else ",".join(g)) for g in groups]
        mexp = []
        bad = []
        backlog = []
        dirty = set()
        starve = 0
        processed = []
        last_dump = {}
        pending_act = None
        other_act = False
        stop_fed = set()
        start_fed = set()
        ev_seen = {}
        enq_ids = []
        tx_ev = {}
        for l in lines:
            t = l.split()
            if t[0] == "cfg":
                for x in t[1:]:
                    if x.startswith("reqret="):
                        reqret = int(x.split("=")[1])
            elif t[0] == "start":
                oi += 1
            elif t[0] == "connect":
                ci = int(t[1][1:])
                ip = t[2].rsplit(":", 1)[0].strip("[]")
                ips[ci] = ip
                backlog.append((ci, t[2]))
            elif t[0] == "enq":
                enq_ids.append(int.from_bytes(bytes.fromhex(t[1])[6:8], "little"))
            elif t[0] == "rx":
                ci = int(t[1][1:])
                if ci not in alive:
                    dirty.add(ci)          # fed while still in the listen backlog / already gone: later frames are shifted
                elif bytes.fromhex(t[2]) == apci.STARTDT_ACT and ci not in dirty:
                    pending_act = ci
                    other_act = False
                if bytes.fromhex(t[2]) == apci.STARTDT_ACT:
                    start_fed.add(ci)
                if bytes.fromhex(t[2]) != apci.STARTDT_ACT:
                    stop_fed.add(ci)       # anything but STARTDT (STOPDT, frames that close) may end the started state on its own
            elif t[0] == "tick":
                blk = []
                while oi < len(out):
                    blk.append(out[oi])
                    oi += 1
                    if out[oi - 1].startswith("open "):
                        break
                nticks = int(t[1]) if len(t) > 1 else 1
                nreq = 0
                cur_open = open_cnt
                open_before = open_cnt
                # the harness prints what was written at the END of a command (possibly several ticks): a connection counts as
                # started for this block when it was started at its beginning or became started inside it
                acts = set(active) | {int(x.split()[1][1:]) for x in blk if x.split()[0] == "ev" and x.split()[2] == "ACTIVATED"}
                for x in blk:
                    p = x.split()
                    if p[0] == "open":
                        open_cnt = int(p[1])
                    elif p[0] == "req":
                        nreq += 1
                        if not backlog:
                            bad.append(("phantom-accept", "a connection request was processed although none is pending"))
                            continue
                        ci, peer = backlog.pop(0)
                        rr = int(p[2].split("=")[1])
                        if maxconn >= 1 and cur_open >= maxconn:
                            bad.append(("limit", "connection from %s accepted for processing while %d connections are open, limit %d" % (peer, cur_open, maxconn)))
                        processed.append([ci, peer, cur_open, rr, False])
                    elif p[0] == "ev":
                        ci = int(p[1][1:])
                        if p[2] == "OPENED":
                            alive.add(ci)
                            cur_open += 1
                            if processed and processed[-1][0] == ci:
                                processed[-1][4] = True
                        elif p[2] == "CLOSED":
                            alive.discard(ci)
                            active.pop(ci, None)
                            cur_open -= 1
                        elif p[2] == "ACTIVATED":
                            active[ci] = True
                            if ci != pending_act:
                                # a STARTDT buffered on a connection that was still in the listen backlog was served in the same
                                # round: two activations raced, the one-step activation statements do not apply to this block
                                other_act = True
                        elif p[2] == "DEACTIVATED":
                            active.pop(ci, None)
                            if ci != pending_act and ci in dirty:
                                other_act = True    # its own buffered STOPDT, not an effect of the activation looked at
                    elif p[0] == "tx":
                        ci = int(p[1][1:])
                        for f in apci.split_stream(bytes.fromhex(p[2]))[0]:
                            a = apci.parse_apdu(f)
                            if a["kind"] == "I" and a["asdu"][0] == 30:
                                tx_ev.setdefault(ci, []).append(a["asdu"][6] | a["asdu"][7] << 8)
                                if ci not in acts:
                                    bad.append(("event-to-inactive", "event ASDU transmitted on c%d which is not the started connection of its group" % ci))
                if backlog and nreq == 0 and not (maxconn >= 1 and (open_cnt >= maxconn or cur_open >= maxconn or open_before >= maxconn)):
                    starve += 1
                    if starve >= 2:
                        bad.append(("starved", "a pending connection was not processed in two consecutive rounds although only %d of %d allowed connections are open" % (open_cnt, maxconn)))
                else:
                    starve = 0
                for rec in processed:
                    ci, peer, oc, rr, admitted = rec
                    exp_g = expected_group(mode, groups, ips[ci])
                    exp_adm = rr == 1 and exp_g is not None
                    compressed = "::" in ips[ci] or any("::" in x for g in groups if g for x in g)
                    if admitted != exp_adm:
                        sig = "admission:ipv6-compressed" if compressed else "admission"
                        bad.append((sig, "connection from %s %s (mode %d, groups %s, callback %d); expected %s" % (
                            peer, "admitted" if admitted else "refused", mode, groups, rr, "admitted" if exp_adm else "refused")))
                    if not compressed:
                        ml.append("try %s maxopen=%d open=%d reqret=%d free=1" % (peer, maxconn, oc, rr))
                        mexp.append(("admit", ci, admitted))
                    if admitted:
                        grp_of[ci] = ("?", exp_g)
                processed = []
            elif t[0] == "dump":
                d = {}
                while oi < len(out) and (out[oi].startswith("st ") or out[oi].startswith("q ")):
                    if out[oi] == "st end":
                        oi += 1
                        break
                    if out[oi].startswith("st "):
                        p = out[oi].split()
                        kv = dict(x.split("=", 1) for x in p[2:] if "=" in x)
                        d[int(p[1][1:])] = (int(kv["grp"]), int(kv["state"]))
                    oi += 1
                # group attachment of freshly admitted connections
                for ci, (g, st) in d.items():
                    if ci in grp_of and grp_of[ci][0] == "?":
                        exp_g = grp_of[ci][1]
                        grp_of[ci] = (g, exp_g)
                        compressed = "::" in ips[ci] or any("::" in x for gg in groups if gg for x in gg)
                        if mode == 2 and g != exp_g:
                            bad.append(("admission:ipv6-compressed" if compressed else "group-attachment",
                                        "connection c%d from %s attached to group %d, the group listing its address (else the catch-all) is %s" % (ci, ips[ci], g, exp_g)))
                # activation correspondence: dump before / after a STARTDT
                if pending_act is not None and pending_act not in d:
                    pending_act = None
                # connection-is-group mode: every connection is independent -- a started connection stays started unless it was
                # itself sent something that ends that (STOPDT, a frame that closes it)
                if mode in (1, 2) and last_dump and not dirty:
                    for c, (g, st) in d.items():
                        if c in last_dump and last_dump[c][1] == 1 and st != 1 and c not in stop_fed:
                            if mode == 1:
                                bad.append(("not-independent", "connection c%d was started and is not any more although nothing was sent to it: in connection-is-group mode another connection's STARTDT must not touch it" % c))
                            elif not any(o != c and d.get(o, (None,))[0] == g for o in start_fed):
                                bad.append(("not-independent", "connection c%d of group %d was started and is not any more although nothing was sent to it and no other connection of its group sent STARTDT act (STARTDT came from %s)" % (
                                    c, g, ["c%d of group %s" % (o, d.get(o, ("?",))[0]) for o in sorted(start_fed)])))
                stop_fed = set()
                start_fed = set()
                # oracle at every dump: at most one started connection per group
                per = {}
                for c, (g, st) in d.items():
                    key = c if mode == 1 else (g if mode == 2 else 0)
                    if st == 1:
                        per.setdefault(key, []).append(c)
                for key, cs in per.items():
                    if len(cs) > 1:
                        bad.append(("two-active", "connections %s of group %s are both started" % (cs, key)))
                if pending_act is not None and other_act:
                    ck.count("activation-raced-with-backlog-connection")
                    pending_act = None
                if pending_act is not None and last_dump and pending_act in last_dump and pending_act in d:
                    order = sorted(last_dump)
                    if sorted(d) == order:
                        idx = order.index(pending_act)
                        gmap = (lambda g: max(g, 0))
                        ml.append("act %d %s" % (idx, " ".join("1:%d:%d" % (gmap(last_dump[c][0]), last_dump[c][1]) for c in order)))
                        mexp.append(("act", " ".join("1:%d:%d" % (gmap(d[c][0]), d[c][1]) for c in order)))
                    if pending_act in alive and d[pending_act][1] != 1:
                        bad.append(("not-activated", "c%d not started after its STARTDT act" % pending_act))
                    pending_act = None
                last_dump = d
        # each group sees every enqueued event: at the end of the script (fourteen idle rounds after the last command: one queued event leaves per round) the started
        # connection of a group, with room in its k-window, has left nothing of what was enqueued undelivered to its group
        if mode in (0, 2) and last_dump and not dirty:
            for c, (g, st) in last_dump.items():
                if st != 1 or c not in alive or len(tx_ev.get(c, [])) >= 12:
                    continue
                members = [o for o in tx_ev if mode == 0 or (o in grp_of and grp_of[o][0] == g)] if (mode == 0 or c in grp_of) else None
                if members is None or (mode == 2 and grp_of[c][0] != g):
                    continue
                sent_g = {e for o in members for e in tx_ev[o]}
                missing = [e for e in enq_ids if e not in sent_g]
                ck.count("group-delivery-judged")
                if missing:
                    bad.append(("group-starved", "c%d is the started connection of group %d and has room in its window, but events %s enqueued at the server were never transmitted to any connection of that group (group received %s)" % (
                        c, g, missing[:6], sorted(sent_g)[:12])))
        for sig, text in bad:
            if sig == "admission:ipv6-compressed":
                ck.fail("input", "oracle:" + sig, "server admission: " + text, {"script": lines})
            else:
                ck.fail("input", "oracle:groups:" + sig, "server groups: " + text, {"script": lines, "observed": out[-8:]})
        mscripts.append((sid, ml))
        mexpect[sid] = (mexp, lines)
        ck.nontriv((mode, str(groups), maxconn, tuple(lines)))
        if len(ck.samples) < 3:
            ck.sample({"mode": mode, "groups": groups, "maxconn": maxconn, "script": lines[:14]})
    ndiff = 0
    if m:
        rm = runner.run_batch(m, mscripts)
        for sid, ml in mscripts:
            mexp, lines = mexpect[sid]
            mo = rm.get(sid, {}).get("out", [])
            k = 0
            for exp, got in zip(mexp, mo):
                if exp[0] == "admit":
                    adm = not got.endswith("none")
                    if adm != exp[2] and ndiff < 10:
                        ndiff += 1
                        ck.fail("correspondence", "diff:admit", "admission model says `%s` for c%d, the server %s it" % (got, exp[1], "admitted" if exp[2] else "refused"), {"script": lines, "model_script": ml})
                else:
                    if got != "act " + exp[1] and ndiff < 10:
                        ndiff += 1
                        ck.fail("correspondence", "diff:activate", "activation model gives `%s`, the server `act %s`" % (got, exp[1]), {"script": lines, "model_script": ml})
    # ---- threaded server (listener thread): admission by limit and by the connection request callback, also after an earlier refusal
    try:
        from props import c18 as _c18
        ht = _c18.thr_harness()
    except Exception as e:
        ht = None
        ck.fail("obligation", "machinery:h_life_thr", "threaded server harness does not build: " + str(e)[-300:], {"theorem": "harness"})
    if ht:
        tsc = []
        for md in (0, 1, 2):
            tsc.append("mode=%d conns=%d startdt=1 rounds=2 maxconn=%d late=1" % (md, rng.range(2, 4), rng.range(1, 2)))
            tsc.append("mode=%d conns=%d startdt=0 rounds=2 maxconn=0 late=1 deny=%d" % (md, rng.range(2, 4), rng.range(1, 3)))
            tsc.append("mode=%d conns=%d startdt=1 rounds=1 maxconn=%d late=1 deny=%d" % (md, 4, 3, rng.range(1, 3)))
            # the limit is reached AND a connection request callback is installed that agrees to everybody: the limit still holds
            tsc.append("mode=%d conns=%d startdt=0 rounds=1 maxconn=%d deny=99" % (md, rng.range(3, 5), rng.range(1, 2)))
        for line in tsc:
            out, err, code = _c18.run_thr(ht, line)
            ck.evaluations += 1
            ck.count("threaded-admission-scenarios")
            ck.nontriv(("thr", line))
            for l in out:
                if l.startswith(("bad not-admitted", "bad limit-exceeded")):
                    q = l.split(None, 2)
                    ck.fail("input", "oracle:admission:threaded:" + q[1], "threaded server admission: " + q[2], {"scenario": line, "observed": out[-12:], "harness": "h_life_thr", "rerun": "echo '%s' | <h_life_thr>" % line})
            if out and out[-1] == "hang" or code == 124:
                ck.fail("input", "hang:threaded", "threaded server scenario did not finish", {"scenario": line, "observed": out[-10:]})
    ck.extra["disagreements"] = ndiff
    ck.extra["exhaustive"] = False
    ck.count("scenarios", len(scen))


def replay(ck, path):
    r = json.loads(Path(path).read_text())["replay"]
    res = runner.run_batch(c07.harness(), [("replay", r.get("script", []))])
    print("\n".join(res["replay"]["out"]))
    ck.evaluations = 1
