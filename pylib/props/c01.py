"""C01 -- ASDU / information-object codec round-trips for every type and layout.
proof:   coq/Properties/C01.v (round trip of the table-driven codec for every row satisfying the decidable row
         predicates; C01_current / C01_types_complete re-proved over the table regenerated from /repo on this run)
tie:     translator (table) + correspondence (extracted model vs compiled C: bytes after every addition, every
         parsed element, re-encoding)
oracle:  reference encoder written from IEC 60870-5-101 clause 7 (asdu_spec.py): objects built with the PUBLIC constructors from
         un-normalised arguments, added, parsed back with createFromBuffer/getElement, every public getter, re-encoded."""
from vf import core
from props import asdu_common as A
from props import asdu_spec as S

LEVEL = "proof"


def build_script(rng, cfg, t, sq, maxsz, nadd, parse_at, one_ok):
    lines = ["cfg %d %d %d %d" % (cfg + (maxsz,)),
             "new %d %d %d %d %d %d" % (1 if sq else 0, rng.choice([1, 3, 5, 6, 7, 10, 13, 20, 37, 44, 47, 63]), rng.below(256), rng.below(1 << (8 * cfg[1])), rng.below(2), rng.below(2))]
    base = rng.below(A.max_ioa(cfg) - 200)
    fixed_data = rng.below(10)
    for j in range(nadd):
        a = A.gen_args(rng, t)
        if t.var:
            a["data"] = rng.bytes(fixed_data)
        ioa = 0 if t.noioa else (base + j if sq else rng.below(A.max_ioa(cfg)))
        ln, _ = A.add_line(t, ioa, a)
        lines.append(ln)
        if (j + 1) in parse_at and (one_ok or j == 0):
            lines += ["parse", "reenc"]
    lines += ["clone"]
    return lines


def gen_scripts(ck, rng, quick):
    scripts, meta = [], {}
    for cfg in A.CFGS:
        hl = A.hdr_len(cfg)
        for tid in S.SUPPORTED:
            t = S.TYPES[tid]
            for sq in ((False, True) if t.lay == "seq" else (False,)):
                blen = t.std_len if t.std_len is not None else 4 + 9
                first = cfg[2] + blen
                el = blen if sq else first
                K = 1 if t.lay == "one" else rng.range(2, 5)
                maxsz = min(254, hl + first + (K - 1) * el + rng.below(max(el, 1)))
                sid = "r%d-%d%d%d-%d" % ((tid,) + cfg + (1 if sq else 0,))
                lines = build_script(rng, cfg, t, sq, maxsz, K + 2, {1, 2, K - 1, K}, t.lay != "one")
                scripts.append((sid, lines))
                meta[sid] = dict(cfg=cfg, max=maxsz, tid=tid)
                ck.count("layout:" + ("SQ=1" + ("(std)" if t.sq_std else "(library)") if sq else "SQ=0"))
    # full-size ASDUs: until the element count or the maximum stops them
    for cfg, maxsz in (((2, 2, 3), 249), ((1, 1, 1), 254)) if quick else [(c, m) for c in A.CFGS for m in (249, 254)]:
        for tid in S.SUPPORTED:
            t = S.TYPES[tid]
            if t.lay == "one":
                continue
            for sq in ((False, True) if t.lay == "seq" else (False,)):
                blen = t.std_len
                first = cfg[2] + blen
                el = blen if sq else first
                fit = min(127, 1 + (maxsz - A.hdr_len(cfg) - first) // max(el, 1))
                sid = "f%d-%d%d%d-%d-%d" % ((tid,) + cfg + (1 if sq else 0, maxsz))
                lines = build_script(rng, cfg, t, sq, maxsz, fit + 2, {fit - 1, fit}, True)
                scripts.append((sid, lines))
                meta[sid] = dict(cfg=cfg, max=maxsz, tid=tid)
    return scripts, meta


def run(ck):
    quick = ck.tier == "quick"
    rng = core.Rng(ck.seed)
    ck.trusted = list(A.TRUSTED)
    ck.rule = ("every supported type x {SQ=0, SQ=1 for every type whose sequence layout the library honours (the standard's 11 types flagged)} x 12 address-size "
               "configurations; maximum ASDU size chosen so that 1..5 elements fit, K+2 additions (the last ones must be refused), parse + all getters + re-encode "
               "at counts 1, 2, K-1, K; plus full-size ASDUs (249/254) filled to the size or 127-element limit; constructor arguments un-normalised "
               "(quality 0..255, step position -100..100, floats incl. out-of-range normalised values, 32-bit boundaries).  "
               "non-trivial = distinct (type, configuration, maximum, resulting size) of accepted additions")
    A.coq_part(ck, "C01")
    scripts, meta = gen_scripts(ck, rng, quick)
    A.run_construction(ck, scripts, meta)
    ck.notes.append("single-object types (70, 100-107, 120-125, 127) are round-tripped with one object; further objects are only used for the size checks")


def replay(ck, path):
    A.replay(ck, path)


def prebuild():
    A.prebuild()
